#!/usr/bin/env python3
"""Run the repository's pinned test suite on a tree (default /repo) and compare with BASELINE.json's stable_pass list.

    python3 tools/suite.py [TREE] [-- extra pytest args]

Prints the stable-baseline tests that did not pass (exit 1 if any), exit 0 otherwise.  Used to confirm that fix:
commits and seeded changes keep the existing suite green.  Output goes to a temp dir that is removed afterwards.
"""
import ast, json, os, shutil, subprocess, sys, tempfile
import xml.etree.ElementTree as ET

tree = sys.argv[1] if len(sys.argv) > 1 and not sys.argv[1].startswith("-") else "/repo"
extra = sys.argv[sys.argv.index("--") + 1:] if "--" in sys.argv else []
base = json.load(open("/root/.vp/BASELINE.json"))
stable = base["stable_pass"]
if isinstance(stable, str):
    stable = ast.literal_eval(stable)
stable = set(stable)
tmp = tempfile.mkdtemp(prefix="suite-")
try:
    xml = os.path.join(tmp, "r.xml")
    env = dict(os.environ, PYTHONPATH=os.path.join(tree, "src"))
    p = subprocess.run(["/venv/bin/python", "-m", "pytest", "-q", "-p", "no:cacheprovider", "--timeout=900", "--continue-on-collection-errors", f"--junitxml={xml}"] + extra, cwd=tree, env=env, capture_output=True, text=True)
    passed = set()
    for tc in ET.parse(xml).getroot().iter("testcase"):
        if not any(ch.tag in ("failure", "error", "skipped") for ch in tc):
            passed.add(f"{tc.get('classname')}::{tc.get('name')}")
    if extra:
        ran = {f"{tc.get('classname')}::{tc.get('name')}" for tc in ET.parse(xml).getroot().iter("testcase")}
        missing = sorted((stable & ran) - passed)
    else:
        missing = sorted(stable - passed)
    print(p.stdout.strip().splitlines()[-1] if p.stdout.strip() else p.stderr[-500:])
    print(f"stable baseline tests: {len(stable)}; passed now: {len(stable & passed)}; not passing: {len(missing)}")
    for m in missing[:40]:
        print("  NOT-PASSING", m)
    sys.exit(1 if missing else 0)
finally:
    shutil.rmtree(tmp, ignore_errors=True)
