#!/usr/bin/env python3
"""Seeded property-breaking changes (written by independent sub-agents; kept under /verif/seeded/<id>/).

    python3 tools/seeded.py import <src-dir> <id> <property>   copy patch.diff, demo.py, notes.md into seeded/<id>/
    python3 tools/seeded.py confirm <id> [...]                  re-confirm in a scratch worktree: demo passes without the
                                                                patch, fails with it, the repository's suite (minus the
                                                                load-flaky socket / pytest-plugin modules) still passes
    python3 tools/seeded.py check <id> [...] | --all            run the property's quick check against a scratch copy of
                                                                /repo/src with the patch applied (SEGVC_REPO), report
                                                                caught / missed; never touches /repo or the evidence

Equivalent manual procedure on /repo itself: `git -C /repo apply seeded/<id>/patch.diff`, run the check, then
`git -C /repo checkout -- .`.  Scratch worktrees / copies live under $TMPDIR and are removed before exit.
"""
import json
import os
import shutil
import subprocess
import sys
import tempfile

ROOT = os.path.dirname(os.path.dirname(os.path.abspath(__file__)))
SEEDED = os.path.join(ROOT, "seeded")
REPO = "/repo"


def sh(cmd, **kw):
    return subprocess.run(cmd, capture_output=True, text=True, **kw)


def meta_path(i):
    return os.path.join(SEEDED, i, "meta.json")


def load_meta(i):
    return json.load(open(meta_path(i)))


def save_meta(i, m):
    json.dump(m, open(meta_path(i), "w"), indent=1)


def cmd_import(src, i, prop):
    d = os.path.join(SEEDED, i)
    os.makedirs(d, exist_ok=True)
    for f in ("patch.diff", "demo.py", "notes.md"):
        if os.path.exists(os.path.join(src, f)):
            shutil.copy(os.path.join(src, f), os.path.join(d, f))
    if not os.path.exists(meta_path(i)):
        save_meta(i, {"id": i, "property": prop, "origin": "independent sub-agent given only the property text and a scratch worktree", "needs": "", "confirmed": None, "check": None})


def cmd_confirm(i):
    d = os.path.join(SEEDED, i)
    m = load_meta(i)
    wt = tempfile.mkdtemp(prefix=f"seedwt-{i}-")
    os.rmdir(wt)
    out = {}
    try:
        r = sh(["git", "-C", REPO, "worktree", "add", "--detach", wt, "HEAD", "-q"])
        assert r.returncode == 0, r.stderr
        env = dict(os.environ, PYTHONPATH=os.path.join(wt, "src"))
        demo = os.path.join(d, "demo.py")
        r0 = sh(["/venv/bin/python", demo], env=env, cwd=wt, timeout=300)
        out["demo_without_patch_exit"] = r0.returncode
        ra = sh(["git", "-C", wt, "apply", os.path.join(d, "patch.diff")])
        out["patch_applies"] = ra.returncode == 0
        if ra.returncode != 0:
            out["apply_error"] = ra.stderr[-400:]
        else:
            r1 = sh(["/venv/bin/python", demo], env=env, cwd=wt, timeout=300)
            out["demo_with_patch_exit"] = r1.returncode
            out["demo_with_patch_tail"] = (r1.stdout + r1.stderr)[-400:]
            rs = sh([sys.executable, os.path.join(ROOT, "tools", "suite.py"), wt, "--", "tests", "--ignore=tests/test_sockets.py", "--ignore=tests/test_pytest_plugin.py", "-x", "-q"], timeout=3600)
            out["suite_cmd"] = "pytest tests --ignore=tests/test_sockets.py --ignore=tests/test_pytest_plugin.py (the two load-flaky modules), compared with BASELINE stable_pass"
            out["suite_tail"] = rs.stdout.strip().splitlines()[-6:]
            out["suite_ok"] = rs.returncode == 0
        out["ok"] = bool(out.get("patch_applies") and out.get("demo_without_patch_exit") == 0 and out.get("demo_with_patch_exit", 0) != 0 and out.get("suite_ok"))
    finally:
        sh(["git", "-C", REPO, "worktree", "remove", "--force", wt])
        shutil.rmtree(wt, ignore_errors=True)
    m["confirmed"] = out
    m["confirmed_at_repo_head"] = sh(["git", "-C", REPO, "rev-parse", "--short", "HEAD"]).stdout.strip()
    save_meta(i, m)
    print(f"[{'ok' if out['ok'] else 'NOT-CONFIRMED'}] {i}: demo {out.get('demo_without_patch_exit')} -> {out.get('demo_with_patch_exit')}, suite_ok={out.get('suite_ok')} {out.get('apply_error', '')}")
    return out["ok"]


def cmd_check(i, quiet=False):
    d = os.path.join(SEEDED, i)
    m = load_meta(i)
    prop = m["property"]
    scratch = tempfile.mkdtemp(prefix=f"seedchk-{i}-")
    try:
        shutil.copytree(os.path.join(REPO, "src"), os.path.join(scratch, "src"))
        r = sh(["git", "apply", "--unsafe-paths", f"--directory={scratch}", os.path.join(d, "patch.diff")], cwd=scratch)
        if r.returncode != 0:
            # fall back to patch(1)
            r = sh(["patch", "-p1", "-d", scratch, "-i", os.path.join(d, "patch.diff")])
        if r.returncode != 0:
            print(f"[stale] {i}: patch does not apply to the current tree: {r.stderr[-200:]}")
            m["check"] = {"status": "stale"}
            save_meta(i, m)
            return None
        manifest = json.load(open(os.path.join(ROOT, "MANIFEST.json")))
        chk = next((c for c in manifest["checks"] if c["property_id"] == prop), None)
        if chk is None:
            print(f"[unclaimed] {i}: property {prop} has no registered check")
            return None
        env = dict(os.environ, SEGVC_REPO=scratch, SEGVC_OUT=os.path.join(scratch, "out"), VERIF_REPO=scratch, VERIF_OUT=os.path.join(scratch, "out"))
        p = sh(chk["quick_cmd"], shell=True, cwd=ROOT, env=env, timeout=3600)
        viol = [l for l in p.stdout.splitlines() if l.startswith("VIOLATION")]
        caught = p.returncode == 1 and bool(viol)
        first = [v.split("obligation=")[-1] for v in viol[:4]]
        m["check"] = {"status": "caught" if caught else "missed", "exit": p.returncode, "violations": len(viol), "first_obligations": first, "tail": p.stdout.strip().splitlines()[-1:] if p.stdout.strip() else p.stderr[-300:]}
        save_meta(i, m)
        print(f"[{'caught' if caught else 'MISSED'}] {i} ({prop}): exit={p.returncode} violations={len(viol)} {first[:2]}")
        if not caught and not quiet:
            print("    " + "\n    ".join(p.stdout.strip().splitlines()[-5:]))
        return caught
    finally:
        shutil.rmtree(scratch, ignore_errors=True)


def main(argv):
    if not argv:
        print(__doc__)
        return 2
    if argv[0] == "import":
        cmd_import(argv[1], argv[2], argv[3])
        return 0
    ids = argv[1:]
    if "--all" in ids or not ids:
        ids = sorted(x for x in os.listdir(SEEDED) if os.path.exists(meta_path(x)))
    if argv[0] == "confirm":
        from concurrent.futures import ThreadPoolExecutor

        with ThreadPoolExecutor(max_workers=int(os.environ.get("SEEDED_JOBS", "3"))) as ex:
            res = list(ex.map(cmd_confirm, ids))
        return 0 if all(res) else 1
    if argv[0] == "check":
        res = [cmd_check(i) for i in ids]
        return 0 if all(r is not False for r in res) else 1
    print(__doc__)
    return 2


if __name__ == "__main__":
    sys.exit(main(sys.argv[1:]))
