"""Symbolic interpreter for the Python subset used by the functions under contract.

One *run* explores one path; branching points consult a decision list and the driver
(`explore`) enumerates all decision lists depth-first by re-execution.
"""
from __future__ import annotations

import ast
import asyncio
import builtins
import z3

from . import extract
from .core import (
    BOOL,
    BYTES,
    CLASSES,
    H,
    INF,
    INT,
    INTINF,
    NEG_INF,
    OBJ,
    OPTINT,
    OPTREAL,
    REAL,
    STR,
    Obligation,
    PathEnd,
    RefT,
    State,
    Sym,
    TupT,
    Unsupported,
    is_ref,
)

# ----------------------------------------------------------------------------- control signals


class PyExc(Exception):
    def __init__(self, exc):
        self.exc = exc


class _Return(Exception):
    def __init__(self, value):
        self.value = value


class _Break(Exception):
    pass


class _Continue(Exception):
    pass


# ----------------------------------------------------------------------------- values


class ExcVal:
    """A Python exception object. `pycls` is a real (or mirrored) class; when the class is not
    known on this path, `kind` is a z3 Int ranging over the ids in EXC_IDS."""

    _n = 0

    def __init__(self, pycls, args=(), kind=None, tag=None):
        ExcVal._n += 1
        self.ident = ExcVal._n
        self.pycls = pycls
        self.args = tuple(args)
        self.kind = kind
        self.tag = tag  # z3 Bool: "is an AnyIO cancellation" (message prefix abstraction)
        self.attrs = {}
        self.ref = None  # heap identity (z3 Int), assigned when the exception is stored into / read from the heap

    def __repr__(self):
        return f"<exc {self.pycls.__name__ if self.pycls else self.kind}>"


class FuncVal:
    def __init__(self, node, env, modpath, qualname, owner=None):
        self.node, self.env, self.modpath, self.qualname, self.owner = node, env, modpath, qualname, owner
        self.is_async = isinstance(node, ast.AsyncFunctionDef)
        self.is_gen = any(isinstance(n, (ast.Yield, ast.YieldFrom)) for n in _walk_own(node)) if not isinstance(node, ast.Lambda) else False

    def __repr__(self):
        return f"<func {self.qualname}>"


def _walk_own(node):
    """walk a function body without descending into nested function definitions"""
    stack = list(ast.iter_child_nodes(node))
    while stack:
        n = stack.pop()
        yield n
        if isinstance(n, (ast.FunctionDef, ast.AsyncFunctionDef, ast.Lambda, ast.ClassDef)):
            continue
        stack.extend(ast.iter_child_nodes(n))


class BoundMethod:
    def __init__(self, func, self_val):
        self.func, self.self_val = func, self_val


class Builtin:
    def __init__(self, name, fn):
        self.name, self.fn = name, fn

    def __repr__(self):
        return f"<builtin {self.name}>"


class ClassVal:
    def __init__(self, name, pycls=None, info=None):
        self.name, self.pycls, self.info = name, pycls, info

    def __repr__(self):
        return f"<class {self.name}>"


class NS:
    def __init__(self, name, attrs):
        self.name, self.attrs = name, attrs


class SuperVal:
    def __init__(self, owner, self_val):
        self.owner, self.self_val = owner, self_val


class EmptyLit:
    """`deque()`, `set()`, `OrderedDict()`, `[]`: becomes a typed container when stored into a typed field"""

    def __init__(self, kinds):
        self.kinds = kinds


class CoroVal:
    def __init__(self, func, env):
        self.func, self.env = func, env


class AwaitableVal:
    def __init__(self, kind, payload=None):
        self.kind, self.payload = kind, payload


class Env:
    def __init__(self, vars=None, parent=None):
        self.vars = vars if vars is not None else {}
        self.parent = parent
        self.nonlocals = set()

    def lookup(self, name):
        e = self
        while e is not None:
            if name in e.vars:
                return e.vars[name]
            e = e.parent
        raise KeyError(name)

    def has(self, name):
        e = self
        while e is not None:
            if name in e.vars:
                return True
            e = e.parent
        return False

    def assign(self, name, value):
        if name in self.nonlocals:
            e = self.parent
            while e is not None:
                if name in e.vars:
                    e.vars[name] = value
                    return
                e = e.parent
        self.vars[name] = value


# ----------------------------------------------------------------------------- exception classes


def _mirror_exception_classes():
    """Build mirror classes for anyio._core._exceptions from its AST (bases resolved against
    builtins and previously mirrored names)."""
    table = {n: getattr(builtins, n) for n in dir(builtins) if isinstance(getattr(builtins, n), type) and issubclass(getattr(builtins, n), BaseException)}
    table["CancelledError"] = asyncio.CancelledError
    table["InvalidStateError"] = asyncio.InvalidStateError
    try:
        m = extract.module("anyio/_core/_exceptions.py")
    except OSError:
        return table
    for node in m.tree.body:
        if isinstance(node, ast.ClassDef):
            bases = []
            for b in node.bases:
                nm = ast.unparse(b)
                if nm in table:
                    bases.append(table[nm])
            if bases and all(issubclass(b, BaseException) for b in bases):
                table[node.name] = type(node.name, tuple(bases), {})
    return table


EXC_CLASSES: dict = {}


def exc_classes():
    if not EXC_CLASSES:
        EXC_CLASSES.update(_mirror_exception_classes())
    return EXC_CLASSES


# symbolic exception kinds: a small closed universe used when an exception comes from outside
SYM_KINDS = ["CancelledError", "Exception", "BaseException", "BaseExceptionGroup", "KeyboardInterrupt"]


def kind_id(name):
    return SYM_KINDS.index(name)


# ----------------------------------------------------------------------------- context


class Ctx:
    MAX_DEPTH = 40

    def __init__(self, unit, decisions):
        self.unit = unit
        self.st = State()
        self.decisions = list(decisions)
        self.dpos = 0
        self.choices: list[int] = []
        self.labels: list[str] = []
        self.obls: list[Obligation] = []
        self.cur = Sym(z3.Int("cur_task"), RefT("Task"))
        self.st.assume(self.cur.t > 0)
        self.st.assume(z3.And(NEG_INF < 0, 0 < INF))
        self.depth = 0
        self.handling: list[ExcVal] = []
        self.flags = {"checked": False, "yielded": False, "suspended": 0}
        self.events: list = []  # ghost event log (calls to opaque functions etc.)
        self.loop_counters: dict = {}
        self.fn_stack: list[str] = []
        self.frames: list = []
        self.notes: list[str] = []
        self.last_case: dict = {}
        self.shield = 0  # depth of `with CancelScope(shield=True)` blocks: AnyIO cancellation cannot be delivered inside
        self.loop_k = None

    # -- decisions ---------------------------------------------------------
    def decide(self, n, label):
        if n == 1:
            return 0
        if self.dpos < len(self.decisions):
            c = self.decisions[self.dpos]
            if c >= n:
                # a forced prefix decision that does not exist at this point
                self.no_such_branch = True
                raise PathEnd("no such branch")
        else:
            c = 0
            self.decisions.append(0)
        self.choices.append(n)
        self.dpos += 1
        self.labels.append(f"{label}={c}")
        return c

    def branch(self, cond, label="br"):
        if isinstance(cond, bool):
            return cond
        cond = z3.simplify(cond)
        if z3.is_true(cond):
            return True
        if z3.is_false(cond):
            return False
        t_ok = self.st.feasible(cond)
        f_ok = self.st.feasible(z3.Not(cond))
        if t_ok and f_ok:
            take = self.decide(2, label) == 0
        elif t_ok:
            take = True
        elif f_ok:
            take = False
        else:
            raise PathEnd("infeasible")
        self.st.assume(cond if take else z3.Not(cond))
        return take

    # -- obligations -------------------------------------------------------
    def oblige(self, name, goal, kind="post"):
        ob = Obligation(name, kind)
        ob.path = "/".join(self.labels[-12:])
        if isinstance(goal, bool):
            goal = z3.BoolVal(goal)
        seen = self.unit.__dict__.setdefault("_refuted_names", {})
        if name in seen and not isinstance(goal, bool) and not z3.is_true(goal):
            # already refuted on an earlier path of this unit: one counter-model is enough, the verdict cannot improve;
            # a cheap attempt is still made so that an instance that does hold is recorded as such
            verdict, secs, model, detail = self.st.prove_quick(goal)
            if verdict != "proved":
                verdict, model, detail = "refuted", None, f"not re-examined in full: refuted on an earlier path ({seen[name]})"
        elif name in self.unit.__dict__.setdefault("_unknown_names", {}) and not isinstance(goal, bool):
            # left undecided on an earlier path of this unit: only the cheap attempt is repeated
            verdict, secs, model, detail = self.st.prove_quick(goal)
            if verdict != "proved":
                detail = f"not re-examined in full: undecided on an earlier path ({self.unit._unknown_names[name]})"
        else:
            verdict, secs, model, detail = self.st.prove(goal)
            if verdict == "refuted":
                seen[name] = "/".join(self.labels[-6:])
            elif verdict == "unknown":
                self.unit._unknown_names[name] = "/".join(self.labels[-6:])
        ob.verdict, ob.seconds, ob.backend = verdict, secs, (detail if verdict == "proved" else "z3")
        if verdict != "proved":
            ob.goal_txt = str(z3.simplify(goal))[:2000]
            ob.detail = detail
        if model is not None:
            ob.model = _render_model(model)
        self.obls.append(ob)
        self.st.assume(goal)
        return verdict == "proved"

    def cover(self, name):
        """`cover` obligation: must be satisfiable (a contradictory invariant / requires would make every
        other obligation of the path vacuously true).  quick tier: E-matching finds no contradiction;
        thorough tier: additionally ask MBQI for a model."""
        import os

        ob = Obligation(name, "cover")
        ob.path = "/".join(self.labels[-12:])
        r, secs = self.st.cover(full=os.environ.get("SEGVC_TIER") == "thorough")
        ob.seconds, ob.backend = secs, "z3"
        ob.verdict = {"sat": "proved", "unsat": "refuted", "unknown": "cover-unknown", "nocontra": "proved"}[r]
        if r == "unsat":
            ob.goal_txt = "path condition is unsatisfiable: the obligations on this path are vacuous"
        self.obls.append(ob)
        return r

    def fail(self, name, kind, why):
        ob = Obligation(name, kind)
        ob.path = "/".join(self.labels[-12:])
        ob.verdict, ob.backend, ob.goal_txt = "refuted", "engine", why
        self.obls.append(ob)

    def assume(self, t):
        self.st.assume(t)

    @property
    def h(self):
        return H(self.st)


def _render_model(model, limit=60):
    if isinstance(model, dict):
        return model
    out = {}
    try:
        for d in model.decls()[:limit]:
            out[d.name()] = str(model[d])[:200]
    except Exception as e:  # pragma: no cover
        out["<error>"] = str(e)
    return out


# ----------------------------------------------------------------------------- helpers


def py_truth_const(v):
    return isinstance(v, (bool, int, float, str, tuple, type(None)))


class Interp:
    def __init__(self, ctx: Ctx, lib):
        self.ctx = ctx
        self.lib = lib
        self.st = ctx.st

    # -- conversion ----------------------------------------------------------
    def term(self, v, ty=None):
        """z3 term for a value (ty gives the expected type for None/tuples)."""
        if isinstance(v, Sym):
            if ty in (REAL, OPTREAL) and v.ty in (INT, OPTINT):
                return z3.ToReal(v.t)
            return v.t
        if ty is INTINF and isinstance(v, float) and v == float("inf"):
            return z3.IntVal(-1)
        if v is None:
            if ty is OPTREAL:
                return INF
            return z3.IntVal(-1) if ty is OPTINT else z3.IntVal(0)
        if isinstance(v, bool):
            return z3.BoolVal(v)
        if isinstance(v, int):
            if ty is REAL:
                return z3.RealVal(v)
            return z3.IntVal(v)
        if isinstance(v, float):
            if v == float("inf"):
                return INF
            if v == float("-inf"):
                return NEG_INF
            return z3.RealVal(v)
        if isinstance(v, tuple):
            if isinstance(ty, TupT):
                return ty.mk(*[self.term(x, t) for x, t in zip(v, ty.elems)])
            raise Unsupported("tuple without type")
        if isinstance(v, bytes):
            return z3.StringVal(v.decode("latin-1"))
        if isinstance(v, str):
            return self.lib.str_id(v)
        if isinstance(v, ExcVal):
            return self.lib.exc_ref(self, v)
        raise Unsupported(f"cannot convert {v!r} to a term")

    def wrap(self, t, ty):
        """Value for a z3 term of a type (tuples become python tuples of values)."""
        if isinstance(ty, TupT):
            return tuple(self.wrap(ty.proj(i, t), et) for i, et in enumerate(ty.elems))
        return Sym(t, ty)

    def truth(self, v):
        if isinstance(v, bool):
            return v
        if v is None:
            return False
        if isinstance(v, (int, float, str, tuple, bytes)):
            return bool(v)
        if isinstance(v, Sym):
            if v.ty is BOOL:
                return v.t
            if v.ty is INT:
                return v.t != 0
            if v.ty is OPTINT:
                return z3.And(v.t != -1, v.t != 0)
            if v.ty is INTINF:
                return v.t != 0
            if v.ty is REAL:
                return v.t != 0
            if v.ty is BYTES:
                return z3.Length(v.t) != 0
            if v.ty is OBJ or v.ty is STR:
                h = getattr(self.ctx.unit, "obj_truth", None)  # a unit may give opaque objects an arbitrary truth value
                if h is not None and v.ty is OBJ:
                    return h(v.t)
                return v.t != 0
            if isinstance(v.ty, RefT):
                ci = CLASSES[v.ty.cls]
                if ci.kind in ("deque", "odict"):
                    return z3.And(v.t != 0, self.st.get(ci.name, "hi", v.t) - self.st.get(ci.name, "lo", v.t) != 0)
                if ci.kind == "set":
                    return z3.And(v.t != 0, self.st.get(ci.name, "card", v.t) != 0)
                if ci.kind == "bytearray":
                    return z3.And(v.t != 0, z3.Length(self.st.get(ci.name, "val", v.t)) != 0)
                return v.t != 0
        if isinstance(v, (ExcVal, FuncVal, BoundMethod, Builtin, ClassVal, NS)):
            return True
        raise Unsupported(f"truthiness of {v!r}")

    def branch(self, v, label="if"):
        return self.ctx.branch(self.truth(v), label)

    # -- name resolution -----------------------------------------------------
    def resolve_global(self, name, modpath):
        unit = self.ctx.unit
        if name in unit.globals:
            return unit.globals[name]
        if name in self.lib.GLOBALS:
            return self.lib.GLOBALS[name]
        mod = extract.module(modpath)
        if name in mod.toplevel:
            node = mod.toplevel[name]
            if isinstance(node, ast.ClassDef):
                for ci in CLASSES.values():
                    if ci.source == (modpath, name):
                        return ClassVal(name, info=ci)
                ex = exc_classes()
                if name in ex:
                    return ClassVal(name, pycls=ex[name])
                raise Unsupported(f"class {name} is not modelled")
            return FuncVal(node, None, modpath, name)
        g = self.lib.GLOBALS
        if name in g:
            return g[name]
        ex = exc_classes()
        if name in ex:
            return ClassVal(name, pycls=ex[name])
        # a module-level constant (`NAME = <int | float | str | bytes | bool | None literal>`, assigned once)
        consts = [n for n in mod.tree.body if isinstance(n, (ast.Assign, ast.AnnAssign)) and any(isinstance(t, ast.Name) and t.id == name for t in (n.targets if isinstance(n, ast.Assign) else [n.target]))]
        if len(consts) == 1 and isinstance(consts[0].value, ast.Constant):
            return consts[0].value.value
        raise Unsupported(f"unresolved name {name} in {modpath}")

    def lookup(self, name, env, modpath):
        try:
            return env.lookup(name)
        except KeyError:
            return self.resolve_global(name, modpath)

    # -- class/method lookup ---------------------------------------------------
    def find_method(self, clsname, name):
        """returns (FuncVal, is_property) or None; searches the class and its bases"""
        seen = set()
        todo = [clsname]
        while todo:
            cn = todo.pop(0)
            if cn in seen or cn not in CLASSES:
                continue
            seen.add(cn)
            ci = CLASSES[cn]
            if ci.source:
                modpath, qual = ci.source
                mod = extract.module(modpath)
                q = f"{qual}.{name}"
                if q in mod.defs and isinstance(mod.defs[q], (ast.FunctionDef, ast.AsyncFunctionDef)):
                    node = mod.defs[q]
                    deco = [ast.unparse(d) for d in node.decorator_list]
                    kind = "property" if "property" in deco else ("static" if "staticmethod" in deco else ("class" if "classmethod" in deco else "method"))
                    return FuncVal(node, None, modpath, q, owner=cn), kind
            todo.extend(ci.bases)
        return None

    def find_setter(self, clsname, name):
        todo = [clsname]
        while todo:
            cn = todo.pop(0)
            if cn not in CLASSES:
                continue
            ci = CLASSES[cn]
            if ci.source:
                modpath, qual = ci.source
                mod = extract.module(modpath)
                q = f"{qual}.{name}.setter"
                if q in mod.defs:
                    return FuncVal(mod.defs[q], None, modpath, q, owner=cn)
            todo.extend(ci.bases)
        return None

    # -- attribute access ------------------------------------------------------
    def getattr(self, obj, attr):
        if isinstance(obj, NS):
            if attr in obj.attrs:
                return obj.attrs[attr]
            raise Unsupported(f"{obj.name}.{attr} is not modelled")
        if is_ref(obj):
            cn = obj.ty.cls
            ci = CLASSES[cn]
            ov = self.ctx.unit.override_method(self, obj, attr)  # ghost bookkeeping around a modelled container method
            if ov is not NotImplemented:
                return ov
            m = self.lib.find_model_method(ci, attr)
            if m is not None:
                return Builtin(f"{cn}.{attr}", lambda ip, *a, **k: m(ip, obj, *a, **k))
            if attr in ci.fields and attr not in ci.ghost_fields:
                self.nonnull(obj, attr)
                return self.read_field(cn, attr, obj.t)
            fm = self.find_method(cn, attr)
            if fm is not None:
                f, kind = fm
                self.nonnull(obj, attr)
                if kind == "property":
                    return self.call_function(f, [obj], {})
                if kind == "static":
                    return f
                return BoundMethod(f, obj)
            ga = self.lib.model_getattr(self, obj, attr)
            if ga is not NotImplemented:
                return ga
            if self.auto_field(ci, attr):
                self.nonnull(obj, attr)
                return self.read_field(cn, attr, obj.t)
            raise Unsupported(f"attribute {cn}.{attr} is not modelled")
        if isinstance(obj, ExcVal):
            return self.lib.exc_getattr(self, obj, attr)
        if isinstance(obj, SuperVal):
            for b in CLASSES[obj.owner].bases:
                fm = self.find_method(b, attr)
                if fm is not None:
                    return BoundMethod(fm[0], obj.self_val)
            if attr == "__init__":
                return Builtin("object.__init__", lambda ip, *a, **k: None)
            raise Unsupported(f"super().{attr}")
        if isinstance(obj, ClassVal):
            if obj.info is not None:
                fm = self.find_method(obj.info.name, attr)
                if fm is not None:
                    f, kind = fm
                    if kind == "class":
                        return BoundMethod(f, obj)
                    return f
            ga = self.lib.class_getattr(self, obj, attr)
            if ga is not NotImplemented:
                return ga
            raise Unsupported(f"class attribute {obj.name}.{attr}")
        ga = self.lib.model_getattr(self, obj, attr)
        if ga is not NotImplemented:
            return ga
        raise Unsupported(f"attribute {attr} of {obj!r}")

    def auto_field(self, ci, attr):
        """A field the spec does not declare (e.g. added by an edit): declared on the fly when the class's own
        __init__ initialises it with a bool / int constant (the type is then known); anything else stays unsupported."""
        if ci.source is None or ci.kind != "user" or attr.startswith("$"):
            return False
        if attr in ci.fields:
            return True
        modpath, qual = ci.source
        node = extract.module(modpath).defs.get(f"{qual}.__init__")
        if node is None:
            return False
        for n in ast.walk(node):
            tgt = None
            if isinstance(n, ast.Assign) and len(n.targets) == 1:
                tgt, val = n.targets[0], n.value
            elif isinstance(n, ast.AnnAssign) and n.value is not None:
                tgt, val = n.target, n.value
            if isinstance(tgt, ast.Attribute) and isinstance(tgt.value, ast.Name) and tgt.value.id == "self" and tgt.attr == attr and isinstance(val, ast.Constant):
                if isinstance(val.value, bool):
                    ci.fields[attr] = BOOL
                elif isinstance(val.value, int):
                    ci.fields[attr] = INT
                else:
                    return False
                self.ctx.notes.append(f"auto-declared field {ci.name}.{attr}")
                return True
        return False

    def nonnull(self, obj, attr):
        """Attribute access on None raises AttributeError in Python; the verified code never relies on
        that, so a possibly-None receiver is an obligation."""
        if z3.is_int_value(obj.t):
            if obj.t.as_long() == 0:
                self.ctx.fail(f"{self.where()}/assert:nonnull.{attr}", "assert", "attribute access on None")
                raise PathEnd("none deref")
            return
        if not self.st.feasible(obj.t == 0):
            return
        self.ctx.oblige(f"{self.where()}/assert:nonnull.{attr}", obj.t != 0, "assert")

    def where(self):
        return self.ctx.fn_stack[-1] if self.ctx.fn_stack else "<top>"

    def read_field(self, cn, attr, ref):
        ty = CLASSES[cn].fields[attr]
        t = self.st.get(cn, attr, ref)
        if ty is REAL:
            return self.split_real(t)
        return self.wrap(t, ty)

    def split_real(self, t):
        """symbolic reals are finite; the infinities are python floats (so inf arithmetic is Python's)"""
        if self.ctx.branch(t == INF, "is-inf"):
            return float("inf")
        if self.ctx.branch(t == NEG_INF, "is-neg-inf"):
            return float("-inf")
        self.st.assume(z3.And(NEG_INF < t, t < INF))
        return Sym(t, REAL)

    def setattr(self, obj, attr, val):
        if is_ref(obj):
            cn = obj.ty.cls
            ci = CLASSES[cn]
            if attr in ci.fields:
                self.nonnull(obj, attr)
                ty = ci.fields[attr]
                self.st.put(cn, attr, obj.t, self.term(self.coerce(val, ty), ty))
                self.ctx.unit.after_field_store(self, cn, attr, obj)  # ghost code attached to a store (unit hook)
                return
            s = self.find_setter(cn, attr)
            if s is not None:
                self.call_function(s, [obj, val], {})
                return
            r = self.lib.model_setattr(self, obj, attr, val)
            if r is not NotImplemented:
                return
            if self.auto_field(ci, attr):
                ty = ci.fields[attr]
                self.st.put(cn, attr, obj.t, self.term(self.coerce(val, ty), ty))
                return
            raise Unsupported(f"store to undeclared field {cn}.{attr}")
        if isinstance(obj, ExcVal):
            obj.attrs[attr] = val
            return
        r = self.lib.model_setattr(self, obj, attr, val)
        if r is not NotImplemented:
            return
        raise Unsupported(f"attribute store {attr} on {obj!r}")

    def coerce(self, val, ty):
        """light checks when storing a value into a typed slot"""
        if isinstance(val, EmptyLit):
            if not isinstance(ty, RefT) or CLASSES[ty.cls].kind not in val.kinds:
                raise Unsupported(f"empty {val.kinds} literal stored into {ty}")
            return self.lib.new_empty(self, ty)
        if isinstance(val, Sym) and isinstance(ty, RefT) and isinstance(val.ty, RefT) and val.ty is not ty:
            # allow subclass refs
            if not self.lib.is_subclass(val.ty.cls, ty.cls):
                raise Unsupported(f"type mismatch storing {val.ty} into {ty}")
        return val

    # -- calls -----------------------------------------------------------------
    def call(self, f, args, kwargs):
        if isinstance(f, BoundMethod):
            return self.call(f.func, [f.self_val] + list(args), kwargs)
        if isinstance(f, FuncVal):
            return self.call_function(f, args, kwargs)
        if isinstance(f, Builtin):
            return f.fn(self, *args, **kwargs)
        if isinstance(f, ClassVal):
            if f.pycls is not None and isinstance(f.pycls, type) and issubclass(f.pycls, BaseException):
                r = self.ctx.unit.construct_exception(self, f.pycls, args)
                return r if r is not NotImplemented else ExcVal(f.pycls, args)
            if f.info is not None:
                return self.construct(f.info, args, kwargs)
            r = self.lib.construct_model(self, f, args, kwargs)
            if r is not NotImplemented:
                return r
            raise Unsupported(f"constructor of {f.name}")
        r = self.lib.call_opaque(self, f, args, kwargs)
        if r is not NotImplemented:
            return r
        raise Unsupported(f"call of {f!r}")

    def construct(self, info, args, kwargs):
        ref = Sym(self.st.alloc(info.name), RefT(info.name))
        self.lib.init_object(self, info, ref)
        fm = self.find_method(info.name, "__init__")
        if fm is not None:
            self.call_function(fm[0], [ref] + list(args), kwargs)
        elif info.source is not None and self.is_dataclass(info):
            self.lib.dataclass_init(self, info, ref, args, kwargs)
        return ref

    def is_dataclass(self, info):
        modpath, qual = info.source
        node = extract.module(modpath).get(qual)
        return any(ast.unparse(d).startswith("dataclass") for d in getattr(node, "decorator_list", []))

    def bind_args(self, f: FuncVal, args, kwargs):
        a = f.node.args
        env = Env({}, f.env)
        params = [p.arg for p in a.posonlyargs + a.args]
        defaults = [None] * (len(params) - len(a.defaults)) + list(a.defaults)
        args = list(args)
        kwargs = dict(kwargs)
        for name, dflt in zip(params, defaults):
            if args:
                env.vars[name] = args.pop(0)
            elif name in kwargs:
                env.vars[name] = kwargs.pop(name)
            elif dflt is not None:
                env.vars[name] = self.eval(dflt, Env({}, f.env), f.modpath)
            else:
                raise Unsupported(f"missing argument {name} for {f.qualname}")
        if a.vararg:
            env.vars[a.vararg.arg] = tuple(args)
            args = []
        if args:
            raise Unsupported(f"too many arguments for {f.qualname}")
        for p, dflt in zip(a.kwonlyargs, a.kw_defaults):
            if p.arg in kwargs:
                env.vars[p.arg] = kwargs.pop(p.arg)
            elif dflt is not None:
                env.vars[p.arg] = self.eval(dflt, Env({}, f.env), f.modpath)
            else:
                raise Unsupported(f"missing keyword argument {p.arg} for {f.qualname}")
        if a.kwarg:
            if kwargs:
                raise Unsupported("**kwargs with content")
            env.vars[a.kwarg.arg] = {}
        elif kwargs:
            raise Unsupported(f"unexpected keyword arguments {list(kwargs)} for {f.qualname}")
        return env

    def call_function(self, f: FuncVal, args, kwargs):
        unit = self.ctx.unit
        contract = unit.contract_for(f.qualname, self.ctx)
        if contract is not None:
            if f.is_async and not f.is_gen:
                # a coroutine under contract: the contract is applied where it is awaited
                return AwaitableVal("contract", lambda: contract.apply(self, f, args, kwargs))
            return contract.apply(self, f, args, kwargs)
        env = self.bind_args(f, args, kwargs)
        if isinstance(f.node, ast.Lambda):
            return self.eval(f.node.body, env, f.modpath)
        if f.is_gen:
            return self.lib.make_generator(self, f, env)
        if f.is_async:
            return CoroVal(f, env)
        return self.run_body(f, env)

    def run_body(self, f: FuncVal, env):
        ctx = self.ctx
        ctx.depth += 1
        if ctx.depth > Ctx.MAX_DEPTH:
            raise Unsupported("call depth exceeded (recursion needs a contract)")
        ctx.fn_stack.append(f.qualname)
        ctx.frames.append((f, env))
        try:
            for node in _walk_own(f.node):
                if isinstance(node, ast.Nonlocal):
                    env.nonlocals.update(node.names)
            try:
                self.exec_block(f.node.body, env, f)
            except _Return as r:
                return r.value
            return None
        finally:
            ctx.fn_stack.pop()
            ctx.frames.pop()
            ctx.depth -= 1

    def do_await(self, v):
        if isinstance(v, CoroVal):
            return self.run_body(v.func, v.env)
        if isinstance(v, AwaitableVal):
            if v.kind == "contract":
                return v.payload()
            return self.lib.await_model(self, v)
        if is_ref(v):
            return self.lib.await_ref(self, v)
        raise Unsupported(f"await of {v!r}")

    # -- statements ------------------------------------------------------------
    def exec_block(self, stmts, env, f):
        for s in stmts:
            self.exec_stmt(s, env, f)

    def exec_stmt(self, s, env, f):
        if self.ctx.unit.abstract_stmt(self, s, env, f):
            return None  # the unit replaced this statement by its stated abstraction (listed in the evidence)
        m = getattr(self, "st_" + type(s).__name__, None)
        if m is None:
            raise Unsupported(f"statement {type(s).__name__} at {f.qualname}:{s.lineno}")
        return m(s, env, f)

    def st_Pass(self, s, env, f):
        pass

    def st_Global(self, s, env, f):
        raise Unsupported("global statement")

    def st_Nonlocal(self, s, env, f):
        env.nonlocals.update(s.names)

    def st_Expr(self, s, env, f):
        if isinstance(s.value, ast.Constant):
            return  # docstring
        self.eval(s.value, env, f.modpath)

    def st_Import(self, s, env, f):
        for a in s.names:
            nm = (a.asname or a.name).split(".")[0]
            env.assign(nm, self.resolve_global(nm, f.modpath))

    def st_ImportFrom(self, s, env, f):
        for a in s.names:
            nm = a.asname or a.name
            env.assign(nm, self.resolve_global(nm, f.modpath))

    def st_Assert(self, s, env, f):
        if isinstance(s.test, ast.Constant):
            return
        v = self.eval(s.test, env, f.modpath)
        t = self.truth(v)
        ordinal = self.ctx.loop_counters.setdefault(("assert", f.qualname, s.lineno), len([k for k in self.ctx.loop_counters if k[0] == "assert" and k[1] == f.qualname]))
        self.ctx.oblige(f"{f.qualname}/assert#{ordinal}", t if not isinstance(t, bool) else z3.BoolVal(t), "assert")

    def st_Delete(self, s, env, f):
        for t in s.targets:
            if isinstance(t, ast.Name):
                env.vars.pop(t.id, None)
            elif isinstance(t, ast.Attribute):
                obj = self.eval(t.value, env, f.modpath)
                self.lib.del_attr(self, obj, t.attr)
            elif isinstance(t, ast.Subscript):
                obj = self.eval(t.value, env, f.modpath)
                self.lib.del_item(self, obj, self.eval_slice(t.slice, env, f.modpath))
            else:
                raise Unsupported("del target")

    def st_Return(self, s, env, f):
        raise _Return(self.eval(s.value, env, f.modpath) if s.value is not None else None)

    def st_Break(self, s, env, f):
        raise _Break()

    def st_Continue(self, s, env, f):
        raise _Continue()

    def st_FunctionDef(self, s, env, f):
        env.assign(s.name, FuncVal(s, env, f.modpath, f"{f.qualname}.<locals>.{s.name}"))

    st_AsyncFunctionDef = st_FunctionDef

    def st_Assign(self, s, env, f):
        v = self.eval(s.value, env, f.modpath)
        for t in s.targets:
            self.assign(t, v, env, f)

    def st_AnnAssign(self, s, env, f):
        if s.value is not None:
            self.assign(s.target, self.eval(s.value, env, f.modpath), env, f)

    def st_AugAssign(self, s, env, f):
        load = _as_load(s.target)
        cur = self.eval(load, env, f.modpath)
        rhs = self.eval(s.value, env, f.modpath)
        r = self.lib.inplace(self, s.op, cur, rhs)
        if r is NotImplemented:
            v = self.binop(s.op, cur, rhs)
            self.assign(s.target, v, env, f)

    def assign(self, t, v, env, f):
        if isinstance(t, ast.Name):
            env.assign(t.id, v)
        elif isinstance(t, ast.Attribute):
            self.setattr(self.eval(t.value, env, f.modpath), t.attr, v)
        elif isinstance(t, (ast.Tuple, ast.List)):
            vals = self.unpack(v, len(t.elts))
            for tt, vv in zip(t.elts, vals):
                self.assign(tt, vv, env, f)
        elif isinstance(t, ast.Subscript):
            obj = self.eval(t.value, env, f.modpath)
            self.lib.set_item(self, obj, self.eval_slice(t.slice, env, f.modpath), v)
        else:
            raise Unsupported(f"assignment target {type(t).__name__}")

    def unpack(self, v, n):
        if isinstance(v, tuple):
            if len(v) != n:
                raise Unsupported("tuple arity mismatch in unpacking")
            return list(v)
        if isinstance(v, Sym) and isinstance(v.ty, TupT):
            return list(self.wrap(v.t, v.ty))
        r = self.lib.unpack(self, v, n)
        if r is not NotImplemented:
            return r
        raise Unsupported(f"unpacking of {v!r}")

    def st_If(self, s, env, f):
        c = self.eval_cond(s.test, env, f)
        if c:
            self.exec_block(s.body, env, f)
        else:
            self.exec_block(s.orelse, env, f)

    def eval_cond(self, test, env, f):
        """Evaluate a condition; sys.version_info / TYPE_CHECKING tests are constant-folded."""
        v = self.eval(test, env, f.modpath)
        return self.branch(v, f"{f.qualname.split('.')[-1]}:{test.lineno}")

    def st_Raise(self, s, env, f):
        if s.exc is None:
            if not self.ctx.handling:
                raise Unsupported("bare raise outside handler")
            raise PyExc(self.ctx.handling[-1])
        v = self.eval(s.exc, env, f.modpath)
        if isinstance(v, ClassVal):
            v = self.call(v, [], {})
        if not isinstance(v, ExcVal):
            raise Unsupported(f"raise of {v!r}")
        raise PyExc(v)

    def exc_match(self, exc: ExcVal, cls_val):
        """bool or z3 term: does `except cls_val` catch exc"""
        classes = cls_val if isinstance(cls_val, tuple) else (cls_val,)
        pys = []
        for c in classes:
            if not isinstance(c, ClassVal) or c.pycls is None:
                raise Unsupported(f"except clause with {c!r}")
            pys.append(c.pycls)
        return self.lib.exc_isinstance(self, exc, tuple(pys))

    def st_Try(self, s, env, f):
        def protected():
            try:
                self.exec_block(s.body, env, f)
            except PyExc as e:
                exc = e.exc
                for h in s.handlers:
                    if h.type is None:
                        matched = True
                    else:
                        cv = self.eval(h.type, env, f.modpath)
                        matched = self.ctx.branch(self.exc_match(exc, cv), f"except:{h.lineno}")
                    if matched:
                        if h.name:
                            env.assign(h.name, exc)
                        self.ctx.handling.append(exc)
                        try:
                            self.exec_block(h.body, env, f)
                        finally:
                            self.ctx.handling.pop()
                            if h.name:
                                env.vars.pop(h.name, None)
                        return
                raise
            else:
                self.exec_block(s.orelse, env, f)

        if not s.finalbody:
            return protected()
        try:
            protected()
        except (PyExc, _Return, _Break, _Continue):
            self.exec_block(s.finalbody, env, f)
            raise
        else:
            self.exec_block(s.finalbody, env, f)

    def st_With(self, s, env, f, is_async=False):
        items = s.items

        def run(idx):
            if idx == len(items):
                return self.exec_block(s.body, env, f)
            item = items[idx]
            mgr = self.eval(item.context_expr, env, f.modpath)
            enter = self.call(self.getattr(mgr, "__aenter__" if is_async else "__enter__"), [], {})
            if is_async:
                enter = self.do_await(enter)
            if item.optional_vars is not None:
                self.assign(item.optional_vars, enter, env, f)

            def do_exit(a, b, c):
                r = self.call(self.getattr(mgr, "__aexit__" if is_async else "__exit__"), [a, b, c], {})
                if is_async:
                    r = self.do_await(r)
                return r

            try:
                run(idx + 1)
            except PyExc as e:
                self.ctx.handling.append(e.exc)
                try:
                    r = do_exit(self.lib.type_of_exc(self, e.exc), e.exc, None)
                finally:
                    self.ctx.handling.pop()
                if self.branch(r, f"with-exit:{s.lineno}"):
                    return
                raise
            except (_Return, _Break, _Continue):
                do_exit(None, None, None)
                raise
            else:
                do_exit(None, None, None)

        run(0)

    def st_AsyncWith(self, s, env, f):
        return self.st_With(s, env, f, is_async=True)

    def loop_ordinal(self, node, f):
        loops = [n for n in _walk_own(f.node) if isinstance(n, (ast.While, ast.For, ast.AsyncFor))]
        loops.sort(key=lambda n: (n.lineno, n.col_offset))
        return loops.index(node)

    def st_While(self, s, env, f):
        return self.lib.exec_loop(self, s, env, f)

    def st_For(self, s, env, f):
        return self.lib.exec_loop(self, s, env, f)

    def st_AsyncFor(self, s, env, f):
        return self.lib.exec_loop(self, s, env, f)

    def st_Match(self, s, env, f):
        subj = self.eval(s.subject, env, f.modpath)
        for case in s.cases:
            cond = self.match_pattern(case.pattern, subj, env, f)
            if case.guard is not None and cond is not False:
                if self.ctx.branch(cond if not isinstance(cond, bool) else cond, f"match:{case.pattern.lineno}"):
                    if self.branch(self.eval(case.guard, env, f.modpath)):
                        return self.exec_block(case.body, env, f)
                continue
            if self.ctx.branch(cond, f"match:{case.pattern.lineno}"):
                return self.exec_block(case.body, env, f)

    def match_pattern(self, p, subj, env, f):
        if isinstance(p, ast.MatchValue):
            v = self.eval(p.value, env, f.modpath)
            return self.compare(ast.Eq(), subj, v)
        if isinstance(p, ast.MatchSingleton):
            return self.compare(ast.Is(), subj, p.value)
        if isinstance(p, ast.MatchAs) and p.pattern is None:
            if p.name:
                env.assign(p.name, subj)
            return True
        if isinstance(p, ast.MatchOr):
            conds = [self.match_pattern(q, subj, env, f) for q in p.patterns]
            if any(c is True for c in conds):
                return True
            ts = [c for c in conds if c is not False]
            return z3.Or(*ts) if ts else False
        raise Unsupported(f"match pattern {type(p).__name__}")

    # -- expressions -----------------------------------------------------------
    def eval(self, e, env, modpath):
        m = getattr(self, "ex_" + type(e).__name__, None)
        if m is None:
            raise Unsupported(f"expression {type(e).__name__} at line {getattr(e, 'lineno', '?')}")
        return m(e, env, modpath)

    def ex_Constant(self, e, env, mp):
        return e.value

    def ex_Name(self, e, env, mp):
        return self.lookup(e.id, env, mp)

    def ex_NamedExpr(self, e, env, mp):
        v = self.eval(e.value, env, mp)
        env.assign(e.target.id, v)
        return v

    def ex_Tuple(self, e, env, mp):
        out = []
        for x in e.elts:
            if isinstance(x, ast.Starred):
                out.extend(self.unpack_star(self.eval(x.value, env, mp)))
            else:
                out.append(self.eval(x, env, mp))
        return tuple(out)

    def ex_List(self, e, env, mp):
        return self.lib.make_list(self, [self.eval(x, env, mp) for x in e.elts])

    def ex_Dict(self, e, env, mp):
        if not e.keys:
            return {}
        if all(isinstance(k, ast.Constant) and isinstance(k.value, str) for k in e.keys):
            # a literal with constant string keys (keyword arguments passed on as a dict): a Python dict of values
            return {k.value: self.eval(v, env, mp) for k, v in zip(e.keys, e.values)}
        raise Unsupported("dict literal")

    def ex_JoinedStr(self, e, env, mp):
        return Sym(self.st.fresh("fstr", z3.IntSort()), STR)

    def ex_Lambda(self, e, env, mp):
        return FuncVal(e, env, mp, f"{self.where()}.<lambda>")

    def ex_Attribute(self, e, env, mp):
        # constant folding of sys.version_info comparisons happens in ex_Compare
        obj = self.eval(e.value, env, mp)
        return self.getattr(obj, e.attr)

    def ex_Await(self, e, env, mp):
        return self.do_await(self.eval(e.value, env, mp))

    def ex_Yield(self, e, env, mp):
        return self.lib.do_yield(self, self.eval(e.value, env, mp) if e.value is not None else None)

    def ex_IfExp(self, e, env, mp):
        if self.branch(self.eval(e.test, env, mp), f"ifexp:{e.lineno}"):
            return self.eval(e.body, env, mp)
        return self.eval(e.orelse, env, mp)

    def ex_BoolOp(self, e, env, mp):
        is_and = isinstance(e.op, ast.And)
        v = None
        for i, x in enumerate(e.values):
            v = self.eval(x, env, mp)
            if i == len(e.values) - 1:
                return v
            t = self.branch(v, f"boolop:{e.lineno}.{i}")
            if is_and and not t:
                return v
            if not is_and and t:
                return v
        return v

    def ex_UnaryOp(self, e, env, mp):
        v = self.eval(e.operand, env, mp)
        if isinstance(e.op, ast.Not):
            t = self.truth(v)
            return (not t) if isinstance(t, bool) else Sym(z3.Not(t), BOOL)
        if isinstance(e.op, ast.USub):
            if isinstance(v, (int, float)):
                return -v
            if isinstance(v, Sym) and v.ty in (INT, REAL):
                return Sym(-v.t, v.ty)
        raise Unsupported(f"unary {type(e.op).__name__}")

    def ex_BinOp(self, e, env, mp):
        return self.binop(e.op, self.eval(e.left, env, mp), self.eval(e.right, env, mp))

    def binop(self, op, a, b):
        r = self.lib.binop(self, op, a, b)
        if r is not NotImplemented:
            return r
        if isinstance(a, (int, float)) and not isinstance(a, bool) and isinstance(b, (int, float)) and not isinstance(b, bool):
            return _PYOPS[type(op)](a, b)
        # +-inf with a finite symbolic number (symbolic reals are finite, see split_real)
        inf = float("inf")
        if isinstance(op, (ast.Add, ast.Sub)):
            if a in (inf, -inf) and isinstance(a, float) and isinstance(b, Sym) and b.ty in (INT, REAL):
                return a
            if isinstance(b, float) and b in (inf, -inf) and isinstance(a, Sym) and a.ty in (INT, REAL):
                return b if isinstance(op, ast.Add) else -b
        num = lambda v: isinstance(v, (int, float)) and not isinstance(v, bool) or (isinstance(v, Sym) and v.ty in (INT, REAL))
        if num(a) and num(b):
            real = any((isinstance(v, float)) or (isinstance(v, Sym) and v.ty is REAL) for v in (a, b))
            ty = REAL if real else INT
            ta, tb = self.term(a, ty), self.term(b, ty)
            if isinstance(op, ast.Add):
                return Sym(ta + tb, ty)
            if isinstance(op, ast.Sub):
                return Sym(ta - tb, ty)
            if isinstance(op, ast.Mult):
                return Sym(ta * tb, ty)
            if isinstance(op, ast.FloorDiv) and ty is INT:
                return self.lib.floordiv(self, ta, tb)
            if isinstance(op, ast.Mod) and ty is INT:
                return self.lib.mod(self, ta, tb)
        raise Unsupported(f"binop {type(op).__name__} on {a!r}, {b!r}")

    def ex_Compare(self, e, env, mp):
        # constant-fold interpreter/platform tests
        src = ast.unparse(e)
        if src.startswith("sys.version_info"):
            return eval(src, {"sys": _FakeSys})
        if src.startswith("sys.platform"):
            return eval(src, {"sys": _FakeSys})
        left = self.eval(e.left, env, mp)
        result = None
        for op, rhs in zip(e.ops, e.comparators):
            right = self.eval(rhs, env, mp)
            c = self.compare(op, left, right)
            if result is None:
                result = c
            else:
                if isinstance(result, bool) and isinstance(c, bool):
                    result = result and c
                else:
                    result = z3.And(self._b(result), self._b(c))
            left = right
        if isinstance(result, bool):
            return result
        return Sym(result, BOOL)

    def _b(self, x):
        return z3.BoolVal(x) if isinstance(x, bool) else x

    def compare(self, op, a, b):
        """returns python bool or z3 Bool term"""
        r = self.lib.compare(self, op, a, b)
        if r is not NotImplemented:
            return r
        if isinstance(op, (ast.In, ast.NotIn)):
            c = self.lib.contains(self, b, a)
            if isinstance(op, ast.NotIn):
                return (not c) if isinstance(c, bool) else z3.Not(c)
            return c
        if isinstance(op, (ast.Is, ast.IsNot, ast.Eq, ast.NotEq)):
            eq = self.equal(a, b, identity=isinstance(op, (ast.Is, ast.IsNot)))
            if isinstance(op, (ast.IsNot, ast.NotEq)):
                return (not eq) if isinstance(eq, bool) else z3.Not(eq)
            return eq
        # ordering
        if _is_pynum(a) and _is_pynum(b):
            return _PYCMP[type(op)](a, b)
        if (isinstance(a, Sym) and a.ty is INTINF) or (isinstance(b, Sym) and b.ty is INTINF):
            return self.compare_intinf(op, a, b)
        if _is_num(a) and _is_num(b):
            inf = float("inf")
            for x, y, flip in ((a, b, False), (b, a, True)):
                if isinstance(x, float) and x in (inf, -inf) and isinstance(y, Sym):
                    # y is finite: the comparison is decided
                    big = x == inf
                    o = type(op)
                    if flip:  # y OP x
                        return {ast.Lt: big, ast.LtE: big, ast.Gt: not big, ast.GtE: not big}[o]
                    return {ast.Lt: not big, ast.LtE: not big, ast.Gt: big, ast.GtE: big}[o]
            real = any(isinstance(v, float) or (isinstance(v, Sym) and v.ty in (REAL, OPTREAL)) for v in (a, b))
            ty = REAL if real else INT
            ta, tb = self.term(a, ty), self.term(b, ty)
            return _Z3CMP[type(op)](ta, tb)
        raise Unsupported(f"comparison {type(op).__name__} on {a!r}, {b!r}")

    def compare_intinf(self, op, a, b):
        """ordering where one side is `int or +inf` (INTINF, +inf encoded as -1) and the other an int"""
        o = type(op)
        if isinstance(a, Sym) and a.ty is INTINF:
            if isinstance(b, Sym) and b.ty is INTINF:
                raise Unsupported("comparison of two int-or-inf values")
            flip = {ast.Lt: ast.Gt, ast.LtE: ast.GtE, ast.Gt: ast.Lt, ast.GtE: ast.LtE}[o]
            return self.compare_intinf(flip(), b, a)
        if isinstance(a, float) and a == float("inf"):
            return {ast.Lt: False, ast.LtE: b.t == -1, ast.Gt: b.t != -1, ast.GtE: True}[o]
        if not (_is_pynum(a) or (isinstance(a, Sym) and a.ty is INT)):
            raise Unsupported(f"comparison of {a!r} with an int-or-inf value")
        ta = self.term(a, INT)
        inf = b.t == -1
        return {ast.Lt: z3.Or(inf, ta < b.t), ast.LtE: z3.Or(inf, ta <= b.t), ast.Gt: z3.And(z3.Not(inf), ta > b.t), ast.GtE: z3.And(z3.Not(inf), ta >= b.t)}[o]

    def equal(self, a, b, identity=False):
        if (isinstance(a, tuple) and b is None) or (a is None and isinstance(b, tuple)):
            return False  # a tuple is never None
        if isinstance(a, tuple) and isinstance(b, tuple):
            if len(a) != len(b):
                return False
            cs = [self.equal(x, y) for x, y in zip(a, b)]
            if any(c is False for c in cs):
                return False
            ts = [c for c in cs if c is not True]
            return z3.And(*ts) if ts else True
        if py_truth_const(a) and py_truth_const(b) and not isinstance(a, tuple) and not isinstance(b, tuple):
            if identity:
                return a is b or (a == b and type(a) is type(b))
            return a == b
        if isinstance(a, (ExcVal, FuncVal, ClassVal, NS, Builtin)) or isinstance(b, (ExcVal, FuncVal, ClassVal, NS, Builtin)):
            if isinstance(a, ClassVal) and isinstance(b, ClassVal):
                return a.name == b.name
            if isinstance(a, ExcVal) and isinstance(b, ExcVal):
                return a is b
            if a is None or b is None:
                return False
            return a is b
        if isinstance(a, Sym) or isinstance(b, Sym):
            sa = a if isinstance(a, Sym) else b
            other = b if sa is a else a
            if isinstance(other, tuple):
                if isinstance(sa.ty, TupT):
                    return sa.t == self.term(other, sa.ty)
                return False
            if isinstance(other, Sym):
                if sa.ty.sort() != other.ty.sort():
                    if {sa.ty, other.ty} == {INT, REAL}:
                        return self.term(sa, REAL) == self.term(other, REAL)
                    return False
                return sa.t == other.t
            if other is None:
                if sa.ty is OPTINT:
                    return sa.t == -1
                if sa.ty is OPTREAL:
                    return sa.t == INF
                if sa.ty.sort() == z3.IntSort() and sa.ty is not INT:
                    return sa.t == 0
                return False
            if isinstance(other, bool):
                if sa.ty is BOOL:
                    return sa.t == z3.BoolVal(other)
                if sa.ty is INT:
                    return sa.t == (1 if other else 0)
                return False
            if isinstance(other, (int, float)):
                if sa.ty is INTINF:
                    if isinstance(other, float):
                        return sa.t == -1 if other == float("inf") else False
                    return sa.t == other if other >= 0 else False
                if isinstance(other, float) and other in (float("inf"), float("-inf")):
                    return False  # symbolic numbers are finite
                if sa.ty in (INT, REAL):
                    return sa.t == self.term(other, sa.ty)
                return False
            if isinstance(other, (str, bytes)):
                if sa.ty is STR or sa.ty is BYTES:
                    return sa.t == self.term(other)
                return False
        raise Unsupported(f"equality of {a!r} and {b!r}")

    def ex_Subscript(self, e, env, mp):
        obj = self.eval(e.value, env, mp)
        if isinstance(obj, ClassVal):
            return obj  # Generic[T] alias: C[T] constructs a C
        idx = self.eval_slice(e.slice, env, mp)
        return self.lib.get_item(self, obj, idx)

    def eval_slice(self, sl, env, mp):
        if isinstance(sl, ast.Slice):
            return slice(
                self.eval(sl.lower, env, mp) if sl.lower is not None else None,
                self.eval(sl.upper, env, mp) if sl.upper is not None else None,
                self.eval(sl.step, env, mp) if sl.step is not None else None,
            )
        return self.eval(sl, env, mp)

    def unpack_star(self, v):
        if isinstance(v, tuple):
            return list(v)
        r = self.lib.unpack_star(self, v)
        if r is not NotImplemented:
            return r
        raise Unsupported(f"star-unpacking of {v!r}")

    def ex_Call(self, e, env, mp):
        # constant fold: isinstance checks on version etc. handled in lib
        f = self.eval(e.func, env, mp)
        args = []
        for a in e.args:
            if isinstance(a, ast.Starred):
                args.extend(self.unpack_star(self.eval(a.value, env, mp)))
            else:
                args.append(self.eval(a, env, mp))
        kwargs = {}
        for k in e.keywords:
            if k.arg is None:
                v = self.eval(k.value, env, mp)
                if isinstance(v, dict):
                    kwargs.update(v)
                else:
                    raise Unsupported("**kwargs call")
            else:
                kwargs[k.arg] = self.eval(k.value, env, mp)
        return self.call(f, args, kwargs)

    def ex_ListComp(self, e, env, mp):
        return self.lib.list_comp(self, e, env, mp)

    def ex_GeneratorExp(self, e, env, mp):
        return self.lib.list_comp(self, e, env, mp)


class _FakeSys:
    version_info = (3, 12, 1, "final", 0)
    platform = "linux"


def _as_load(t):
    import copy

    t2 = copy.deepcopy(t)
    for n in ast.walk(t2):
        if hasattr(n, "ctx"):
            n.ctx = ast.Load()
    return t2


def _is_pynum(v):
    return isinstance(v, (int, float)) and not isinstance(v, bool)


def _is_num(v):
    return _is_pynum(v) or (isinstance(v, Sym) and v.ty in (INT, REAL, OPTINT, OPTREAL))


import operator  # noqa: E402

_PYOPS = {ast.Add: operator.add, ast.Sub: operator.sub, ast.Mult: operator.mul, ast.FloorDiv: operator.floordiv, ast.Mod: operator.mod}
_PYCMP = {ast.Lt: operator.lt, ast.LtE: operator.le, ast.Gt: operator.gt, ast.GtE: operator.ge}
_Z3CMP = {ast.Lt: lambda a, b: a < b, ast.LtE: lambda a, b: a <= b, ast.Gt: lambda a, b: a > b, ast.GtE: lambda a, b: a >= b}
