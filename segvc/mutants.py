"""Self-test of the checks on deliberately edited scratch copies of the real source (never /repo itself).

    python3-vt -m segvc.mutants [PROP ...]

For every entry of MUTANTS the real `src/` tree is copied to a scratch directory under $TMPDIR, one textual edit is
applied, the property's check is run with SEGVC_REPO pointing at the copy and SEGVC_OUT at a scratch output
directory (so the evidence of the real tree is never overwritten), and the copy is deleted.  `break` entries must
be reported (exit 1 with a VIOLATION line), `harmless` entries must stay quiet (exit 0).  Exit 0 iff all behave.
"""
from __future__ import annotations

import os
import shutil
import subprocess
import sys
import tempfile

ROOT = os.path.dirname(os.path.dirname(os.path.abspath(__file__)))
REPO = os.environ.get("SEGVC_REPO", "/repo")
A = "src/anyio/_backends/_asyncio.py"
M = "src/anyio/streams/memory.py"
B = "src/anyio/streams/buffered.py"
T = "src/anyio/_core/_tasks.py"
S = "src/anyio/_core/_synchronization.py"

# (id, property, kind, file, old, new, what)
MUTANTS = [
    # ---------------------------------------------------------------- C09 Lock
    ("C09-lifo-handoff", "C09", "break", A, "            task, fut = self._waiters.popleft()\n            if fut.cancelled():", "            task, fut = self._waiters.pop()\n            if fut.cancelled():", "release hands the lock to the newest waiter"),
    ("C09-nowait-ignores-queue", "C09", "harmless", A, "        task = cast(asyncio.Task, current_task())\n        if self._owner_task is None and not self._waiters:\n            self._owner_task = task\n            return", "        task = cast(asyncio.Task, current_task())\n        if self._owner_task is None:\n            self._owner_task = task\n            return", "acquire_nowait tests only the owner: equivalent, because the proved invariant says a free lock has no waiters"),
    ("C09-cancelled-owner-keeps-lock", "C09", "break", A, "                    pass\n            else:\n                self.release()\n\n            raise\n\n    def acquire_nowait(self) -> None:\n        task = cast", "                    pass\n\n            raise\n\n    def acquire_nowait(self) -> None:\n        task = cast", "a waiter cancelled after the hand-off keeps the lock"),
    ("C09-release-skips-owner-check", "C09", "break", A, "        if self._owner_task != current_task():\n            raise RuntimeError(\"The current task is not holding this lock\")", "        if self._owner_task is None:\n            raise RuntimeError(\"The current task is not holding this lock\")", "any task may release a held lock"),
    ("C09-rename-local", "C09", "harmless", A, "        fut: asyncio.Future[None] = asyncio.Future()\n        item = task, fut\n        self._waiters.append(item)\n        try:\n            await fut\n        except CancelledError:\n            if fut.cancelled():\n                try:\n                    self._waiters.remove(item)", "        fut: asyncio.Future[None] = asyncio.Future()\n        entry = task, fut\n        self._waiters.append(entry)\n        try:\n            await fut\n        except CancelledError:\n            if fut.cancelled():\n                try:\n                    self._waiters.remove(entry)", "local renamed"),
    # ---------------------------------------------------------------- C10 Semaphore / CapacityLimiter
    ("C10-F1-setter-overgrant", "C10", "break", A, "        while self._wait_queue and len(self._borrowers) < self._total_tokens:\n            self._notify_next_waiter()\n\n    @property", "        waiters_to_notify = max(value - old_total, 0)\n        while self._wait_queue and waiters_to_notify:\n            borrower, event = self._wait_queue.popitem(last=False)\n            self._borrowers.add(borrower)\n            event.set()\n            waiters_to_notify -= 1\n\n    @property", "finding F1 returns (setter wakes new-old waiters regardless of free tokens)"),
    ("C10-F8-release-wrong-borrower", "C10", "break", A, "                self.release_on_behalf_of(borrower)\n                raise", "                self.release()\n                raise", "finding F8 returns"),
    ("C10-notify-without-free-test", "C10", "break", A, "        if self._wait_queue and len(self._borrowers) < self._total_tokens:\n            borrower, event = self._wait_queue.popitem(last=False)", "        if self._wait_queue:\n            borrower, event = self._wait_queue.popitem(last=False)", "waiter woken although no token is free (#1170)"),
    ("C10-nowait-off-by-one", "C10", "break", A, "        if self._wait_queue or len(self._borrowers) >= self._total_tokens:\n            raise WouldBlock", "        if self._wait_queue or len(self._borrowers) > self._total_tokens:\n            raise WouldBlock", "one token too many"),
    ("C10-nowait-ignores-queue", "C10", "harmless", A, "        if self._wait_queue or len(self._borrowers) >= self._total_tokens:\n            raise WouldBlock", "        if len(self._borrowers) >= self._total_tokens:\n            raise WouldBlock", "nowait tests only the count: equivalent, because the proved invariant P2 says waiters exist only when no token is free"),
    ("C10-cancelled-waiter-keeps-token", "C10", "break", A, "                if event.is_set():\n                    self._borrowers.discard(borrower)\n                    self._notify_next_waiter()", "                if event.is_set():\n                    self._notify_next_waiter()", "cancelled, already granted waiter leaks its token"),
    ("C10-cancelled-waiter-no-pass-on", "C10", "break", A, "                if event.is_set():\n                    self._borrowers.discard(borrower)\n                    self._notify_next_waiter()", "                if event.is_set():\n                    self._borrowers.discard(borrower)", "token returned by a cancelled waiter is not passed on (lost wake-up)"),
    ("C10-lifo-queue", "C10", "break", A, "            borrower, event = self._wait_queue.popitem(last=False)\n            self._borrowers.add(borrower)\n            event.set()\n\n    def acquire_nowait", "            borrower, event = self._wait_queue.popitem(last=True)\n            self._borrowers.add(borrower)\n            event.set()\n\n    def acquire_nowait", "limiter serves the newest waiter"),
    ("C10-sem-release-increments-with-waiter", "C10", "break", A, "            fut.set_result(None)\n            return\n\n        self._value += 1", "            fut.set_result(None)\n            self._value += 1\n            return\n\n        self._value += 1", "permit duplicated on hand-off"),
    ("C10-sem-nowait-negative", "C10", "break", A, "        if self._value == 0:\n            raise WouldBlock\n\n        self._value -= 1", "        if self._value < 0:\n            raise WouldBlock\n\n        self._value -= 1", "acquire_nowait grants at value 0"),
    ("C10-sem-max-check-off", "C10", "break", A, "        if self._max_value is not None and self._value == self._max_value:", "        if self._max_value is not None and self._value > self._max_value:", "release beyond max_value accepted"),
    ("C10-available-wrong", "C10", "break", A, "        return self._total_tokens - len(self._borrowers)", "        return self._total_tokens - len(self._borrowers) - len(self._wait_queue)", "available_tokens is not the true count"),
    ("C10-rename-local", "C10", "harmless", A, "            event = asyncio.Event()\n            self._wait_queue[borrower] = event\n            try:\n                await event.wait()\n            except BaseException:\n                self._wait_queue.pop(borrower, None)\n                if event.is_set():", "            wakeup = asyncio.Event()\n            self._wait_queue[borrower] = wakeup\n            try:\n                await wakeup.wait()\n            except BaseException:\n                self._wait_queue.pop(borrower, None)\n                if wakeup.is_set():", "local renamed"),
    ("C10-reordered-init", "C10", "harmless", A, "        self._borrowers: set[Any] = set()\n        self._wait_queue: OrderedDict[Any, asyncio.Event] = OrderedDict()\n        self.total_tokens = total_tokens", "        self._wait_queue: OrderedDict[Any, asyncio.Event] = OrderedDict()\n        self._borrowers: set[Any] = set()\n        self.total_tokens = total_tokens", "independent statements reordered"),
    # ---------------------------------------------------------------- C11 Event / Condition
    ("C11-F6-release-keeps-owner", "C11", "break", S, "        self._lock.release()\n        self._owner_task = None\n", "        self._lock.release()\n", "finding F6 returns: the recorded owner survives release()"),
    ("C11-notify-lifo", "C11", "break", S, "                event = self._waiters.popleft()\n            except IndexError:", "                event = self._waiters.pop()\n            except IndexError:", "notify wakes the newest waiter"),
    ("C11-no-pass-on", "C11", "break", S, "            elif self._waiters:\n                # This task was notified by could not act on it, so pass\n                # it on to the next task\n                self._waiters.popleft().set()\n", "", "a notification given to a waiter that is being cancelled is lost"),
    ("C11-cancelled-waiter-stays-queued", "C11", "break", S, "            if not event.is_set():\n                self._waiters.remove(event)\n            elif self._waiters:", "            if event.is_set() and self._waiters:", "an interrupted, un-notified waiter clogs the queue"),
    ("C11-notify-all-forgets-clear", "C11", "break", S, "            event.set()\n\n        self._waiters.clear()\n", "            event.set()\n", "notify_all leaves the (set) events queued"),
    ("C11-wait-no-entry-check", "C11", "break", S, "        await checkpoint_if_cancelled()\n        self._check_acquired()\n        event = Event()", "        await checkpoint_if_cancelled()\n        event = Event()", "wait() accepted from a task that does not hold the lock"),
    ("C11-event-wait-returns-unset", "C11", "break", A, "        if self.is_set():\n            await AsyncIOBackend.checkpoint()\n        else:\n            await self._event.wait()", "        await AsyncIOBackend.checkpoint()", "Event.wait returns although set() was never called"),
    ("C11-adapter-drops-early-set", "C11", "break", S, "            self._internal_event = get_async_backend().create_event()\n            if self._is_set:\n                self._internal_event.set()\n", "            self._internal_event = get_async_backend().create_event()\n", "a set() issued before the loop exists is forgotten when the backend event is created"),
    ("C11-rename-local", "C11", "harmless", S, "        event = Event()\n        self._waiters.append(event)\n        self.release()\n        try:\n            await event.wait()\n        except BaseException:\n            if not event.is_set():\n                self._waiters.remove(event)", "        ev = Event()\n        self._waiters.append(ev)\n        self.release()\n        try:\n            await ev.wait()\n        except BaseException:\n            if not ev.is_set():\n                self._waiters.remove(ev)", "local renamed"),
    ("C11-notify-while-loop", "C11", "harmless", S, "        for _ in range(n):\n            try:\n                event = self._waiters.popleft()\n            except IndexError:\n                break\n\n            event.set()\n", "        while n > 0 and self._waiters:\n            self._waiters.popleft().set()\n            n -= 1\n", "notify re-phrased as a correct while loop"),
    # ---------------------------------------------------------------- C12 / C13 memory object streams
    ("C12-skip-pending-cancellation-test", "C12", "break", M, "            if not receiver.task_info.has_pending_cancellation():\n                receiver.item = item", "            if True:\n                receiver.item = item", "item handed to a receiver that is about to be cancelled"),
    ("C12-buffer-beyond-max", "C12", "break", M, "        if len(self._state.buffer) < self._state.max_buffer_size:", "        if len(self._state.buffer) <= self._state.max_buffer_size:", "one item more than max_buffer_size is buffered"),
    ("C12-receivers-lifo", "C12", "break", M, "            receive_event, receiver = self._state.waiting_receivers.popitem(last=False)", "            receive_event, receiver = self._state.waiting_receivers.popitem(last=True)", "newest blocked receiver is served first"),
    ("C12-receive-no-deregister", "C12", "break", M, "            try:\n                await receive_event.wait()\n            finally:\n                self._state.waiting_receivers.pop(receive_event, None)\n", "            await receive_event.wait()\n", "an interrupted receive stays queued"),
    ("C12-sender-item-not-moved", "C12", "break", M, "            send_event, item = self._state.waiting_senders.popitem(last=False)\n            self._state.buffer.append(item)\n            send_event.set()", "            send_event, item = self._state.waiting_senders.popitem(last=False)\n            send_event.set()", "a blocked sender is released but its item is dropped"),
    ("C13-close-decrements-twice", "C13", "break", M, "        if not self._closed:\n            self._closed = True\n            self._state.open_send_channels -= 1", "        if True:\n            self._closed = True\n            self._state.open_send_channels -= 1", "closing a send handle twice is counted twice"),
    ("C13-last-send-close-keeps-receivers-queued", "C13", "break", M, "                receive_events = list(self._state.waiting_receivers.keys())\n                self._state.waiting_receivers.clear()\n", "                receive_events = list(self._state.waiting_receivers.keys())\n", "woken receivers stay in the queue"),
    ("C13-eos-before-buffer", "C13", "break", M, "        if self._state.buffer:\n            return self._state.buffer.popleft()\n        elif not self._state.open_send_channels:\n            raise EndOfStream", "        if not self._state.open_send_channels:\n            raise EndOfStream\n        elif self._state.buffer:\n            return self._state.buffer.popleft()", "EndOfStream although items remain"),
    ("C13-clone-of-closed-handle", "C13", "break", M, "        if self._closed:\n            raise ClosedResourceError\n\n        return MemoryObjectSendStream(_state=self._state)", "        return MemoryObjectSendStream(_state=self._state)", "a closed send handle can be cloned (reopens a fully closed side)"),
    ("C13-broken-test-inverted", "C13", "break", M, "        if not self._state.open_receive_channels:\n            raise BrokenResourceError", "        if self._state.waiting_senders and not self._state.open_receive_channels:\n            raise BrokenResourceError", "send_nowait accepted although every receive clone is closed"),
    ("C12-rename-local", "C12", "harmless", M, "            receive_event, receiver = self._state.waiting_receivers.popitem(last=False)\n            if not receiver.task_info.has_pending_cancellation():\n                receiver.item = item\n                receive_event.set()\n                return", "            ev, rcv = self._state.waiting_receivers.popitem(last=False)\n            if not rcv.task_info.has_pending_cancellation():\n                rcv.item = item\n                ev.set()\n                return", "locals renamed"),
    ("C13-close-helper-refactor", "C13", "harmless", M, "                send_events = list(self._state.waiting_senders.keys())\n                for event in send_events:\n                    event.set()\n", "                blocked = list(self._state.waiting_senders.keys())\n                for ev in blocked:\n                    ev.set()\n", "locals of the wake-all loop renamed"),
    # ---------------------------------------------------------------- C16 buffered byte stream
    ("C16-offset-plus-2", "C16", "break", B, "            offset = max(len(self._buffer) - delimiter_size + 1, 0)", "            offset = max(len(self._buffer) - delimiter_size + 2, 0)", "delimiter split across two chunks is missed"),
    ("C16-delimiter-not-consumed", "C16", "break", B, "                del self._buffer[: index + len(delimiter) :]", "                del self._buffer[:index]", "the delimiter stays in the buffer"),
    ("C16-surplus-off-by-one", "C16", "break", B, "                self._buffer.extend(chunk[max_bytes:])", "                self._buffer.extend(chunk[max_bytes + 1 :])", "one byte of an oversized object-stream chunk is dropped"),
    ("C16-exactly-returns-whole-buffer", "C16", "break", B, "                retval = self._buffer[:nbytes]\n                del self._buffer[:nbytes]", "                retval = self._buffer[:]\n                del self._buffer[:]", "receive_exactly hands out more than nbytes"),
    ("C16-limit-check-later", "C16", "harmless", B, "            if len(self._buffer) >= max_bytes:\n                raise DelimiterNotFound(max_bytes)", "            if len(self._buffer) > max_bytes + delimiter_size:\n                raise DelimiterNotFound(max_bytes)", "DelimiterNotFound raised later than necessary: still only when the delimiter is absent from the first max_bytes bytes, so the property holds"),
    ("C16-receive-ignores-max-bytes", "C16", "break", B, "            chunk = bytes(self._buffer[:max_bytes])\n            del self._buffer[:max_bytes]", "            chunk = bytes(self._buffer)\n            del self._buffer[:]", "receive returns more than max_bytes"),
    ("C16-rename-local", "C16", "harmless", B, "            chunk = bytes(self._buffer[:max_bytes])\n            del self._buffer[:max_bytes]\n            return chunk", "            head = bytes(self._buffer[:max_bytes])\n            del self._buffer[:max_bytes]\n            return head", "local renamed"),
    ("C16-len-via-variable", "C16", "harmless", B, "                del self._buffer[: index + len(delimiter) :]", "                del self._buffer[: index + delimiter_size]", "same slice written with the cached length"),
    # ---------------------------------------------------------------- C04 / C06 cancel scopes
    ("C04-visibility-ignores-shield", "C04", "break", A, "            self._parent_scope is not None\n            and not self.shield\n            and self._parent_scope._effectively_cancelled", "            self._parent_scope is not None\n            and self._parent_scope._effectively_cancelled", "a shielded scope defers to a cancelled parent instead of absorbing its own cancellation"),
    ("C04-absorbs-native-cancellation", "C04", "break", A, "                    if isinstance(exc_val, CancelledError) and is_anyio_cancellation(\n                        exc_val\n                    ):", "                    if isinstance(exc_val, CancelledError):", "a native CancelledError is swallowed by a cancelled scope"),
    ("C04-caught-on-pass-through", "C04", "break", A, "                        self._cancelled_caught = True\n                        return True\n                    else:\n                        return False", "                        self._cancelled_caught = True\n                        return True\n                    else:\n                        self._cancelled_caught = True\n                        return False", "cancelled_caught set although nothing was absorbed"),
    ("C04-shield-checked-before-own-flag", "C04", "break", A, "            if cancel_scope._cancel_called:\n                return True\n\n            if cancel_scope.shield:\n                return False", "            if cancel_scope.shield:\n                return False\n\n            if cancel_scope._cancel_called:\n                return True", "a shielded scope that was itself cancelled is not effectively cancelled"),
    ("C04-exit-keeps-host-in-scope", "C04", "break", A, "            self._tasks.remove(self._host_task)\n            if self._parent_scope is not None:", "            if self._parent_scope is not None:", "the host task stays a member of the scope it left"),
    ("C04-rename-local", "C04", "harmless", A, "        cancel_scope: CancelScope | None = self\n        while cancel_scope is not None:\n            if cancel_scope._cancel_called:\n                return True\n\n            if cancel_scope.shield:\n                return False\n\n            cancel_scope = cancel_scope._parent_scope\n\n        return False", "        scope: CancelScope | None = self\n        while scope is not None:\n            if scope._cancel_called:\n                return True\n\n            if scope.shield:\n                return False\n\n            scope = scope._parent_scope\n\n        return False", "cursor variable of the walk renamed"),
    ("C06-timeout-strict-comparison", "C06", "break", A, "            if loop.time() >= self._deadline:\n                self.cancel(\"deadline exceeded\")", "            if loop.time() > self._deadline:\n                self.cancel(\"deadline exceeded\")", "a timer firing exactly at the deadline re-arms instead of cancelling"),
    ("C06-exit-leaves-timer-armed", "C06", "break", A, "            self._active = False\n            if self._timeout_handle:\n                self._timeout_handle.cancel()\n                self._timeout_handle = None\n", "            self._active = False\n", "the deadline timer survives the scope"),
    ("C06-setter-keeps-old-timer", "C06", "break", A, "        self._deadline = float(value)\n        if self._timeout_handle is not None:\n            self._timeout_handle.cancel()\n            self._timeout_handle = None\n", "        self._deadline = float(value)\n", "assigning a deadline does not re-arm"),
    ("C06-effective-deadline-break-before-min", "C06", "break", A, "            deadline = min(deadline, cancel_scope.deadline)\n            if cancel_scope._cancel_called:\n                deadline = -math.inf\n                break\n            elif cancel_scope.shield:\n                break\n            else:\n                cancel_scope = cancel_scope._parent_scope", "            if cancel_scope._cancel_called:\n                deadline = -math.inf\n                break\n            elif cancel_scope.shield:\n                break\n            else:\n                deadline = min(deadline, cancel_scope.deadline)\n                cancel_scope = cancel_scope._parent_scope", "a shielded scope's own deadline is dropped from current_effective_deadline()"),
    ("C06-fail-at-tests-cancel-called", "C06", "break", T, "    if cancel_scope.cancelled_caught and current_time() >= cancel_scope.deadline:", "    if cancel_scope.cancel_called and current_time() >= cancel_scope.deadline:", "TimeoutError although the scope did not absorb its own cancellation"),
    # ---------------------------------------------------------------- C09 / C10 front-end adapters
    ("C09-lockadapter-aexit-keeps-lock", "C09", "break", S, "        if self._internal_lock is not None:\n            self._internal_lock.release()", "        if self._internal_lock is None:\n            self._lock.release()", "`async with LockAdapter()` never releases the lock it acquired"),
    ("C09-lockadapter-recreates", "C09", "break", S, "        if self._internal_lock is None:\n            self._internal_lock = get_async_backend().create_lock(\n                fast_acquire=self._fast_acquire\n            )\n\n        return self._internal_lock", "        self._internal_lock = get_async_backend().create_lock(\n            fast_acquire=self._fast_acquire\n        )\n        return self._internal_lock", "every use creates a new backend lock: no mutual exclusion at all"),
    ("C10-semadapter-stale-value", "C10", "break", S, "        if self._internal_semaphore is None:\n            return self._initial_value\n\n        return self._semaphore.value", "        return self._initial_value", "SemaphoreAdapter.value keeps reporting the initial value"),
    ("C10-limadapter-release-wrong-borrower", "C10", "break", S, "    def release_on_behalf_of(self, borrower: object) -> None:\n        self._limiter.release_on_behalf_of(borrower)", "    def release_on_behalf_of(self, borrower: object) -> None:\n        self._limiter.release()", "release_on_behalf_of releases the calling task's token instead"),
    ("C10-limadapter-borrowed-before-use", "C10", "break", S, "        if self._internal_limiter is None:\n            return 0\n\n        return self._internal_limiter.borrowed_tokens", "        if self._internal_limiter is None:\n            return self._total_tokens\n\n        return self._internal_limiter.borrowed_tokens", "an unused limiter reports all tokens as borrowed"),
    ("C10-semadapter-local-variable", "C10", "harmless", S, "    def release(self) -> None:\n        self._semaphore.release()\n\n    @property\n    def value(self) -> int:", "    def release(self) -> None:\n        sem = self._semaphore\n        sem.release()\n\n    @property\n    def value(self) -> int:", "backend object held in a local first"),
    # ---------------------------------------------------------------- C03 / C05 / C04(b) delivery walk
    ("C03-cancel-skips-delivery", "C03", "break", A, "            if self._host_task is not None:\n                self._deliver_cancellation(self)\n\n    @property\n    def deadline", "            if self._host_task is not None:\n                pass\n\n    @property\n    def deadline", "cancel() only sets the flag, nothing is delivered"),
    ("C03-no-reschedule", "C03", "break", A, "            if should_retry:\n                self._cancel_handle = get_running_loop().call_soon(\n                    self._deliver_cancellation, origin\n                )\n            else:\n                self._cancel_handle = None", "            self._cancel_handle = None", "the delivery callback never reschedules itself"),
    ("C03-enter-skips-delivery", "C03", "break", A, "        if self._cancel_called:\n            self._deliver_cancellation(self)\n\n        return self", "        return self", "a scope cancelled before it is entered never delivers"),
    ("C03-restart-ignores-existing-handle", "C03", "harmless", A, "                if scope._cancel_handle is None:\n                    scope._deliver_cancellation(scope)\n\n                break", "                scope._deliver_cancellation(scope)\n                break", "restart delivers even when a callback is already scheduled (extra delivery, nothing lost)"),
    ("C03-restart-walks-through-shields", "C03", "break", A, "            # No point in looking beyond any shielded scope\n            if scope._shield:\n                break\n\n            scope = scope._parent_scope", "            scope = scope._parent_scope", "restart crosses a shield and restarts delivery in a scope whose cancellation is not visible"),
    ("C03-cic-shield-first", "C03", "break", A, "            if cancel_scope.cancel_called:\n                await sleep(0)\n            elif cancel_scope.shield:\n                break", "            if cancel_scope.shield:\n                break\n            elif cancel_scope.cancel_called:\n                await sleep(0)", "checkpoint_if_cancelled lets a task pass inside a scope that is both shielded and cancelled"),
    ("C03-cic-yields-once", "C03", "break", A, "            if cancel_scope.cancel_called:\n                await sleep(0)\n            elif cancel_scope.shield:", "            if cancel_scope.cancel_called:\n                await sleep(0)\n                break\n            elif cancel_scope.shield:", "checkpoint_if_cancelled yields once and then lets the task go on if the cancellation has not landed yet"),
    ("C04-delivery-ignores-shield", "C04", "break", A, "            if not scope._shield and not scope.cancel_called:\n                should_retry", "            if not scope.cancel_called:\n                should_retry", "delivery descends into shielded child scopes"),
    ("C05-counts-every-cancel", "C05", "break", A, "                    if (\n                        task is origin._host_task\n                        and origin._pending_uncancellations is not None\n                    ):\n                        origin._pending_uncancellations += 1", "                    if origin._pending_uncancellations is not None:\n                        origin._pending_uncancellations += 1", "cancel() calls on other tasks are counted as owed uncancellations of the host"),
    ("C05-exit-forgets-uncancel", "C05", "break", A, "                while self._pending_uncancellations:\n                    self._host_task.uncancel()\n                    self._pending_uncancellations -= 1\n", "                self._pending_uncancellations = 0\n", "the exit of the cancelled scope no longer withdraws the host's cancellation requests"),
    ("C05-finished-tasks-keep-the-callback-alive", "C05", "break", A, "            if task.done():\n                continue\n\n            should_retry = True\n            if task._must_cancel:", "            should_retry = True\n            if task.done():\n                continue\n\n            if task._must_cancel:", "issue #1111: a finished task that is still listed keeps the delivery callback rescheduling itself forever"),
    ("C05-rename-loop-var", "C05", "harmless", A, "        for task in self._tasks:\n            # Always skip tasks that are already done (see issue #1111)\n            if task.done():\n                continue\n\n            should_retry = True\n            if task._must_cancel:  # type: ignore[attr-defined]\n                continue", "        for tsk in self._tasks:\n            task = tsk\n            # Always skip tasks that are already done (see issue #1111)\n            if task.done():\n                continue\n\n            should_retry = True\n            if task._must_cancel:  # type: ignore[attr-defined]\n                continue", "loop variable renamed"),
]


def run_one(m, verbose=False):
    mid, prop, kind, rel, old, new, what = m
    scratch = tempfile.mkdtemp(prefix="segvc-mut-")
    try:
        shutil.copytree(os.path.join(REPO, "src"), os.path.join(scratch, "src"))
        path = os.path.join(scratch, rel)
        text = open(path, encoding="utf-8").read()
        if mid == "C10-F1-setter-overgrant":
            text = text.replace("        self._total_tokens = value\n\n        # Notify waiting", "        old_total = self._total_tokens\n        self._total_tokens = value\n\n        # Notify waiting", 1)
        if text.count(old) != 1:
            return mid, "stale", f"edit site not found exactly once ({text.count(old)})"
        open(path, "w", encoding="utf-8").write(text.replace(old, new))
        env = dict(os.environ, SEGVC_REPO=scratch, SEGVC_OUT=os.path.join(scratch, "out"))
        p = subprocess.run([sys.executable, "-m", "segvc", "check", prop], cwd=ROOT, env=env, capture_output=True, text=True)
        viol = [l for l in p.stdout.splitlines() if l.startswith("VIOLATION")]
        if kind == "break":
            ok = p.returncode == 1 and bool(viol)
        else:
            ok = p.returncode == 0 and not viol
        detail = f"exit={p.returncode} violations={len(viol)}"
        if viol:
            detail += " first=" + viol[0].split("obligation=")[-1]
        if not ok and verbose:
            detail += "\n" + p.stdout[-1500:] + p.stderr[-1500:]
        return mid, "ok" if ok else "WRONG", f"{kind}: {what}: {detail}"
    finally:
        shutil.rmtree(scratch, ignore_errors=True)


def main(argv):
    props = set(a for a in argv if not a.startswith("-"))
    verbose = "-v" in argv
    todo = [m for m in MUTANTS if not props or m[1] in props]
    from concurrent.futures import ThreadPoolExecutor

    bad = 0
    with ThreadPoolExecutor(max_workers=4) as ex:
        for mid, status, detail in ex.map(lambda m: run_one(m, verbose), todo):
            print(f"[{status}] {mid}: {detail}")
            if status != "ok":
                bad += 1
    print(f"mutants: {len(todo) - bad}/{len(todo)} behaved as expected")
    return 0 if bad == 0 else 1


if __name__ == "__main__":
    sys.exit(main(sys.argv[1:]))
