"""Models of the library operations the verified code uses (containers, asyncio objects,
backend checkpoints), the loop rule and the await rule.  These are the *assumed contracts* of
DESIGN.md section 3 (E1-E8) and the container table of section 2.3."""
from __future__ import annotations

import ast
import asyncio
import z3

from .core import (
    BOOL,
    BYTES,
    CLASSES,
    H,
    INF,
    INT,
    INTINF,
    NEG_INF,
    OBJ,
    OPTINT,
    REAL,
    STR,
    ArrT,
    DequeT,
    ListT,
    ODictT,
    PathEnd,
    RefT,
    SetT,
    Sym,
    TupT,
    Unsupported,
    is_ref,
    register_class,
)
from . import interp as I
from .interp import AwaitableVal, Builtin, ClassVal, ExcVal, NS, PyExc, exc_classes

# ----------------------------------------------------------------------------- env classes

PENDING, RESULT, EXC, CANCELLED = 0, 1, 2, 3

register_class("Future", {"state": INT, "result": OBJ, "exc": OBJ, "$awaited": BOOL}, kind="env")  # $awaited (ghost): some task has it as its _fut_waiter
register_class("AEvent", {"flag": BOOL}, kind="env")
register_class(
    "Task",
    {"done": BOOL, "must_cancel": BOOL, "fut_waiter": RefT("Future"), "started": BOOL, "cancelling": INT, "ncancel": INT, "nuncancel": INT, "pending_cancel": BOOL},
    kind="env",
)
register_class("Exc", {"kind": INT, "tagged": BOOL}, kind="env")  # exception objects that live in the heap (lists, futures)
register_class("Handle", {"cancelled": BOOL, "when": REAL, "cb": INT, "arg": INT}, kind="env")
register_class("Loop", {"time": REAL}, kind="env")

_strs: dict = {}


def str_id(s):
    if s not in _strs:
        _strs[s] = len(_strs) + 1
    return z3.IntVal(_strs[s])


# ----------------------------------------------------------------------------- exceptions


def exc_isinstance(ip, exc: ExcVal, pys):
    if exc.pycls is not None:
        return issubclass(exc.pycls, pys)
    # symbolic kind: closed universe SYM_KINDS
    ex = exc_classes()
    ids = []
    for i, nm in enumerate(I.SYM_KINDS):
        k = ex.get(nm) or getattr(__import__("builtins"), nm)
        if issubclass(k, pys):
            ids.append(i)
    if not ids:
        return False
    return z3.Or(*[exc.kind == i for i in ids])


def sym_exc(ip, base="exc", kinds=None):
    """an exception object about which only its kind (symbolic) is known"""
    st = ip.st
    k = st.fresh(base + "_kind", z3.IntSort())
    names = kinds or I.SYM_KINDS
    st.assume(z3.Or(*[k == I.kind_id(n) for n in names]))
    e = ExcVal(None, (), kind=k, tag=st.fresh(base + "_anyio", z3.BoolSort()))
    st.assume(z3.Implies(e.tag, k == I.kind_id("CancelledError")))
    return e


def new_cancelled(ip, tag=None):
    e = ExcVal(asyncio.CancelledError, ())
    if tag is None and ip.ctx.shield > 0:
        tag = z3.BoolVal(False)  # inside a shielded scope only a native Task.cancel() can interrupt
    e.tag = tag if tag is not None else ip.st.fresh("cancel_is_anyio", z3.BoolSort())
    return e


def exc_getattr(ip, exc, attr):
    if attr in exc.attrs:
        return exc.attrs[attr]
    if attr == "args":
        return exc.args
    if attr in ("__context__", "__cause__", "__traceback__"):
        return None
    r = ip.ctx.unit.model_getattr(ip, exc, attr)
    if r is not NotImplemented:
        return r
    raise Unsupported(f"exception attribute {attr}")


def kind_of_pycls(pycls):
    import asyncio as _a

    if issubclass(pycls, _a.CancelledError):
        return I.kind_id("CancelledError")
    if issubclass(pycls, BaseExceptionGroup):
        return I.kind_id("BaseExceptionGroup")
    if issubclass(pycls, KeyboardInterrupt):
        return I.kind_id("KeyboardInterrupt")
    if issubclass(pycls, Exception):
        return I.kind_id("Exception")
    return I.kind_id("BaseException")


def exc_ref(ip, e):
    """the heap identity of an exception object (assigned on first use; its class kind and AnyIO tag are recorded)"""
    if getattr(e, "ref", None) is None:
        st = ip.st
        r = st.alloc("Exc")  # a new exception object: distinct from every exception already in the heap
        st.put("Exc", "kind", r, e.kind if e.pycls is None else z3.IntVal(kind_of_pycls(e.pycls)))
        tag = e.tag if e.tag is not None else z3.BoolVal(False)
        st.put("Exc", "tagged", r, tag if not isinstance(tag, bool) else z3.BoolVal(tag))
        e.ref = r
    return e.ref


def exc_from_ref(ip, t):
    """an exception object read back from the heap: only its class kind and its AnyIO tag are known"""
    st = ip.st
    k = st.get("Exc", "kind", t)
    st.assume(z3.And(k >= 0, k < len(I.SYM_KINDS)))
    e = ExcVal(None, (), kind=k, tag=st.get("Exc", "tagged", t))
    st.assume(z3.Implies(e.tag, k == I.kind_id("CancelledError")))
    e.ref = t
    return e


def b_type(ip, x):
    if isinstance(x, ExcVal):
        return type_of_exc(ip, x)
    raise Unsupported("type() of a non-exception")


def type_of_exc(ip, exc):
    if exc.pycls is not None:
        return ClassVal(exc.pycls.__name__, pycls=exc.pycls)
    return Sym(exc.kind, INT)


def raise_(pycls_name, *args):
    ex = exc_classes()
    raise PyExc(ExcVal(ex[pycls_name], args))


# ----------------------------------------------------------------------------- class relations


def is_subclass(a, b):
    if a == b:
        return True
    todo = [a]
    seen = set()
    while todo:
        c = todo.pop()
        if c == b:
            return True
        if c in seen or c not in CLASSES:
            continue
        seen.add(c)
        todo.extend(CLASSES[c].bases)
    return False


def init_object(ip, info, ref):
    """called right after allocation, before __init__.  For a @dataclass without an explicit __init__ the generated
    constructor is modelled from the field declarations of the real class body (see dataclass_init)."""
    if "$live" in info.fields:
        ip.st.put(info.name, "$live", ref.t, z3.BoolVal(True))
    ip.ctx.unit.init_object(ip, info, ref)


def dataclass_fields(info):
    """(name, init?, default-expression-or-None, default_factory-expression-or-None) from the AnnAssign statements of
    the real class body, in declaration order"""
    from . import extract

    modpath, qual = info.source
    node = extract.module(modpath).get(qual)
    out = []
    for st in node.body:
        if isinstance(st, ast.AnnAssign) and isinstance(st.target, ast.Name):
            init, default, factory = True, None, None
            v = st.value
            if isinstance(v, ast.Call) and ast.unparse(v.func) == "field":
                for kw in v.keywords:
                    if kw.arg == "init":
                        init = bool(ast.literal_eval(kw.value))
                    elif kw.arg == "default":
                        default = kw.value
                    elif kw.arg == "default_factory":
                        factory = kw.value
            elif v is not None:
                default = v
            out.append((st.target.id, init, default, factory))
    return out


def dataclass_init(ip, info, ref, args, kwargs):
    """The constructor `dataclasses.dataclass` generates: init-fields are bound from the arguments in declaration
    order, the others get their default / default_factory() (a field without either stays unset), then
    __post_init__() runs.  (Assumed semantics of the dataclass decorator; the field list is re-read from the real
    class body on every run.)"""
    from .interp import Env

    modpath, _ = info.source
    args = list(args)
    kwargs = dict(kwargs)
    for name, init, default, factory in dataclass_fields(info):
        if init:
            if args:
                v = args.pop(0)
            elif name in kwargs:
                v = kwargs.pop(name)
            elif default is not None:
                v = ip.eval(default, Env({}), modpath)
            elif factory is not None:
                v = ip.call(ip.eval(factory, Env({}), modpath), [], {})
            else:
                raise Unsupported(f"missing dataclass argument {name}")
        elif default is not None:
            v = ip.eval(default, Env({}), modpath)
        elif factory is not None:
            v = ip.call(ip.eval(factory, Env({}), modpath), [], {})
        else:
            ip.ctx.unit.dataclass_unset(ip, info, ref, name)
            continue
        ip.setattr(ref, name, v)
    if args or kwargs:
        raise Unsupported("too many dataclass arguments")
    fm = ip.find_method(info.name, "__post_init__")
    if fm is not None:
        ip.call_function(fm[0], [ref], {})


# ----------------------------------------------------------------------------- containers


def _elem_term(ip, ci, v):
    return ip.term(v, ci.elem)


def _wf_elem(ip, ci, t):
    """memory safety: a reference read out of a container denotes an allocated object (or None)"""
    return


def _assume_wf(ip, d):
    """the container model keeps its own data-type invariant (counts are the true multiplicities):
    re-assumed after operations that remove elements"""
    from .core import H

    ip.st.assume(H(ip.st).dq(d.ty.cls, d.t).wf())


def _assume_wf_od(ip, d):
    from .core import H

    ip.st.assume(H(ip.st).od(d.ty.cls, d.t).wf())


def dq_append(ip, d, x):
    st, cn, ci = ip.st, d.ty.cls, CLASSES[d.ty.cls]
    e = _elem_term(ip, ci, x)
    hi = st.get(cn, "hi", d.t)
    st.put(cn, "data", d.t, z3.Store(st.get(cn, "data", d.t), hi, e))
    cnt = st.get(cn, "cnt", d.t)
    st.put(cn, "cnt", d.t, z3.Store(cnt, e, z3.Select(cnt, e) + 1))
    st.put(cn, "hi", d.t, hi + 1)


def dq_appendleft(ip, d, x):
    st, cn, ci = ip.st, d.ty.cls, CLASSES[d.ty.cls]
    e = _elem_term(ip, ci, x)
    lo = st.get(cn, "lo", d.t)
    st.put(cn, "data", d.t, z3.Store(st.get(cn, "data", d.t), lo - 1, e))
    cnt = st.get(cn, "cnt", d.t)
    st.put(cn, "cnt", d.t, z3.Store(cnt, e, z3.Select(cnt, e) + 1))
    st.put(cn, "lo", d.t, lo - 1)


def _dq_take(ip, d, left):
    st, cn, ci = ip.st, d.ty.cls, CLASSES[d.ty.cls]
    lo, hi = st.get(cn, "lo", d.t), st.get(cn, "hi", d.t)
    if ip.ctx.branch(lo == hi, "deque-empty"):
        raise_("IndexError", "pop from an empty deque")
    idx = lo if left else hi - 1
    e = z3.Select(st.get(cn, "data", d.t), idx)
    # name the element so that later formulas stay small
    ev = st.fresh("elem", ci.elem.sort())
    st.assume(ev == e)
    cnt = st.get(cn, "cnt", d.t)
    st.assume(z3.Select(cnt, ev) >= 1)
    st.put(cn, "cnt", d.t, z3.Store(cnt, ev, z3.Select(cnt, ev) - 1))
    if left:
        st.put(cn, "lo", d.t, lo + 1)
    else:
        st.put(cn, "hi", d.t, hi - 1)
    _assume_wf(ip, d)
    return ip.wrap(ev, ci.elem)


def dq_popleft(ip, d):
    return _dq_take(ip, d, True)


def dq_pop(ip, d, idx=None):
    if idx is None:
        return _dq_take(ip, d, False)
    if idx == 0:
        return _dq_take(ip, d, True)
    raise Unsupported("pop(i)")


def dq_remove(ip, d, x):
    st, cn, ci = ip.st, d.ty.cls, CLASSES[d.ty.cls]
    e = _elem_term(ip, ci, x)
    cnt = st.get(cn, "cnt", d.t)
    if not ip.ctx.branch(z3.Select(cnt, e) > 0, "remove-present"):
        raise_("ValueError", "x not in deque")
    lo, hi, data = st.get(cn, "lo", d.t), st.get(cn, "hi", d.t), st.get(cn, "data", d.t)
    k = st.fresh("k", z3.IntSort())
    j = z3.Int(st.uniq("j"))
    st.assume(z3.And(lo <= k, k < hi, z3.Select(data, k) == e))
    st.assume(z3.ForAll([j], z3.Implies(z3.And(lo <= j, j < k), z3.Select(data, j) != e)))
    nd = st.fresh("data", data.sort())
    j2 = z3.Int(st.uniq("j"))
    st.assume(z3.ForAll([j2], z3.Select(nd, j2) == z3.If(j2 < k, z3.Select(data, j2), z3.Select(data, j2 + 1))))
    st.put(cn, "data", d.t, nd)
    st.put(cn, "hi", d.t, hi - 1)
    st.put(cn, "cnt", d.t, z3.Store(cnt, e, z3.Select(cnt, e) - 1))
    _assume_wf(ip, d)


def dq_clear(ip, d):
    st, cn, ci = ip.st, d.ty.cls, CLASSES[d.ty.cls]
    st.put(cn, "lo", d.t, z3.IntVal(0))
    st.put(cn, "hi", d.t, z3.IntVal(0))
    st.put(cn, "cnt", d.t, z3.K(ci.elem.sort(), z3.IntVal(0)))


def dq_len(ip, d):
    st, cn = ip.st, d.ty.cls
    return Sym(st.get(cn, "hi", d.t) - st.get(cn, "lo", d.t), INT)


def set_add(ip, s, x):
    st, cn, ci = ip.st, s.ty.cls, CLASSES[s.ty.cls]
    e = _elem_term(ip, ci, x)
    mem = st.get(cn, "mem", s.t)
    st.put(cn, "card", s.t, st.get(cn, "card", s.t) + z3.If(z3.Select(mem, e), 0, 1))
    st.put(cn, "mem", s.t, z3.Store(mem, e, True))


def set_discard(ip, s, x):
    st, cn, ci = ip.st, s.ty.cls, CLASSES[s.ty.cls]
    e = _elem_term(ip, ci, x)
    mem = st.get(cn, "mem", s.t)
    st.put(cn, "card", s.t, st.get(cn, "card", s.t) - z3.If(z3.Select(mem, e), 1, 0))
    st.put(cn, "mem", s.t, z3.Store(mem, e, False))


def set_remove(ip, s, x):
    st, cn, ci = ip.st, s.ty.cls, CLASSES[s.ty.cls]
    e = _elem_term(ip, ci, x)
    mem = st.get(cn, "mem", s.t)
    if not ip.ctx.branch(z3.Select(mem, e), "set-remove-present"):
        raise_("KeyError", x)
    st.assume(st.get(cn, "card", s.t) >= 1)
    st.put(cn, "card", s.t, st.get(cn, "card", s.t) - 1)
    st.put(cn, "mem", s.t, z3.Store(mem, e, False))


def set_len(ip, s):
    return Sym(ip.st.get(s.ty.cls, "card", s.t), INT)


def set_clear(ip, s):
    st, cn, ci = ip.st, s.ty.cls, CLASSES[s.ty.cls]
    st.put(cn, "card", s.t, z3.IntVal(0))
    st.put(cn, "mem", s.t, z3.K(ci.elem.sort(), z3.BoolVal(False)))


def od_setitem(ip, d, k, v):
    st, cn, ci = ip.st, d.ty.cls, CLASSES[d.ty.cls]
    kt, vt = ip.term(k, ci.key), ip.term(v, ci.val)
    has = st.get(cn, "has", d.t)
    present = z3.Select(has, kt)
    hi = st.get(cn, "hi", d.t)
    kd = st.get(cn, "kdata", d.t)
    st.put(cn, "kdata", d.t, z3.If(present, kd, z3.Store(kd, hi, kt)))
    st.put(cn, "hi", d.t, z3.If(present, hi, hi + 1))
    st.put(cn, "has", d.t, z3.Store(has, kt, True))
    st.put(cn, "val", d.t, z3.Store(st.get(cn, "val", d.t), kt, vt))


def od_popitem(ip, d, last=True):
    st, cn, ci = ip.st, d.ty.cls, CLASSES[d.ty.cls]
    lo, hi = st.get(cn, "lo", d.t), st.get(cn, "hi", d.t)
    if ip.ctx.branch(lo == hi, "odict-empty"):
        raise_("KeyError", "dictionary is empty")
    if last is True:
        idx = hi - 1
    elif last is False:
        idx = lo
    else:
        raise Unsupported("popitem(last=<symbolic>)")
    k = st.fresh("key", ci.key.sort())
    st.assume(k == z3.Select(st.get(cn, "kdata", d.t), idx))
    has = st.get(cn, "has", d.t)
    st.assume(z3.Select(has, k))
    v = z3.Select(st.get(cn, "val", d.t), k)
    st.put(cn, "has", d.t, z3.Store(has, k, False))
    if last is True:
        st.put(cn, "hi", d.t, hi - 1)
    else:
        st.put(cn, "lo", d.t, lo + 1)
    _assume_wf_od(ip, d)
    return (ip.wrap(k, ci.key), ip.wrap(v, ci.val))


def _od_delete_key(ip, d, kt):
    """remove a present key from the key sequence (shift)"""
    st, cn = ip.st, d.ty.cls
    lo, hi, kd = st.get(cn, "lo", d.t), st.get(cn, "hi", d.t), st.get(cn, "kdata", d.t)
    p = st.fresh("pos", z3.IntSort())
    st.assume(z3.And(lo <= p, p < hi, z3.Select(kd, p) == kt))
    nd = st.fresh("kdata", kd.sort())
    j = z3.Int(st.uniq("j"))
    st.assume(z3.ForAll([j], z3.Select(nd, j) == z3.If(j < p, z3.Select(kd, j), z3.Select(kd, j + 1))))
    st.put(cn, "kdata", d.t, nd)
    st.put(cn, "hi", d.t, hi - 1)
    st.put(cn, "has", d.t, z3.Store(st.get(cn, "has", d.t), kt, False))
    _assume_wf_od(ip, d)


def od_pop(ip, d, k, *default):
    st, cn, ci = ip.st, d.ty.cls, CLASSES[d.ty.cls]
    kt = ip.term(k, ci.key)
    if ip.ctx.branch(z3.Select(st.get(cn, "has", d.t), kt), "odict-pop-present"):
        v = z3.Select(st.get(cn, "val", d.t), kt)
        _od_delete_key(ip, d, kt)
        return ip.wrap(v, ci.val)
    if default:
        return default[0]
    raise_("KeyError", k)


def od_getitem(ip, d, k):
    st, cn, ci = ip.st, d.ty.cls, CLASSES[d.ty.cls]
    kt = ip.term(k, ci.key)
    if ip.ctx.branch(z3.Select(st.get(cn, "has", d.t), kt), "odict-get-present"):
        return ip.wrap(z3.Select(st.get(cn, "val", d.t), kt), ci.val)
    raise_("KeyError", k)


def od_get(ip, d, k, default=None):
    st, cn, ci = ip.st, d.ty.cls, CLASSES[d.ty.cls]
    kt = ip.term(k, ci.key)
    if ip.ctx.branch(z3.Select(st.get(cn, "has", d.t), kt), "odict-get-present"):
        return ip.wrap(z3.Select(st.get(cn, "val", d.t), kt), ci.val)
    return default


def od_delitem(ip, d, k):
    st, cn, ci = ip.st, d.ty.cls, CLASSES[d.ty.cls]
    kt = ip.term(k, ci.key)
    if ip.ctx.branch(z3.Select(st.get(cn, "has", d.t), kt), "odict-del-present"):
        _od_delete_key(ip, d, kt)
        return
    raise_("KeyError", k)


def od_move_to_end(ip, d, k, last=True):
    st, cn, ci = ip.st, d.ty.cls, CLASSES[d.ty.cls]
    kt = ip.term(k, ci.key)
    if not ip.ctx.branch(z3.Select(st.get(cn, "has", d.t), kt), "odict-mte-present"):
        raise_("KeyError", k)
    if last is not True:
        raise Unsupported("move_to_end(last=False)")
    _od_delete_key(ip, d, kt)
    hi = st.get(cn, "hi", d.t)
    st.put(cn, "kdata", d.t, z3.Store(st.get(cn, "kdata", d.t), hi, kt))
    st.put(cn, "hi", d.t, hi + 1)
    st.put(cn, "has", d.t, z3.Store(st.get(cn, "has", d.t), kt, True))


def od_clear(ip, d):
    st, cn, ci = ip.st, d.ty.cls, CLASSES[d.ty.cls]
    st.put(cn, "lo", d.t, z3.IntVal(0))
    st.put(cn, "hi", d.t, z3.IntVal(0))
    st.put(cn, "has", d.t, z3.K(ci.key.sort(), z3.BoolVal(False)))


def od_len(ip, d):
    st, cn = ip.st, d.ty.cls
    return Sym(st.get(cn, "hi", d.t) - st.get(cn, "lo", d.t), INT)


class KeysVal:
    def __init__(self, od):
        self.od = od


def od_keys(ip, d):
    return KeysVal(d)


# bytes / bytearray ---------------------------------------------------------------
# A bytes value is a z3 String term (a sequence; only its structure matters, not the alphabet).  A bytearray is a heap
# object holding one.  Slices with non-negative bounds are exactly str.substr (which clips like Python does); a
# possibly negative bound is outside the modelled subset (the units exclude it by precondition).

register_class("ByteArray", {"val": BYTES}, kind="bytearray")
BA = RefT("ByteArray")


def _nonneg(ip, v, what):
    if v is None:
        return None
    if isinstance(v, int):
        if v < 0:
            raise Unsupported(f"negative {what}")
        return z3.IntVal(v)
    if isinstance(v, Sym) and v.ty is INT:
        if ip.st.feasible(v.t < 0):
            raise Unsupported(f"possibly negative {what} (needs a precondition)")
        return v.t
    raise Unsupported(f"slice bound {v!r}")


def seq_slice(ip, t, sl):
    if sl.step is not None:
        raise Unsupported("slice step")
    lo = _nonneg(ip, sl.start, "slice start")
    hi = _nonneg(ip, sl.stop, "slice stop")
    lo = lo if lo is not None else z3.IntVal(0)
    if hi is None:
        return z3.SubString(t, lo, z3.Length(t))
    return z3.SubString(t, lo, hi - lo)


def ba_val(ip, b):
    return ip.st.get("ByteArray", "val", b.t)


def ba_extend(ip, b, data):
    ip.st.put("ByteArray", "val", b.t, z3.Concat(ba_val(ip, b), bytes_term(ip, data)))


OCC = z3.Function("occ", z3.StringSort(), z3.StringSort(), z3.IntSort(), z3.BoolSort())


def occ(buf, sub, j):
    """`sub` occurs in `buf` at position j (j >= 0 and buf[j:j+len(sub)] == sub)"""
    return OCC(buf, sub, j)


def occ_definition(st):
    b, d = z3.String(st.uniq("b")), z3.String(st.uniq("d"))
    j = z3.Int(st.uniq("j"))
    return z3.ForAll([b, d, j], OCC(b, d, j) == z3.And(j >= 0, z3.SubString(b, j, z3.Length(d)) == d), patterns=[OCC(b, d, j)])


def occ_prefix_lemma(st):
    """an occurrence that lies wholly inside the first part of a concatenation is an occurrence in that part (and vice
    versa).  A lemma about sequences, discharged on its own by the unit `SeqLemmas` of specs/c16_buffered.py and assumed
    as an axiom elsewhere (E-matching cannot find it: the term occ(b, d, j) does not occur in the goals)."""
    b, x, d = z3.String(st.uniq("b")), z3.String(st.uniq("x")), z3.String(st.uniq("d"))
    j = z3.Int(st.uniq("j"))
    return z3.ForAll([b, x, d, j], z3.Implies(z3.And(j >= 0, j + z3.Length(d) <= z3.Length(b)), OCC(z3.Concat(b, x), d, j) == OCC(b, d, j)), patterns=[OCC(z3.Concat(b, x), d, j)])


def ba_find(ip, b, sub, start=0):
    """bytearray.find(sub, start): the *first-occurrence contract* of CPython's find (E10-find, assumed): the result is
    -1 or a position >= start at which `sub` occurs, and `sub` occurs at no position in [start, result) -- nowhere at or
    after start when the result is -1."""
    st = ip.st
    off = _nonneg(ip, start, "find() start")
    buf, d = ba_val(ip, b), bytes_term(ip, sub)
    r = st.fresh("found", z3.IntSort())
    j = z3.Int(st.uniq("j"))
    st.assume(z3.Or(r == -1, z3.And(r >= off, occ(buf, d, r))))
    st.assume(z3.ForAll([j], z3.Implies(z3.And(j >= off, z3.Or(r == -1, j < r)), z3.Not(occ(buf, d, j))), patterns=[occ(buf, d, j)]))
    return Sym(r, INT)


def ba_len(ip, b):
    return Sym(z3.Length(ba_val(ip, b)), INT)


def bytes_term(ip, v):
    if isinstance(v, Sym) and v.ty is BYTES:
        return v.t
    if is_ref(v) and v.ty.cls == "ByteArray":
        return ba_val(ip, v)
    if isinstance(v, bytes):
        return ip.term(v)
    raise Unsupported(f"not a bytes value: {v!r}")


def b_bytes(ip, x=b""):
    return Sym(bytes_term(ip, x), BYTES)


def b_bytearray(ip, x=b""):
    r = Sym(ip.st.alloc("ByteArray"), BA)
    ip.st.put("ByteArray", "val", r.t, bytes_term(ip, x))
    return r


# asyncio.Future -------------------------------------------------------------


def fut_state(ip, f):
    s = ip.st.get("Future", "state", f.t)
    ip.st.assume(z3.And(s >= PENDING, s <= CANCELLED))  # the four states of an asyncio.Future
    return s


def fut_cancelled(ip, f):
    return Sym(fut_state(ip, f) == CANCELLED, BOOL)


def fut_done(ip, f):
    return Sym(fut_state(ip, f) != PENDING, BOOL)


def fut_set_result(ip, f, v):
    if not ip.ctx.branch(fut_state(ip, f) == PENDING, "fut-pending"):
        raise_("InvalidStateError", "invalid state")
    ip.st.put("Future", "state", f.t, z3.IntVal(RESULT))
    ip.st.put("Future", "result", f.t, ip.term(v, OBJ))
    ip.ctx.unit.on_future_resolved(ip, f)


def fut_set_exception(ip, f, e):
    if not ip.ctx.branch(fut_state(ip, f) == PENDING, "fut-pending"):
        raise_("InvalidStateError", "invalid state")
    ip.st.put("Future", "state", f.t, z3.IntVal(EXC))
    ip.st.put("Future", "exc", f.t, ip.term(e, OBJ))
    ip.ctx.unit.note_future_exception(ip, f, e)


def fut_cancel(ip, f, msg=None):
    if not ip.ctx.branch(fut_state(ip, f) == PENDING, "fut-pending"):
        return False
    ip.st.put("Future", "state", f.t, z3.IntVal(CANCELLED))
    return True


def fut_result(ip, f):
    s = fut_state(ip, f)
    if ip.ctx.branch(s == RESULT, "fut-has-result"):
        return Sym(ip.st.get("Future", "result", f.t), OBJ)
    if ip.ctx.branch(s == CANCELLED, "fut-cancelled"):
        raise PyExc(new_cancelled(ip))
    if ip.ctx.branch(s == EXC, "fut-has-exc"):
        raise PyExc(ip.ctx.unit.future_exception(ip, f))
    raise_("InvalidStateError", "Result is not ready.")


def new_future(ip, *a, **k):
    r = Sym(ip.st.alloc("Future"), RefT("Future"))
    ip.st.put("Future", "state", r.t, z3.IntVal(PENDING))
    ip.st.put("Future", "$awaited", r.t, z3.BoolVal(False))
    return r


# asyncio.Event ----------------------------------------------------------------


def new_aevent(ip):
    r = Sym(ip.st.alloc("AEvent"), RefT("AEvent"))
    ip.st.put("AEvent", "flag", r.t, z3.BoolVal(False))
    return r


def aev_set(ip, e):
    ip.st.put("AEvent", "flag", e.t, z3.BoolVal(True))


def aev_is_set(ip, e):
    return Sym(ip.st.get("AEvent", "flag", e.t), BOOL)


def aev_wait(ip, e):
    return AwaitableVal("aevent_wait", e)


# asyncio.Task (E3) -------------------------------------------------------------


def task_cancelling(ip, t):
    c = ip.st.get("Task", "cancelling", t.t)
    ip.st.assume(c >= 0)
    return Sym(c, INT)


def task_has_pending_cancellation(ip, t):
    """AsyncIOTaskInfo.has_pending_cancellation() of the task identified by `t` (TaskInfo is modelled as the task's
    identity): an environment fact that may change at every suspension point"""
    return Sym(ip.st.get("Task", "pending_cancel", t.t), BOOL)


def task_cancel(ip, t, msg=None):
    """E3: Task.cancel() on a task that is not done: one more cancellation request; the future the task is waiting on
    is cancelled if it is still pending, otherwise the task is marked to be cancelled at its next step"""
    st = ip.st
    if ip.ctx.branch(st.get("Task", "done", t.t), "task-done"):
        return False
    st.put("Task", "ncancel", t.t, st.get("Task", "ncancel", t.t) + 1)
    st.put("Task", "cancelling", t.t, st.get("Task", "cancelling", t.t) + 1)
    w = st.get("Task", "fut_waiter", t.t)
    pending = z3.And(w != 0, st.get("Future", "state", w) == PENDING)
    fs = st.arr("Future", "state")
    st.put("Future", "state", w, z3.If(pending, z3.IntVal(CANCELLED), z3.Select(fs, w)))
    st.put("Task", "must_cancel", t.t, z3.If(pending, st.get("Task", "must_cancel", t.t), z3.BoolVal(True)))
    return True


def task_done(ip, t):
    return Sym(ip.st.get("Task", "done", t.t), BOOL)


MODEL_METHODS = {
    "deque": {
        "append": dq_append,
        "appendleft": dq_appendleft,
        "popleft": dq_popleft,
        "pop": dq_pop,
        "remove": dq_remove,
        "clear": dq_clear,
        "__len__": dq_len,
    },
    "set": {"add": set_add, "discard": set_discard, "remove": set_remove, "clear": set_clear, "__len__": set_len},
    "odict": {
        "popitem": od_popitem,
        "pop": od_pop,
        "get": od_get,
        "keys": od_keys,
        "move_to_end": od_move_to_end,
        "clear": od_clear,
        "__len__": od_len,
    },
    "Future": {
        "cancelled": fut_cancelled,
        "done": fut_done,
        "set_result": fut_set_result,
        "set_exception": fut_set_exception,
        "cancel": fut_cancel,
        "result": fut_result,
    },
    "AEvent": {"set": aev_set, "is_set": aev_is_set, "wait": aev_wait},
    "bytearray": {"extend": ba_extend, "find": ba_find, "__len__": ba_len},
    "Task": {"cancelling": task_cancelling, "done": task_done, "has_pending_cancellation": task_has_pending_cancellation, "cancel": task_cancel},
}


def find_model_method(ci, attr):
    tbl = MODEL_METHODS.get(ci.kind) or MODEL_METHODS.get(ci.name)
    if tbl and attr in tbl:
        return tbl[attr]
    return None


def model_getattr(ip, obj, attr):
    return ip.ctx.unit.model_getattr(ip, obj, attr)


def model_setattr(ip, obj, attr, val):
    return ip.ctx.unit.model_setattr(ip, obj, attr, val)


def class_getattr(ip, cv, attr):
    return ip.ctx.unit.class_getattr(ip, cv, attr)


def construct_model(ip, cv, args, kwargs):
    return NotImplemented


def call_opaque(ip, f, args, kwargs):
    return ip.ctx.unit.call_opaque(ip, f, args, kwargs)


def del_attr(ip, obj, attr):
    return ip.ctx.unit.del_attr(ip, obj, attr)


def get_item(ip, obj, idx):
    if isinstance(obj, tuple) and isinstance(idx, int):
        return obj[idx]
    if isinstance(idx, slice) and ((isinstance(obj, Sym) and obj.ty is BYTES) or (is_ref(obj) and obj.ty.cls == "ByteArray") or isinstance(obj, bytes)):
        t = seq_slice(ip, bytes_term(ip, obj), idx)
        if is_ref(obj):  # a slice of a bytearray is a new bytearray
            r = Sym(ip.st.alloc("ByteArray"), BA)
            ip.st.put("ByteArray", "val", r.t, t)
            return r
        return Sym(t, BYTES)
    if is_ref(obj):
        ci = CLASSES[obj.ty.cls]
        if ci.kind == "odict":
            return od_getitem(ip, obj, idx)
        if ci.kind == "deque":
            st, cn = ip.st, ci.name
            lo, hi = st.get(cn, "lo", obj.t), st.get(cn, "hi", obj.t)
            if isinstance(idx, int) and idx < 0:
                pos = hi + idx
            else:
                pos = lo + ip.term(idx, INT)
            if not ip.ctx.branch(z3.And(lo <= pos, pos < hi), "index-in-range"):
                raise_("IndexError", "index out of range")
            return ip.wrap(z3.Select(st.get(cn, "data", obj.t), pos), ci.elem)
    r = ip.ctx.unit.get_item(ip, obj, idx)
    if r is not NotImplemented:
        return r
    raise Unsupported(f"subscript of {obj!r}")


def set_item(ip, obj, idx, v):
    if is_ref(obj):
        ci = CLASSES[obj.ty.cls]
        if ci.kind == "odict":
            ip.ctx.unit.before_container_store(ip, obj, idx, v)  # ghost bookkeeping of the unit, if any
            return od_setitem(ip, obj, idx, v)
    r = ip.ctx.unit.set_item(ip, obj, idx, v)
    if r is not NotImplemented:
        return r
    raise Unsupported(f"subscript store on {obj!r}")


def del_item(ip, obj, idx):
    if is_ref(obj) and obj.ty.cls == "ByteArray" and isinstance(idx, slice):
        # del b[lo:hi]  ==  b = b[:lo] + b[hi:]
        if idx.step is not None:
            raise Unsupported("slice step")
        v = ba_val(ip, obj)
        lo = _nonneg(ip, idx.start, "slice start")
        hi = _nonneg(ip, idx.stop, "slice stop")
        lo = lo if lo is not None else z3.IntVal(0)
        n = z3.Length(v)
        tail = z3.StringVal("") if hi is None else z3.SubString(v, z3.If(hi >= lo, hi, lo), n)
        ip.st.put("ByteArray", "val", obj.t, z3.Concat(z3.SubString(v, 0, lo), tail))
        return None
    if is_ref(obj):
        ci = CLASSES[obj.ty.cls]
        if ci.kind == "odict":
            return od_delitem(ip, obj, idx)
    r = ip.ctx.unit.del_item(ip, obj, idx)
    if r is not NotImplemented:
        return r
    raise Unsupported(f"del subscript on {obj!r}")


def contains(ip, container, x):
    if isinstance(container, (str, bytes)) and isinstance(x, type(container)):
        return x in container  # two constants
    if isinstance(container, tuple):
        cs = [ip.equal(x, y) for y in container]
        if any(c is True for c in cs):
            return True
        ts = [c for c in cs if c is not False]
        return z3.Or(*ts) if ts else False
    if is_ref(container):
        ci = CLASSES[container.ty.cls]
        st, cn = ip.st, ci.name
        if ci.kind == "set":
            return z3.Select(st.get(cn, "mem", container.t), ip.term(x, ci.elem))
        if ci.kind == "deque":
            return z3.Select(st.get(cn, "cnt", container.t), ip.term(x, ci.elem)) > 0
        if ci.kind == "odict":
            return z3.Select(st.get(cn, "has", container.t), ip.term(x, ci.key))
    r = ip.ctx.unit.contains(ip, container, x)
    if r is not NotImplemented:
        return r
    raise Unsupported(f"`in` on {container!r}")


def binop(ip, op, a, b):
    return ip.ctx.unit.binop(ip, op, a, b)


def compare(ip, op, a, b):
    return ip.ctx.unit.compare(ip, op, a, b)


def inplace(ip, op, cur, rhs):
    return ip.ctx.unit.inplace(ip, op, cur, rhs)


def floordiv(ip, a, b):
    # Python floor division; z3 div is Euclidean: agree when b > 0
    if not ip.ctx.branch(b != 0, "div-nonzero"):
        raise_("ZeroDivisionError", "division by zero")
    if ip.st.feasible(b < 0):
        raise Unsupported("floor division by a possibly negative number")
    return Sym(a / b, INT)


def mod(ip, a, b):
    if not ip.ctx.branch(b != 0, "mod-nonzero"):
        raise_("ZeroDivisionError", "modulo by zero")
    if ip.st.feasible(b < 0):
        raise Unsupported("modulo by a possibly negative number")
    mt = getattr(ip.ctx.unit, "mod_term", None)  # a unit may keep `%` uninterpreted (symbolic divisor: nonlinear)
    return Sym(mt(a, b) if mt is not None else a % b, INT)


def unpack(ip, v, n):
    return NotImplemented


def unpack_star(ip, v):
    h = getattr(ip.ctx.unit, "unpack_star", None)
    return h(ip, v) if h is not None else NotImplemented


def make_list(ip, elems):
    return ip.ctx.unit.make_list(ip, elems)


def list_comp(ip, e, env, mp):
    return ip.ctx.unit.list_comp(ip, e, env, mp)


def make_generator(ip, f, env):
    return ip.ctx.unit.make_generator(ip, f, env)


def do_yield(ip, v):
    return ip.ctx.unit.do_yield(ip, v)


# ----------------------------------------------------------------------------- builtins


def b_len(ip, x):
    if isinstance(x, (tuple, str, bytes)):
        return len(x)
    if isinstance(x, Sym) and x.ty is BYTES:
        return Sym(z3.Length(x.t), INT)
    if is_ref(x) and x.ty.cls == "ByteArray":
        return ba_len(ip, x)
    if is_ref(x):
        ci = CLASSES[x.ty.cls]
        m = find_model_method(ci, "__len__")
        if m:
            return m(ip, x)
        fm = ip.find_method(ci.name, "__len__")
        if fm:
            return ip.call_function(fm[0], [x], {})
    raise Unsupported(f"len of {x!r}")


def b_isinstance(ip, x, cls):
    r = ip.ctx.unit.isinstance(ip, x, cls)
    if r is not NotImplemented:
        return r
    classes = cls if isinstance(cls, tuple) else (cls,)
    if isinstance(x, ExcVal):
        pys = tuple(c.pycls for c in classes if isinstance(c, ClassVal) and c.pycls is not None)
        if len(pys) != len(classes):
            return False
        r = exc_isinstance(ip, x, pys)
        return r if isinstance(r, bool) else Sym(r, BOOL)
    names = [c.name for c in classes if isinstance(c, ClassVal)]
    if x is None:
        return False
    if isinstance(x, bool):
        return "bool" in names or "int" in names
    if isinstance(x, int):
        return "int" in names
    if isinstance(x, float):
        return "float" in names
    if isinstance(x, str):
        return "str" in names
    if isinstance(x, Sym):
        if x.ty is INT:
            return "int" in names
        if x.ty is OPTINT:
            return Sym(x.t != -1, BOOL) if "int" in names else False
        if x.ty is INTINF:
            return Sym(x.t != -1, BOOL) if "int" in names else ("float" in names and Sym(x.t == -1, BOOL))
        if x.ty is REAL:
            return "float" in names  # symbolic reals stand for non-int float arguments
        if x.ty is BOOL:
            return "bool" in names or "int" in names
        if x.ty is STR:
            return "str" in names
        if isinstance(x.ty, RefT):
            for c in classes:
                if isinstance(c, ClassVal) and c.info is not None and is_subclass(x.ty.cls, c.info.name):
                    return Sym(x.t != 0, BOOL)
            if all(isinstance(c, ClassVal) and (c.info is not None or c.pycls is not None) for c in classes):
                return False
    raise Unsupported(f"isinstance({x!r}, {cls!r})")


def b_max(ip, *args):
    if len(args) == 1:
        raise Unsupported("max(iterable)")
    acc = args[0]
    for b in args[1:]:
        acc = _minmax(ip, acc, b, True)
    return acc


def b_min(ip, *args):
    if len(args) == 1:
        raise Unsupported("min(iterable)")
    acc = args[0]
    for b in args[1:]:
        acc = _minmax(ip, acc, b, False)
    return acc


def _minmax(ip, a, b, is_max):
    if I._is_pynum(a) and I._is_pynum(b):
        return max(a, b) if is_max else min(a, b)
    for x, y in ((a, b), (b, a)):
        if isinstance(x, float) and x in (float("inf"), float("-inf")) and isinstance(y, Sym):
            big = x == float("inf")
            return x if big == is_max else y
    real = any(isinstance(v, float) or (isinstance(v, Sym) and v.ty is REAL) for v in (a, b))
    ty = REAL if real else INT
    ta, tb = ip.term(a, ty), ip.term(b, ty)
    # python: max(a, b) returns a unless b > a ; min(a, b) returns a unless b < a
    return Sym(z3.If(tb > ta, tb, ta) if is_max else z3.If(tb < ta, tb, ta), ty)


def b_id(ip, x):
    if is_ref(x):
        return Sym(x.t, INT)
    if x is None:
        return 0
    return Sym(ip.st.fresh("id", z3.IntSort()), INT)


def b_cast(ip, ty, v):
    return v


def b_current_task(ip, *a):
    return ip.ctx.cur


def b_bool(ip, x=False):
    t = ip.truth(x)
    return t if isinstance(t, bool) else Sym(t, BOOL)


def b_float(ip, x):
    if isinstance(x, (int, float)):
        return float(x)
    if isinstance(x, Sym) and x.ty is INT:
        return Sym(z3.ToReal(x.t), REAL)
    if isinstance(x, Sym) and x.ty is REAL:
        return x
    raise Unsupported("float()")


def b_tuple(ip, x=()):
    if isinstance(x, tuple):
        return x
    r = ip.ctx.unit.to_tuple(ip, x)
    if r is not NotImplemented:
        return r
    raise Unsupported("tuple()")


def b_isinf(ip, x):
    if isinstance(x, (int, float)):
        import math

        return math.isinf(x)
    if isinstance(x, Sym) and x.ty is INT:
        return False
    if isinstance(x, Sym) and x.ty is INTINF:
        return Sym(x.t == -1, BOOL)
    if isinstance(x, Sym) and x.ty is REAL:
        return False  # symbolic reals are finite (interp.split_real)
    raise Unsupported("isinf")


def b_checkpoint(ip):
    return AwaitableVal("checkpoint")


def b_checkpoint_if_cancelled(ip):
    return AwaitableVal("checkpoint_if_cancelled")


def b_cancel_shielded_checkpoint(ip):
    return AwaitableVal("cancel_shielded_checkpoint")


def b_super(ip, *a):
    if a:
        raise Unsupported("super(args)")
    f, env = ip.ctx.frames[-1]
    if f.owner is None:
        raise Unsupported("super() outside a method")
    first = (f.node.args.posonlyargs + f.node.args.args)[0].arg
    return I.SuperVal(f.owner, env.vars[first])


class RangeVal:
    def __init__(self, start, stop):
        self.start, self.stop = start, stop


def b_range(ip, *a):
    if len(a) == 1:
        return RangeVal(0, a[0])
    if len(a) == 2:
        return RangeVal(a[0], a[1])
    raise Unsupported("range with a step")


def b_list(ip, x=None):
    """list(<OrderedDict>.keys()): a new list holding the keys in order (snapshot)"""
    if x is None:
        return I.EmptyLit(("deque",))
    if isinstance(x, KeysVal):
        st, d = ip.st, x.od
        ci = CLASSES[d.ty.cls]
        lt = ListT(ci.key)
        cn = lt.cls
        r = Sym(st.alloc(cn), lt)
        st.put(cn, "data", r.t, st.get(ci.name, "kdata", d.t))
        st.put(cn, "lo", r.t, st.get(ci.name, "lo", d.t))
        st.put(cn, "hi", r.t, st.get(ci.name, "hi", d.t))
        cnt = st.fresh("cnt", z3.ArraySort(ci.key.sort(), z3.IntSort()))
        k = z3.Const(st.uniq("k"), ci.key.sort())
        has = st.get(ci.name, "has", d.t)
        st.assume(z3.ForAll([k], z3.Select(cnt, k) == z3.If(z3.Select(has, k), 1, 0), patterns=[z3.Select(cnt, k)]))
        st.put(cn, "cnt", r.t, cnt)
        return r
    raise Unsupported("list(iterable)")


def b_deque(ip, *a):
    if a:
        raise Unsupported("deque(iterable)")
    return I.EmptyLit(("deque",))


def b_set(ip, *a):
    if a:
        raise Unsupported("set(iterable)")
    return I.EmptyLit(("set",))


def b_odict(ip, *a):
    if a:
        raise Unsupported("OrderedDict(iterable)")
    return I.EmptyLit(("odict",))


def new_empty(ip, ty):
    st, ci = ip.st, CLASSES[ty.cls]
    r = Sym(st.alloc(ty.cls), ty)
    if ci.kind == "deque":
        dq_clear(ip, r)
    elif ci.kind == "set":
        set_clear(ip, r)
    elif ci.kind == "odict":
        od_clear(ip, r)
    else:
        raise Unsupported(f"empty literal of {ty}")
    return r


GLOBALS = {
    "len": Builtin("len", b_len),
    "isinstance": Builtin("isinstance", b_isinstance),
    "max": Builtin("max", b_max),
    "min": Builtin("min", b_min),
    "id": Builtin("id", b_id),
    "cast": Builtin("cast", b_cast),
    "bool": Builtin("bool", b_bool),
    "float": Builtin("float", b_float),
    "tuple": Builtin("tuple", b_tuple),
    "current_task": Builtin("current_task", b_current_task),
    "deque": Builtin("deque", b_deque),
    "list": Builtin("list", b_list),
    "type": Builtin("type", b_type),
    "bytes": Builtin("bytes", b_bytes),
    "bytearray": Builtin("bytearray", b_bytearray),
    "range": Builtin("range", b_range),
    "super": Builtin("super", b_super),
    "set": Builtin("set", b_set),
    "OrderedDict": Builtin("OrderedDict", b_odict),
    "TYPE_CHECKING": False,
    "int": ClassVal("int"),
    "str": ClassVal("str"),
    "object": ClassVal("object"),
    "math": NS("math", {"inf": float("inf"), "isinf": Builtin("isinf", b_isinf)}),
    "asyncio": NS(
        "asyncio",
        {
            "Future": Builtin("asyncio.Future", new_future),
            "Task": ClassVal("Task"),
            "Event": Builtin("asyncio.Event", new_aevent),
            "CancelledError": ClassVal("CancelledError", pycls=asyncio.CancelledError),
            "InvalidStateError": ClassVal("InvalidStateError", pycls=asyncio.InvalidStateError),
        },
    ),
    "AsyncIOBackend": NS(
        "AsyncIOBackend",
        {
            "checkpoint": Builtin("checkpoint", b_checkpoint),
            "checkpoint_if_cancelled": Builtin("checkpoint_if_cancelled", b_checkpoint_if_cancelled),
            "cancel_shielded_checkpoint": Builtin("cancel_shielded_checkpoint", b_cancel_shielded_checkpoint),
        },
    ),
}


# ----------------------------------------------------------------------------- suspension / await


def suspend(ip, what, payload=None):
    """A real suspension point: obligations (invariants), havoc, assume (E1/E2)."""
    ctx = ip.ctx
    ctx.unit.before_suspend(ip, what, payload)
    ctx.st.havoc()
    if ctx.st.writes is not None:
        for w in ctx.st.writes:
            w.add(("*", "*"))
    ctx.flags["suspended"] += 1
    ctx.flags["yielded"] = True
    ctx.unit.after_resume(ip, what, payload)


def await_ref(ip, v):
    cn = v.ty.cls
    if cn == "Future":
        return await_future(ip, v)
    raise Unsupported(f"await of a {cn}")


def await_future(ip, fut):
    """E2: await of an asyncio.Future."""
    ctx = ip.ctx
    s = fut_state(ip, fut)
    if ctx.branch(s == PENDING, "fut-pending-at-await"):
        suspend(ip, "future", fut)
        s = fut_state(ip, fut)
        ctx.assume(s != PENDING)
        out = ctx.decide(2, "resume")  # 0: according to the future's state; 1: E2(d) cancelled although done
        if out == 1:
            # (d) Task.cancel() arrived after the future was resolved, before the wake-up ran
            ctx.assume(z3.Or(s == RESULT, s == EXC))
            ctx.labels.append("E2d")
            raise PyExc(new_cancelled(ip, tag=z3.BoolVal(False)))
    if ctx.branch(s == RESULT, "fut-result"):
        return Sym(ip.st.get("Future", "result", fut.t), OBJ)
    if ctx.branch(s == CANCELLED, "fut-cancelled"):
        raise PyExc(new_cancelled(ip))
    raise PyExc(ctx.unit.future_exception(ip, fut))


def await_model(ip, aw: AwaitableVal):
    ctx = ip.ctx
    k = aw.kind
    if k in ("checkpoint", "checkpoint_if_cancelled"):
        ctx.unit.on_cancellation_check(ip, k)
    if k == "checkpoint":
        ctx.flags["checked"] = True
        suspend(ip, "checkpoint")
        if ctx.decide(2, "checkpoint") == 1:
            raise PyExc(new_cancelled(ip))
        return None
    if k == "checkpoint_if_cancelled":
        eff = ctx.unit.eff_cancelled(ip)
        if ctx.branch(eff, "eff-cancelled"):
            suspend(ip, "checkpoint_if_cancelled")
            raise PyExc(new_cancelled(ip, tag=z3.BoolVal(True)))
        ctx.flags["checked"] = True
        return None
    if k == "cancel_shielded_checkpoint":
        suspend(ip, "cancel_shielded_checkpoint")
        if ctx.decide(2, "shielded-ckpt") == 1:
            # only a native Task.cancel() can do this (E2(d)/E8)
            raise PyExc(new_cancelled(ip, tag=z3.BoolVal(False)))
        return None
    if k == "aevent_wait":
        ev = aw.payload
        flag = ip.st.get("AEvent", "flag", ev.t)
        if ctx.branch(flag, "aevent-already-set"):
            return True
        suspend(ip, "aevent", ev)
        if ctx.decide(2, "aevent-resume") == 0:
            ctx.assume(ip.st.get("AEvent", "flag", ev.t))
            return True
        # cancelled while waiting: the flag may or may not have been set meanwhile
        raise PyExc(new_cancelled(ip))
    r = ctx.unit.await_model(ip, aw)
    if r is not NotImplemented:
        return r
    raise Unsupported(f"await model {k}")


# ----------------------------------------------------------------------------- loops


def assigned_names(nodes):
    out = set()
    for node in nodes:
        for n in ast.walk(node):
            if isinstance(n, ast.Name) and isinstance(n.ctx, (ast.Store, ast.Del)):
                out.add(n.id)
    return out


def generalize(ip, v, hint=None):
    st = ip.st
    if isinstance(v, Sym):
        return Sym(st.fresh("lv", v.ty.sort()), v.ty)
    if hint is not None:
        return Sym(st.fresh("lv", hint.sort()), hint)
    if isinstance(v, bool):
        return Sym(st.fresh("lv", z3.BoolSort()), BOOL)
    if isinstance(v, int):
        return Sym(st.fresh("lv", z3.IntSort()), INT)
    if isinstance(v, tuple):
        return tuple(generalize(ip, x) for x in v)
    if isinstance(v, ExcVal):
        return v
    raise Unsupported(f"cannot generalise loop-carried local {v!r}; give a type hint")


def exec_loop(ip, s, env, f):
    ctx, st = ip.ctx, ip.st
    ordinal = ip.loop_ordinal(s, f)
    spec = ctx.unit.loop_spec(f.qualname, ordinal)
    if spec is None:
        spec = ctx.unit.loop_spec_by_shape(s, f)
    if spec is None:
        raise Unsupported(f"loop {ordinal} of {f.qualname} has no invariant")
    if not isinstance(s, ast.While):
        if spec._exec_for is None and isinstance(s, (ast.For, ast.AsyncFor)):
            return exec_for_std(spec, ip, s, env, f, ordinal)
        return spec.exec_for(ip, s, env, f, ordinal)
    tag = f"{f.qualname}/loop{ordinal}"
    # two-state loop invariants may refer to the state at loop entry
    ctx.loop_entry = H(st, st.snapshot())
    for name, t in spec.inv(ip, env):
        ctx.oblige(f"{tag}:{name}:entry", t, "loop")
    # havoc what the loop may change
    names = assigned_names([s.test] + s.body)
    for nm in sorted(names):
        if nm in env.vars:
            if nm in spec.gen_locals:
                env.vars[nm] = spec.gen_locals[nm](ip, env.vars[nm])
            else:
                env.vars[nm] = generalize(ip, env.vars[nm], spec.local_types.get(nm))
    st.havoc(keys=spec.modifies)
    spec.after_havoc(ip, env)
    for name, t in spec.inv(ip, env):
        st.assume(t)
    c = ip.eval_cond(s.test, env, f)
    if not c:
        ip.exec_block(s.orelse, env, f)
        return
    if st.writes is None:
        st.writes = []
    wset = set()
    st.writes.append(wset)

    def frame_check():
        st.writes.remove(wset)
        if not st.writes:
            st.writes = None
        if spec.modifies is not None:
            extra = {w for w in wset if w not in spec.modifies and w[0] != "$"}
            if extra:
                ctx.fail(f"{tag}:frame", "frame", f"loop body writes {sorted(extra)} outside its declared frame")

    try:
        try:
            ip.exec_block(s.body, env, f)
        except I._Continue:
            pass
    except I._Break:
        # writes on paths that leave the loop need not be in the loop frame
        st.writes.remove(wset)
        if not st.writes:
            st.writes = None
        return
    except (PyExc, I._Return, PathEnd):
        if wset in (st.writes or []):
            st.writes.remove(wset)
            if not st.writes:
                st.writes = None
        raise
    frame_check()
    for name, t in spec.inv(ip, env):
        ctx.oblige(f"{tag}:{name}:preserved", t, "loop")
    if spec.decreases is not None:
        pass
    raise PathEnd("loop body done")


def exec_for_std(spec, ip, s, env, f, ordinal):
    """`for x in range(a, b)` / `for x in <deque or list>`: the loop rule with a ghost iteration index.

    The index is `ip.ctx.loop_k` (z3 Int): for a range it is the value of the loop variable of the *next* iteration,
    for a container the absolute position (lo <= k <= hi) of the next element.  The invariant is asserted at entry
    (k = start), assumed for an arbitrary k, re-asserted after one body execution (k + 1); the code after the loop
    continues from an arbitrary k that satisfies the invariant and the exit condition.  A container that is being
    iterated must not be resized by the body (CPython raises RuntimeError then): lo/hi/data must be outside the
    loop frame (`spec.modifies`)."""
    ctx, st = ip.ctx, ip.st
    tag = f"{f.qualname}/loop{ordinal}"
    it = ip.eval(s.iter, env, f.modpath)
    h_ = getattr(ctx.unit, "on_for_loop", None)
    if h_ is not None:
        h_(ip, it)  # a unit may record that this iterable is asked for elements (at least once)
    if isinstance(it, RangeVal):
        start = ip.term(it.start, INT)
        stop = ip.term(it.stop, INT)
        more = lambda k: k < stop
        elem = lambda k: Sym(k, INT)
    elif is_ref(it) and CLASSES[it.ty.cls].kind == "deque":
        ci = CLASSES[it.ty.cls]
        cn = ci.name
        pinned = spec.modifies is None and getattr(spec, "pins_container", False)
        if not pinned and (spec.modifies is None or {(cn, "lo"), (cn, "hi"), (cn, "data")} & spec.modifies):
            raise Unsupported("for-loop over a container that the loop frame allows to be resized")
        start = st.get(cn, "lo", it.t)
        more = lambda k: k < st.get(cn, "hi", it.t)
        elem = lambda k: ip.wrap(z3.Select(st.get(cn, "data", it.t), k), ci.elem)
    elif is_ref(it) and CLASSES[it.ty.cls].kind == "set":
        return exec_for_set(spec, ip, s, env, f, ordinal, it)
    else:
        raise Unsupported(f"for-loop over {it!r}")
    ctx.loop_entry = H(st, st.snapshot())
    ctx.loop_k = start
    for name, t in spec.inv(ip, env):
        ctx.oblige(f"{tag}:{name}:entry", t, "loop")
    names = assigned_names(s.body) | assigned_names([s.target])
    for nm in sorted(names):
        if nm in env.vars:
            env.vars[nm] = generalize(ip, env.vars[nm], spec.local_types.get(nm))
    st.havoc(keys=spec.modifies)
    pin = None
    if isinstance(it, Sym) and is_ref(it) and CLASSES[it.ty.cls].kind == "deque" and spec.modifies is None:
        # a loop whose body suspends (frame = everything) over a container the unit declares private: the container is
        # the same at the head of every iteration -- assumed here, proved again after the body
        e_ = ctx.loop_entry
        pin = lambda: z3.And(*[st.get(cn, f_, it.t) == e_.f(cn, f_, it.t) for f_ in ("lo", "hi", "data")])
        st.assume(pin())
    spec.after_havoc(ip, env)
    k = st.fresh("k", z3.IntSort())
    st.assume(k >= start)
    ctx.loop_k = k
    for name, t in spec.inv(ip, env):
        st.assume(t)
    if not ctx.branch(more(k), f"for:{s.lineno}"):
        ip.exec_block(s.orelse, env, f)
        return
    ip.assign(s.target, elem(k), env, f)
    if st.writes is None:
        st.writes = []
    wset = set()
    st.writes.append(wset)

    def drop():
        if wset in (st.writes or []):
            st.writes.remove(wset)
            if not st.writes:
                st.writes = None

    try:
        try:
            ip.exec_block(s.body, env, f)
        except I._Continue:
            pass
    except I._Break:
        drop()
        return
    except (PyExc, I._Return, PathEnd):
        drop()
        raise
    drop()
    if spec.modifies is not None:
        extra = {w for w in wset if w not in spec.modifies and w[0] != "$"}
        if extra:
            ctx.fail(f"{tag}:frame", "frame", f"loop body writes {sorted(extra)} outside its declared frame")
    ctx.loop_k = k + 1
    if pin is not None:
        ctx.oblige(f"{tag}:the_iterated_container_is_not_changed_by_the_body:preserved", pin(), "loop")
    for name, t in spec.inv(ip, env):
        ctx.oblige(f"{tag}:{name}:preserved", t, "loop")
    raise PathEnd("loop body done")


def exec_for_set(spec, ip, s, env, f, ordinal, it):
    """`for x in <set>`: the iteration order is arbitrary, so the invariant is phrased over the ghost set of elements
    *visited so far* (`ip.ctx.loop_visited`: z3 array Elem -> Bool; `ip.ctx.loop_k` counts them).  Entry: nothing
    visited.  Arbitrary iteration: visited is a subset of the set; either an unvisited element x exists -- the body runs
    for it and the invariant is re-asserted with x added -- or every element has been visited and the loop is left.
    The body must not resize the set (CPython raises RuntimeError): mem/card must be outside the loop frame."""
    ctx, st = ip.ctx, ip.st
    tag = f"{f.qualname}/loop{ordinal}"
    ci = CLASSES[it.ty.cls]
    cn = ci.name
    if spec.modifies is None or {(cn, "mem"), (cn, "card")} & spec.modifies:
        raise Unsupported("for-loop over a set that the loop frame allows to be resized")
    esort = ci.elem.sort()
    ctx.loop_entry = H(st, st.snapshot())
    ctx.loop_visited = z3.K(esort, z3.BoolVal(False))
    ctx.loop_k = z3.IntVal(0)
    for name, t in spec.inv(ip, env):
        ctx.oblige(f"{tag}:{name}:entry", t, "loop")
    names = assigned_names(s.body) | assigned_names([s.target])
    for nm in sorted(names):
        if nm in env.vars:
            if nm in spec.gen_locals:
                env.vars[nm] = spec.gen_locals[nm](ip, env.vars[nm])
            else:
                env.vars[nm] = generalize(ip, env.vars[nm], spec.local_types.get(nm))
    st.havoc(keys=spec.modifies)
    spec.after_havoc(ip, env)
    mem = st.get(cn, "mem", it.t)
    V = st.fresh("visited", z3.ArraySort(esort, z3.BoolSort()))
    k = st.fresh("k", z3.IntSort())
    e = z3.Const(st.uniq("e"), esort)
    st.assume(k >= 0)
    st.assume(z3.ForAll([e], z3.Implies(z3.Select(V, e), z3.Select(mem, e)), patterns=[z3.Select(V, e)]))
    ctx.loop_visited, ctx.loop_k = V, k
    for name, t in spec.inv(ip, env):
        st.assume(t)
    if ctx.decide(2, f"for-set:{s.lineno}") == 1:
        # every element has been visited
        e2 = z3.Const(st.uniq("e"), esort)
        st.assume(z3.ForAll([e2], z3.Implies(z3.Select(mem, e2), z3.Select(V, e2)), patterns=[z3.Select(mem, e2)]))
        ip.exec_block(s.orelse, env, f)
        return
    x = st.fresh("elem", esort)
    st.assume(z3.And(z3.Select(mem, x), z3.Not(z3.Select(V, x))))
    ip.assign(s.target, ip.wrap(x, ci.elem), env, f)
    if st.writes is None:
        st.writes = []
    wset = set()
    st.writes.append(wset)

    def drop():
        if wset in (st.writes or []):
            st.writes.remove(wset)
            if not st.writes:
                st.writes = None

    try:
        try:
            ip.exec_block(s.body, env, f)
        except I._Continue:
            pass
    except I._Break:
        drop()
        return
    except (PyExc, I._Return, PathEnd):
        drop()
        raise
    drop()
    if spec.modifies is not None:
        extra = {w for w in wset if w not in spec.modifies and w[0] != "$"}
        if extra:
            ctx.fail(f"{tag}:frame", "frame", f"loop body writes {sorted(extra)} outside its declared frame")
    ctx.loop_visited, ctx.loop_k = z3.Store(V, x, True), k + 1
    for name, t in spec.inv(ip, env):
        ctx.oblige(f"{tag}:{name}:preserved", t, "loop")
    raise PathEnd("loop body done")
