"""Core of segvc: types, symbolic state, heap model, obligations, path enumeration.

Semantics assumed (see DESIGN.md sections 2-3):
  * Python ints are mathematical integers (exact).
  * floats are z3 reals with two distinguished constants +INF / -INF (no NaN, no rounding).
  * object references are z3 Ints, 0 is None; one z3 array per (class, field).
  * containers are heap objects with a data part and ghost membership counts.
"""
from __future__ import annotations

import os
import time
import z3

REPO = os.environ.get("SEGVC_REPO", "/repo")
SRC = os.path.join(REPO, "src")

if os.environ.get("SEGVC_QID"):
    # debugging aid: name every quantifier after the source line that built it (for smt.qi.profile)
    import sys as _sys

    _orig_forall = z3.ForAll

    def _forall(vs, body, **kw):
        fr = _sys._getframe(1)
        kw.setdefault("qid", f"{os.path.basename(fr.f_code.co_filename)[:-3]}_L{fr.f_lineno}")
        return _orig_forall(vs, body, **kw)

    z3.ForAll = _forall

Z = z3.IntSort()
B = z3.BoolSort()
R = z3.RealSort()


class Unsupported(Exception):
    """Construct outside the verified subset -> the run is undecided (exit 2)."""


class PathEnd(Exception):
    """The current path stops here (assume false / loop body finished)."""


# ----------------------------------------------------------------------------- types


class Ty:
    def sort(self):
        raise NotImplementedError

    def __repr__(self):
        return self.name


class Prim(Ty):
    def __init__(self, name, sort):
        self.name = name
        self._sort = sort

    def sort(self):
        return self._sort


INT = Prim("int", Z)
BOOL = Prim("bool", B)
REAL = Prim("real", R)
STR = Prim("str", Z)  # opaque string ids
OBJ = Prim("obj", Z)  # opaque object ids (typing.Any); 0 is None
BYTES = Prim("bytes", z3.StringSort())
INTINF = Prim("intinf", Z)  # `int >= 0 or math.inf`: +inf is encoded as -1 (no real arithmetic needed)
OPTINT = Prim("optint", Z)  # `int | None` where the int is known to be >= 0: None is encoded as -1
OPTREAL = Prim("optreal", R)  # `float | None` for an expiry time: None ("never") is encoded as the opaque +infinity


class RefT(Ty):
    _cache: dict = {}

    def __new__(cls, name):
        if name in RefT._cache:
            return RefT._cache[name]
        o = object.__new__(cls)
        o.name = "ref:" + name
        o.cls = name
        RefT._cache[name] = o
        return o

    def sort(self):
        return Z


class TupT(Ty):
    _cache: dict = {}

    def __new__(cls, *elems):
        key = tuple(e.name for e in elems)
        if key in TupT._cache:
            return TupT._cache[key]
        o = object.__new__(cls)
        o.elems = tuple(elems)
        o.name = "tup<" + ",".join(key) + ">"
        dt = z3.Datatype("Tup_" + "_".join(k.replace(":", "").replace("<", "L").replace(">", "J").replace(",", "_").replace("[", "L").replace("]", "J") for k in key))
        dt.declare("mk", *[(f"f{i}", e.sort()) for i, e in enumerate(elems)])
        o._sort = dt.create()
        TupT._cache[key] = o
        return o

    def sort(self):
        return self._sort

    def mk(self, *terms):
        return self._sort.mk(*terms)

    def proj(self, i, term):
        return getattr(self._sort, f"f{i}")(term)


class ArrT(Ty):
    """Array-valued ghost/model field."""

    def __init__(self, dom, rng):
        self.dom, self.rng = dom, rng
        self.name = f"arr<{dom.name},{rng.name}>"

    def sort(self):
        return z3.ArraySort(self.dom.sort(), self.rng.sort())


# ----------------------------------------------------------------------------- classes


class ClassInfo:
    def __init__(self, name, fields, kind="user", source=None, bases=(), elem=None, key=None, val=None):
        self.name = name
        self.fields = dict(fields)
        self.kind = kind  # user | deque | set | odict | env
        self.source = source  # (relpath, qualname) for user classes
        self.bases = tuple(bases)
        self.elem, self.key, self.val = elem, key, val
        self.ghost_fields = set()


CLASSES: dict[str, ClassInfo] = {}


def register_class(name, fields, **kw):
    ci = ClassInfo(name, fields, **kw)
    CLASSES[name] = ci
    return ci


def DequeT(elem: Ty, kind="deque") -> RefT:
    name = f"{'Deque' if kind == 'deque' else 'List'}[{elem.name}]"
    if name not in CLASSES:
        register_class(
            name,
            {"data": ArrT(INT, elem), "lo": INT, "hi": INT, "cnt": ArrT(elem, INT)},
            kind="deque",
            elem=elem,
        )
    return RefT(name)


def ListT(elem: Ty) -> RefT:
    return DequeT(elem, kind="list")


def SetT(elem: Ty) -> RefT:
    name = f"Set[{elem.name}]"
    if name not in CLASSES:
        register_class(name, {"mem": ArrT(elem, BOOL), "card": INT}, kind="set", elem=elem)
    return RefT(name)


def ODictT(key: Ty, val: Ty) -> RefT:
    name = f"ODict[{key.name},{val.name}]"
    if name not in CLASSES:
        register_class(
            name,
            {"kdata": ArrT(INT, key), "lo": INT, "hi": INT, "has": ArrT(key, BOOL), "val": ArrT(key, val)},
            kind="odict",
            key=key,
            val=val,
        )
    return RefT(name)


# ----------------------------------------------------------------------------- values


class Sym:
    """A symbolic value: z3 term + type tag."""

    __slots__ = ("t", "ty")

    def __init__(self, t, ty):
        self.t = t
        self.ty = ty

    def __repr__(self):
        return f"Sym({self.t}:{self.ty})"


def is_ref(v):
    return isinstance(v, Sym) and isinstance(v.ty, RefT)


INF = z3.Real("INF")  # math.inf;   every finite time t satisfies NEG_INF < t < INF
NEG_INF = z3.Real("NEG_INF")


# ----------------------------------------------------------------------------- heap view


class H:
    """Read-only view of a heap snapshot, used by contracts and invariants."""

    def __init__(self, st, heap=None):
        self.st = st
        self.heap = heap if heap is not None else st.heap

    def arr(self, cls, field):
        key = (cls, field)
        if key not in self.heap:
            # lazily created arrays are shared with the live state so that a field first
            # touched after the snapshot still denotes the same pre-state value
            a = self.st.base_array(cls, field)
            self.heap[key] = a
            if self.heap is not self.st.heap and key not in self.st.heap:
                self.st.heap[key] = a
        return self.heap[key]

    def f(self, cls, field, ref):
        return z3.Select(self.arr(cls, field), ref)

    # containers ---------------------------------------------------------
    def dq(self, cls, ref):
        return DequeView(self, cls, ref)

    def set(self, cls, ref):
        return SetView(self, cls, ref)

    def od(self, cls, ref):
        return ODictView(self, cls, ref)


class DequeView:
    def __init__(self, h, cls, ref):
        self.h, self.cls, self.ref = h, cls, ref

    @property
    def lo(self):
        return self.h.f(self.cls, "lo", self.ref)

    @property
    def hi(self):
        return self.h.f(self.cls, "hi", self.ref)

    @property
    def data(self):
        return self.h.f(self.cls, "data", self.ref)

    @property
    def cnt(self):
        return self.h.f(self.cls, "cnt", self.ref)

    @property
    def len(self):
        return self.hi - self.lo

    def at(self, i):
        """element at absolute index i (lo <= i < hi)"""
        return z3.Select(self.data, i)

    def nth(self, k):
        return z3.Select(self.data, self.lo + k)

    def count(self, e):
        return z3.Select(self.cnt, e)

    def forall(self, fn, name="i"):
        i = z3.Int(self.h.st.uniq(name))
        return z3.ForAll([i], z3.Implies(z3.And(self.lo <= i, i < self.hi), fn(i, z3.Select(self.data, i))))

    def wf_pos(self):
        """the converse of the count facts of wf(): an element with a positive count occurs at some position.  The
        position is a fresh Skolem array per use, so this may only ever be *assumed* (it is a fact about real
        deques: `cnt` is the true multiplicity)."""
        ci = CLASSES[self.cls]
        e = z3.Const(self.h.st.uniq("e"), ci.elem.sort())
        pos = z3.Const(self.h.st.uniq("pos"), z3.ArraySort(ci.elem.sort(), Z))
        p = z3.Select(pos, e)
        return z3.ForAll([e], z3.Implies(z3.Select(self.cnt, e) >= 1, z3.And(self.lo <= p, p < self.hi, z3.Select(self.data, p) == e)), patterns=[z3.Select(self.cnt, e)])

    def wf(self):
        ci = CLASSES[self.cls]
        e = z3.Const(self.h.st.uniq("e"), ci.elem.sort())
        i = z3.Int(self.h.st.uniq("i"))
        return z3.And(
            self.lo <= self.hi,
            z3.ForAll([e], z3.Select(self.cnt, e) >= 0),
            z3.ForAll([i], z3.Implies(z3.And(self.lo <= i, i < self.hi), z3.Select(self.cnt, z3.Select(self.data, i)) >= 1)),
            z3.ForAll([e], z3.Implies(z3.Select(self.cnt, e) >= 1, self.lo < self.hi), patterns=[z3.Select(self.cnt, e)]),
        )


class SetView:
    def __init__(self, h, cls, ref):
        self.h, self.cls, self.ref = h, cls, ref

    @property
    def mem(self):
        return self.h.f(self.cls, "mem", self.ref)

    @property
    def card(self):
        return self.h.f(self.cls, "card", self.ref)

    def has(self, e):
        return z3.Select(self.mem, e)

    def wf(self):
        ci = CLASSES[self.cls]
        e = z3.Const(self.h.st.uniq("e"), ci.elem.sort())
        return z3.And(
            self.card >= 0,
            z3.ForAll([e], z3.Implies(z3.Select(self.mem, e), self.card >= 1), patterns=[z3.Select(self.mem, e)]),
        )


class ODictView:
    def __init__(self, h, cls, ref):
        self.h, self.cls, self.ref = h, cls, ref

    @property
    def lo(self):
        return self.h.f(self.cls, "lo", self.ref)

    @property
    def hi(self):
        return self.h.f(self.cls, "hi", self.ref)

    @property
    def kdata(self):
        return self.h.f(self.cls, "kdata", self.ref)

    @property
    def hasarr(self):
        return self.h.f(self.cls, "has", self.ref)

    @property
    def valarr(self):
        return self.h.f(self.cls, "val", self.ref)

    @property
    def len(self):
        return self.hi - self.lo

    def key_at(self, i):
        return z3.Select(self.kdata, i)

    def has(self, k):
        return z3.Select(self.hasarr, k)

    def val(self, k):
        return z3.Select(self.valarr, k)

    def forall_keys(self, fn, name="i"):
        i = z3.Int(self.h.st.uniq(name))
        k = z3.Select(self.kdata, i)
        return z3.ForAll([i], z3.Implies(z3.And(self.lo <= i, i < self.hi), fn(i, k, z3.Select(self.valarr, k))))

    def wf(self):
        ci = CLASSES[self.cls]
        k = z3.Const(self.h.st.uniq("k"), ci.key.sort())
        i = z3.Int(self.h.st.uniq("i"))
        j = z3.Int(self.h.st.uniq("j"))
        return z3.And(
            self.lo <= self.hi,
            z3.ForAll([i], z3.Implies(z3.And(self.lo <= i, i < self.hi), z3.Select(self.hasarr, z3.Select(self.kdata, i)))),
            z3.ForAll(
                [i, j],
                z3.Implies(z3.And(self.lo <= i, i < j, j < self.hi), z3.Select(self.kdata, i) != z3.Select(self.kdata, j)),
            ),
            z3.ForAll([k], z3.Implies(z3.Select(self.hasarr, k), self.lo < self.hi), patterns=[z3.Select(self.hasarr, k)]),
        )


# ----------------------------------------------------------------------------- obligations


class Obligation:
    __slots__ = ("name", "kind", "verdict", "seconds", "model", "backend", "path", "goal_txt", "detail")

    def __init__(self, name, kind):
        self.name, self.kind = name, kind
        self.verdict = None  # proved | refuted | unknown
        self.seconds = 0.0
        self.model = None
        self.backend = None
        self.path = None
        self.goal_txt = None
        self.detail = None

    def to_json(self):
        return {
            "name": self.name,
            "kind": self.kind,
            "verdict": self.verdict,
            "seconds": round(self.seconds, 4),
            "backend": self.backend,
            "path": self.path,
            "goal": self.goal_txt,
            "model": self.model,
            "detail": self.detail,
        }


# ----------------------------------------------------------------------------- state

# Budgets are *resource limits* (z3's deterministic rlimit counter), so that a verdict does not depend on how busy the
# machine is; the wall-clock timeouts are generous backstops only.  Calibration on this image: ~5e6 rlimit units per
# second for the quantified queries of the specs.
Z3_TIMEOUT_MS = int(os.environ.get("SEGVC_Z3_TIMEOUT_MS", "120000"))
MBQI_TIMEOUT_MS = int(os.environ.get("SEGVC_MBQI_TIMEOUT_MS", "60000"))
Z3_RLIMIT = int(os.environ.get("SEGVC_Z3_RLIMIT", "40000000"))
MBQI_RLIMIT = int(os.environ.get("SEGVC_MBQI_RLIMIT", "20000000"))
FEAS_RLIMIT = int(os.environ.get("SEGVC_FEAS_RLIMIT", "2000000"))
COVER_RLIMIT = int(os.environ.get("SEGVC_COVER_RLIMIT", "6000000"))
BOUNDED_RLIMIT = int(os.environ.get("SEGVC_BOUNDED_RLIMIT", "30000000"))
SEQ_Z3_TIMEOUT_MS = int(os.environ.get("SEGVC_SEQ_Z3_TIMEOUT_MS", "30000"))
CVC5_TIMEOUT_MS = int(os.environ.get("SEGVC_CVC5_TIMEOUT_MS", "20000"))
SEQ_Z3_RLIMIT = int(os.environ.get("SEGVC_SEQ_Z3_RLIMIT", "4000000"))
QI_BOUND = int(os.environ.get("SEGVC_QI_BOUND", "30000"))
COVER_TIMEOUT_MS = int(os.environ.get("SEGVC_COVER_TIMEOUT_MS", "20000"))
FEAS_TIMEOUT_MS = int(os.environ.get("SEGVC_FEAS_TIMEOUT_MS", "10000"))


STATS = bool(os.environ.get("SEGVC_STATS"))
_MAX_RL = [0]


def _rl(solver):
    st = solver.statistics()
    for k in st.keys():
        if k == "rlimit count":
            return st.get_key_value(k)
    return 0


def _note_rl(d):
    if d > _MAX_RL[0]:
        _MAX_RL[0] = d
        with open(os.environ["SEGVC_STATS"], "a") as f:
            f.write(f"{os.getpid()} max-proved-rlimit {d}\n")


class State:
    def __init__(self):
        self.solver = z3.Solver()
        self.solver.set("smt.mbqi", os.environ.get("SEGVC_MBQI", "0") == "1")
        self.solver.set("smt.auto_config", False)
        self.heap: dict = {}
        self.n = 0
        self.npc = 0
        self.pc_txt: list[str] = []
        self.base: dict = {}
        self.writes: list | None = None  # frame tracking (set of (cls, field)) when inside a loop body
        for cname, ci in CLASSES.items():
            for fname in ci.fields:
                self.arr(cname, fname)

    def uniq(self, base):
        self.n += 1
        return f"{base}!{self.n}"

    def fresh(self, base, sort):
        return z3.Const(self.uniq(base), sort)

    def base_array(self, cls, field):
        key = (cls, field)
        if key not in self.base:
            ci = CLASSES[cls]
            if field not in ci.fields:
                raise Unsupported(f"undeclared field {cls}.{field}")
            self.base[key] = z3.Const(self.uniq(f"H_{cls}.{field}"), z3.ArraySort(Z, ci.fields[field].sort()))
        return self.base[key]

    def arr(self, cls, field):
        key = (cls, field)
        if key not in self.heap:
            self.heap[key] = self.base_array(cls, field)
        return self.heap[key]

    def get(self, cls, field, ref):
        return z3.Select(self.arr(cls, field), ref)

    def put(self, cls, field, ref, val):
        if self.writes is not None:
            for w in self.writes:
                w.add((cls, field))
        self.heap[(cls, field)] = z3.Store(self.arr(cls, field), ref, val)

    def assume(self, t, txt=None):
        if t is True:
            return
        self.solver.add(t)
        self.npc += 1

    def snapshot(self):
        return dict(self.heap)

    def havoc(self, keys=None, keep=()):
        """Replace heap arrays by fresh ones (all, or the listed (cls, field) keys).  Allocation is monotone: an object
        that exists before the havoc still exists after it (nothing is ever deallocated in the model)."""
        old_alloc = self.heap.get(("$", "alloc"))
        try:
            self._havoc(keys, keep)
        finally:
            new_alloc = self.heap.get(("$", "alloc"))
            if old_alloc is not None and new_alloc is not None and not old_alloc.eq(new_alloc):
                x = z3.Int(self.uniq("x"))
                self.solver.add(z3.ForAll([x], z3.Implies(z3.Select(old_alloc, x), z3.Select(new_alloc, x)), patterns=[z3.Select(new_alloc, x)]))

    def _havoc(self, keys=None, keep=()):
        for key in list(self.heap.keys()) if keys is None else keys:
            if key in keep:
                continue
            cls, field = key
            ci = CLASSES[cls]
            self.heap[key] = z3.Const(self.uniq(f"H_{cls}.{field}"), z3.ArraySort(Z, ci.fields[field].sort()))
        if keys is None:
            # arrays not yet touched must also be fresh after a havoc
            for key in list(self.base.keys()):
                if key not in self.heap and key not in keep:
                    cls, field = key
                    ci = CLASSES[cls]
                    self.heap[key] = z3.Const(self.uniq(f"H_{cls}.{field}"), z3.ArraySort(Z, ci.fields[field].sort()))

    def alloc(self, cls):
        """A fresh object id: positive and different from everything allocated so far."""
        r = self.fresh(f"new_{cls.split('[')[0]}", Z)
        al = self.arr("$", "alloc")
        self.assume(r > 0)
        self.assume(z3.Not(z3.Select(al, r)))
        self.heap[("$", "alloc")] = z3.Store(al, r, True)
        return r

    def allocated(self, ref):
        return z3.Select(self.arr("$", "alloc"), ref)

    def feasible(self, cond):
        self.solver.push()
        self.solver.set("timeout", FEAS_TIMEOUT_MS)
        self.solver.set("rlimit", FEAS_RLIMIT)
        self.solver.add(cond)
        r = _guarded_check(self.solver)
        self.solver.pop()
        return r != z3.unsat

    def cover(self, full=False):
        """vacuity guard: is the current path condition satisfiable?"""
        t0 = time.time()
        self.solver.set("timeout", Z3_TIMEOUT_MS if full else COVER_TIMEOUT_MS)
        self.solver.set("rlimit", Z3_RLIMIT if full else COVER_RLIMIT)
        r = _guarded_check(self.solver)
        if r == z3.unsat:
            return "unsat", time.time() - t0
        if r == z3.sat:
            return "sat", time.time() - t0
        if not full:
            return "nocontra", time.time() - t0
        s2 = z3.Solver()
        s2.set("timeout", MBQI_TIMEOUT_MS)
        s2.set("rlimit", MBQI_RLIMIT)
        s2.add(*self.solver.assertions())
        r = _guarded_check(s2)
        return ("sat" if r == z3.sat else "unsat" if r == z3.unsat else "unknown"), time.time() - t0

    use_cvc5 = False  # set by units whose obligations are over byte sequences (z3's sequence solver is unstable there)

    def cvc5_check(self, assertions, timeout_ms, extra=()):
        """second back end: the same query as SMT-LIB text through /usr/bin/cvc5 --strings-exp.
        returns "unsat" | "sat" | "unknown" and the text of cvc5's model when sat"""
        import subprocess
        import tempfile

        s = z3.Solver()
        s.add(*assertions)
        text = "(set-logic ALL)\n(set-option :produce-models true)\n" + s.to_smt2() + "(get-model)\n"
        with tempfile.NamedTemporaryFile("w", suffix=".smt2", delete=False) as f:
            f.write(text)
            path = f.name
        try:
            p = subprocess.run(["/usr/bin/cvc5", "--strings-exp", *extra, f"--tlimit={timeout_ms}", path], capture_output=True, text=True, timeout=timeout_ms / 1000 + 10)
            out = p.stdout.strip().splitlines()
            first = out[0].strip() if out else "unknown"
            if first not in ("sat", "unsat"):
                return "unknown", (p.stdout + p.stderr)[-300:]
            return first, "\n".join(out[1:])[:3000]
        except Exception as e:  # noqa: BLE001
            return "unknown", f"cvc5 failed: {e}"
        finally:
            os.unlink(path)

    def prove_quick(self, goal):
        """stage 1 only (E-matching under the usual resource limit): `proved` or `unknown`"""
        t0 = time.time()
        self.solver.push()
        self.solver.set("timeout", Z3_TIMEOUT_MS)
        self.solver.set("rlimit", Z3_RLIMIT)
        self.solver.add(z3.Not(goal))
        r = _guarded_check(self.solver, wall_s=(SEQ_WALL_S if self.use_cvc5 else 30))
        self.solver.pop()
        return ("proved" if r == z3.unsat else "unknown"), time.time() - t0, None, "z3-ematch"

    def prove(self, goal):
        if DEADLINE and time.time() > DEADLINE[0]:
            raise Unsupported("the wall-clock budget of this unit is used up (undecided, not a verdict)")
        return self._prove(goal)

    def _prove(self, goal):
        """returns (verdict, seconds, model_or_None, detail)

        stage 1: E-matching only (MBQI off) -- `unsat` is a proof.
        stage 2 (stage 1 not unsat): the same query with MBQI on, to obtain either a proof or a genuine
        model.  If stage 2 is inconclusive but stage 1 *saturated* (reason: incomplete quantifiers, not
        a timeout), the obligation is reported refuted with stage 1's candidate model.
        """
        t0 = time.time()
        self.solver.push()
        self.solver.set("timeout", SEQ_Z3_TIMEOUT_MS if self.use_cvc5 else Z3_TIMEOUT_MS)
        self.solver.set("rlimit", SEQ_Z3_RLIMIT if self.use_cvc5 else Z3_RLIMIT)
        self.solver.add(z3.Not(goal))
        rl0 = _rl(self.solver) if STATS else 0
        r = _guarded_check(self.solver, wall_s=(SEQ_WALL_S if self.use_cvc5 else None))
        if r == z3.unsat:
            if STATS:
                _note_rl(_rl(self.solver) - rl0)
            self.solver.pop()
            return "proved", time.time() - t0, None, "z3-ematch"
        if self.use_cvc5 and r == z3.unknown:
            # byte-sequence obligation that z3 left open: cvc5 decides (a `sat` answer comes with cvc5's model)
            assertions = list(self.solver.assertions())
            self.solver.pop()
            v, info = self.cvc5_check(assertions, CVC5_TIMEOUT_MS)
            if v == "unknown":
                # model finding: finite-model-finding mode of cvc5's string solver (only a `sat` answer is used)
                v2, info2 = self.cvc5_check(assertions, CVC5_TIMEOUT_MS, extra=("--strings-fmf",))
                if v2 == "sat":
                    v, info = v2, info2
                if v == "unknown" and os.environ.get("SEGVC_DUMP"):
                    self.n += 1
                    s_ = z3.Solver()
                    s_.add(*assertions)
                    with open(os.path.join(os.environ["SEGVC_DUMP"], f"unknown-{os.getpid()}-{self.n}.smt2"), "w") as f:
                        f.write("(set-logic ALL)\n" + s_.to_smt2())
            dt = time.time() - t0
            if v == "unsat":
                return "proved", dt, None, "cvc5"
            if v == "sat":
                return "refuted", dt, {"cvc5-model": info}, "cvc5 model"
            # cvc5 undecided as well (typically: quantified axioms + sequences): z3 with MBQI may still find a model
            s2 = z3.Solver()
            s2.set("timeout", MBQI_TIMEOUT_MS)
            s2.set("rlimit", MBQI_RLIMIT)
            s2.add(*assertions)
            r2 = _guarded_check(s2, wall_s=SEQ_WALL_S)
            dt = time.time() - t0
            if r2 == z3.unsat:
                return "proved", dt, None, "z3-mbqi"
            if r2 == z3.sat:
                return "refuted", dt, s2.model(), "z3-mbqi model"
            return "unknown", dt, None, f"z3 e-matching, cvc5 and z3 mbqi all undecided: {info[:120]}; {s2.reason_unknown()}"
        reason1 = self.solver.reason_unknown() if r == z3.unknown else "sat"
        cand = None
        try:
            cand = self.solver.model()
        except z3.Z3Exception:
            cand = None
        assertions = list(self.solver.assertions())
        self.solver.pop()
        s2 = z3.Solver()
        s2.set("timeout", MBQI_TIMEOUT_MS)
        s2.set("rlimit", MBQI_RLIMIT)
        s2.add(*assertions)
        r2 = _guarded_check(s2)
        dt = time.time() - t0
        if r2 == z3.unsat:
            return "proved", dt, None, "z3-mbqi"
        if r2 == z3.sat:
            return "refuted", dt, s2.model(), "z3-mbqi model"
        # No proof and no genuine model: before the obligation is reported on the strength of a *candidate* model,
        # E-matching is retried on permuted input (whether a needed instance is found depends on the order in which
        # terms reach the matcher); any `unsat` is a proof.
        for attempt in (1, 2, 3):
            s4 = z3.SimpleSolver()
            s4.set("smt.mbqi", False)
            s4.set("smt.auto_config", False)
            s4.set("smt.random_seed", attempt)
            s4.set("timeout", Z3_TIMEOUT_MS)
            s4.set("rlimit", Z3_RLIMIT)
            perm = assertions[::-1] if attempt == 1 else (assertions[len(assertions) // 2:] + assertions[: len(assertions) // 2] if attempt == 2 else sorted(assertions, key=lambda a_: a_.get_id() % 7))
            s4.add(*perm)
            if _guarded_check(s4) == z3.unsat:
                return "proved", time.time() - t0, None, f"z3-ematch-retry{attempt}"
        dt = time.time() - t0
        if "timeout" in reason1 or "canceled" in reason1 or "resource" in reason1 or "max" in reason1:
            # stage 3: E-matching did not saturate within the budget (instantiation blow-up over the many heap
            # snapshots).  Ask again with a bounded number of instantiations: `unsat` is still a proof; otherwise the
            # bounded run's model is a *candidate* counter-model (the obligation is reported refuted, the replay file
            # says "candidate").  Only if that run times out as well is the obligation undecided.
            s3 = z3.SimpleSolver()
            s3.set("smt.mbqi", False)
            s3.set("smt.auto_config", False)
            s3.set("smt.qi.max_instances", QI_BOUND)
            s3.set("timeout", Z3_TIMEOUT_MS)
            s3.set("rlimit", BOUNDED_RLIMIT)
            s3.add(*assertions)
            t3 = time.time()
            r3 = _guarded_check(s3)
            t3 = time.time() - t3
            dt = time.time() - t0
            if r3 == z3.unsat:
                return "proved", dt, None, "z3-ematch-bounded"
            reason3 = s3.reason_unknown() if r3 == z3.unknown else "sat"
            # hitting the instantiation bound is reported by z3 as "canceled"; exhausting the resource limit as
            # "max. resource limit exceeded"; a wall-clock timeout as "timeout"
            if not ("resource" in reason3 or "timeout" in reason3) and t3 < 0.8 * Z3_TIMEOUT_MS / 1000.0:
                try:
                    cand = s3.model()
                except z3.Z3Exception:
                    cand = None
                return "refuted", dt, cand, f"candidate model after {QI_BOUND} quantifier instantiations (stage1: {reason1}; stage2: {s2.reason_unknown()}; stage3: {reason3})"
            if os.environ.get("SEGVC_DUMP"):
                self.n += 1
                with open(os.path.join(os.environ["SEGVC_DUMP"], f"unknown-{os.getpid()}-{self.n}.smt2"), "w") as f:
                    f.write(s2.to_smt2())
            return "unknown", dt, None, f"stage1: {reason1}; stage2: {s2.reason_unknown()}; stage3: {reason3}"
        return "refuted", dt, cand, f"candidate model (stage1: {reason1}; stage2: {s2.reason_unknown()})"


register_class("$", {"alloc": BOOL}, kind="env")


def _guarded_check(solver, wall_s=None):
    """solver.check() with a wall-clock watchdog: z3's own `timeout` / `rlimit` are not honoured inside some theory
    solvers (sequences), so a timer thread interrupts the context; an interrupted check answers `unknown`"""
    import threading

    if wall_s is None:
        wall_s = WATCHDOG_S
    t = threading.Timer(wall_s, solver.ctx.interrupt)
    t.daemon = True
    t.start()
    try:
        return solver.check()
    except z3.Z3Exception:
        return z3.unknown
    finally:
        t.cancel()


WATCHDOG_S = float(os.environ.get("SEGVC_WATCHDOG_S", "90"))
SEQ_WALL_S = float(os.environ.get("SEGVC_SEQ_WALL_S", "15"))  # z3 on sequence obligations: its own limits are not honoured there
DEADLINE: list = []  # [absolute time] set by unit.explore for the unit being explored


def forall(vs, body, patterns=None):
    """z3.ForAll with the given patterns where z3 accepts them (terms containing ite / store are not valid patterns:
    then the solver chooses its own)"""
    if patterns and all(_pattern_ok(p) for p in patterns):
        try:
            return z3.ForAll(vs, body, patterns=patterns)
        except z3.Z3Exception:
            pass
    return z3.ForAll(vs, body)


_BAD_IN_PATTERN = {z3.Z3_OP_ITE, z3.Z3_OP_AND, z3.Z3_OP_OR, z3.Z3_OP_NOT, z3.Z3_OP_DISTINCT, z3.Z3_OP_EQ, z3.Z3_OP_IMPLIES}


def _pattern_ok(t):
    seen, todo = set(), [t]
    while todo:
        x = todo.pop()
        if x.get_id() in seen:
            continue
        seen.add(x.get_id())
        if z3.is_app(x):
            if x.decl().kind() in _BAD_IN_PATTERN:
                return False
            todo.extend(x.children())
    return True
