"""setup_cmd: import the engine and every registered spec module, check the solver, validate MANIFEST.json."""
import importlib
import json
import os
import sys

ROOT = os.path.dirname(os.path.dirname(os.path.abspath(__file__)))
sys.path.insert(0, ROOT)


def main():
    import z3

    from segvc import cli

    n = 0
    for prop, mods in cli.SPEC_MODULES.items():
        for m in mods:
            mod = importlib.import_module(m)
            n += len(getattr(mod, "UNITS", []))
    x = z3.Int("x")
    s = z3.Solver()
    s.add(x > 0, x < 0)
    assert s.check() == z3.unsat
    man = json.load(open(os.path.join(ROOT, "MANIFEST.json")))
    claimed = {c["property_id"] for c in man["checks"]}
    na = {c["property_id"] for c in man.get("not_applicable", [])}
    assert not (claimed & na), f"claimed and not_applicable overlap: {claimed & na}"
    print(f"segvc ready: z3 {z3.get_version_string()}, {n} units in {sum(len(v) for v in cli.SPEC_MODULES.values())} spec modules, {len(claimed)} properties claimed, {len(na)} not applicable")


if __name__ == "__main__":
    main()
