"""Command line: python3-vt -m segvc check <PROP> [--tier quick|thorough] [--unit NAME] [-v]

Exit codes: 0 every obligation discharged (known findings printed); 1 an obligation was refuted
(VIOLATION line); 2 undecided (unknown / unsupported construct / spec drift); 3 checker crash.
"""
from __future__ import annotations

import argparse
import importlib
import json
import multiprocessing as mp
import os
import sys
import time

ROOT = os.path.dirname(os.path.dirname(os.path.abspath(__file__)))
if ROOT not in sys.path:
    sys.path.insert(0, ROOT)

# property id -> spec modules contributing units
SPEC_MODULES = {
    "C01": ["specs.c01_taskgroup"],
    "C02": ["specs.c01_taskgroup"],
    "C07": ["specs.c01_taskgroup"],
    "C03": ["specs.c04_scope", "specs.c01_taskgroup"],
    "C05": ["specs.c04_scope"],
    "C04": ["specs.c04_scope"],
    "C06": ["specs.c04_scope"],
    "C08": ["specs.c08_checkpoints", "specs.c19_iter"],
    "C09": ["specs.c09_lock", "specs.c10_adapters"],
    "C10": ["specs.c10_semaphore", "specs.c10_limiter", "specs.c10_adapters"],
    "C11": ["specs.c11_condition"],
    "C12": ["specs.c12_memory"],
    "C13": ["specs.c12_memory"],
    "C14": ["specs.c14_threads", "specs.c15_portal"],
    "C15": ["specs.c15_portal"],
    "C16": ["specs.c16_buffered"],
    "C17": ["specs.c17_tls"],
    "C18": ["specs.c18_sockets"],
    "C19": ["specs.c19_iter"],
    "C20": ["specs.c20_lru"],
}


def _run_unit(arg):
    modname, idx, tier, prefix = arg
    from segvc import unit as U

    os.environ["SEGVC_TIER"] = tier
    mod = importlib.import_module(modname)
    cls = mod.UNITS[idx]
    u = cls()
    res = U.explore(u, prefix=prefix, split=tuple(getattr(u, "split", ()) or ()))
    return {
        "unit": res.unit,
        "module": modname,
        "props": res.props,
        "functions": res.functions,
        "paths": res.paths,
        "status": res.status,
        "message": res.message,
        "seconds": res.seconds,
        "trusted": list(getattr(u, "trusted", ())),
        "obligations": [dict(o.to_json(), props=sorted(u.props_of(o.name))) for o in res.obligations],
    }


def _job_main(job, conn):
    try:
        conn.send(_run_unit(job))
    except BaseException as e:  # noqa: BLE001
        import traceback

        conn.send({"__error__": "".join(traceback.format_exception(e))[-2000:]})
    finally:
        conn.close()


def _failed_result(job, status, message):
    """a unit whose worker process died or overran its hard wall-clock limit: undecided / crashed, never a verdict"""
    modname, idx, tier, prefix = job
    mod = importlib.import_module(modname)
    u = mod.UNITS[idx]()
    return {"unit": getattr(u, "qualname", None) or getattr(u, "name", str(u)), "module": modname, "status": status, "message": message, "paths": 0, "functions": [], "props": list(getattr(u, "props", ())), "seconds": 0.0, "trusted": list(getattr(u, "trusted", ())), "obligations": []}


def _run_jobs(jobs, nproc):
    """one process per job, at most `nproc` at a time, each with a hard wall-clock limit; a worker that dies (solver
    crash, out of memory) or hangs is reported as crashed / undecided instead of blocking the whole check"""
    from segvc import unit as U

    hard = 3 * U.UNIT_BUDGET_S + 120
    ctx = mp.get_context("fork")
    pending = list(enumerate(jobs))
    running = {}
    results = [None] * len(jobs)
    while pending or running:
        while pending and len(running) < nproc:
            i, job = pending.pop(0)
            parent, child = ctx.Pipe(duplex=False)
            p = ctx.Process(target=_job_main, args=(job, child), daemon=True)
            p.start()
            child.close()
            running[i] = (p, parent, time.time(), job)
        time.sleep(0.05)
        for i in list(running):
            p, conn, t0, job = running[i]
            got = None
            if conn.poll():
                try:
                    got = conn.recv()
                except EOFError:
                    got = None
                p.join(5)
                if got is None:
                    results[i] = _failed_result(job, "crash", f"worker process ended without a result (exit code {p.exitcode})")
                elif "__error__" in got:
                    results[i] = _failed_result(job, "crash", got["__error__"])
                else:
                    results[i] = got
                del running[i]
            elif not p.is_alive():
                results[i] = _failed_result(job, "crash", f"worker process died (exit code {p.exitcode})")
                del running[i]
            elif time.time() - t0 > hard:
                p.kill()
                p.join(5)
                results[i] = _failed_result(job, "undecided", f"unsupported: the unit overran its hard wall-clock limit of {hard} s and was stopped (undecided, not a verdict)")
                del running[i]
    return results


def collect_units(prop):
    out = []
    for modname in SPEC_MODULES.get(prop, []):
        mod = importlib.import_module(modname)
        for i, cls in enumerate(mod.UNITS):
            if prop in cls.props:
                out.append((modname, i, cls.__name__))
    return out


def main(argv=None):
    ap = argparse.ArgumentParser(prog="segvc")
    sub = ap.add_subparsers(dest="cmd", required=True)
    c = sub.add_parser("check")
    c.add_argument("prop")
    c.add_argument("--tier", default=os.environ.get("VERIF_TIER", "quick"))
    c.add_argument("--unit", default=None)
    c.add_argument("-v", action="store_true")
    c.add_argument("-j", type=int, default=min(16, os.cpu_count() or 4))
    r = sub.add_parser("replay")
    r.add_argument("path")
    args = ap.parse_args(argv)
    if args.cmd == "replay":
        return replay(args.path)
    from segvc import report

    t0 = time.time()
    units = collect_units(args.prop)
    if args.unit:
        units = [u for u in units if args.unit in u[2]]
    if not units:
        print(f"no units for {args.prop}")
        return 2
    jobs = []
    for m, i, _ in units:
        split = getattr(importlib.import_module(m).UNITS[i], "split", ())
        if split and args.j > 1:
            import itertools

            for pre in itertools.product(*[range(k) for k in split]):
                jobs.append((m, i, args.tier, tuple(pre)))
        else:
            jobs.append((m, i, args.tier, ()))
    if args.j > 1 and len(jobs) > 1:
        results = _run_jobs(jobs, min(args.j, len(jobs)))
    else:
        results = [_run_unit(j) for j in jobs]
    if args.v:
        for r in sorted(results, key=lambda r: -r["seconds"]):
            slow = sorted(r["obligations"], key=lambda o: -o["seconds"])[:3]
            print(f"  unit {r['unit']}: {r['seconds']:.1f}s, {r['paths']} paths, {len(r['obligations'])} obligation instances; slowest: " + ", ".join(f"{o['name'].split('/', 1)[-1]}={o['seconds']:.1f}s" for o in slow))
    rc = report.finish(args.prop, args.tier, results, time.time() - t0, verbose=args.v, partial=bool(args.unit))
    if args.tier == "thorough" and not args.unit and "SEGVC_OUT" not in os.environ:
        selftest(args.prop, t0)
    return rc


def replay(path):
    """print the failed obligation with the solver's counter-model and re-execute, on the real code of the current
    tree, the failing histories the native search recorded (exit 1 if one still fails, 0 if none does)"""
    import re
    import subprocess

    from segvc.core import REPO

    r = json.load(open(path))
    print(f"property   {r['property']}\nobligation {r['obligation']} ({r['kind']}, unit {r['unit']}, path {r['path']})")
    print(f"solver     {r['solver']['backend']}: {r['solver']['verdict']} in {r['solver']['seconds']:.2f}s")
    print("goal       " + str(r["goal"])[:1500])
    print("counter-model (pre-state of the segment, need not be reachable):")
    for k, v in list((r["solver"]["model"] or {}).items())[:40]:
        print(f"   {k} = {str(v)[:160]}")
    native = r.get("native") or {}
    m = re.search(r"failing_histories=(.*)$", native.get("output", ""), re.M)
    if not m:
        print("no failing input was recorded for this obligation: " + str(native.get("reason") or native.get("output", "")[-300:]))
        return 0
    script = os.path.join(ROOT, "replayers", f"{r['property']}.py")
    env = dict(os.environ, PYTHONPATH=os.path.join(REPO, "src"), SEGVC_REPO=REPO)
    p = subprocess.run(["/venv/bin/python", script, "--history", m.group(1)], capture_output=True, text=True, env=env, input="{}")
    print(p.stdout + p.stderr[-500:])
    return 1 if "reproduced=True" in p.stdout else 0


def selftest(prop, t0):
    """thorough tier: run the seeded edits of segvc.mutants for this property on scratch copies and record in the
    evidence which were reported / stayed quiet.  The verdict of the check itself is not changed by it."""
    from segvc import mutants

    todo = [m for m in mutants.MUTANTS if m[1] == prop]
    rows = []
    from concurrent.futures import ThreadPoolExecutor

    with ThreadPoolExecutor(max_workers=4) as ex:
        for mid, status, detail in ex.map(mutants.run_one, todo):
            rows.append({"mutant": mid, "status": status, "detail": detail})
            if status == "WRONG":
                print(f"SELFTEST-WARNING {mid}: {detail}")
    path = os.path.join(ROOT, "evidence", f"{prop}.json")
    ev = json.load(open(path))
    ev["coverage"]["selftest_seeded_edits"] = rows
    ev["coverage"]["selftest_summary"] = f"{sum(r['status'] == 'ok' for r in rows)}/{len(rows)} seeded edits behaved as expected (break -> reported, harmless -> quiet); stale = edit site no longer present in the current tree"
    ev["wall_s"] = round(time.time() - t0, 3)
    json.dump(ev, open(path, "w"), indent=1)
    print(f"{prop}: selftest {ev['coverage']['selftest_summary']}")
