"""segvc -- segment verification-condition generator for anyio (asyncio backend).

Reads the real source under $SEGVC_REPO (default /repo) on every run, symbolically
executes the functions named by the side-car contract files in /verif/specs and
discharges the generated obligations with z3 (cvc5 as second opinion).
"""
