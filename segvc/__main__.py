from .cli import main
import sys
sys.exit(main())
