import os
import sys

# Reproducible runs: the order in which assertions and terms reach the solver follows Python's set / dict iteration
# order, which depends on the string hash seed; pin it so that the same tree always yields the same queries.
if os.environ.get("PYTHONHASHSEED") != "0" and not os.environ.get("SEGVC_NO_PIN"):
    os.environ["PYTHONHASHSEED"] = "0"
    os.execv(sys.executable, [sys.executable, "-m", "segvc"] + sys.argv[1:])

from .cli import main  # noqa: E402

sys.exit(main())
