"""Mechanical extraction of functions from the real source tree (re-read on every run)."""
from __future__ import annotations

import ast
import hashlib
import os

from .core import SRC, Unsupported

_modules: dict[str, "Module"] = {}


class Module:
    def __init__(self, relpath):
        self.relpath = relpath
        self.path = os.path.join(SRC, relpath)
        with open(self.path, encoding="utf-8") as f:
            self.text = f.read()
        self.tree = ast.parse(self.text, filename=self.path)
        self.defs: dict[str, ast.AST] = {}
        self._index(self.tree.body, "")
        self.toplevel = {}
        for node in self._flatten_toplevel(self.tree.body):
            if isinstance(node, (ast.FunctionDef, ast.AsyncFunctionDef, ast.ClassDef)):
                self.toplevel[node.name] = node

    def _flatten_toplevel(self, body):
        """Top-level statements, looking through `if sys.version_info`/TYPE_CHECKING is NOT done:
        only plain top-level definitions are visible by name."""
        for node in body:
            yield node

    def _index(self, body, prefix):
        for node in body:
            if isinstance(node, (ast.FunctionDef, ast.AsyncFunctionDef)):
                q = prefix + node.name
                # property setters share the name: index as name.setter
                deco = [ast.unparse(d) for d in node.decorator_list]
                if any(d in ("overload", "typing.overload") for d in deco):
                    continue  # a typing stub, not the definition that runs
                if any(d.endswith(".setter") for d in deco):
                    q = q + ".setter"
                self.defs.setdefault(q, node)
                self._index(node.body, q + ".<locals>.")
            elif isinstance(node, ast.ClassDef):
                q = prefix + node.name
                self.defs.setdefault(q, node)
                self._index(node.body, q + ".")
            elif isinstance(node, (ast.If, ast.Try, ast.With, ast.For, ast.While, ast.AsyncWith, ast.AsyncFor)):
                for fld in ("body", "orelse", "finalbody"):
                    self._index(getattr(node, fld, []) or [], prefix)
                for h in getattr(node, "handlers", []) or []:
                    self._index(h.body, prefix)

    def get(self, qualname):
        if qualname not in self.defs:
            raise Unsupported(f"function under contract not found: {self.relpath}:{qualname}")
        return self.defs[qualname]

    def source_of(self, node):
        return ast.get_source_segment(self.text, node) or ""

    def sha(self, qualname):
        return hashlib.sha256(self.source_of(self.get(qualname)).encode()).hexdigest()


def module(relpath) -> Module:
    if relpath not in _modules:
        _modules[relpath] = Module(relpath)
    return _modules[relpath]


def reset():
    _modules.clear()
