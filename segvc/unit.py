"""Verification units: one function (or lemma) under contract + the driver that enumerates paths."""
from __future__ import annotations

import os
import time
import traceback
import types
import z3

from . import extract, lib
from .core import BOOL, CLASSES, INT, H, Obligation, PathEnd, RefT, Sym, Unsupported
from .interp import BoundMethod, Ctx, ExcVal, FuncVal, Interp, PyExc


class LoopSpec:
    def __init__(self, inv, modifies=None, local_types=None, decreases=None, after_havoc=None, exec_for=None, gen_locals=None):
        self.gen_locals = gen_locals or {}  # name -> fn(ip, value): the value of a loop-carried local after any number of iterations
        self._inv = inv
        self.modifies = set(modifies) if modifies is not None else None
        self.local_types = local_types or {}
        self.decreases = decreases
        self._after_havoc = after_havoc
        self._exec_for = exec_for

    def inv(self, ip, env):
        return self._inv(ip, env)

    def after_havoc(self, ip, env):
        if self._after_havoc:
            self._after_havoc(ip, env)

    def exec_for(self, ip, s, env, f, ordinal):
        if self._exec_for is None:
            raise Unsupported("for-loop without an iteration rule")
        return self._exec_for(self, ip, s, env, f, ordinal)


class Case:
    def __init__(self, name, when, ensures, raises=None, ret_ty=None, no_suspend=False, modifies=None):
        self.name, self.when, self.ensures, self.raises, self.ret_ty = name, when, ensures, raises, ret_ty
        self.no_suspend = no_suspend  # this exit is reached without passing a suspension point (obligation of the callee)
        self.modifies = modifies  # frame of this case (overrides the contract's)


class Contract:
    """Pre/postconditions by cases, used on both sides: assumed at call sites, checked against the
    callee's own body by the callee's unit."""

    def __init__(self, qualname, requires, cases, modifies=None, bind=None, suspends=False, checkpoints=False):
        self.checkpoints = checkpoints  # the callee checks cancellation before any effect (proved by its own C08 obligations)
        self.suspends = suspends  # coroutine that may suspend: other tasks run between call and return
        self.qualname = qualname
        self.requires = requires  # fn(h, a) -> [(name, term)]
        self.cases = cases
        self.modifies = modifies  # set of (cls, field) or None = everything
        self.bind = bind  # fn(ip, args, kwargs) -> namespace

    def apply(self, ip, f, args, kwargs):
        ctx, st = ip.ctx, ip.st
        a = self.bind(ip, args, kwargs)
        pre = H(st, st.snapshot())
        site = f"{ip.where()}/call:{self.qualname.split('.')[-1]}"
        for name, t in self.requires(pre, a):
            ctx.oblige(f"{site}/pre:{name}", t, "pre")
        whens = [c.when(pre, a) for c in self.cases]
        ctx.oblige(f"{site}/pre:case-coverage", z3.Or(*[ip._b(w) for w in whens]), "pre")
        i = ctx.decide(len(self.cases), f"case:{self.qualname.split('.')[-1]}")
        case = self.cases[i]
        w = whens[i]
        if w is False or not st.feasible(ip._b(w)):
            raise PathEnd("case infeasible")
        st.assume(ip._b(w))
        ctx.last_case[self.qualname] = case.name
        if self.suspends and not getattr(case, "no_suspend", False):
            # the callee may suspend any number of times: the caller's invariant is asserted, the heap is replaced by
            # an arbitrary one satisfying the invariant (+ rely), then the callee's postcondition is assumed
            a.case = case.name
            if self.checkpoints:
                ctx.unit.on_cancellation_check(ip, "callee")
                ctx.flags["checked"] = True
            lib.suspend(ip, "call:" + self.qualname, a)
            post = H(st)
            ret = None
            if case.ret_ty is not None:
                ret = Sym(st.fresh("ret", case.ret_ty.sort()), case.ret_ty)
            for name, t in case.ensures(pre, post, a, ret.t if ret is not None else None):
                st.assume(t)
            exc = self.make_exc(ip, case) if case.raises is not None else None
            ctx.unit.after_suspending_call(ip, self, a, case, exc, ret)
            if exc is not None:
                raise PyExc(exc)
            return ret
        modifies = case.modifies if case.modifies is not None else self.modifies
        st.havoc(keys=modifies)
        if modifies is None and st.writes is not None:
            for ws in st.writes:
                ws.add(("*", "*"))
        elif st.writes is not None:
            for ws in st.writes:
                ws.update(modifies)
        post = H(st)
        ret = None
        if case.ret_ty is not None:
            ret = Sym(st.fresh("ret", case.ret_ty.sort()), case.ret_ty)
        for name, t in case.ensures(pre, post, a, ret.t if ret is not None else None):
            st.assume(t)
        if case.raises is not None:
            raise PyExc(self.make_exc(ip, case))
        return ret

    def make_exc(self, ip, case):
        if case.raises == "CancelledError":
            return lib.new_cancelled(ip)
        return ExcVal(lib.exc_classes()[case.raises], ())

    def check_exit(self, ip, pre, a, exc, ret, tag):
        """callee side: the actual exit (normal with `ret`, or exception `exc`) must be allowed by a
        case whose guard held in the pre-state, and that case's postcondition must hold."""
        ctx, st = ip.ctx, ip.st
        post = H(st)
        matching = []
        for c in self.cases:
            if exc is None and c.raises is None:
                matching.append(c)
            elif exc is not None and c.raises is not None:
                m = lib.exc_isinstance(ip, exc, (lib.exc_classes()[c.raises],))
                if m is True:
                    matching.append(c)
        kind = "return" if exc is None else f"raise:{exc.pycls.__name__ if exc.pycls else 'sym'}"
        if not matching:
            ctx.fail(f"{tag}/post:exit-allowed[{kind}]", "post", f"no case of the contract allows this exit ({kind})")
            return
        ctx.oblige(f"{tag}/post:exit-allowed[{kind}]", z3.Or(*[ip._b(c.when(pre, a)) for c in matching]), "post")
        for c in matching:
            w = ip._b(c.when(pre, a))
            if not st.feasible(w):
                continue
            rt = None
            if ret is None and c.ret_ty in (BOOL, INT):
                # the contract's case promises a bool / int result, the (edited) function returned None
                ctx.fail(f"{tag}/post:{c.name}.returns_a_value_of_the_promised_type", "post", "the function returned None where its contract promises a value")
                continue
            if ret is not None and c.ret_ty is not None:
                rt = ip.term(ret, c.ret_ty)
            for name, t in c.ensures(pre, post, a, rt):
                ctx.oblige(f"{tag}/post:{c.name}.{name}", z3.Implies(w, t), "post")
            if c.no_suspend:
                ctx.oblige(f"{tag}/post:{c.name}.reached_without_suspending", z3.Implies(w, z3.BoolVal(ctx.flags["suspended"] == 0)), "post")


class Unit:
    """Base class. A unit names the property ids its obligations belong to."""

    props: tuple = ()
    name = "?"
    globals: dict = {}
    functions: tuple = ()  # (relpath, qualname) pairs read by this unit (for evidence)
    trusted: tuple = ()

    def run(self, ip):
        raise NotImplementedError

    def props_of(self, obligation_name):
        """the properties an obligation of this unit belongs to (default: all of the unit's)"""
        return set(self.props)

    # hooks with defaults ---------------------------------------------------
    def contract_for(self, qualname, ctx):
        return None

    def loop_spec(self, qualname, ordinal):
        return None

    def override_method(self, ip, obj, attr):
        return NotImplemented

    def before_container_store(self, ip, obj, idx, v):
        pass

    def after_field_store(self, ip, cn, attr, obj):
        """ghost code attached to a store into a declared field of the real code (default: none)"""

    def abstract_stmt(self, ip, stmt, env, f):
        """a unit may replace a statement by a stated abstraction (returns True when it did); default: never"""
        return False

    def loop_spec_by_shape(self, node, f):
        """fallback for loops without a registered invariant: a unit may recognise the *shape* of a loop (e.g. `for x in
        snapshot: x.set()`) and supply the invariant template for it"""
        return None

    def before_suspend(self, ip, what, payload):
        pass

    def after_resume(self, ip, what, payload):
        pass

    def eff_cancelled(self, ip):
        return ip.st.fresh("eff_cancelled", z3.BoolSort())

    def future_exception(self, ip, fut):
        return lib.sym_exc(ip, "fut_exc")

    def note_future_exception(self, ip, fut, e):
        pass

    def on_future_resolved(self, ip, fut):
        pass

    def model_getattr(self, ip, obj, attr):
        return NotImplemented

    def model_setattr(self, ip, obj, attr, val):
        return NotImplemented

    def class_getattr(self, ip, cv, attr):
        return NotImplemented

    def call_opaque(self, ip, f, args, kwargs):
        return NotImplemented

    def del_attr(self, ip, obj, attr):
        raise Unsupported(f"del .{attr}")

    def get_item(self, ip, obj, idx):
        return NotImplemented

    def set_item(self, ip, obj, idx, v):
        return NotImplemented

    def del_item(self, ip, obj, idx):
        return NotImplemented

    def contains(self, ip, c, x):
        return NotImplemented

    def binop(self, ip, op, a, b):
        return NotImplemented

    def compare(self, ip, op, a, b):
        return NotImplemented

    def inplace(self, ip, op, cur, rhs):
        return NotImplemented

    def isinstance(self, ip, x, cls):
        return NotImplemented

    def to_tuple(self, ip, x):
        return NotImplemented

    def make_list(self, ip, elems):
        raise Unsupported("list literal")

    def list_comp(self, ip, e, env, mp):
        raise Unsupported("comprehension")

    def make_generator(self, ip, f, env):
        raise Unsupported("generator function")

    def do_yield(self, ip, v):
        raise Unsupported("yield")

    def await_model(self, ip, aw):
        return NotImplemented

    def after_suspending_call(self, ip, contract, a, case, exc, ret=None):
        pass

    def on_cancellation_check(self, ip, kind):
        pass

    def construct_exception(self, ip, pycls, args):
        return NotImplemented

    def init_object(self, ip, info, ref):
        pass

    def dataclass_unset(self, ip, info, ref, name):
        raise Unsupported(f"dataclass field {info.name}.{name} without a default")


class ClassSpec:
    """Representation invariant of a class under contract."""

    def __init__(self, cls):
        self.cls = cls
        self.clauses = []  # (name, fn(h, self_term, cur_term) -> term)
        self.assumed = []  # model well-formedness / environment facts: assumed, never asserted

    def invariant(self, name):
        def deco(fn):
            self.clauses.append((name, fn))
            return fn

        return deco

    def assume(self, name):
        def deco(fn):
            self.assumed.append((name, fn))
            return fn

        return deco

    def inv_terms(self, h, s, cur):
        return [(n, fn(h, s, cur)) for n, fn in self.clauses]

    def assumed_terms(self, h, s, cur):
        return [(n, fn(h, s, cur)) for n, fn in self.assumed]


class C08:
    """Checkpoint discipline of one operation (property C08).
    unchanged(a, b, unit) -> term: the operation's abstract state is the same in heaps a and b
    exempt(pre, unit) -> term | None: states in which the yield may be skipped (documented fast_acquire mode)
    kind: "blocking" (must check cancellation before any effect and yield before returning) or
          "nowait" (explicitly synchronous: no suspension point at all)"""

    def __init__(self, unchanged, exempt=None, kind="blocking"):
        self.unchanged, self.exempt, self.kind = unchanged, exempt, kind


class MethodUnit(Unit):
    """Verify one method of a class with a representation invariant against its contract.

    entry:  assume wf + Inv(self) + contract.requires
    every suspension: assert Inv, havoc, assume wf + Inv (+ own ghost record)
    exit:   assert Inv + contract cases
    """

    spec: ClassSpec = None
    method = None  # method name
    contract: Contract = None
    is_setter = False
    is_init = False  # constructor: Inv is established, not assumed
    cover_exits = True
    inline = ()  # qualnames never replaced by a contract in this unit
    contracts: dict = {}  # qualname -> Contract used at call sites
    loops: dict = {}  # (qualname, ordinal) -> LoopSpec

    def __init__(self):
        ci = CLASSES[self.spec.cls]
        self.modpath, self.clsqual = ci.source
        if not self.is_setter:
            # a method the class inherits is verified where it is defined (with `self` of the subclass)
            todo = [ci]
            while todo:
                c = todo.pop(0)
                if c.source and f"{c.source[1]}.{self.method}" in extract.module(c.source[0]).defs:
                    self.modpath, self.clsqual = c.source
                    break
                todo.extend(CLASSES[b] for b in c.bases if b in CLASSES)
        q = f"{self.clsqual}.{self.method}" + (".setter" if self.is_setter else "")
        self.qualname = q
        self.name = q
        self.functions = ((self.modpath, q),)

    def make_args(self, ip):
        """returns (args list, namespace for the contract)"""
        return [], types.SimpleNamespace()

    def make_kwargs(self, ip):
        return {}

    def contract_for(self, qualname, ctx):
        if qualname == self.qualname and ctx.depth == 0:
            return None
        return self.contracts.get(qualname)

    def loop_spec(self, qualname, ordinal):
        return self.loops.get((qualname, ordinal))

    def assume_state(self, ip):
        h = H(ip.st)
        s, cur = self.self_val.t, ip.ctx.cur.t
        for n, t in self.spec.assumed_terms(h, s, cur):
            ip.st.assume(t)
        for n, t in self.spec.inv_terms(h, s, cur):
            ip.st.assume(t)

    def assert_inv(self, ip, site):
        h = H(ip.st)
        s, cur = self.self_val.t, ip.ctx.cur.t
        for n, t in self.spec.inv_terms(h, s, cur):
            ip.ctx.oblige(f"{self.qualname}{site}/inv:{n}", t, "inv")

    c08: C08 = None

    def props_of(self, obligation_name):
        if "/c08:" in obligation_name:
            return {"C08"}
        return set(self.props) - {"C08"}

    def on_cancellation_check(self, ip, kind):
        """called when the code reaches checkpoint() / checkpoint_if_cancelled() (or a callee whose contract says it
        checks cancellation first): K2 -- nothing has been acquired, sent, consumed or started before the first check"""
        if self.c08 is None or getattr(self, "_c08_checked", False):
            return
        self._c08_checked = True
        ip.ctx.oblige(f"{self.qualname}/c08:cancellation_is_checked_before_any_effect", self.c08.unchanged(self.c08_entry, H(ip.st), self), "post")

    def c08_before_suspend(self, ip, what):
        if self.c08 is None:
            return
        if self.c08.kind == "nowait":
            ip.ctx.fail(f"{self.qualname}/c08:explicitly_synchronous_call_has_no_suspension_point", "post", f"suspends at {what}")
        elif what not in ("checkpoint", "checkpoint_if_cancelled", "cancel_shielded_checkpoint"):
            # a genuine wait (pending future, unset event, blocking callee): the operation could not complete without
            # waiting, which is C03's territory (the wait itself is interruptible), not C08's
            self._c08_waited = True
        elif not getattr(self, "_c08_checked", False) and not getattr(self, "_c08_flagged", False):
            self._c08_flagged = True
            ip.ctx.fail(f"{self.qualname}/c08:cancellation_is_checked_before_the_first_suspension", "post", f"suspends at {what} before any cancellation check")

    def c08_exit(self, ip, pre, exc):
        if self.c08 is None:
            return
        ctx = ip.ctx
        n = ctx.flags["suspended"]
        if self.c08.kind == "nowait":
            ctx.oblige(f"{self.qualname}/c08:explicitly_synchronous_call_has_no_suspension_point", z3.BoolVal(n == 0), "post")
            return
        if exc is None:
            ctx.oblige(f"{self.qualname}/c08:is_a_checkpoint_even_when_it_completes_without_waiting", z3.BoolVal(getattr(self, "_c08_checked", False) or getattr(self, "_c08_waited", False)), "post")
            ex = self.c08.exempt(pre, self) if self.c08.exempt is not None else None
            goal = z3.BoolVal(n >= 1) if ex is None else z3.Or(z3.BoolVal(n >= 1), ex)
            ctx.oblige(f"{self.qualname}/c08:yields_to_the_event_loop_before_returning", goal, "post")
        elif exc.pycls is not None and exc.pycls.__name__ == "CancelledError" and n == 1 and getattr(self, "_c08_first_was_check", False):
            # interrupted at its very first suspension, which was the cancellation check: no effect (K2)
            ctx.oblige(f"{self.qualname}/c08:cancelled_on_entry_performs_no_effect", self.c08.unchanged(self.seg, H(ip.st), self), "post")

    def before_suspend(self, ip, what, payload):
        if ip.ctx.flags["suspended"] == 0:
            self._c08_first_was_check = what in ("checkpoint", "checkpoint_if_cancelled")
        self.c08_before_suspend(ip, what)
        self.ghost_suspend(ip, what, payload)
        self.assert_inv(ip, f"@suspend[{what}]")
        self.assert_guarantee(ip, f"@suspend[{what}]")
        self.accumulate(ip)
        self.before = H(ip.st, ip.st.snapshot())

    def after_resume(self, ip, what, payload):
        self.resume_assumptions(ip, what, payload)
        self.seg = H(ip.st, ip.st.snapshot())
        self.ghost_resume(ip, what, payload)

    def resume_assumptions(self, ip, what, payload):
        self.assume_state(ip)

    # per-call accumulators over the call's own segments -------------------------
    def segment_deltas(self, seg, now, s, cur):
        """{name: term}: the change this segment made to some abstract quantity; summed over the
        segments of the call and handed to on_exit as self.acc"""
        return {}

    def accumulate(self, ip):
        now = H(ip.st)
        for n, t in self.segment_deltas(self.seg, now, self.self_val.t, ip.ctx.cur.t).items():
            self.acc[n] = self.acc.get(n, 0) + t

    # rely / guarantee (two-state) -------------------------------------------
    def guarantee(self, seg, now, s, cur):
        """what one atomic segment run by task `cur` may do (checked at every suspension and exit)"""
        return []

    def assert_guarantee(self, ip, site):
        if self.is_init:
            return
        now = H(ip.st)
        for n, t in self.guarantee(self.seg, now, self.self_val.t, ip.ctx.cur.t):
            ip.ctx.oblige(f"{self.qualname}{site}/guar:{n}", t, "guar")

    def ghost_suspend(self, ip, what, payload):
        pass

    def ghost_exit(self, ip, pre, a, exc, ret):
        """ghost updates that belong to the code just executed (before the invariant is asserted at the exit)"""

    def ghost_init(self, ip):
        pass

    def ghost_resume(self, ip, what, payload):
        pass

    def run(self, ip):
        ctx, st = ip.ctx, ip.st
        if self.is_init:
            self.self_val = Sym(st.alloc(self.spec.cls), RefT(self.spec.cls))
            self.ghost_init(ip)
        else:
            self.self_val = Sym(z3.Int("self"), RefT(self.spec.cls))
            st.assume(self.self_val.t > 0)
            st.assume(st.allocated(self.self_val.t))
        args, a = self.make_args(ip)
        a.self = self.self_val.t
        a.cur = ctx.cur.t
        if not self.is_init:
            self.assume_state(ip)
        pre = H(st, st.snapshot())
        if self.contract is not None:
            for n, t in self.contract.requires(pre, a):
                st.assume(t)
        self.seg = pre
        self.c08_entry = pre
        self._c08_checked = self._c08_flagged = self._c08_first_was_check = self._c08_waited = False
        self.acc = {}
        self.on_entry(ip, pre, a)
        if self.is_setter:
            f = ip.find_setter(self.spec.cls, self.method)
        else:
            f = ip.find_method(self.spec.cls, self.method)[0]
        exc, ret = None, None
        wset = None
        if self.contract is not None and self.contract.modifies is not None:
            wset = set()
            st.writes = (st.writes or []) + [wset]
        try:
            # never replace the function under verification by its own contract
            env = ip.bind_args(f, [self.self_val] + args, self.make_kwargs(ip))
            ret = ip.run_body(f, env)
        except PyExc as e:
            exc = e.exc
        kind = "return" if exc is None else f"raise:{exc.pycls.__name__ if exc.pycls else 'sym'}"
        self.ghost_exit(ip, pre, a, exc, ret)
        if self.cover_exits:
            ctx.cover(f"{self.qualname}/cover:exit[{kind}]")
        if not (self.is_init and exc is not None):  # a constructor that raises leaves no object behind
            self.assert_inv(ip, "@exit")
        self.assert_guarantee(ip, "@exit")
        self.accumulate(ip)
        if wset is not None:
            extra = {w for w in wset if w not in self.contract.modifies and w[0] != "$" and not w[1].startswith("$")}
            if extra:
                ctx.fail(f"{self.qualname}/frame", "frame", f"writes {sorted(extra)} outside the contract's frame")
            else:
                ctx.oblige(f"{self.qualname}/frame", z3.BoolVal(True), "frame")
        if self.contract is not None:
            self.contract.check_exit(ip, pre, a, exc, ret, self.qualname)
        self.c08_exit(ip, pre, exc)
        self.on_exit(ip, pre, a, exc, ret)

    def on_entry(self, ip, pre, a):
        pass

    def on_exit(self, ip, pre, a, exc, ret):
        pass


class FunctionUnit(Unit):
    """Verify one module-level function (possibly a generator used through @contextmanager) against obligations
    stated in on_exit.  `yield` is handled by the unit's do_yield hook."""

    modpath = None
    funcname = None

    def __init__(self):
        self.name = self.qualname = self.funcname
        self.functions = ((self.modpath, self.funcname),)

    def make_args(self, ip):
        return [], {}

    def on_entry(self, ip, pre):
        pass

    def on_exit(self, ip, pre, exc, ret):
        pass

    def run(self, ip):
        from .interp import FuncVal

        st = ip.st
        args, kwargs = self.make_args(ip)
        pre = H(st, st.snapshot())
        self.on_entry(ip, pre)
        node = extract.module(self.modpath).get(self.funcname)
        f = FuncVal(node, None, self.modpath, self.funcname)
        exc, ret = None, None
        try:
            env = ip.bind_args(f, args, kwargs)
            ret = ip.run_body(f, env)
        except PyExc as e:
            exc = e.exc
        kind = "return" if exc is None else f"raise:{exc.pycls.__name__ if exc.pycls else 'sym'}"
        ip.ctx.cover(f"{self.qualname}/cover:exit[{kind}]")
        self.on_exit(ip, pre, exc, ret)
        self.after_exit(ip, pre, exc, ret)

    def after_exit(self, ip, pre, exc, ret):
        """obligations common to a family of function units (default: none)"""


class LemmaUnit(Unit):
    """A unit with no code: obligations over symbolic states only (environment actions, lemmas)."""

    def run(self, ip):
        self.lemma(ip)


# ----------------------------------------------------------------------------- driver


class UnitResult:
    def __init__(self, unit):
        self.unit = unit.name
        self.props = list(unit.props)
        self.functions = []
        self.obligations = []
        self.paths = 0
        self.status = "ok"  # ok | undecided | crash
        self.message = None
        self.seconds = 0.0


UNIT_BUDGET_S = int(os.environ.get("SEGVC_UNIT_BUDGET_S", "900"))


def explore(unit, max_paths=4000, prefix=(), split=()):
    """enumerate the paths of a unit depth-first by re-execution.  `prefix` fixes the first decisions (used to spread
    the paths of a heavy unit over several processes: every combination of first decisions is explored by exactly one
    job; a prefix that names a branch which does not exist yields no path).  `split` are the arities the jobs were
    generated for: where the code has *more* branches at one of the first decisions than the split foresaw (it was
    edited), the job that holds the last foreseen value there -- and zeros after it -- also explores the extra ones,
    so no path is ever left out."""
    res = UnitResult(unit)
    t0 = time.time()
    from . import core as _core

    _core.DEADLINE[:] = [t0 + 2 * UNIT_BUDGET_S]  # hard stop inside a single path (the soft budget is checked between paths)
    prefix = list(prefix)
    decisions: list[int] = list(prefix)
    owned = len(prefix)
    try:
        for modpath, q in unit.functions:
            res.functions.append({"file": modpath, "qualname": q, "sha256": extract.module(modpath).sha(q)})
        while True:
            ctx = Ctx(unit, decisions)
            ctx.prefix_len = len(prefix)
            ip = Interp(ctx, lib)
            try:
                unit.run(ip)
            except PathEnd:
                pass
            if getattr(ctx, "no_such_branch", False):
                break  # the prefix names a branch that does not exist: another job covers the real ones
            res.paths += 1
            res.obligations.extend(ctx.obls)
            d, n = ctx.decisions[: ctx.dpos], ctx.choices
            if ctx.dpos < len(prefix) and prefix[ctx.dpos:] != [0] * (len(prefix) - ctx.dpos):
                res.paths -= 1  # a path shorter than the prefix is reported by the job whose remaining prefix is all zeros
                del res.obligations[len(res.obligations) - len(ctx.obls):]
                break
            i = len(d) - 1
            while i >= 0:
                if d[i] + 1 < n[i]:
                    if i >= owned:
                        break
                    # inside the prefix: only the overflow beyond the foreseen arity, and only by one job
                    if split and i < len(split) and d[i] >= split[i] - 1 and prefix[i + 1:] == [0] * (len(prefix) - i - 1):
                        break
                i -= 1
            if i < 0:
                break
            owned = min(owned, i + 1)  # below an overflow branch every later decision is this job's
            decisions = d[:i] + [d[i] + 1]
            if res.paths >= max_paths:
                raise Unsupported(f"more than {max_paths} paths")
            if time.time() - t0 > UNIT_BUDGET_S:
                raise Unsupported(f"path exploration of this unit exceeded its wall-clock budget of {UNIT_BUDGET_S} s after {res.paths} paths (undecided, not a verdict)")
    except Unsupported as e:
        res.status = "undecided"
        res.message = f"unsupported: {e}"
    except Exception as e:  # checker crash
        res.status = "crash"
        res.message = "".join(traceback.format_exception(e))[-3000:]
    res.seconds = time.time() - t0
    return res
