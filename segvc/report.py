"""Aggregation of unit results: evidence file, replay files, known findings, exit code."""
from __future__ import annotations

import hashlib
import json
import os
import re
import subprocess
import sys

ROOT = os.path.dirname(os.path.dirname(os.path.abspath(__file__)))
KNOWN = os.path.join(ROOT, "KNOWN_FINDINGS.txt")
# evidence/ and replays/ are written under OUT (the self-test on scratch copies redirects it so that a run on a
# deliberately broken copy never overwrites the evidence of the real tree)
OUT = os.environ.get("SEGVC_OUT", ROOT)


TRUSTED_TEXT = {
    "E1": "E1 (DESIGN.md section 3): on one event loop no other task or callback runs between two suspension points of a coroutine nor during a synchronous call",
    "E2": "E2: a task awaiting an asyncio future resumes only when it is done - with its result, its exception, CancelledError because the future was cancelled, or CancelledError although the future already has a result (Task.cancel arrived before the wake-up ran); the environment may cancel a pending future at any time",
    "E3": "E3: Task.cancel() cancels a pending waiter future or sets _must_cancel; CancelledError enters a coroutine only at a suspension point",
    "E7": "E7: asyncio.Event.wait() returns only if the flag is set, set() wakes all current waiters, no spurious wake-ups; the engine's z3 models of deque / set / OrderedDict are taken to behave like CPython's (not cross-validated mechanically)",
    "A-own": "A-own: a lock handed to Condition(lock) is acquired and released only through the condition while the condition is in use (unchecked precondition from the call sites)",
    "A-event-private": "A-event-private: the asyncio.Event inside an anyio Event wrapper is an owned sub-object (heap model gives it its owner's identity); justified by the checked frame obligations Event/frame:* (assigned only in Event.__init__, reached only through self, never cleared), not by a mechanised ownership calculus",
    "A-dispatch": "A-dispatch: the front-end constructors Event()/Lock()/get_async_backend().create_event() dispatch to the asyncio backend classes (not under contract)",
    "A-shield": "A-shield: `with CancelScope(shield=True)` around the re-acquire is a private scope nobody can cancel, so its __exit__ swallows nothing; the shield only removes AnyIO cancellation from the outcomes of the enclosed await (native Task.cancel stays possible and is explored)",
    "A-taskinfo": "A-taskinfo: TaskInfo equality is task identity (TaskInfo.__eq__ compares id(task); id reuse after garbage collection ignored)",
    "A-borrower": "A-borrower: one borrower identity is used by at most one in-flight acquire_on_behalf_of and is not released by a third party while that call is suspended (precondition taken from the call sites, unchecked)",
}
ALWAYS_TRUSTED = [
    "the segvc engine itself (AST lowering, path enumeration, havoc/frame handling) - exercised by the seeded-edit self-test, not proved",
    "z3 as the only back end (stage 1 E-matching, stage 2 MBQI)",
    "Python int/float as mathematical integers/reals with two opaque infinities (no NaN, no rounding)",
    "extraction drops annotations, docstrings, cast(), `from None`; sys.version_info folded for 3.12 (section 2.2 of DESIGN.md)",
    "liveness (a resolved future/event eventually resumes its waiter) is the event loop's, not proved",
]


def load_known():
    out = []
    if not os.path.exists(KNOWN):
        return out
    for line in open(KNOWN, encoding="utf-8"):
        line = line.strip()
        if not line or line.startswith("#"):
            continue
        m = re.match(r"finding:\s+property=(\S+)\s+obligation=(\S+)\s+(.*)", line)
        if m:
            out.append({"property": m.group(1), "obligation": m.group(2), "text": m.group(3)})
    return out


def finish(prop, tier, results, wall, verbose=False, partial=False):
    seed = int(os.environ.get("VERIF_SEED", "0") or 0)
    known = [k for k in load_known() if k["property"] == prop]
    by_name: dict[str, dict] = {}
    undecided, crashed = [], []
    functions, trusted = [], set()
    paths = 0
    solver_s = 0.0
    for r in results:
        paths += r["paths"]
        functions.extend(r["functions"])
        trusted.update(r["trusted"])
        if r["status"] == "undecided":
            undecided.append(f"{r['unit']}: {r['message']}")
        elif r["status"] == "crash":
            crashed.append(f"{r['unit']}: {r['message']}")
        for o in r["obligations"]:
            solver_s += o["seconds"]
            e = by_name.setdefault(o["name"], {"name": o["name"], "kind": o["kind"], "instances": 0, "proved": 0, "refuted": [], "unknown": [], "unit": r["unit"]})
            e["instances"] += 1
            if o["verdict"] == "cover-unknown":
                e["cover_unknown"] = e.get("cover_unknown", 0) + 1
                e["proved"] += 1  # a cover that the solver could not decide is reported, not counted as vacuity
            elif o["verdict"] == "proved":
                e["proved"] += 1
            elif o["verdict"] == "refuted":
                e["refuted"].append(o)
            else:
                e["unknown"].append(o)
    # a `cover` (vacuity guard) holds when the exit is reachable on at least one path: a path whose condition the
    # solver finds contradictory only after the (short) feasibility budget is an infeasible path, not a violation
    for e in by_name.values():
        if e["kind"] == "cover" and e["proved"] > 0 and e["refuted"]:
            e["infeasible_paths"] = len(e["refuted"])
            e["instances"] -= len(e["refuted"])
            e["refuted"] = []
    total = len(by_name)
    discharged = sum(1 for e in by_name.values() if e["proved"] == e["instances"])
    refuted = [e for e in by_name.values() if e["refuted"]]
    unknown = [e for e in by_name.values() if e["unknown"] and not e["refuted"]]

    lines = []
    violations = 0
    known_hits = []
    os.makedirs(os.path.join(OUT, "replays"), exist_ok=True)
    for e in refuted:
        k = next((k for k in known if k["obligation"] == e["name"]), None)
        if k is not None:
            known_hits.append(k)
            lines.append(f"KNOWN-FINDING: property={prop} obligation={e['name']} {k['text']}")
            continue
        violations += 1
        o = e["refuted"][0]
        hid = hashlib.sha256(e["name"].encode()).hexdigest()[:10]
        rp = os.path.join(OUT, "replays", f"{prop}-{hid}.json")
        replay = {
            "property": prop,
            "obligation": e["name"],
            "kind": e["kind"],
            "unit": e["unit"],
            "solver": {"backend": o["backend"], "verdict": o["verdict"], "seconds": o["seconds"], "model": o["model"]},
            "goal": o["goal"],
            "path": o["path"],
            "instances_refuted": len(e["refuted"]),
            "native": None,
        }
        native = try_native_replay(prop, e, replay)
        replay["native"] = native
        with open(rp, "w") as f:
            json.dump(replay, f, indent=1, default=str)
        suffix = "" if native and native.get("reproduced") else " no-failing-input-found"
        lines.append(f"VIOLATION property={prop} replay={rp} obligation={e['name']}{suffix}")

    for line in lines:
        print(line)
    if verbose or unknown or undecided or crashed:
        for e in unknown:
            print(f"UNDECIDED obligation={e['name']} (solver returned unknown)")
        for m in undecided:
            print(f"UNDECIDED {m}")
        for m in crashed:
            print(f"CRASH {m}")
    samples = []
    for e in list(by_name.values())[:: max(1, total // 8 or 1)][:8]:
        samples.append({"obligation": e["name"], "kind": e["kind"], "instances": e["instances"], "verdict": "proved" if e["proved"] == e["instances"] else "not proved"})
    evidence = {
        "property_id": prop,
        "tier": tier if tier in ("quick", "thorough") else "quick",
        "seed": seed,
        "level": "proof",
        "coverage": {
            "obligations": total,
            "discharged": discharged,
            "obligation_instances": sum(e["instances"] for e in by_name.values()),
            "paths": paths,
            "checker_cmd": f"python3-vt -m segvc check {prop} --tier {tier}",
            "backends": {"z3": sum(e["instances"] for e in by_name.values())},
            "solver_seconds": round(solver_s, 3),
            "trusted_base": [TRUSTED_TEXT.get(t, t) for t in sorted(trusted)] + ALWAYS_TRUSTED,
            "functions_under_contract": functions,
            "refuted": [e["name"] for e in refuted],
            "known_findings_matched": [k["obligation"] for k in known_hits],
            "unknown": [e["name"] for e in unknown],
            "covers_undecided": [e["name"] for e in by_name.values() if e.get("cover_unknown")],
            "undecided_units": undecided,
            "samples": samples,
            "by_kind": _count_kinds(by_name),
        },
        "assumptions": [TRUSTED_TEXT.get(t, t) for t in sorted(trusted)] + ALWAYS_TRUSTED,
        "wall_s": round(wall, 3),
        "violations": violations,
    }
    if not partial:
        os.makedirs(os.path.join(OUT, "evidence"), exist_ok=True)
        with open(os.path.join(OUT, "evidence", f"{prop}.json"), "w") as f:
            json.dump(evidence, f, indent=1)
    print(
        f"{prop}: {discharged}/{total} obligations discharged ({sum(e['instances'] for e in by_name.values())} instances, {paths} paths, "
        f"{len(functions)} functions, solver {solver_s:.1f}s, wall {wall:.1f}s); refuted={len(refuted)} known={len(known_hits)} unknown={len(unknown)} undecided_units={len(undecided)} crashed={len(crashed)}"
    )
    if crashed:
        return 3
    if violations:
        return 1
    if unknown or undecided:
        return 2
    if total == 0:
        print("no obligations generated (vacuous) -> undecided")
        return 2
    return 0


def _count_kinds(by_name):
    out = {}
    for e in by_name.values():
        out[e["kind"]] = out.get(e["kind"], 0) + 1
    return out


_native_cache: dict = {}


def try_native_replay(prop, e, replay):
    """Failing-input search on the real code: /verif/replayers/<prop>.py, run under /venv/bin/python with
    PYTHONPATH pointing at the src/ of the very tree the obligations were generated from.  One search per
    (property, class) and run: the history it finds is a failing input for the property on this tree and is
    attached to every refuted obligation of that class."""
    from .core import REPO

    script = os.path.join(ROOT, "replayers", f"{prop}.py")
    if not os.path.exists(script):
        return {"reproduced": False, "reason": "no native replayer for this property; solver model attached"}
    key = (prop, e["name"].split(".")[0].split("/")[0])
    if key in _native_cache:
        return _native_cache[key]
    try:
        env = dict(os.environ, PYTHONPATH=os.path.join(REPO, "src"), SEGVC_REPO=REPO)
        p = subprocess.run(["/venv/bin/python", script, "--obligation", e["name"]], input=json.dumps(replay, default=str), capture_output=True, text=True, timeout=180, env=env)
        out = p.stdout.strip().splitlines()
        last = out[-1] if out else ""
        r = {"reproduced": last.startswith("reproduced=True"), "output": p.stdout[-3000:], "stderr": p.stderr[-1000:]}
    except Exception as ex:  # pragma: no cover
        r = {"reproduced": False, "reason": f"replayer failed: {ex}"}
    _native_cache[key] = r
    return r
