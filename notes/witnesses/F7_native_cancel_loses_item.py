import anyio, asyncio
from anyio import create_memory_object_stream, create_task_group, sleep, CancelScope
async def main():
    s, r = create_memory_object_stream(1)
    got=[]
    async def receiver():
        try:
            got.append(await r.receive())
        except BaseException as e:
            got.append(repr(e)); raise
    rt = asyncio.ensure_future(receiver())
    await sleep(0.01)
    s.send_nowait("item1")       # handed directly to blocked receiver
    rt.cancel()                  # native cancellation in the same cycle
    try: await rt
    except BaseException as e: pass
    print("native cancel: receiver saw", got, "stats", s.statistics())
    try: print("next receive_nowait:", r.receive_nowait())
    except Exception as e: print("next receive_nowait raised", type(e).__name__, "-> item1 lost")
    # same with anyio scope cancel
    s2, r2 = create_memory_object_stream(1)
    got2=[]
    async with create_task_group() as tg:
        sc = CancelScope()
        async def receiver2():
            with sc:
                got2.append(await r2.receive())
                got2.append("after")
                await sleep(0)
                got2.append("not reached?")
        tg.start_soon(receiver2)
        await sleep(0.01)
        s2.send_nowait("item2"); sc.cancel()
    print("anyio cancel:", got2, s2.statistics())
anyio.run(main)
