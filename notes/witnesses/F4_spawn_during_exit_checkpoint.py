import anyio, asyncio
from anyio import create_task_group, CancelScope, sleep, Event

log=[]
async def child():
    log.append("child start")
    try:
        await sleep(0.3)
        log.append("child finished sleep (NOT cancelled)")
    except BaseException as e:
        log.append(f"child interrupted {type(e).__name__}")
        raise

async def outsider(tg):
    try:
        tg.start_soon(child)
        log.append("outsider spawned child into tg")
    except Exception as e:
        log.append(f"outsider spawn failed: {e!r}")

async def main():
    async with create_task_group() as outer:
        async with create_task_group() as tg:
            outer.start_soon(outsider, tg)
        log.append(f"tg block exited; tg._tasks={len(tg._tasks)}")
        await sleep(0.5)
    print("\n".join(log))

anyio.run(main)
