import anyio, asyncio
from anyio import CapacityLimiter, sleep
async def main():
    lim = CapacityLimiter(1)
    async def acq():
        await lim.acquire_on_behalf_of("x")
    t = asyncio.ensure_future(acq())
    await asyncio.sleep(0)      # let it run to the shielded checkpoint (token taken)
    print("borrowers while in shielded yield:", lim.statistics().borrowers)
    t.cancel()                  # native cancellation lands during the yield
    try:
        await t
    except BaseException as e:
        print("acquire raised:", repr(e))
    print("after: borrowed =", lim.borrowed_tokens, "borrowers =", lim.statistics().borrowers)
anyio.run(main)
