import anyio
from anyio import Condition, create_task_group, sleep
async def main():
    c = Condition()
    async with c:
        pass
    try:
        c.notify()
        print("notify() after release: NOT refused; locked =", c.locked())
    except RuntimeError as e:
        print("refused:", e)
    try:
        c.notify_all()
        print("notify_all() after release: NOT refused")
    except RuntimeError as e:
        print("refused:", e)
    try:
        with anyio.move_on_after(0.05):
            await c.wait()
        print("wait() after release: NOT refused")
    except RuntimeError as e:
        print("wait refused:", e)
anyio.run(main)
