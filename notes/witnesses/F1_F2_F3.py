import anyio, asyncio
from anyio import create_task_group, CancelScope, sleep, Event, CapacityLimiter
import anyio.functools as af

async def f1():
    lim = CapacityLimiter(2)
    lim.acquire_on_behalf_of_nowait("a"); lim.acquire_on_behalf_of_nowait("b")
    async with create_task_group() as tg:
        async def w():
            await lim.acquire_on_behalf_of("c")
            print("F1: c acquired: borrowed", lim.borrowed_tokens, "total", lim.total_tokens)
        tg.start_soon(w)
        await sleep(0.01)
        lim.total_tokens = 0
        lim.total_tokens = 2
        await sleep(0.01)

async def f2():
    # child raises while being cancelled because its starter was cancelled
    async def child(task_status):
        try:
            await sleep(1)
        finally:
            raise ValueError("cleanup failed")
    try:
        async with create_task_group() as tg:
            with CancelScope() as sc:
                async def canc():
                    await sleep(0.01); sc.cancel()
                tg.start_soon(canc)
                await tg.start(child)
            print("F2: start returned/was cancelled; caught=", sc.cancelled_caught)
        print("F2: group exited without error -> ValueError dropped")
    except BaseException as e:
        print("F2: group raised", repr(e), getattr(e,'exceptions',None))

async def f3():
    calls=[]
    gate={}
    @af.lru_cache(maxsize=1)
    async def fn(k):
        calls.append(k)
        ev=gate.setdefault(k, Event())
        await ev.wait()
        if k=='a': raise RuntimeError('a failed')
        return k
    res={}
    async def call(name,k):
        try: res[name]=await fn(k)
        except BaseException as e: res[name]=repr(e)
    async with create_task_group() as tg:
        tg.start_soon(call,'A','a'); await sleep(0.01)
        tg.start_soon(call,'C','a'); await sleep(0.01)   # waits on lock of a
        tg.start_soon(call,'B','b'); await sleep(0.01)   # evicts in-flight a
        gate['a'].set(); await sleep(0.01)
        gate.setdefault('b',Event()).set(); await sleep(0.01)
        for e in gate.values(): e.set()
    print("F3:", res, fn.cache_info())

anyio.run(f1); anyio.run(f2); anyio.run(f3)
