import anyio, asyncio, time
from anyio import create_task_group, CancelScope, sleep, Event

log=[]
async def child(ev):
    log.append("child start")
    try:
        await sleep(0.3)
        log.append("child finished sleep (NOT cancelled though in cancelled scope)")
    except BaseException as e:
        log.append(f"child interrupted {type(e).__name__}")
        raise
    finally:
        ev.set()

async def main():
    t0=time.monotonic()
    async with create_task_group() as tg:
        tg.cancel_scope.cancel()
        with CancelScope(shield=True):
            await sleep(0.01)   # let delivery loop stop (no tasks)
            log.append(f"cancel_handle={tg.cancel_scope._cancel_handle}")
            ev=Event()
            tg.start_soon(child, ev)
            await ev.wait()
    log.append(f"elapsed {time.monotonic()-t0:.2f}")
    print("\n".join(log))

anyio.run(main)
