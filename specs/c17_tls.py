"""C17 -- TLSStream (anyio/streams/tls.py): the pump between an ssl.SSLObject with two MemoryBIOs and a transport stream.

Functions under contract: TLSStream._call_sslobject_method (the pump loop), receive, send, unwrap, aclose, and -- as a
path obligation read off the AST -- the handshake call at the end of TLSStream.wrap.

OpenSSL is outside (E10-ssl): an SSL call (do_handshake / read / write / unwrap) is an opaque operation that either
returns a result, or raises SSLWantReadError / SSLWantWriteError / SSLSyscallError / SSLEOFError / another SSLError
(whose strerror may name UNEXPECTED_EOF_WHILE_READING); it may append ciphertext to the outgoing BIO; SSLObject.read(n)
returns at most n bytes.  Ghost model of one stream object:
  out BIO   $npending (number of bytes waiting in the outgoing MemoryBIO), $taken (all bytes ever read out of it)
  $sent     all bytes handed to transport_stream.send(), in order
  $recv     all bytes transport_stream.receive() returned, in order;  $fed: all bytes written into the incoming BIO
What is decided for the pump, for every sequence of outcomes of the SSL call and of the transport:
  * T1  $sent == $taken at every wait and at every exit: every byte taken out of the outgoing BIO is handed to the
        transport, in order, before anything else happens;
  * T2  $fed == $recv: every chunk received from the transport is fed to the incoming BIO unchanged, in order;
  * before it waits for input, and before it returns a result, the outgoing BIO is empty (pending output is flushed);
  * the transport's end of stream is passed on as EOF of the incoming BIO (so that OpenSSL can tell a truncation from a
    closing handshake), never reported by the pump itself;
  * error mapping: SSLSyscallError and a transport OSError -> BrokenResourceError; SSLEOFError / UNEXPECTED_EOF ->
    BrokenResourceError when standard_compatible, EndOfStream otherwise; any other SSLError unchanged; both BIOs are
    closed on every such error; the result of the SSL call is returned unchanged.
receive: ValueError below 1; the SSL read is asked for exactly max_bytes (so that, with E10-ssl, never more is
returned); an empty read is EndOfStream.  send: one SSL write of the item through the pump.  unwrap / aclose: the
closing handshake first when standard_compatible, the transport closed in every case (forcefully on an error).
Assumed: A-single-user (one task at a time drives the pump of a stream object; the property's "both directions at
once" is NOT covered), E10-stream for the transport, A-seq.
"""
import ast
import ssl as _ssl
import types

import z3

from segvc import extract, lib
from segvc.core import BOOL, BYTES, CLASSES, H, INT, OBJ, RefT, Sym, Unsupported, register_class
from segvc.interp import AwaitableVal, Builtin, ClassVal, ExcVal, NS, PyExc
from segvc.unit import Case, ClassSpec, Contract, LemmaUnit, LoopSpec, MethodUnit

TLSF = "anyio/streams/tls.py"
T = "TLSStream"
register_class("OutBIO", {"$npending": INT, "$taken": BYTES, "$eof": BOOL}, kind="env")
register_class("InBIO", {"$fed": BYTES, "$eof": BOOL}, kind="env")
register_class("SSLObj", {"$calls": INT}, kind="env")
register_class("TStream", {"$sent": BYTES, "$recv": BYTES, "$eos": BOOL, "$closed": BOOL, "$forced": BOOL}, kind="env")
OB, IB, SO, TS = RefT("OutBIO"), RefT("InBIO"), RefT("SSLObj"), RefT("TStream")
register_class(T, {"transport_stream": TS, "standard_compatible": BOOL, "_ssl_object": SO, "_read_bio": IB, "_write_bio": OB}, source=(TLSF, T))
SPEC = ClassSpec(T)


def parts(h, s):
    return h.f(T, "transport_stream", s), h.f(T, "_ssl_object", s), h.f(T, "_read_bio", s), h.f(T, "_write_bio", s)


def tls_inv(h, s):
    ts, so, ib, ob = parts(h, s)
    return [
        ("T1_every_byte_taken_out_of_the_outgoing_BIO_has_been_handed_to_the_transport_in_order", h.f("TStream", "$sent", ts) == h.f("OutBIO", "$taken", ob)),
        ("T2_every_chunk_received_from_the_transport_has_been_fed_to_the_incoming_BIO_unchanged_in_order", h.f("InBIO", "$fed", ib) == h.f("TStream", "$recv", ts)),
        ("T3_the_incoming_BIO_is_at_EOF_only_after_the_transport_ended_or_an_error_closed_it", z3.Implies(h.f("InBIO", "$eof", ib), z3.Or(h.f("TStream", "$eos", ts), h.f("OutBIO", "$eof", ob)))),
    ]


def bind_ts(ip, args, kwargs):
    return types.SimpleNamespace(self=args[0].t, cur=ip.ctx.cur.t, data=(lib.bytes_term(ip, args[1]) if len(args) > 1 else None))


def _sent_post(pre, post, a, ret):
    return [("the_bytes_are_appended_to_what_the_transport_has_been_given", post.f("TStream", "$sent", a.self) == z3.Concat(pre_sent(pre, a), a.data))]


def pre_sent(pre, a):
    return pre.f("TStream", "$sent", a.self)


TS_SEND = Contract(
    "transport_stream.send",
    requires=lambda h, a: [],
    cases=[
        Case("sent", when=lambda pre, a: True, ensures=_sent_post),
        Case("broken", when=lambda pre, a: True, raises="BrokenResourceError", ensures=lambda pre, post, a, ret: []),
        Case("cancelled", when=lambda pre, a: True, raises="CancelledError", ensures=lambda pre, post, a, ret: []),
    ],
    bind=bind_ts,
    suspends=True,
)
TS_RECEIVE = Contract(
    "transport_stream.receive",
    requires=lambda h, a: [],
    cases=[
        Case("chunk", when=lambda pre, a: True, ret_ty=BYTES, ensures=lambda pre, post, a, ret: [("chunk_is_not_empty", z3.Length(ret) >= 1), ("appended_to_what_was_received", post.f("TStream", "$recv", a.self) == z3.Concat(pre.f("TStream", "$recv", a.self), ret))]),
        Case("end_of_stream", when=lambda pre, a: True, raises="EndOfStream", ensures=lambda pre, post, a, ret: [("the_transport_has_ended", post.f("TStream", "$eos", a.self)), ("nothing_received", post.f("TStream", "$recv", a.self) == pre.f("TStream", "$recv", a.self))]),
        Case("os_error", when=lambda pre, a: True, raises="ConnectionResetError", ensures=lambda pre, post, a, ret: [("nothing_received", post.f("TStream", "$recv", a.self) == pre.f("TStream", "$recv", a.self))]),
        Case("cancelled", when=lambda pre, a: True, raises="CancelledError", ensures=lambda pre, post, a, ret: [("nothing_received", post.f("TStream", "$recv", a.self) == pre.f("TStream", "$recv", a.self))]),
    ],
    bind=bind_ts,
    suspends=True,
)
TS_ACLOSE = Contract(
    "transport_stream.aclose",
    requires=lambda h, a: [],
    cases=[
        Case("closed", when=lambda pre, a: True, ensures=lambda pre, post, a, ret: [("closed", post.f("TStream", "$closed", a.self))]),
        Case("cancelled", when=lambda pre, a: True, raises="CancelledError", ensures=lambda pre, post, a, ret: []),
    ],
    bind=bind_ts,
    suspends=True,
)


class StrErr:
    """exc.strerror of an SSLError: empty or not, naming UNEXPECTED_EOF_WHILE_READING or not"""

    def __init__(self, nonempty, unexpected_eof):
        self.nonempty, self.unexpected_eof = nonempty, unexpected_eof


SSL_OUTCOMES = ["result", "want_read", "want_write", "syscall", "eof", "other_unexpected_eof", "other"]


class TLSUnit(MethodUnit):
    props = ("C17",)
    spec = SPEC
    trusted = ("E1", "E10-ssl", "E10-stream", "A-single-user", "A-seq")
    contract = None

    def props_of(self, name):
        return {"C17"}

    def __init__(self):
        super().__init__()
        attrs = {n: ClassVal(n, pycls=getattr(_ssl, n)) for n in ("SSLWantReadError", "SSLWantWriteError", "SSLSyscallError", "SSLError", "SSLEOFError")}
        self.globals = {
            "ssl": NS("ssl", attrs),
            "aclose_forcefully": Builtin("aclose_forcefully", lambda ip, stream: AwaitableVal("contract", lambda: self.force_close(ip, stream))),
            "T_Retval": None,
        }
        self.ssl_calls = []
        self.script = None

    # -- environment -----------------------------------------------------------------------------------------------------
    def force_close(self, ip, stream):
        lib.suspend(ip, "call:aclose_forcefully", None)
        ip.st.put("TStream", "$forced", stream.t, z3.BoolVal(True))
        ip.st.put("TStream", "$closed", stream.t, z3.BoolVal(True))
        return None

    def model_getattr(self, ip, obj, attr):
        st = ip.st
        if isinstance(obj, Sym) and obj.ty is OB:
            if attr == "pending":
                return Sym(st.get("OutBIO", "$npending", obj.t), INT)
            if attr == "read":
                def read(ip, n=None):
                    # MemoryBIO.read(n=-1): the first min(n, pending) bytes (all of them for n < 0).  Only the *amount*
                    # of pending output is modelled; the bytes taken out are a fresh sequence of that length
                    np_ = st.get("OutBIO", "$npending", obj.t)
                    if n is None:
                        amount = np_
                    else:
                        k = ip.term(n, INT)
                        amount = z3.If(k < 0, np_, z3.If(k < np_, k, np_))
                    out = st.fresh("bio_read", z3.StringSort())
                    st.assume(z3.Length(out) == amount)
                    st.put("OutBIO", "$npending", obj.t, np_ - amount)
                    st.put("OutBIO", "$taken", obj.t, z3.Concat(st.get("OutBIO", "$taken", obj.t), out))
                    return Sym(out, BYTES)

                return Builtin("MemoryBIO.read", read)
            if attr == "write_eof":
                return Builtin("MemoryBIO.write_eof", lambda ip: st.put("OutBIO", "$eof", obj.t, z3.BoolVal(True)))
        if isinstance(obj, Sym) and obj.ty is IB:
            if attr == "write":
                return Builtin("MemoryBIO.write", lambda ip, data: st.put("InBIO", "$fed", obj.t, z3.Concat(st.get("InBIO", "$fed", obj.t), lib.bytes_term(ip, data))))
            if attr == "write_eof":
                return Builtin("MemoryBIO.write_eof", lambda ip: st.put("InBIO", "$eof", obj.t, z3.BoolVal(True)))
            if attr == "read":
                return Builtin("MemoryBIO.read", lambda ip: Sym(st.fresh("leftover", z3.StringSort()), BYTES))
            if attr == "pending":
                # how much undecrypted input the BIO holds is OpenSSL's business: an arbitrary non-negative amount
                n_ = st.fresh("inbio_pending", z3.IntSort())
                st.assume(n_ >= 0)
                return Sym(n_, INT)
            if attr == "eof":
                return Sym(st.get("InBIO", "$eof", obj.t), BOOL)
        if isinstance(obj, Sym) and obj.ty is SO:
            return Builtin(f"SSLObject.{attr}", lambda ip, *a: self.ssl_call(ip, attr, a))
        if isinstance(obj, Sym) and obj.ty is TS:
            c = {"send": TS_SEND, "receive": TS_RECEIVE, "aclose": TS_ACLOSE}.get(attr)
            if c is not None:
                return Builtin(f"transport_stream.{attr}", lambda ip, *a, **k: AwaitableVal("contract", lambda: c.apply(ip, None, [obj] + list(a), k)))
        if isinstance(obj, ExcVal) and attr == "strerror":
            return obj.attrs.get("strerror", "")
        return NotImplemented

    def ssl_call(self, ip, name, args):
        """one call into OpenSSL (E10-ssl): arbitrary outcome, may add ciphertext to the outgoing BIO"""
        st = ip.st
        self.ssl_calls.append((name, args))
        ob = parts(H(st), self.self_val.t)[3]
        more = st.fresh("ciphertext_bytes", z3.IntSort())
        st.assume(more >= 0)
        st.put("OutBIO", "$npending", ob, st.get("OutBIO", "$npending", ob) + more)
        k = ip.ctx.decide(len(SSL_OUTCOMES), f"ssl.{name}")
        o = SSL_OUTCOMES[k]
        self.last_ssl = o
        if o == "result":
            if name == "read":
                r = Sym(st.fresh("plaintext", z3.StringSort()), BYTES)
                n = ip.term(args[0], INT) if args else None
                if n is not None:
                    st.assume(z3.Length(r.t) <= n)  # E10-ssl: SSLObject.read(n) returns at most n bytes
                self.ssl_result = r
                return r
            self.ssl_result = Sym(st.fresh("ssl_result", z3.IntSort()), OBJ)
            return self.ssl_result
        cls = {"want_read": _ssl.SSLWantReadError, "want_write": _ssl.SSLWantWriteError, "syscall": _ssl.SSLSyscallError, "eof": _ssl.SSLEOFError}.get(o, _ssl.SSLError)
        e = ExcVal(cls, ())
        # strerror: a concrete representative of each case the code distinguishes
        e.attrs["strerror"] = "[SSL: UNEXPECTED_EOF_WHILE_READING] EOF occurred" if o == "other_unexpected_eof" else ("" if (o == "other" and ip.ctx.decide(2, "strerror-empty") == 1) else "[SSL] some other failure")
        self.ssl_exc = e
        raise PyExc(e)

    def truth_of(self, ip, v):
        if isinstance(v, StrErr):
            return v.nonempty
        return NotImplemented

    def contains(self, ip, c, x):
        if isinstance(c, StrErr):
            return c.unexpected_eof
        return NotImplemented

    def assume_state(self, ip):
        ip.st.use_cvc5 = True
        h = H(ip.st)
        s = self.self_val.t
        ts, so, ib, ob = parts(h, s)
        al = h.arr("$", "alloc")
        ip.st.assume(z3.And(s > 0, ts > 0, so > 0, ib > 0, ob > 0, z3.Select(al, ts), z3.Select(al, so), z3.Select(al, ib), z3.Select(al, ob)))
        for n, t in tls_inv(h, s):
            ip.st.assume(t)
        ip.st.assume(h.f("OutBIO", "$npending", ob) >= 0)

    def on_entry(self, ip, pre, a):
        self.ssl_calls = []
        self.waits = []
        self.last_ssl = None
        self.ssl_result = None
        self.ssl_exc = None

    def before_suspend(self, ip, what, payload):
        h = H(ip.st)
        s = self.self_val.t
        ts, so, ib, ob = parts(h, s)
        nm = self.qualname
        if what == "call:transport_stream.receive":
            ip.ctx.oblige(f"{nm}@wait[input]/post:pending_output_is_flushed_before_waiting_for_input", z3.And(h.f("OutBIO", "$npending", ob) == 0, *[t for n, t in tls_inv(h, s)]), "post")
        self.waits.append(what)
        super().before_suspend(ip, what, payload)

    def resume_assumptions(self, ip, what, payload):
        # A-single-user: nothing else touches the stream object's BIOs and transport while this task waits
        h, b = H(ip.st), self.before
        s = self.self_val.t
        for f_ in ("transport_stream", "standard_compatible", "_ssl_object", "_read_bio", "_write_bio"):
            ip.st.assume(h.f(T, f_, s) == b.f(T, f_, s))
        ts, so, ib, ob = parts(b, s)
        for cls_, fld, ref in (("OutBIO", "$npending", ob), ("OutBIO", "$taken", ob), ("OutBIO", "$eof", ob), ("InBIO", "$fed", ib), ("InBIO", "$eof", ib)):
            ip.st.assume(h.f(cls_, fld, ref) == b.f(cls_, fld, ref))
        al = h.arr("$", "alloc")
        ip.st.assume(z3.And(z3.Select(al, ts), z3.Select(al, so), z3.Select(al, ib), z3.Select(al, ob)))
        if not what.startswith("call:transport_stream"):
            for cls_, fld in (("TStream", "$sent"), ("TStream", "$recv"), ("TStream", "$eos")):
                ip.st.assume(h.f(cls_, fld, ts) == b.f(cls_, fld, ts))
        elif what == "call:transport_stream.send":
            ip.st.assume(z3.And(h.f("TStream", "$recv", ts) == b.f("TStream", "$recv", ts), h.f("TStream", "$eos", ts) == b.f("TStream", "$eos", ts)))
            ip.st.assume(z3.PrefixOf(b.f("TStream", "$sent", ts), h.f("TStream", "$sent", ts)))
        elif what == "call:transport_stream.receive":
            ip.st.assume(z3.And(h.f("TStream", "$sent", ts) == b.f("TStream", "$sent", ts), z3.Implies(b.f("TStream", "$eos", ts), h.f("TStream", "$eos", ts))))

    def after_suspending_call(self, ip, contract, a, case, exc, ret=None):
        if contract is TS_SEND and case.name != "sent":
            self.send_failed = True


def pump_loop_inv(ip, env):
    u = ip.ctx.unit
    h = H(ip.st)
    return [(n, t) for n, t in tls_inv(h, u.self_val.t)]


def pump_after_havoc(ip, env):
    u = ip.ctx.unit
    h = H(ip.st)
    s = u.self_val.t
    E = ip.ctx.loop_entry
    for f_ in ("transport_stream", "standard_compatible", "_ssl_object", "_read_bio", "_write_bio"):
        ip.st.assume(h.f(T, f_, s) == E.f(T, f_, s))
    ts, so, ib, ob = parts(h, s)
    al = h.arr("$", "alloc")
    ip.st.assume(z3.And(ts > 0, so > 0, ib > 0, ob > 0, z3.Select(al, ts), z3.Select(al, so), z3.Select(al, ib), z3.Select(al, ob)))


PUMP_LOOP = {("TLSStream._call_sslobject_method", 0): LoopSpec(pump_loop_inv, modifies=None, after_havoc=pump_after_havoc)}


class PumpUnit(TLSUnit):
    method = "_call_sslobject_method"
    loops = PUMP_LOOP
    split = (7, 2, 2)

    def make_args(self, ip):
        unit = self
        self.arg = Sym(z3.Int("ssl_argument"), OBJ)

        def func(ip, *a):
            return unit.ssl_call(ip, "operation", a)

        self.func = Builtin("ssl_operation", func)
        return [self.func, self.arg], types.SimpleNamespace()

    def on_exit(self, ip, pre, a, exc, ret):
        s = a.self
        post = H(ip.st)
        nm = "TLSStream._call_sslobject_method"
        ts, so, ib, ob = parts(post, s)
        for n, t in tls_inv(post, s):
            if n.startswith("T1") and getattr(self, "send_failed", False):
                continue  # a failed transport send: what was taken could not be delivered
            ip.ctx.oblige(f"{nm}@exit/inv:{n}", t, "inv")
        sc = pre.f(T, "standard_compatible", s)
        both_eof = z3.And(post.f("InBIO", "$eof", ib), post.f("OutBIO", "$eof", ob))
        if exc is None:
            ip.ctx.oblige(f"{nm}/post:returns_the_result_of_the_SSL_call_unchanged_with_all_pending_output_flushed", z3.And(z3.BoolVal(self.last_ssl == "result" and ret is self.ssl_result), post.f("OutBIO", "$npending", ob) == 0), "post")
            ip.ctx.oblige(f"{nm}/post:every_SSL_call_gets_the_callers_arguments", z3.BoolVal(all(len(c[1]) == 1 and c[1][0] is self.arg for c in self.ssl_calls)), "post")
            return
        name = exc.pycls.__name__ if exc.pycls is not None else "sym"
        o = self.last_ssl
        if name == "CancelledError":
            return
        if getattr(self, "send_failed", False) and name == "BrokenResourceError" and o in ("want_read", "want_write", "result"):
            return  # the transport's own error from send(), passed on
        if o == "syscall":
            ip.ctx.oblige(f"{nm}/post:SSLSyscallError_becomes_BrokenResourceError_and_both_BIOs_are_closed", z3.And(z3.BoolVal(name == "BrokenResourceError"), both_eof), "post")
        elif o in ("eof", "other_unexpected_eof"):
            ip.ctx.oblige(f"{nm}/post:an_unexpected_EOF_is_BrokenResourceError_when_standard_compatible_and_EndOfStream_otherwise", z3.And(z3.If(sc, z3.BoolVal(name == "BrokenResourceError"), z3.BoolVal(name == "EndOfStream")), both_eof), "post")
        elif o == "other":
            ip.ctx.oblige(f"{nm}/post:any_other_SSLError_is_re_raised_unchanged_with_both_BIOs_closed", z3.And(z3.BoolVal(exc is self.ssl_exc), both_eof), "post")
        elif o == "want_read":
            # the wait for input failed with an OSError of the transport
            ip.ctx.oblige(f"{nm}/post:a_transport_error_while_waiting_for_input_is_BrokenResourceError_with_both_BIOs_closed", z3.And(z3.BoolVal(name == "BrokenResourceError"), both_eof), "post")
        else:
            ip.ctx.oblige(f"{nm}/post:no_other_exit[{name} after {o}]", z3.BoolVal(False), "post")
        ip.ctx.oblige(f"{nm}/post:the_pump_itself_never_reports_end_of_stream_except_for_an_unexpected_EOF_of_a_non_standard_stream", z3.Implies(z3.BoolVal(name == "EndOfStream"), z3.And(z3.BoolVal(o in ("eof", "other_unexpected_eof")), z3.Not(sc))), "post")


PUMP = Contract(
    "TLSStream._call_sslobject_method",
    requires=lambda h, a: [],
    cases=[
        Case("result", when=lambda pre, a: True, ret_ty=OBJ, ensures=lambda pre, post, a, ret: []),
        Case("end_of_stream", when=lambda pre, a: True, raises="EndOfStream", ensures=lambda pre, post, a, ret: []),
        Case("broken", when=lambda pre, a: True, raises="BrokenResourceError", ensures=lambda pre, post, a, ret: []),
        Case("ssl_error", when=lambda pre, a: True, raises="Exception", ensures=lambda pre, post, a, ret: []),
        Case("cancelled", when=lambda pre, a: True, raises="CancelledError", ensures=lambda pre, post, a, ret: []),
    ],
    bind=lambda ip, args, kwargs: types.SimpleNamespace(self=args[0].t, cur=ip.ctx.cur.t),
    suspends=True,
)


class PumpCaller(TLSUnit):
    """receive / send / unwrap / aclose call the pump; the call is recorded (function and arguments) and its outcome is
    one of the pump's (proved above)"""

    def contract_for(self, qualname, ctx):
        unit = self
        if qualname == "TLSStream._call_sslobject_method":

            class Rec:
                suspends = True

                def apply(self_, ip, f, args, kwargs):
                    fn = args[1]
                    unit.pump_calls.append((getattr(fn, "name", repr(fn)), args[2:]))
                    k = fn.name.split(".")[-1] if isinstance(fn, Builtin) else "?"
                    r = PUMP.apply(ip, f, args, kwargs)
                    if k == "read" and r is not None:
                        # the pump returns the SSL call's result unchanged; SSLObject.read(n) gives at most n bytes (E10-ssl)
                        out = Sym(ip.st.fresh("plaintext", z3.StringSort()), BYTES)
                        if len(args) > 2:
                            ip.st.assume(z3.Length(out.t) <= ip.term(args[2], INT))
                        unit.pump_result = out
                        return out
                    unit.pump_result = r
                    return r

            return Rec()
        return self.contracts.get(qualname)

    def on_entry(self, ip, pre, a):
        super().on_entry(ip, pre, a)
        self.pump_calls = []
        self.pump_result = None
        self.transport_waits = 0
        self.direct_calls = []
        self._ip = ip

    def loop_spec_by_shape(self, node, f):
        # receive / send / unwrap / aclose have no loop of their own on the pinned tree; a loop added by an edit is run with
        # the weakest invariant (true: everything it may touch is unknown afterwards), so that the obligations about what
        # happened before it - e.g. an SSL call outside the pump - are still reported instead of the unit being undecided
        from segvc.core import PathEnd
        from segvc.unit import LoopSpec

        if self.direct_calls and getattr(self, "_ip", None) is not None:
            # an SSL call outside the pump has already happened on this path: report it now (exploring the added loop over
            # byte sequences with no invariant costs minutes and adds nothing)
            self._ip.ctx.fail(f"{self.qualname}/post:every_SSL_call_goes_through_the_pump", "post", f"SSL calls outside the pump: {[c[0] for c in self.direct_calls]}")
            raise PathEnd("reported")
        return LoopSpec(lambda ip, env: [], modifies=None)

    def ssl_call(self, ip, name, args):
        raise Unsupported("an SSL call outside the pump")

    def model_getattr(self, ip, obj, attr):
        if isinstance(obj, Sym) and obj.ty is SO:
            return Builtin(f"SSLObject.{attr}", lambda ip, *a: self.direct_ssl(ip, attr, a))
        if isinstance(obj, Sym) and obj.ty is TS and attr == "receive":
            # a wait for transport input outside the pump: only the SSL object knows whether it needs input (it may hold
            # decrypted data that no BIO shows), and it says so by SSLWantReadError inside the pump
            self.transport_waits = getattr(self, "transport_waits", 0) + 1
        return super().model_getattr(ip, obj, attr)

    def direct_ssl(self, ip, attr, a):
        self.direct_calls = getattr(self, "direct_calls", []) + [(attr, a)]
        if attr == "pending":
            return Sym(ip.st.fresh("ssl_pending", z3.IntSort()), INT)
        if attr == "write":
            # SSLObject.write(data) outside the pump: recorded (the callers' obligations demand the pump); returns a count
            n_ = Sym(ip.st.fresh("ssl_written", z3.IntSort()), INT)
            self.direct_result = n_
            return n_
        r = Sym(ip.st.fresh("plaintext", z3.StringSort()), BYTES)
        if a and isinstance(a[0], (int, Sym)) and not (isinstance(a[0], Sym) and a[0].ty is not INT):
            ip.st.assume(z3.Length(r.t) <= ip.term(a[0], INT))
        self.direct_result = r
        return r


class ReceiveUnit(PumpCaller):
    method = "receive"

    def make_args(self, ip):
        self.max_bytes = Sym(z3.Int("max_bytes"), INT)
        return [self.max_bytes], types.SimpleNamespace()

    def on_entry(self, ip, pre, a):
        super().on_entry(ip, pre, a)
        self.direct_calls = []

    def on_exit(self, ip, pre, a, exc, ret):
        nm = "TLSStream.receive"
        mb = self.max_bytes.t
        name = exc.pycls.__name__ if exc is not None and exc.pycls is not None else None
        if self.transport_waits:
            ip.ctx.fail(f"{nm}/post:waits_for_transport_input_only_inside_the_pump_when_the_SSL_object_asked_for_it", "post", f"receive() itself asks the transport for input ({self.transport_waits} time(s)) although the SSL object may still hold decrypted data")
        else:
            ip.ctx.oblige(f"{nm}/post:waits_for_transport_input_only_inside_the_pump_when_the_SSL_object_asked_for_it", z3.BoolVal(True), "post")
        if name == "ValueError":
            ip.ctx.oblige(f"{nm}/post:ValueError_only_for_max_bytes_below_one_and_nothing_is_read", z3.And(mb < 1, z3.BoolVal(not self.pump_calls and not self.direct_calls)), "post")
            return
        ip.ctx.oblige(f"{nm}/post:accepted_only_with_a_positive_max_bytes", mb >= 1, "post")
        if exc is None:
            r = ip.term(ret, BYTES)
            ip.ctx.oblige(f"{nm}/post:never_returns_more_than_max_bytes_nor_an_empty_chunk", z3.And(z3.Length(r) >= 1, z3.Length(r) <= mb), "post")
            ip.ctx.oblige(f"{nm}/post:returns_what_one_SSL_read_through_the_pump_produced", z3.BoolVal(len(self.pump_calls) == 1 and self.pump_calls[0][0] == "SSLObject.read" and isinstance(ret, Sym) and self.pump_result is not None and ret.t.eq(self.pump_result.t) and not self.direct_calls), "post")
        elif name == "EndOfStream":
            ip.ctx.oblige(f"{nm}/post:end_of_stream_only_for_an_empty_read_or_from_the_pump", z3.BoolVal(len(self.pump_calls) == 1), "post")


class SendUnit(PumpCaller):
    method = "send"

    def make_args(self, ip):
        self.item = Sym(z3.String("item"), BYTES)
        return [self.item], types.SimpleNamespace()

    def on_exit(self, ip, pre, a, exc, ret):
        ok = len(self.pump_calls) == 1 and self.pump_calls[0][0] == "SSLObject.write" and len(self.pump_calls[0][1]) == 1 and self.pump_calls[0][1][0] is self.item
        ok = ok and not getattr(self, "direct_calls", [])
        if ok:
            ip.ctx.oblige("TLSStream.send/post:one_SSL_write_of_exactly_the_item_through_the_pump", z3.BoolVal(True), "post")
        else:
            ip.ctx.fail("TLSStream.send/post:one_SSL_write_of_exactly_the_item_through_the_pump", "post", f"pump calls: {[c[0] for c in self.pump_calls]}, SSL calls outside the pump: {[c[0] for c in getattr(self, 'direct_calls', [])]}")


class UnwrapUnit(PumpCaller):
    method = "unwrap"

    def on_exit(self, ip, pre, a, exc, ret):
        s = a.self
        post = H(ip.st)
        ts, so, ib, ob = parts(pre, s)
        nm = "TLSStream.unwrap"
        ok = len(self.pump_calls) == 1 and self.pump_calls[0][0] == "SSLObject.unwrap"
        ip.ctx.oblige(f"{nm}/post:performs_the_closing_handshake_through_the_pump_exactly_once", z3.BoolVal(ok), "post")
        if exc is None:
            ip.ctx.oblige(f"{nm}/post:afterwards_both_BIOs_are_closed_and_the_transport_is_handed_back", z3.And(post.f("InBIO", "$eof", ib), post.f("OutBIO", "$eof", ob), z3.BoolVal(isinstance(ret, tuple) and len(ret) == 2 and isinstance(ret[0], Sym)), ret[0].t == ts if isinstance(ret, tuple) and isinstance(ret[0], Sym) else z3.BoolVal(False)), "post")


UNWRAP = Contract(
    "TLSStream.unwrap",
    requires=lambda h, a: [],
    cases=[
        Case("done", when=lambda pre, a: True, ensures=lambda pre, post, a, ret: []),
        Case("failed", when=lambda pre, a: True, raises="BrokenResourceError", ensures=lambda pre, post, a, ret: []),
        Case("cancelled", when=lambda pre, a: True, raises="CancelledError", ensures=lambda pre, post, a, ret: []),
    ],
    bind=lambda ip, args, kwargs: types.SimpleNamespace(self=args[0].t, cur=ip.ctx.cur.t),
    suspends=True,
)


class AcloseUnit(TLSUnit):
    method = "aclose"
    contracts = {"TLSStream.unwrap": UNWRAP}

    def contract_for(self, qualname, ctx):
        return self.contracts.get(qualname)

    def after_suspending_call(self, ip, contract, a, case, exc, ret=None):
        super().after_suspending_call(ip, contract, a, case, exc, ret)
        if contract is UNWRAP:
            self.unwrap_outcome = (case.name, exc)

    def on_entry(self, ip, pre, a):
        super().on_entry(ip, pre, a)
        self.unwrap_outcome = None

    def on_exit(self, ip, pre, a, exc, ret):
        s = a.self
        post = H(ip.st)
        nm = "TLSStream.aclose"
        ts = parts(pre, s)[0]
        sc = pre.f(T, "standard_compatible", s)
        uo = self.unwrap_outcome
        ip.ctx.oblige(f"{nm}/post:the_closing_handshake_is_done_exactly_when_standard_compatible", sc == z3.BoolVal(uo is not None), "post")
        if uo is not None and uo[1] is not None:
            ip.ctx.oblige(f"{nm}/post:a_failed_closing_handshake_closes_the_transport_forcefully_and_is_re_raised", z3.And(z3.BoolVal(exc is uo[1]), post.f("TStream", "$forced", ts)), "post")
        elif exc is None:
            ip.ctx.oblige(f"{nm}/post:the_transport_is_closed", post.f("TStream", "$closed", ts), "post")


class WrapPath(LemmaUnit):
    """TLSStream.wrap ends with `await wrapper._call_sslobject_method(ssl_object.do_handshake)` followed by `return
    wrapper`, both as plain statements of the function body (not inside any try / if): whatever the pump raises during
    the handshake -- in particular EndOfStream for a non-standard-compatible stream whose transport ends -- reaches the
    caller unchanged."""

    props = ("C17",)
    name = "TLSStream.wrap/path"
    functions = ((TLSF, "TLSStream.wrap"),)

    def props_of(self, name):
        return {"C17"}

    def lemma(self, ip):
        node = extract.module(TLSF).get("TLSStream.wrap")
        body = [s for s in node.body if not (isinstance(s, ast.Expr) and isinstance(s.value, ast.Constant))]
        last2 = [ast.unparse(s) for s in body[-2:]]
        ok = last2 == ["await wrapper._call_sslobject_method(ssl_object.do_handshake)", "return wrapper"]
        if ok:
            ip.ctx.oblige("TLSStream.wrap/post:the_handshake_runs_through_the_pump_and_its_errors_reach_the_caller_unchanged", z3.BoolVal(True), "post")
        else:
            ip.ctx.fail("TLSStream.wrap/post:the_handshake_runs_through_the_pump_and_its_errors_reach_the_caller_unchanged", "post", f"wrap() no longer ends with the plain handshake call and return: {last2}")


UNITS = [PumpUnit, ReceiveUnit, SendUnit, UnwrapUnit, AcloseUnit, WrapPath]
