"""C15 -- BlockingPortal: the per-call code that runs in the event loop and the thread-side bookkeeping around it
(anyio/from_thread.py).

Functions under contract:
  BlockingPortal._call_func                      the wrapper every portal call runs as a task of the portal's group
  BlockingPortal._call_func.<locals>.callback    the done-callback that ties the caller's future to the task's scope
  BlockingPortal.stop, _check_running, start_task_soon, _spawn_task_from_thread, __aexit__
  BlockingPortal.start_task.<locals>.task_done   relays the task's end to the waiter of start_task()

Decided here, for every outcome of the callable (returns a value, returns an awaitable that returns / raises / is
cancelled, raises an Exception, raises another BaseException) and every state of the caller's future:
  * the callable is called exactly once; the caller's concurrent.futures.Future receives exactly its return value or its
    exception (a cancellation ends the future cancelled-and-notified), unless the caller had cancelled it;
  * the wrapper itself never raises (no InvalidStateError from a cancelled future) except that a non-Exception
    BaseException of the callable is re-raised after it was reported;
  * an awaitable runs inside a scope of its own, and the done-callback registered on the future cancels exactly that
    scope when the future is cancelled (directly in the loop thread, through run_sync(scope.cancel) from another one);
  * stop() marks the portal as not running, sets the stop event and cancels the group's scope iff cancel_remaining --
    also when the portal had been stopped before; new calls are refused with RuntimeError once stopped or when made
    from the loop thread; start_task_soon spawns exactly one task for a fresh future and returns that future;
  * __aexit__ stops the portal and then joins the task group (C01: the join returns only when no task is left);
  * start_task's relay never leaves the waiter hanging: a task that ends without started() cancels / fails the
    readiness future, whatever way it ended, and the relay never raises.
Trusted: E9' (foreign threads act on a concurrent future only between two atomic segments of the loop thread: a
cancel() of the caller's future is modelled at suspension points; true preemption between `if not future.cancelled()`
and `future.set_result()` is NOT covered), the concurrent.futures.Future model below, from_thread.run_sync marshals a
call into the loop thread (E9), A-shield for the per-call scope (only the callback registered here can cancel it).
"""
import types

import z3

from segvc import extract, lib
from segvc.core import BOOL, CLASSES, H, INT, OBJ, OPTINT, RefT, Sym, Unsupported, register_class
from segvc.interp import AwaitableVal, BoundMethod, Builtin, ClassVal, Env, ExcVal, FuncVal, NS, PyExc
from segvc.unit import Case, ClassSpec, Contract, FunctionUnit, MethodUnit
from specs import c01_taskgroup as TGM
from specs import c04_scope as S4
from specs import c11_condition as E

FT = "anyio/from_thread.py"
P = "BlockingPortal"
# concurrent.futures.Future
CF_PENDING, CF_RUNNING, CF_CANCELLED, CF_NOTIFIED, CF_FINISHED = 0, 1, 2, 3, 4
register_class("CFuture", {"state": INT, "result": OBJ, "exc": OBJ, "$ncb": INT}, kind="env")
CF = RefT("CFuture")
register_class("PScope", {"cancel_called": BOOL}, kind="env")  # the per-call `with CancelScope() as scope`
PS = RefT("PScope")
register_class(P, {"_event_loop_thread_id": OPTINT, "_token": OBJ, "_stop_event": E.EVT, "_task_group": RefT(TGM.G)}, source=(FT, P))
PORTAL = ClassSpec(P)


def cstate(h, f):
    return h.f("CFuture", "state", f)


def c_cancelled(h, f):
    return z3.Or(cstate(h, f) == CF_CANCELLED, cstate(h, f) == CF_NOTIFIED)


def c_done(h, f):
    return z3.Or(c_cancelled(h, f), cstate(h, f) == CF_FINISHED)


# ---- concurrent.futures.Future (model of CPython's class; trusted) ------------------------------------------------------


def cf_cancel(ip, f):
    st = ip.st
    s = st.get("CFuture", "state", f.t)
    if ip.ctx.branch(z3.Or(s == CF_RUNNING, s == CF_FINISHED), "cf-running-or-finished"):
        return False
    if ip.ctx.branch(z3.Or(s == CF_CANCELLED, s == CF_NOTIFIED), "cf-already-cancelled"):
        return True
    st.put("CFuture", "state", f.t, z3.IntVal(CF_CANCELLED))
    ip.ctx.unit.cf_callbacks(ip, f)
    return True


def cf_cancelled(ip, f):
    return Sym(c_cancelled(H(ip.st), f.t), BOOL)


def cf_done(ip, f):
    return Sym(c_done(H(ip.st), f.t), BOOL)


def _cf_set(ip, f, result=None, exc=None):
    st = ip.st
    if ip.ctx.branch(c_done(H(st), f.t), "cf-already-done"):
        lib.raise_("InvalidStateError", "invalid state")
    st.put("CFuture", "state", f.t, z3.IntVal(CF_FINISHED))
    st.put("CFuture", "result", f.t, ip.term(result, OBJ) if exc is None else z3.IntVal(0))
    st.put("CFuture", "exc", f.t, z3.IntVal(0) if exc is None else ip.term(exc, OBJ))
    ip.ctx.unit.cf_callbacks(ip, f)


def cf_set_result(ip, f, v):
    return _cf_set(ip, f, result=v)


def cf_set_exception(ip, f, e):
    return _cf_set(ip, f, exc=e)


def cf_set_running(ip, f):
    st = ip.st
    s = st.get("CFuture", "state", f.t)
    if ip.ctx.branch(s == CF_CANCELLED, "cf-cancelled"):
        st.put("CFuture", "state", f.t, z3.IntVal(CF_NOTIFIED))
        return False
    if ip.ctx.branch(s == CF_PENDING, "cf-pending"):
        st.put("CFuture", "state", f.t, z3.IntVal(CF_RUNNING))
        return True
    lib.raise_("RuntimeError", "Future in unexpected state")


def cf_exception(ip, f, timeout=None):
    h = H(ip.st)
    if ip.ctx.branch(c_cancelled(h, f.t), "cf-cancelled"):
        raise PyExc(ExcVal(lib.exc_classes()["CancelledError"], ()))  # concurrent.futures.CancelledError
    if not ip.ctx.branch(cstate(h, f.t) == CF_FINISHED, "cf-finished"):
        raise Unsupported("Future.exception() on a pending future blocks the calling thread")
    e = ip.st.get("CFuture", "exc", f.t)
    if ip.ctx.branch(e == 0, "cf-no-exception"):
        return None
    return Sym(e, OBJ)


def cf_result(ip, f, timeout=None):
    """Future.result(): blocks the calling (foreign) thread until the future is done -- the loop thread resolves it
    meanwhile (E9); then the value, the stored exception, or CancelledError"""
    st = ip.st
    h = H(st)
    if ip.ctx.branch(z3.Not(c_done(h, f.t)), "cf-result-blocks"):
        # what the loop thread does while this thread waits: this future becomes done (anything else may change too)
        for fld, sort in (("state", z3.IntSort()), ("result", z3.IntSort()), ("exc", z3.IntSort())):
            st.put("CFuture", fld, f.t, st.fresh(f"resolved_{fld}", sort))
        st.assume(c_done(H(st), f.t))
        ip.ctx.events.append(("waited_for", f.t))
        h = H(st)
    if ip.ctx.branch(c_cancelled(h, f.t), "cf-cancelled"):
        raise PyExc(ExcVal(lib.exc_classes()["CancelledError"], ()))
    e = st.get("CFuture", "exc", f.t)
    if ip.ctx.branch(e != 0, "cf-has-exception"):
        ex = lib.sym_exc(ip, "future_exception")
        ip.ctx.unit.result_exc = (f.t, ex)
        raise PyExc(ex)
    return Sym(st.get("CFuture", "result", f.t), OBJ)


def cf_add_done_callback(ip, f, cb):
    ip.st.put("CFuture", "$ncb", f.t, ip.st.get("CFuture", "$ncb", f.t) + 1)
    ip.ctx.events.append(("add_done_callback", f.t, cb))
    if ip.ctx.branch(c_done(H(ip.st), f.t), "cf-done-at-registration"):
        ip.ctx.events.append(("callback_runs_immediately", f.t, cb))
        ip.ctx.unit.run_callback_now(ip, f, cb)
    return None


lib.MODEL_METHODS["CFuture"] = {
    "cancel": cf_cancel,
    "cancelled": cf_cancelled,
    "done": cf_done,
    "set_result": cf_set_result,
    "set_exception": cf_set_exception,
    "set_running_or_notify_cancel": cf_set_running,
    "exception": cf_exception,
    "result": cf_result,
    "add_done_callback": cf_add_done_callback,
}


def new_cfuture(ip):
    r = Sym(ip.st.alloc("CFuture"), CF)
    ip.st.put("CFuture", "state", r.t, z3.IntVal(CF_PENDING))
    ip.st.put("CFuture", "$ncb", r.t, z3.IntVal(0))
    return r


USER_AW = Contract(
    "awaitable returned by the callable",
    requires=lambda h, a: [],
    cases=[
        Case("returned", when=lambda pre, a: True, ret_ty=OBJ, ensures=lambda pre, post, a, ret: []),
        Case("raised", when=lambda pre, a: True, raises="Exception", ensures=lambda pre, post, a, ret: []),
        Case("cancelled", when=lambda pre, a: True, raises="CancelledError", ensures=lambda pre, post, a, ret: []),
    ],
    bind=lambda ip, args, kwargs: types.SimpleNamespace(self=z3.IntVal(0), cur=ip.ctx.cur.t),
    suspends=True,
)


class PScopeVal:
    """context-manager view of the per-call scope object"""

    def __init__(self, ref):
        self.ref = ref


class PortalEnv:
    def portal_globals(self):
        unit = self
        return {
            "get_ident": Builtin("get_ident", lambda ip: Sym(z3.Int("calling_thread_id"), INT)),
            "isawaitable": Builtin("isawaitable", lambda ip, x: isinstance(x, AwaitableVal)),
            "get_cancelled_exc_class": Builtin("get_cancelled_exc_class", lambda ip: ClassVal("CancelledError", pycls=lib.exc_classes()["CancelledError"])),
            "CancelScope": Builtin("CancelScope", lambda ip: unit.new_pscope(ip)),
            "Future": Builtin("Future", lambda ip: new_cfuture(ip)),
            "run_sync": Builtin("run_sync", lambda ip, fn, *a, **k: unit.run_sync(ip, fn, a, k)),
            "partial": Builtin("partial", lambda ip, fn, *a, **k: ("partial", fn, a, k)),
            "T_Retval": None,
        }

    def new_pscope(self, ip):
        r = Sym(ip.st.alloc("PScope"), PS)
        ip.st.put("PScope", "cancel_called", r.t, z3.BoolVal(False))
        self.pscope = r
        return r

    def run_sync(self, ip, fn, a, k):
        ip.ctx.events.append(("run_sync", fn, a, k))
        return None

    def cf_callbacks(self, ip, f):
        pass

    def run_callback_now(self, ip, f, cb):
        pass

    def pscope_getattr(self, ip, obj, attr):
        if isinstance(obj, Sym) and obj.ty is PS:
            if attr == "__enter__":
                return Builtin("CancelScope.__enter__", lambda ip: obj)
            if attr == "__exit__":
                return Builtin("CancelScope.__exit__", lambda ip, et, ev, tb: self.pscope_exit(ip, obj, ev))
            if attr == "cancel":
                return Builtin("CancelScope.cancel", lambda ip, reason=None: ip.st.put("PScope", "cancel_called", obj.t, z3.BoolVal(True)))
        return NotImplemented

    def pscope_exit(self, ip, sc, ev):
        """C04's exit contract for a scope nobody else holds: it absorbs exactly its own AnyIO cancellation"""
        if ev is None or not isinstance(ev, ExcVal):
            return False
        is_c = lib.exc_isinstance(ip, ev, (lib.exc_classes()["CancelledError"],))
        if is_c is False:
            return False
        tag = ev.tag if getattr(ev, "tag", None) is not None else False
        own = ip.st.get("PScope", "cancel_called", sc.t)
        cond = z3.And(lib_b(is_c), lib_b(tag), own)
        return Sym(cond, BOOL)


def lib_b(x):
    return z3.BoolVal(x) if isinstance(x, bool) else x


class PortalUnit(PortalEnv, MethodUnit):
    props = ("C15",)
    spec = PORTAL
    trusted = ("E1", "E9", "A-shield", "A-cfuture")
    contract = None

    def props_of(self, name):
        return {"C15"}

    def __init__(self):
        super().__init__()
        self.globals = self.portal_globals()

    def model_getattr(self, ip, obj, attr):
        r = self.pscope_getattr(ip, obj, attr)
        if r is not NotImplemented:
            return r
        if isinstance(obj, Sym) and obj.ty is RefT(TGM.G) and attr == "start_soon":
            return Builtin("TaskGroup.start_soon", lambda ip, *a, **k: None)  # only ever passed on, never called here
        return NotImplemented

    def assume_state(self, ip):
        h = H(ip.st)
        s = self.self_val.t
        ip.st.assume(z3.And(s > 0, h.f(P, "_event_loop_thread_id", s) >= -1, h.f(P, "_task_group", s) > 0))


# ---- _call_func ---------------------------------------------------------------------------------------------------------


class CallFuncUnit(PortalUnit):
    method = "_call_func"

    def make_args(self, ip):
        st = ip.st
        self.fut = Sym(z3.Int("future"), CF)
        st.assume(z3.And(self.fut.t > 0, st.allocated(self.fut.t)))
        # the caller's future: pending, or already cancelled by the caller (before the task got to run)
        st.assume(z3.Or(cstate(H(st), self.fut.t) == CF_PENDING, cstate(H(st), self.fut.t) == CF_CANCELLED))
        self.calls = []
        self.outcome = ip.ctx.decide(4, "callable")
        unit = self

        def func(ip, *a, **k):
            unit.calls.append((a, k))
            o = unit.outcome
            if o == 0:
                unit.value = Sym(z3.Int("plain_return_value"), OBJ)
                return unit.value
            if o == 1:
                return AwaitableVal("contract", lambda: USER_AW.apply(ip, None, [], {}))
            e = ExcVal(ValueError, ()) if o == 2 else ExcVal(KeyboardInterrupt, ())
            unit.func_exc = e
            raise PyExc(e)

        return [Builtin("func", func), (), {}, self.fut], types.SimpleNamespace()

    def on_entry(self, ip, pre, a):
        self.pscope = None
        self.aw = None
        self.func_exc = None
        self.value = None

    def after_suspending_call(self, ip, contract, a, case, exc, ret=None):
        if contract is USER_AW:
            self.aw = (case.name, exc, ret)

    def resume_assumptions(self, ip, what, payload):
        # E9': while the task waits, the caller may cancel its future (PENDING -> CANCELLED); the done-callback then
        # cancels the per-call scope -- and nothing else ever does (A-shield); nobody else resolves the future
        h, b = H(ip.st), self.before
        f = self.fut.t
        ip.st.assume(z3.Or(cstate(h, f) == cstate(b, f), z3.And(cstate(b, f) == CF_PENDING, cstate(h, f) == CF_CANCELLED)))
        ip.st.assume(h.f(P, "_event_loop_thread_id", self.self_val.t) >= -1)
        if self.pscope is not None:
            sc = self.pscope.t
            ip.st.assume(z3.Implies(h.f("PScope", "cancel_called", sc), z3.Or(b.f("PScope", "cancel_called", sc), c_cancelled(h, f))))
            if what.startswith("call:awaitable") and payload is not None and getattr(payload, "case", None) == "cancelled":
                pass

    def on_exit(self, ip, pre, a, exc, ret):
        post = H(ip.st)
        f = self.fut.t
        nm = "BlockingPortal._call_func"
        was_cancelled = c_cancelled(pre, f)
        ip.ctx.oblige(f"{nm}/post:the_callable_is_called_exactly_once", z3.BoolVal(len(self.calls) == 1), "post")
        o = self.outcome
        # what the callable finally produced
        if o == 0:
            produced = ("value", self.value)
        elif o == 1 and self.aw is not None:
            produced = {"returned": ("value", self.aw[2]), "raised": ("exc", self.aw[1]), "cancelled": ("cancel", self.aw[1])}[self.aw[0]]
        elif o == 2:
            produced = ("exc", self.func_exc)
        elif o == 3:
            produced = ("base", self.func_exc)
        else:
            produced = ("none", None)
        kind, val = produced
        if kind == "base":
            ip.ctx.oblige(f"{nm}/post:a_non_Exception_BaseException_is_reported_and_re_raised", z3.And(z3.BoolVal(exc is val), z3.Or(c_cancelled(post, f), z3.And(cstate(post, f) == CF_FINISHED, post.f("CFuture", "exc", f) == ip.term(val, OBJ)))), "post")
            return
        ip.ctx.oblige(f"{nm}/post:the_wrapper_never_raises_an_error_of_its_own_into_the_task_group", z3.BoolVal(exc is None), "post")
        if exc is not None:
            return
        if kind == "value":
            ip.ctx.oblige(f"{nm}/post:the_future_receives_exactly_the_return_value_unless_the_caller_cancelled_it", z3.Or(c_cancelled(post, f), z3.And(cstate(post, f) == CF_FINISHED, post.f("CFuture", "exc", f) == 0, post.f("CFuture", "result", f) == ip.term(val, OBJ))), "post")
        elif kind == "exc":
            ip.ctx.oblige(f"{nm}/post:the_future_receives_exactly_the_exception_unless_the_caller_cancelled_it", z3.Or(c_cancelled(post, f), z3.And(cstate(post, f) == CF_FINISHED, post.f("CFuture", "exc", f) == ip.term(val, OBJ))), "post")
        elif kind == "cancel":
            ip.ctx.oblige(f"{nm}/post:a_cancelled_task_leaves_its_future_cancelled", c_cancelled(post, f), "post")
        ip.ctx.oblige(f"{nm}/post:the_future_is_resolved_when_the_wrapper_returns", c_done(post, f), "post")
        if o == 1:
            cbs = [e for e in ip.ctx.events if e[0] == "add_done_callback"]
            ok = len(cbs) == 1 and isinstance(cbs[0][2], FuncVal) and cbs[0][2].qualname.endswith("callback")
            ip.ctx.oblige(f"{nm}/post:an_awaitable_runs_in_its_own_scope_with_one_done_callback_on_the_callers_future", z3.And(z3.BoolVal(ok and self.pscope is not None), cbs[0][1] == f if cbs else z3.BoolVal(False)), "post")


# ---- the done-callback -----------------------------------------------------------------------------------------------------


class CallbackUnit(PortalEnv, FunctionUnit):
    props = ("C15",)
    modpath = FT
    funcname = "BlockingPortal._call_func.<locals>.callback"
    trusted = ("E9", "A-cfuture")

    def props_of(self, name):
        return {"C15"}

    def __init__(self):
        super().__init__()
        self.globals = self.portal_globals()

    def model_getattr(self, ip, obj, attr):
        return self.pscope_getattr(ip, obj, attr)

    def run(self, ip):
        st = ip.st
        self.portal = Sym(z3.Int("portal"), RefT(P))
        self.fut = Sym(z3.Int("future"), CF)
        self.scope = Sym(z3.Int("call_scope"), PS)
        self.tid = Sym(z3.Int("event_loop_thread_id_at_call_start"), OPTINT)
        st.assume(z3.And(self.portal.t > 0, self.fut.t > 0, self.scope.t > 0, self.tid.t >= -1, st.allocated(self.fut.t), st.allocated(self.scope.t)))
        st.assume(c_done(H(st), self.fut.t))  # a done-callback runs when the future is done
        pre = H(st, st.snapshot())
        node = extract.module(FT).get(self.funcname)
        env = Env({"self": self.portal, "scope": self.scope, "event_loop_thread_id": self.tid})
        f = FuncVal(node, env, FT, self.funcname)
        exc = None
        try:
            ip.run_body(f, ip.bind_args(f, [self.fut], {}))
        except PyExc as e:
            exc = e.exc
        ip.ctx.cover(f"{self.funcname}/cover:exit[{'return' if exc is None else 'raise'}]")
        post = H(st)
        nm = "BlockingPortal._call_func.callback"
        ip.ctx.oblige(f"{nm}/post:never_raises", z3.BoolVal(exc is None), "post")
        sc = self.scope.t
        here = z3.Int("calling_thread_id")
        rs = [e for e in ip.ctx.events if e[0] == "run_sync"]
        direct = post.f("PScope", "cancel_called", sc)
        via = len(rs) == 1 and isinstance(rs[0][1], Builtin) and rs[0][1].name == "CancelScope.cancel"
        cancelled = c_cancelled(pre, self.fut.t)
        running = self.tid.t != -1
        ip.ctx.oblige(f"{nm}/post:a_cancelled_future_cancels_exactly_the_scope_of_its_task", z3.Implies(z3.And(cancelled, running), z3.If(self.tid.t == here, z3.And(direct, z3.BoolVal(not rs)), z3.BoolVal(via))), "post")
        ip.ctx.oblige(f"{nm}/post:a_future_that_was_not_cancelled_cancels_nothing", z3.Implies(z3.Not(cancelled), z3.And(z3.BoolVal(not rs), post.f("PScope", "cancel_called", sc) == pre.f("PScope", "cancel_called", sc))), "post")


# ---- stop / _check_running / start_task_soon / _spawn_task_from_thread ---------------------------------------------------


class StopUnit(PortalUnit):
    method = "stop"
    contracts = {"Event.set": E.EV_SET, "CancelScope.cancel": S4.SCOPE_CALLS["CancelScope.cancel"]}

    def contract_for(self, qualname, ctx):
        return self.contracts.get(qualname)

    def make_args(self, ip):
        self.cancel_remaining = Sym(z3.Bool("cancel_remaining"), BOOL)
        return [self.cancel_remaining], types.SimpleNamespace()

    def assume_state(self, ip):
        super().assume_state(ip)
        h = H(ip.st)
        s = self.self_val.t
        tg = h.f(P, "_task_group", s)
        ev = h.f(P, "_stop_event", s)
        ip.st.assume(z3.And(tg > 0, ip.st.allocated(tg), TGM.scope(h, tg) > 0, ip.st.allocated(TGM.scope(h, tg)), ev > 0, ip.st.allocated(ev), E.embedded(h)))
        for n, t in E.EVENT.assumed_terms(h, ev, ip.ctx.cur.t) if hasattr(E, "EVENT") else []:
            ip.st.assume(t)

    def on_exit(self, ip, pre, a, exc, ret):
        s = a.self
        post = H(ip.st)
        nm = "BlockingPortal.stop"
        c = TGM.scope(pre, pre.f(P, "_task_group", s))
        ip.ctx.oblige(f"{nm}/post:the_portal_stops_accepting_calls_and_sleepers_are_released", z3.And(z3.BoolVal(exc is None), post.f(P, "_event_loop_thread_id", s) == -1, E.evflag(post, pre.f(P, "_stop_event", s))), "post")
        ip.ctx.oblige(f"{nm}/post:cancel_remaining_cancels_the_groups_scope_even_if_the_portal_was_stopped_before", z3.Implies(self.cancel_remaining.t, S4.cc(post, c)), "post")
        ip.ctx.oblige(f"{nm}/post:without_cancel_remaining_nothing_is_cancelled", z3.Implies(z3.Not(self.cancel_remaining.t), S4.cc(post, c) == S4.cc(pre, c)), "post")


class CheckRunningUnit(PortalUnit):
    method = "_check_running"

    def on_exit(self, ip, pre, a, exc, ret):
        s = a.self
        tid = pre.f(P, "_event_loop_thread_id", s)
        here = z3.Int("calling_thread_id")
        refused = z3.Or(tid == -1, tid == here)
        ip.ctx.oblige("BlockingPortal._check_running/post:refuses_exactly_a_stopped_portal_or_a_call_from_the_loop_thread", z3.BoolVal(exc is not None and exc.pycls is RuntimeError) == refused if exc is not None else z3.Not(refused), "post")


class StartTaskSoonUnit(PortalUnit):
    method = "start_task_soon"

    def make_args(self, ip):
        self.func = Sym(z3.Int("func"), OBJ)
        return [self.func], types.SimpleNamespace()

    def make_kwargs(self, ip):
        return {"name": None}

    def on_exit(self, ip, pre, a, exc, ret):
        s = a.self
        nm = "BlockingPortal.start_task_soon"
        tid = pre.f(P, "_event_loop_thread_id", s)
        refused = z3.Or(tid == -1, tid == z3.Int("calling_thread_id"))
        rs = [e for e in ip.ctx.events if e[0] == "run_sync"]
        if exc is not None:
            ip.ctx.oblige(f"{nm}/post:refused_only_when_stopped_or_from_the_loop_thread_and_then_nothing_is_spawned", z3.And(z3.BoolVal(exc.pycls is RuntimeError and not rs), refused), "post")
            return
        ok = len(rs) == 1 and isinstance(ret, Sym) and ret.ty is CF
        ip.ctx.oblige(f"{nm}/post:accepted_only_while_running_and_from_a_foreign_thread", z3.Not(refused), "post")
        ip.ctx.oblige(f"{nm}/post:exactly_one_task_is_spawned_for_a_fresh_future_which_is_returned", z3.BoolVal(ok), "post")
        if ok:
            _, fn, args, kw = rs[0]
            # run_sync(partial(tg.start_soon, name=name), self._call_func, func, args, kwargs, future, token=self._token)
            shape = isinstance(fn, tuple) and fn[0] == "partial" and isinstance(fn[1], Builtin) and fn[1].name == "TaskGroup.start_soon" and len(args) == 5 and isinstance(args[0], BoundMethod) and args[0].func.qualname.endswith("_call_func") and args[1] is self.func and isinstance(args[4], Sym) and args[4].t.eq(ret.t)
            ip.ctx.oblige(f"{nm}/post:the_task_is_the_per_call_wrapper_with_the_callers_callable_and_that_future_started_in_the_portals_group", z3.BoolVal(bool(shape)), "post")


class AexitUnit(PortalUnit):
    method = "__aexit__"

    def __init__(self):
        super().__init__()
        self.log = []

    def make_args(self, ip):
        self.exc_args = [Sym(z3.Int("exc_type"), OBJ), Sym(z3.Int("exc_val"), OBJ), Sym(z3.Int("exc_tb"), OBJ)]
        return list(self.exc_args), types.SimpleNamespace()

    def assume_state(self, ip):
        super().assume_state(ip)
        h = H(ip.st)
        tg = h.f(P, "_task_group", self.self_val.t)
        ip.st.assume(z3.And(tg > 0, ip.st.allocated(tg)))

    def on_entry(self, ip, pre, a):
        self.log = []

    def contract_for(self, qualname, ctx):
        unit = self
        if qualname in ("BlockingPortal.stop", "TaskGroup.__aexit__"):

            class Rec:
                suspends = True

                def apply(self_, ip, f, args, kwargs):
                    unit.log.append((qualname, args, kwargs))
                    lib.suspend(ip, "call:" + qualname, None)
                    if qualname == "TaskGroup.__aexit__":
                        unit.join_ret = Sym(ip.st.fresh("join_result", z3.BoolSort()), BOOL)
                        return unit.join_ret
                    return None

            return Rec()
        return None

    def resume_assumptions(self, ip, what, payload):
        h = H(ip.st)
        s = self.self_val.t
        ip.st.assume(h.f(P, "_task_group", s) == self.before.f(P, "_task_group", s))

    def on_exit(self, ip, pre, a, exc, ret):
        nm = "BlockingPortal.__aexit__"
        names = [x[0] for x in self.log]
        ip.ctx.oblige(f"{nm}/post:stops_the_portal_then_joins_its_task_group_with_the_same_exception_info", z3.BoolVal(names == ["BlockingPortal.stop", "TaskGroup.__aexit__"] and len(self.log[1][1]) == 4 and all(x is y for x, y in zip(self.log[1][1][1:], self.exc_args))), "post")
        if exc is None and len(self.log) == 2:
            ip.ctx.oblige(f"{nm}/post:returns_what_the_join_returned", z3.BoolVal(isinstance(ret, Sym) and ret.t.eq(self.join_ret.t)), "post")


# ---- start_task's relay ------------------------------------------------------------------------------------------------------


class TaskDoneRelayUnit(PortalEnv, FunctionUnit):
    props = ("C15",)
    modpath = FT
    funcname = "BlockingPortal.start_task.<locals>.task_done"
    trusted = ("E9", "A-cfuture")

    def props_of(self, name):
        return {"C15"}

    def __init__(self):
        super().__init__()
        self.globals = self.portal_globals()

    def construct_exception(self, ip, pycls, args):
        return NotImplemented

    def run(self, ip):
        st = ip.st
        self.fut = Sym(z3.Int("task_future"), CF)
        self.tsf = Sym(z3.Int("task_status_future"), CF)
        st.assume(z3.And(self.fut.t > 0, self.tsf.t > 0, self.fut.t != self.tsf.t, st.allocated(self.fut.t), st.allocated(self.tsf.t)))
        h = H(st)
        st.assume(c_done(h, self.fut.t))  # a done-callback: the task's future is done
        st.assume(z3.Or(cstate(h, self.tsf.t) == CF_PENDING, cstate(h, self.tsf.t) == CF_FINISHED, cstate(h, self.tsf.t) == CF_CANCELLED))
        st.assume(z3.Implies(z3.And(cstate(h, self.fut.t) == CF_FINISHED, h.f("CFuture", "exc", self.fut.t) != 0), z3.And(h.f("CFuture", "exc", self.fut.t) > 0)))
        pre = H(st, st.snapshot())
        node = extract.module(FT).get(self.funcname)
        f = FuncVal(node, Env({"task_status_future": self.tsf}), FT, self.funcname)
        exc = None
        try:
            ip.run_body(f, ip.bind_args(f, [self.fut], {}))
        except PyExc as e:
            exc = e.exc
        ip.ctx.cover(f"{self.funcname}/cover:exit[{'return' if exc is None else 'raise'}]")
        post = H(st)
        nm = "BlockingPortal.start_task.task_done"
        ip.ctx.oblige(f"{nm}/post:never_raises", z3.BoolVal(exc is None), "post")
        if exc is None:
            ip.ctx.oblige(f"{nm}/post:the_waiter_of_start_task_is_never_left_hanging", c_done(post, self.tsf.t), "post")
            ip.ctx.oblige(f"{nm}/post:a_cancelled_task_cancels_the_waiter_a_failed_one_fails_it_with_the_same_exception", z3.Implies(cstate(pre, self.tsf.t) == CF_PENDING, z3.If(c_cancelled(pre, self.fut.t), c_cancelled(post, self.tsf.t), z3.And(cstate(post, self.tsf.t) == CF_FINISHED, post.f("CFuture", "exc", self.tsf.t) != 0, z3.Implies(pre.f("CFuture", "exc", self.fut.t) != 0, post.f("CFuture", "exc", self.tsf.t) == pre.f("CFuture", "exc", self.fut.t))))), "post")
            ip.ctx.oblige(f"{nm}/post:an_already_resolved_waiter_is_left_alone", z3.Implies(cstate(pre, self.tsf.t) != CF_PENDING, z3.And(cstate(post, self.tsf.t) == cstate(pre, self.tsf.t), post.f("CFuture", "result", self.tsf.t) == pre.f("CFuture", "result", self.tsf.t))), "post")


UNITS = [CallFuncUnit, CallbackUnit, StopUnit, CheckRunningUnit, StartTaskSoonUnit, AexitUnit, TaskDoneRelayUnit]


# ---- the loop-side entry points for foreign threads (AsyncIOBackend.run_sync_from_thread / run_async_from_thread) ------

ASYNCIO = "anyio/_backends/_asyncio.py"


class SyncWrapperUnit(PortalEnv, FunctionUnit):
    """run_sync_from_thread.<locals>.wrapper: runs in the loop thread (call_soon_threadsafe); the calling thread blocks
    in f.result().  The future receives exactly the function's value or exception; only a non-Exception BaseException
    is re-raised into the loop (after being reported)."""

    props = ("C14", "C15")
    modpath = ASYNCIO
    funcname = "AsyncIOBackend.run_sync_from_thread.<locals>.wrapper"
    trusted = ("E9", "A-cfuture")

    def props_of(self, name):
        return {"C14", "C15"}

    def __init__(self):
        super().__init__()
        self.globals = dict(self.portal_globals(), set_current_async_library=Builtin("set_current_async_library", lambda ip, x: None))

    def run(self, ip):
        st = ip.st
        self.fut = new_cfuture(ip)
        k = ip.ctx.decide(3, "function-outcome")
        unit = self
        self.calls = 0
        self.value = Sym(z3.Int("function_result"), OBJ)
        self.exc_raised = None

        def func(ip, *a, **kw):
            unit.calls += 1
            if k == 0:
                return unit.value
            e = ExcVal(ValueError, ()) if k == 1 else ExcVal(KeyboardInterrupt, ())
            unit.exc_raised = e
            raise PyExc(e)

        pre = H(st, st.snapshot())
        node = extract.module(ASYNCIO).get(self.funcname)
        f = FuncVal(node, Env({"f": self.fut, "func": Builtin("func", func), "args": ()}), ASYNCIO, self.funcname)
        exc = None
        try:
            ip.run_body(f, ip.bind_args(f, [], {}))
        except PyExc as e:
            exc = e.exc
        ip.ctx.cover(f"{self.funcname}/cover:exit[{'return' if exc is None else 'raise'}]")
        post = H(st)
        nm = "AsyncIOBackend.run_sync_from_thread.wrapper"
        ft = self.fut.t
        ip.ctx.oblige(f"{nm}/post:the_function_is_called_exactly_once", z3.BoolVal(self.calls == 1), "post")
        if k == 0:
            ip.ctx.oblige(f"{nm}/post:the_waiting_thread_receives_exactly_the_return_value", z3.And(z3.BoolVal(exc is None), cstate(post, ft) == CF_FINISHED, post.f("CFuture", "exc", ft) == 0, post.f("CFuture", "result", ft) == self.value.t), "post")
        else:
            ip.ctx.oblige(f"{nm}/post:the_waiting_thread_receives_exactly_the_exception", z3.And(cstate(post, ft) == CF_FINISHED, post.f("CFuture", "exc", ft) == ip.term(self.exc_raised, OBJ)), "post")
            ip.ctx.oblige(f"{nm}/post:only_a_non_Exception_BaseException_is_re_raised_into_the_loop", z3.BoolVal((exc is self.exc_raised) if k == 2 else (exc is None)), "post")


class AsyncWrapperUnit(PortalEnv, FunctionUnit):
    """run_async_from_thread.<locals>.task_wrapper: the task the loop runs for from_thread.run().  While the coroutine
    function runs, the task is a member of the worker thread's cancel scope (so that a cancellation of the host reaches
    it: C03's delivery walks the member tasks) with that scope as its current scope; it is taken out again on every
    path; the value is returned unchanged, an exception propagates unchanged, and the loop's cancellation exception
    reaches the waiting thread as concurrent.futures.CancelledError."""

    props = ("C14", "C15")
    modpath = ASYNCIO
    funcname = "AsyncIOBackend.run_async_from_thread.<locals>.task_wrapper"
    trusted = ("E9", "E1")
    contracts = {}

    def props_of(self, name):
        return {"C14", "C15"}

    def __init__(self):
        super().__init__()
        import concurrent.futures as _cf

        g = self.portal_globals()
        g.update(
            {
                "_task_states": S4.TSV,
                "TaskState": ClassVal("TaskState", info=CLASSES["TaskState"]),
                "concurrent": NS("concurrent", {"futures": NS("futures", {"CancelledError": ClassVal("concurrent.futures.CancelledError", pycls=_cf.CancelledError)})}),
                "str": Builtin("str", lambda ip, x: Sym(ip.st.fresh("str", z3.IntSort()), lib.STR)),
                "__tracebackhide__": None,
            }
        )
        self.globals = g

    get_item = S4.ScopeUnit.get_item
    set_item = S4.ScopeUnit.set_item

    def contract_for(self, qualname, ctx):
        return None

    def after_suspending_call(self, ip, contract, a, case, exc, ret=None):
        if contract is USER_AW:
            self.aw = (case.name, exc, ret)

    def before_suspend(self, ip, what, payload):
        h = H(ip.st)
        self.before = H(ip.st, ip.st.snapshot())
        if self.scope is not None:
            cur = ip.ctx.cur.t
            sc = self.scope.t
            ts = S4.tstate_of(h, cur)
            ip.ctx.oblige("AsyncIOBackend.run_async_from_thread.task_wrapper@run/post:while_the_function_runs_the_task_is_a_member_of_the_threads_scope_and_that_is_its_current_scope", z3.And(S4.members(h, sc).has(cur), ts != 0, h.f("TaskState", "cancel_scope", ts) == sc), "post")

    def after_resume(self, ip, what, payload):
        h, b = H(ip.st), self.before
        if self.scope is not None:
            sc = self.scope.t
            ip.st.assume(z3.And(h.f(S4.C, "_tasks", sc) == b.f(S4.C, "_tasks", sc), h.f(S4.C, "_tasks", sc) > 0, S4.members(h, sc).wf(), ip.st.allocated(sc)))

    def run(self, ip):
        st = ip.st
        self.has_scope = ip.ctx.decide(2, "thread-has-a-scope") == 1
        self.scope = Sym(z3.Int("threads_scope"), S4.CS) if self.has_scope else None
        h = H(st)
        if self.scope is not None:
            sc = self.scope.t
            st.assume(z3.And(sc > 0, st.allocated(sc), h.f(S4.C, "_tasks", sc) > 0, S4.members(h, sc).wf(), S4.TS_SINGLETON > 0))
        self.aw = None
        pre = H(st, st.snapshot())
        node = extract.module(ASYNCIO).get(self.funcname)
        func = Builtin("func", lambda ip, *a: AwaitableVal("contract", lambda: USER_AW.apply(ip, None, [], {})))
        f = FuncVal(node, Env({"scope": self.scope, "func": func, "args": ()}), ASYNCIO, self.funcname)
        exc, ret = None, None
        try:
            ret = ip.run_body(f, ip.bind_args(f, [], {}))
        except PyExc as e:
            exc = e.exc
        ip.ctx.cover(f"{self.funcname}/cover:exit[{'return' if exc is None else 'raise'}]")
        post = H(st)
        nm = "AsyncIOBackend.run_async_from_thread.task_wrapper"
        if self.scope is not None:
            ip.ctx.oblige(f"{nm}/post:the_task_is_taken_out_of_the_threads_scope_on_every_path", z3.Not(S4.members(post, self.scope.t).has(ip.ctx.cur.t)), "post")
        kind = self.aw[0] if self.aw else None
        if kind == "returned":
            ip.ctx.oblige(f"{nm}/post:the_value_is_returned_unchanged", z3.BoolVal(exc is None and isinstance(ret, Sym) and ret.t.eq(self.aw[2].t)), "post")
        elif kind == "raised":
            ip.ctx.oblige(f"{nm}/post:an_exception_propagates_unchanged", z3.BoolVal(exc is self.aw[1]), "post")
        elif kind == "cancelled":
            import concurrent.futures as _cf

            ip.ctx.oblige(f"{nm}/post:a_cancellation_reaches_the_thread_as_concurrent_futures_CancelledError", z3.BoolVal(exc is not None and exc.pycls is _cf.CancelledError), "post")


UNITS += [SyncWrapperUnit, AsyncWrapperUnit]


# ---- thread-side entry points: call / start_task -------------------------------------------------------------------------


class CallUnit(PortalUnit):
    """BlockingPortal.call(func, *args) == start_task_soon(func, *args).result()"""

    method = "call"

    def make_args(self, ip):
        self.func = Sym(z3.Int("func"), OBJ)
        self.a0 = Sym(z3.Int("arg0"), OBJ)
        return [self.func, self.a0], types.SimpleNamespace()

    def on_exit(self, ip, pre, a, exc, ret):
        s = a.self
        nm = "BlockingPortal.call"
        rs = [e for e in ip.ctx.events if e[0] == "run_sync"]
        waited = [e for e in ip.ctx.events if e[0] == "waited_for"]
        tid = pre.f(P, "_event_loop_thread_id", s)
        refused = z3.Or(tid == -1, tid == z3.Int("calling_thread_id"))
        if not rs:
            ip.ctx.oblige(f"{nm}/post:refused_exactly_when_stopped_or_from_the_loop_thread", z3.And(z3.BoolVal(exc is not None and exc.pycls is RuntimeError), refused), "post")
            return
        ip.ctx.oblige(f"{nm}/post:accepted_only_while_running_and_from_a_foreign_thread", z3.Not(refused), "post")
        _, fn, args, kw = rs[0]
        ok = len(rs) == 1 and len(args) == 5 and args[1] is self.func and isinstance(args[2], tuple) and len(args[2]) == 1 and args[2][0] is self.a0 and isinstance(args[4], Sym)
        ip.ctx.oblige(f"{nm}/post:one_task_is_spawned_for_the_callable_with_its_arguments", z3.BoolVal(bool(ok)), "post")
        if ok:
            fut = args[4].t
            post = H(ip.st)
            if exc is None:
                ip.ctx.oblige(f"{nm}/post:returns_exactly_the_result_delivered_through_the_calls_own_future", z3.And(cstate(post, fut) == CF_FINISHED, post.f("CFuture", "exc", fut) == 0, ip.term(ret, OBJ) == post.f("CFuture", "result", fut)), "post")
            else:
                re_ = getattr(self, "result_exc", None)
                ip.ctx.oblige(f"{nm}/post:raises_exactly_the_exception_delivered_through_the_calls_own_future_or_its_cancellation", z3.Or(z3.And(z3.BoolVal(re_ is not None and exc is re_[1]), (re_[0] == fut) if re_ is not None else z3.BoolVal(False)), z3.And(z3.BoolVal(exc.pycls is not None and exc.pycls.__name__ == "CancelledError"), c_cancelled(post, fut))), "post")


class StartTaskUnit(PortalUnit):
    """BlockingPortal.start_task: spawns the wrapper with a task_status keyword bound to a fresh readiness future,
    relays the task's end to that future through `task_done`, and returns (task future, started() value)"""

    method = "start_task"

    def __init__(self):
        super().__init__()
        self.globals = dict(self.globals, _BlockingPortalTaskStatus=Builtin("_BlockingPortalTaskStatus", lambda ip, fut: ("task_status", fut)))

    def make_args(self, ip):
        self.func = Sym(z3.Int("func"), OBJ)
        return [self.func], types.SimpleNamespace()

    def make_kwargs(self, ip):
        return {"name": None}

    def on_exit(self, ip, pre, a, exc, ret):
        s = a.self
        nm = "BlockingPortal.start_task"
        rs = [e for e in ip.ctx.events if e[0] == "run_sync"]
        cbs = [e for e in ip.ctx.events if e[0] == "add_done_callback"]
        tid = pre.f(P, "_event_loop_thread_id", s)
        refused = z3.Or(tid == -1, tid == z3.Int("calling_thread_id"))
        if not rs:
            ip.ctx.oblige(f"{nm}/post:refused_exactly_when_stopped_or_from_the_loop_thread", z3.And(z3.BoolVal(exc is not None and exc.pycls is RuntimeError and not cbs), refused), "post")
            return
        _, fn, args, kw = rs[0]
        ok = len(rs) == 1 and len(args) == 5 and args[1] is self.func and isinstance(args[3], dict) and set(args[3]) == {"task_status"} and isinstance(args[3]["task_status"], tuple) and isinstance(args[4], Sym)
        ip.ctx.oblige(f"{nm}/post:one_task_is_spawned_with_a_task_status_bound_to_a_fresh_readiness_future", z3.BoolVal(bool(ok)), "post")
        if not ok:
            return
        fut, tsf = args[4], args[3]["task_status"][1]
        relay = len(cbs) == 1 and isinstance(cbs[0][2], FuncVal) and cbs[0][2].qualname.endswith("task_done")
        ip.ctx.oblige(f"{nm}/post:the_relay_is_registered_on_the_tasks_future_before_the_task_is_spawned", z3.And(z3.BoolVal(relay), cbs[0][1] == fut.t if cbs else z3.BoolVal(False), fut.t != tsf.t), "post")
        post = H(ip.st)
        if exc is None:
            good = isinstance(ret, tuple) and len(ret) == 2 and isinstance(ret[0], Sym) and ret[0].t.eq(fut.t)
            ip.ctx.oblige(f"{nm}/post:returns_the_tasks_future_and_exactly_the_started_value", z3.And(z3.BoolVal(bool(good)), cstate(post, tsf.t) == CF_FINISHED, ip.term(ret[1], OBJ) == post.f("CFuture", "result", tsf.t) if good else z3.BoolVal(False)), "post")


UNITS += [CallUnit, StartTaskUnit]
