"""C12 / C13 -- memory object streams: exactly-once, ordered, bounded delivery; closing wakes everyone and the
errors tell the truth.

Functions under contract (anyio/streams/memory.py):
  MemoryObjectReceiveStream.__post_init__, receive_nowait, receive, clone, close, statistics
  MemoryObjectSendStream.__post_init__, send_nowait, send, clone, close
  _MemoryObjectStreamState.statistics (inlined), the dataclass-generated constructors of the three classes and of
  _MemoryObjectItemReceiver (modelled from the real field declarations, see segvc.lib.dataclass_init)

All handles (clones) of one stream share one `_MemoryObjectStreamState` S; the invariant is over S.

Ghost state (fields of S):
  $osend / $orecv   the sets of *open* send / receive handles of S (set model with cardinality)
  $rrec[ev]         task suspended in `await receive_event.wait()` on event ev inside receive() (0: none)
  $rrobj[ev]        the _MemoryObjectItemReceiver of that suspended receive
  $srec[ev]         task suspended in `await send_event.wait()` inside send() (0: none)
Receiver slots: `item` may be *unset* (AttributeError on read) -- modelled as ($item, $has_item).
"""
import types

import z3

from segvc import lib
from segvc.core import BOOL, CLASSES, INT, INTINF, OBJ, ArrT, DequeT, H, ODictT, RefT, SetT, Sym, Unsupported, register_class
from segvc.interp import Builtin, ExcVal, PyExc
from segvc.unit import Case, ClassSpec, Contract, LemmaUnit, LoopSpec, MethodUnit
from specs import c11_condition as E

MEM = "anyio/streams/memory.py"
TASK = RefT("Task")
EVT = E.EVT
evflag = E.evflag

register_class("Receiver", {"task_info": TASK, "$item": OBJ, "$has_item": BOOL}, source=(MEM, "_MemoryObjectItemReceiver"))
CLASSES["Receiver"].ghost_fields = {"$item", "$has_item"}
RCV = RefT("Receiver")
OBJQ = DequeT(OBJ)
RQ = ODictT(EVT, RCV)
SQ = ODictT(EVT, OBJ)
BQC, RQC, SQC = OBJQ.cls, RQ.cls, SQ.cls
MS = "MState"
MRECV, MSEND = RefT("MRecv"), RefT("MSend")
OSET_S, OSET_R = SetT(MSEND), SetT(MRECV)
register_class(
    MS,
    {
        "max_buffer_size": INTINF,
        "buffer": OBJQ,
        "open_send_channels": INT,
        "open_receive_channels": INT,
        "waiting_receivers": RQ,
        "waiting_senders": SQ,
        "$osend": OSET_S,
        "$orecv": OSET_R,
        "$rrec": ArrT(EVT, TASK),
        "$rrobj": ArrT(EVT, RCV),
        "$srec": ArrT(EVT, TASK),
    },
    source=(MEM, "_MemoryObjectStreamState"),
)
CLASSES[MS].ghost_fields = {"$osend", "$orecv", "$rrec", "$rrobj", "$srec"}
register_class("MRecv", {"_state": RefT(MS), "_closed": BOOL, "$live": BOOL}, source=(MEM, "MemoryObjectReceiveStream"))
register_class("MSend", {"_state": RefT(MS), "_closed": BOOL, "$live": BOOL}, source=(MEM, "MemoryObjectSendStream"))
CLASSES["MRecv"].ghost_fields = {"$live"}
CLASSES["MSend"].ghost_fields = {"$live"}


# ------------------------------------------------------------------ views


def buf(h, S):
    return h.dq(BQC, h.f(MS, "buffer", S))


def rq(h, S):
    return h.od(RQC, h.f(MS, "waiting_receivers", S))


def sq(h, S):
    return h.od(SQC, h.f(MS, "waiting_senders", S))


def osend(h, S):
    return h.set(OSET_S.cls, h.f(MS, "$osend", S))


def orecv(h, S):
    return h.set(OSET_R.cls, h.f(MS, "$orecv", S))


def n_send(h, S):
    return h.f(MS, "open_send_channels", S)


def n_recv(h, S):
    return h.f(MS, "open_receive_channels", S)


def maxbuf(h, S):
    return h.f(MS, "max_buffer_size", S)


def rrec(h, S):
    return h.f(MS, "$rrec", S)


def rrobj(h, S):
    return h.f(MS, "$rrobj", S)


def srec(h, S):
    return h.f(MS, "$srec", S)


def has_item(h, r):
    return h.f("Receiver", "$has_item", r)


def item_of(h, r):
    return h.f("Receiver", "$item", r)


def pending(h, t):
    return h.f("Task", "pending_cancel", t)


def room(h, S):
    """len(buffer) < max_buffer_size"""
    return z3.Or(maxbuf(h, S) == -1, buf(h, S).len < maxbuf(h, S))


def within_bound(h, S):
    return z3.Or(maxbuf(h, S) == -1, buf(h, S).len <= maxbuf(h, S))


# ------------------------------------------------------------------ invariant over the shared state S


def wf_terms(h, S, cur):
    al = h.arr("$", "alloc")
    ev = z3.Int(h.st.uniq("ev"))
    x = z3.Int(h.st.uniq("x"))
    out = [
        ("state_is_an_object", z3.And(S > 0, z3.Select(al, S))),
        (
            "containers",
            z3.And(
                h.f(MS, "buffer", S) > 0,
                h.f(MS, "waiting_receivers", S) > 0,
                h.f(MS, "waiting_senders", S) > 0,
                h.f(MS, "$osend", S) > 0,
                h.f(MS, "$orecv", S) > 0,
                buf(h, S).wf(),
                rq(h, S).wf(),
                sq(h, S).wf(),
                osend(h, S).wf(),
                orecv(h, S).wf(),
            ),
        ),
        # create_memory_object_stream accepts an int >= 0 or math.inf only (INTINF: +inf is encoded as -1)
        ("max_is_a_size", maxbuf(h, S) >= -1),
        ("queued_keys_are_objects", z3.And(z3.ForAll([x], z3.Implies(rq(h, S).has(x), z3.And(x > 0, z3.Select(al, x))), patterns=[rq(h, S).has(x)]), z3.ForAll([x], z3.Implies(sq(h, S).has(x), z3.And(x > 0, z3.Select(al, x))), patterns=[sq(h, S).has(x)]))),
        ("no_record_for_None", z3.And(z3.Select(rrec(h, S), 0) == 0, z3.Select(srec(h, S), 0) == 0)),
        ("events_embedded", E.embedded(h)),
        ("live_handles_are_allocated", z3.ForAll([x], z3.Implies(z3.Or(h.f("MSend", "$live", x), h.f("MRecv", "$live", x)), z3.And(x > 0, z3.Select(al, x))), patterns=[h.f("MSend", "$live", x), h.f("MRecv", "$live", x)])),
        (
            "queued_objects_are_allocated",
            z3.And(
                rq(h, S).forall_keys(lambda i, k, v: z3.And(k > 0, v > 0, z3.Select(al, k), z3.Select(al, v))),
                sq(h, S).forall_keys(lambda i, k, v: z3.And(k > 0, z3.Select(al, k))),
                z3.ForAll([ev], z3.Implies(z3.Select(rrec(h, S), ev) != 0, z3.And(ev > 0, z3.Select(al, ev), z3.Select(rrobj(h, S), ev) > 0, z3.Select(al, z3.Select(rrobj(h, S), ev)))), patterns=[z3.Select(rrec(h, S), ev)]),
                z3.ForAll([ev], z3.Implies(z3.Select(srec(h, S), ev) != 0, z3.And(ev > 0, z3.Select(al, ev))), patterns=[z3.Select(srec(h, S), ev)]),
            ),
        ),
        ("E1_running_task_is_not_suspended", z3.ForAll([ev], z3.And(z3.Select(rrec(h, S), ev) != cur, z3.Select(srec(h, S), ev) != cur), patterns=[z3.Select(rrec(h, S), ev), z3.Select(srec(h, S), ev)])),
    ]
    return out


def k_send(h, S, except_=None):
    x = z3.Int(h.st.uniq("x"))
    is_open = z3.And(x > 0, h.f("MSend", "$live", x), h.f("MSend", "_state", x) == S, z3.Not(h.f("MSend", "_closed", x)))
    if except_ is not None:
        is_open = z3.And(is_open, x != except_)
    return z3.And(n_send(h, S) == osend(h, S).card, z3.ForAll([x], osend(h, S).has(x) == is_open, patterns=[osend(h, S).has(x)]))


def k_recv(h, S, except_=None):
    x = z3.Int(h.st.uniq("x"))
    is_open = z3.And(x > 0, h.f("MRecv", "$live", x), h.f("MRecv", "_state", x) == S, z3.Not(h.f("MRecv", "_closed", x)))
    if except_ is not None:
        is_open = z3.And(is_open, x != except_)
    return z3.And(n_recv(h, S) == orecv(h, S).card, z3.ForAll([x], orecv(h, S).has(x) == is_open, patterns=[orecv(h, S).has(x)]))


def inv_terms(h, S, cur):
    ev = z3.Int(h.st.uniq("ev"))
    r = z3.Select(rrobj(h, S), ev)
    R, Q = rq(h, S), sq(h, S)
    return [
        ("K1_open_send_count_is_the_number_of_open_send_handles", k_send(h, S)),
        ("K2_open_receive_count_is_the_number_of_open_receive_handles", k_recv(h, S)),
        ("M2_buffer_within_max_buffer_size", within_bound(h, S)),
        ("M3a_receivers_wait_only_when_nothing_is_available", z3.Implies(R.len > 0, z3.And(buf(h, S).len == 0, Q.len == 0))),
        ("M3c_senders_wait_only_when_the_buffer_is_full", z3.Implies(z3.And(Q.len > 0, n_recv(h, S) > 0), z3.Not(room(h, S)))),
        (
            "R1_queued_receiver_is_a_suspended_receive_with_empty_slot",
            z3.ForAll([ev], z3.Implies(R.has(ev), z3.And(z3.Not(evflag(h, ev)), z3.Not(has_item(h, R.val(ev))), z3.Select(rrec(h, S), ev) != 0, z3.Select(rrobj(h, S), ev) == R.val(ev))), patterns=[R.has(ev)]),
        ),
        ("R2a_filled_slot_means_woken_and_dequeued", z3.ForAll([ev], z3.Implies(z3.And(z3.Select(rrec(h, S), ev) != 0, has_item(h, r)), z3.And(evflag(h, ev), z3.Not(R.has(ev)))), patterns=[z3.Select(rrec(h, S), ev)])),
        ("R2b_woken_without_item_means_end_of_stream", z3.ForAll([ev], z3.Implies(z3.And(z3.Select(rrec(h, S), ev) != 0, evflag(h, ev), z3.Not(has_item(h, r))), z3.And(z3.Not(R.has(ev)), n_send(h, S) == 0, buf(h, S).len == 0, Q.len == 0)), patterns=[z3.Select(rrec(h, S), ev)])),
        ("R2c_queue_entry_of_a_record_holds_its_receiver", z3.ForAll([ev], z3.Implies(z3.And(z3.Select(rrec(h, S), ev) != 0, R.has(ev)), R.val(ev) == r), patterns=[z3.Select(rrec(h, S), ev)])),
        ("R3_one_receiver_object_per_suspended_receive", z3.ForAll([ev], z3.Implies(z3.Select(rrec(h, S), ev) != 0, h.f("Receiver", "task_info", r) == z3.Select(rrec(h, S), ev)), patterns=[z3.Select(rrec(h, S), ev)])),
        ("S1_queued_sender_is_suspended__its_event_is_set_only_when_the_receive_side_is_closed", z3.ForAll([ev], z3.Implies(Q.has(ev), z3.And(z3.Select(srec(h, S), ev) != 0, z3.Implies(evflag(h, ev), n_recv(h, S) == 0))), patterns=[Q.has(ev)])),
        ("S2_unset_sender_is_still_queued", z3.ForAll([ev], z3.Implies(z3.And(z3.Select(srec(h, S), ev) != 0, z3.Not(evflag(h, ev))), Q.has(ev)), patterns=[z3.Select(srec(h, S), ev)])),
        ("D_an_event_belongs_to_one_kind_of_waiter", z3.ForAll([ev], z3.Not(z3.And(z3.Select(rrec(h, S), ev) != 0, z3.Select(srec(h, S), ev) != 0)), patterns=[z3.Select(rrec(h, S), ev), z3.Select(srec(h, S), ev)])),
        ("K0_counts_nonnegative", z3.And(n_send(h, S) >= 0, n_recv(h, S) >= 0)),
    ]


def receiver_private(h, S):
    """ownership (as for events): the receiver object of a suspended receive is referenced by that record only"""
    # injectivity of ev -> receiver, stated with a Skolem inverse (one bound variable, no pairwise instantiation)
    ev = z3.Int(h.st.uniq("ev"))
    inv = z3.Const(h.st.uniq("rcv_owner"), z3.ArraySort(z3.IntSort(), z3.IntSort()))
    return z3.ForAll([ev], z3.Implies(z3.Select(rrec(h, S), ev) != 0, z3.Select(inv, z3.Select(rrobj(h, S), ev)) == ev), patterns=[z3.Select(rrobj(h, S), ev)])


def guarantee(a, b, S, t):
    ev = z3.Int(a.st.uniq("ev"))
    r = z3.Int(a.st.uniq("r"))
    al = a.arr("$", "alloc")
    return [
        ("a_fully_closed_side_stays_closed", z3.And(z3.Implies(n_send(a, S) == 0, n_send(b, S) == 0), z3.Implies(n_recv(a, S) == 0, n_recv(b, S) == 0))),
        ("a_set_event_stays_set", z3.ForAll([ev], z3.Implies(z3.And(ev > 0, z3.Select(al, ev), evflag(a, ev)), evflag(b, ev)), patterns=[evflag(b, ev)])),
        ("a_receiver_slot_is_written_once", z3.ForAll([r], z3.Implies(z3.And(r > 0, z3.Select(al, r), has_item(a, r)), z3.And(has_item(b, r), item_of(b, r) == item_of(a, r))), patterns=[has_item(b, r)])),
        ("max_buffer_size_is_constant", maxbuf(a, S) == maxbuf(b, S)),
        (
            "an_item_is_handed_only_to_a_receiver_without_pending_cancellation",
            z3.ForAll([r], z3.Implies(z3.And(r > 0, z3.Select(al, r), z3.Not(has_item(a, r)), has_item(b, r)), z3.Not(pending(a, a.f("Receiver", "task_info", r)))), patterns=[has_item(b, r)]),
        ),
    ]


def state_of(cls):
    return lambda h, s: h.f(cls, "_state", s)


def make_spec(cls):
    sp = ClassSpec(cls)
    st_of = state_of(cls)
    sp.assumed.append(("handle_is_live", lambda h, s, cur: z3.And(h.f(cls, "$live", s), st_of(h, s) > 0)))
    sp.assumed.append(("model_facts", lambda h, s, cur: z3.And(*[t for _, t in wf_terms(h, st_of(h, s), cur)])))
    sp.assumed.append(("receiver_objects_private", lambda h, s, cur: receiver_private(h, st_of(h, s))))
    for i in range(len(inv_terms_names())):
        sp.clauses.append((inv_terms_names()[i], (lambda i: lambda h, s, cur: inv_terms(h, st_of(h, s), cur)[i][1])(i)))
    return sp


_NAMES = None


def inv_terms_names():
    global _NAMES
    if _NAMES is None:
        from segvc.core import State

        st = State()
        _NAMES = [n for n, _ in inv_terms(H(st), z3.Int("S"), z3.Int("c"))]
    return _NAMES


RECV = make_spec("MRecv")
SEND = make_spec("MSend")


# ------------------------------------------------------------------ "unchanged" helpers


def same_dq(cls, pre, post, ref):
    a, b = pre.dq(cls, ref), post.dq(cls, ref)
    return z3.And(a.lo == b.lo, a.hi == b.hi, a.data == b.data)


def same_od(cls, pre, post, ref):
    a, b = pre.od(cls, ref), post.od(cls, ref)
    return z3.And(a.lo == b.lo, a.hi == b.hi, a.kdata == b.kdata, a.hasarr == b.hasarr, a.valarr == b.valarr)


def same_refs(pre, post, S):
    return z3.And(*[pre.f(MS, f, S) == post.f(MS, f, S) for f in ("buffer", "waiting_receivers", "waiting_senders", "$osend", "$orecv")])


def slots_unchanged(pre, post):
    return z3.And(pre.arr("Receiver", "$has_item") == post.arr("Receiver", "$has_item"), pre.arr("Receiver", "$item") == post.arr("Receiver", "$item"))


def queues_unchanged(pre, post, S):
    return z3.And(
        same_refs(pre, post, S),
        same_dq(BQC, pre, post, pre.f(MS, "buffer", S)),
        same_od(RQC, pre, post, pre.f(MS, "waiting_receivers", S)),
        same_od(SQC, pre, post, pre.f(MS, "waiting_senders", S)),
        E.all_flags_unchanged(pre, post),
        slots_unchanged(pre, post),
    )


def counts_unchanged(pre, post, S):
    return z3.And(n_send(pre, S) == n_send(post, S), n_recv(pre, S) == n_recv(post, S), maxbuf(pre, S) == maxbuf(post, S))


def handles_unchanged(pre, post):
    return z3.And(*[pre.arr(c, f) == post.arr(c, f) for c in ("MRecv", "MSend") for f in ("_state", "_closed")])


def stream_unchanged(pre, post, S):
    return z3.And(queues_unchanged(pre, post, S), counts_unchanged(pre, post, S), handles_unchanged(pre, post))


# ------------------------------------------------------------------ contracts of the *_nowait operations


def bind_recv(ip, args, kwargs):
    s = args[0].t
    return types.SimpleNamespace(self=s, cur=ip.ctx.cur.t, S=ip.st.get("MRecv", "_state", s))


def bind_send(ip, args, kwargs):
    s = args[0].t
    return types.SimpleNamespace(self=s, cur=ip.ctx.cur.t, S=ip.st.get("MSend", "_state", s), item=ip.term(args[1], OBJ) if len(args) > 1 else None)


def r_closed(h, a):
    return h.f("MRecv", "_closed", a.self)


def s_closed(h, a):
    return h.f("MSend", "_closed", a.self)


def got_post(pre, post, a, ret):
    """receive_nowait hands out the head of (buffer ++ [first blocked sender's item]); that sender's item moves to
    the buffer tail, the sender is dequeued and woken -- FIFO for items and for blocked senders, exactly once"""
    S = a.S
    B0, B1 = buf(pre, S), buf(post, S)
    Q0, Q1 = sq(pre, S), sq(post, S)
    k0 = Q0.key_at(Q0.lo)
    e = z3.Int(pre.st.uniq("e"))
    with_sender = z3.And(
        B1.lo == B0.lo + 1,
        B1.hi == B0.hi + 1,
        B1.data == z3.Store(B0.data, B0.hi, Q0.val(k0)),
        Q1.lo == Q0.lo + 1,
        Q1.hi == Q0.hi,
        Q1.kdata == Q0.kdata,
        Q1.hasarr == z3.Store(Q0.hasarr, k0, False),
        Q1.valarr == Q0.valarr,
        evflag(post, k0),
        z3.ForAll([e], z3.Implies(z3.And(e > 0, e != k0), evflag(post, e) == evflag(pre, e)), patterns=[evflag(post, e)]),
        pre.arr("Event", "_event") == post.arr("Event", "_event"),
        ret == z3.Select(z3.Store(B0.data, B0.hi, Q0.val(k0)), B0.lo),
    )
    without_sender = z3.And(B1.lo == B0.lo + 1, B1.hi == B0.hi, B1.data == B0.data, same_od(SQC, pre, post, pre.f(MS, "waiting_senders", S)), E.all_flags_unchanged(pre, post), ret == B0.at(B0.lo))
    return [
        ("head_of_buffer_then_first_blocked_sender", z3.If(Q0.len > 0, with_sender, without_sender)),
        ("nothing_else_changed", z3.And(same_refs(pre, post, S), same_od(RQC, pre, post, pre.f(MS, "waiting_receivers", S)), slots_unchanged(pre, post), counts_unchanged(pre, post, S), handles_unchanged(pre, post))),
    ]


def available(h, S):
    return z3.Or(buf(h, S).len > 0, sq(h, S).len > 0)


RECV_NOWAIT = Contract(
    "MemoryObjectReceiveStream.receive_nowait",
    requires=lambda h, a: [],
    cases=[
        Case("closed", when=r_closed, raises="ClosedResourceError", ensures=lambda pre, post, a, ret: [("unchanged", stream_unchanged(pre, post, a.S))]),
        Case("got", when=lambda pre, a: z3.And(z3.Not(r_closed(pre, a)), available(pre, a.S)), ret_ty=OBJ, ensures=got_post),
        Case("end_of_stream", when=lambda pre, a: z3.And(z3.Not(r_closed(pre, a)), z3.Not(available(pre, a.S)), n_send(pre, a.S) == 0), raises="EndOfStream", ensures=lambda pre, post, a, ret: [("unchanged", stream_unchanged(pre, post, a.S))]),
        Case("would_block", when=lambda pre, a: z3.And(z3.Not(r_closed(pre, a)), z3.Not(available(pre, a.S)), n_send(pre, a.S) != 0), raises="WouldBlock", ensures=lambda pre, post, a, ret: [("unchanged", stream_unchanged(pre, post, a.S))]),
    ],
    modifies={(BQC, "lo"), (BQC, "hi"), (BQC, "data"), (BQC, "cnt"), (SQC, "lo"), (SQC, "has"), ("AEvent", "flag")},
    bind=bind_recv,
)


def popped_receivers_had_pending_cancellation(pre, post, S, upto):
    """receivers dropped from the head of the queue up to (excluding) absolute index `upto` all had a pending
    cancellation (they will be interrupted, so nothing is handed to them)"""
    R0 = rq(pre, S)
    i = z3.Int(pre.st.uniq("i"))
    return z3.ForAll([i], z3.Implies(z3.And(R0.lo <= i, i < upto), pending(pre, pre.f("Receiver", "task_info", R0.val(R0.key_at(i))))), patterns=[R0.key_at(i)])


def receivers_queue_suffix(pre, post, S):
    R0, R1 = rq(pre, S), rq(post, S)
    k = z3.Int(pre.st.uniq("k"))
    i = z3.Int(pre.st.uniq("i"))
    return z3.And(
        pre.f(MS, "waiting_receivers", S) == post.f(MS, "waiting_receivers", S),
        R0.lo <= R1.lo,
        R1.lo <= R0.hi,
        R1.hi == R0.hi,
        R1.kdata == R0.kdata,
        R1.valarr == R0.valarr,
        z3.ForAll([i], z3.Implies(z3.And(R0.lo <= i, i < R1.lo), z3.Not(R1.has(R0.key_at(i)))), patterns=[R0.key_at(i)]),
        z3.ForAll([k], z3.Implies(R1.has(k), R0.has(k)), patterns=[R1.has(k)]),
        z3.ForAll([i], z3.Implies(z3.And(R1.lo <= i, i < R1.hi), R1.has(R0.key_at(i))), patterns=[R0.key_at(i)]),
    )


def accepted_post(pre, post, a, ret):
    S = a.S
    R0, R1 = rq(pre, S), rq(post, S)
    B0, B1 = buf(pre, S), buf(post, S)
    e = z3.Int(pre.st.uniq("e"))
    r = z3.Int(pre.st.uniq("r"))
    wk = R0.key_at(R1.lo - 1)
    wr = R0.val(wk)
    handed = z3.And(
        R1.lo > R0.lo,
        popped_receivers_had_pending_cancellation(pre, post, S, R1.lo - 1),
        z3.Not(pending(pre, pre.f("Receiver", "task_info", wr))),
        has_item(post, wr),
        item_of(post, wr) == a.item,
        evflag(post, wk),
        z3.ForAll([e], z3.Implies(z3.And(e > 0, e != wk), evflag(post, e) == evflag(pre, e)), patterns=[evflag(post, e)]),
        z3.ForAll([r], z3.Implies(r != wr, z3.And(has_item(post, r) == has_item(pre, r), item_of(post, r) == item_of(pre, r))), patterns=[has_item(post, r)]),
        same_dq(BQC, pre, post, pre.f(MS, "buffer", S)),
    )
    buffered = z3.And(
        R1.lo == R0.hi,
        popped_receivers_had_pending_cancellation(pre, post, S, R0.hi),
        room(pre, S),
        B1.lo == B0.lo,
        B1.hi == B0.hi + 1,
        B1.data == z3.Store(B0.data, B0.hi, a.item),
        E.all_flags_unchanged(pre, post),
        slots_unchanged(pre, post),
    )
    return [
        ("handed_to_first_live_receiver_or_appended_to_buffer", z3.Or(handed, buffered)),
        ("receivers_dequeued_from_the_head_only", receivers_queue_suffix(pre, post, S)),
        ("nothing_else_changed", z3.And(same_refs(pre, post, S), same_od(SQC, pre, post, pre.f(MS, "waiting_senders", S)), counts_unchanged(pre, post, S), handles_unchanged(pre, post), pre.arr("Event", "_event") == post.arr("Event", "_event"))),
    ]


def would_block_post(pre, post, a, ret):
    S = a.S
    R0, R1 = rq(pre, S), rq(post, S)
    return [
        ("no_live_receiver_and_no_room", z3.And(R1.lo == R0.hi, popped_receivers_had_pending_cancellation(pre, post, S, R0.hi), z3.Not(room(pre, S)))),
        ("receivers_dequeued_from_the_head_only", receivers_queue_suffix(pre, post, S)),
        (
            "item_not_accepted_nothing_else_changed",
            z3.And(same_refs(pre, post, S), same_dq(BQC, pre, post, pre.f(MS, "buffer", S)), same_od(SQC, pre, post, pre.f(MS, "waiting_senders", S)), E.all_flags_unchanged(pre, post), slots_unchanged(pre, post), counts_unchanged(pre, post, S), handles_unchanged(pre, post)),
        ),
    ]


def s_open(pre, a):
    return z3.And(z3.Not(s_closed(pre, a)), n_recv(pre, a.S) != 0)


SEND_NOWAIT = Contract(
    "MemoryObjectSendStream.send_nowait",
    requires=lambda h, a: [],
    cases=[
        Case("closed", when=s_closed, raises="ClosedResourceError", ensures=lambda pre, post, a, ret: [("unchanged", stream_unchanged(pre, post, a.S))]),
        Case("broken", when=lambda pre, a: z3.And(z3.Not(s_closed(pre, a)), n_recv(pre, a.S) == 0), raises="BrokenResourceError", ensures=lambda pre, post, a, ret: [("unchanged", stream_unchanged(pre, post, a.S))]),
        Case("accepted", when=s_open, ensures=accepted_post),
        Case("would_block", when=s_open, raises="WouldBlock", ensures=would_block_post),
    ],
    modifies={(RQC, "lo"), (RQC, "has"), (BQC, "hi"), (BQC, "data"), (BQC, "cnt"), ("AEvent", "flag"), ("Receiver", "$has_item"), ("Receiver", "$item")},
    bind=bind_send,
)


def send_nowait_loop_inv(ip, env):
    u = ip.ctx.unit
    h = H(ip.st)
    pre, S = u.seg, u.S
    R1 = rq(h, S)
    return [
        ("popped_receivers_had_pending_cancellation", popped_receivers_had_pending_cancellation(pre, h, S, R1.lo)),
        ("receivers_dequeued_from_the_head_only", receivers_queue_suffix(pre, h, S)),
        (
            "nothing_else_changed",
            z3.And(
                same_refs(pre, h, S),
                same_dq(BQC, pre, h, pre.f(MS, "buffer", S)),
                same_od(SQC, pre, h, pre.f(MS, "waiting_senders", S)),
                E.all_flags_unchanged(pre, h),
                slots_unchanged(pre, h),
                counts_unchanged(pre, h, S),
                handles_unchanged(pre, h),
                pre.arr("Task", "pending_cancel") == h.arr("Task", "pending_cancel"),
                pre.arr("Receiver", "task_info") == h.arr("Receiver", "task_info"),
                rrec(pre, S) == rrec(h, S),
                rrobj(pre, S) == rrobj(h, S),
                srec(pre, S) == srec(h, S),
            ),
        ),
    ]


def after_havoc_assume_wf(ip, env):
    u = ip.ctx.unit
    h = H(ip.st)
    for n, t in wf_terms(h, u.S, ip.ctx.cur.t):
        ip.st.assume(t)


SEND_NOWAIT_LOOP = LoopSpec(send_nowait_loop_inv, modifies={(RQC, "lo"), (RQC, "has")}, after_havoc=after_havoc_assume_wf, local_types={"receive_event": EVT, "receiver": RCV})


def ghost_remove_if(ip, o, elem, cond):
    """ghost: remove `elem` from the set o when `cond` holds (the array is named so that it stays a valid pattern)"""
    st, cn = ip.st, o.ty.cls
    mem = st.get(cn, "mem", o.t)
    was = z3.Select(mem, elem)
    st.put(cn, "card", o.t, st.get(cn, "card", o.t) - z3.If(z3.And(cond, was), 1, 0))
    m2 = st.fresh("mem", mem.sort())
    st.assume(m2 == z3.Store(mem, elem, z3.If(cond, z3.BoolVal(False), was)))
    st.put(cn, "mem", o.t, m2)


# ------------------------------------------------------------------ units


class MemUnit(MethodUnit):
    props = ("C12", "C13")
    trusted = ("E1", "E2", "E7", "A-event-private", "A-dataclass", "A-taskinfo", "A-state-private")
    handle_cls = None
    contracts = dict(E.EVENT_CONTRACTS)
    contracts.update({"MemoryObjectReceiveStream.receive_nowait": RECV_NOWAIT, "MemoryObjectSendStream.send_nowait": SEND_NOWAIT})
    globals = {
        "Event": Builtin("Event", lambda ip: E._new_event(ip)),
        "get_current_task": Builtin("get_current_task", lambda ip: ip.ctx.cur),
        "checkpoint": Builtin("checkpoint", lib.b_checkpoint),
        "checkpoint_if_cancelled": Builtin("checkpoint_if_cancelled", lib.b_checkpoint_if_cancelled),
        "cancel_shielded_checkpoint": Builtin("cancel_shielded_checkpoint", lib.b_cancel_shielded_checkpoint),
        "asyncio": E._asyncio_ns(),
        "MemoryObjectStreamStatistics": Builtin("MemoryObjectStreamStatistics", lambda ip, *a: tuple(a)),
    }

    def props_of(self, name):
        if "/c08:" in name:
            return {"C08"}
        if "no_item_lost" in name or "returns_exactly_the_item" in name or "consumed_nothing" in name:
            return {"C12"}
        if "only_when_every" in name or "exactly_for_a_closed_handle" in name or "wakes_every" in name or "wakes_and_dequeues" in name or "reports_the_true_counts" in name:
            return {"C13"}
        return set(self.props) - {"C08"}

    def on_entry(self, ip, pre, a):
        self.S = ip.st.get(self.handle_cls, "_state", self.self_val.t)
        a.S = self.S
        if not isinstance(self, PostInitMixin):
            ip.st.assume(k_instance(pre, self.handle_cls, self.S, self.self_val.t))

    def guarantee(self, seg, now, s, cur):
        return guarantee(seg, now, self.S, cur)

    def loop_spec_by_shape(self, node, f):
        name = shape_set_all_events(node)
        return set_all_events_loop(name) if name is not None else None

    # receiver slot: `item` may be unset -------------------------------------------------
    def model_getattr(self, ip, obj, attr):
        if isinstance(obj, Sym) and obj.ty is RCV and attr == "item":
            if ip.ctx.branch(ip.st.get("Receiver", "$has_item", obj.t), "slot-filled"):
                return Sym(ip.st.get("Receiver", "$item", obj.t), OBJ)
            raise PyExc(ExcVal(AttributeError, ("item",)))
        return NotImplemented

    def model_setattr(self, ip, obj, attr, val):
        if isinstance(obj, Sym) and obj.ty is RCV and attr == "item":
            ip.st.put("Receiver", "$item", obj.t, ip.term(val, OBJ))
            ip.st.put("Receiver", "$has_item", obj.t, z3.BoolVal(True))
            return None
        return NotImplemented

    def dataclass_unset(self, ip, info, ref, name):
        if info.name == "Receiver" and name == "item":
            ip.st.put("Receiver", "$has_item", ref.t, z3.BoolVal(False))
            return
        raise Unsupported(f"dataclass field {info.name}.{name} without a default")

    def init_object(self, ip, info, ref):
        if info.name == MS:
            st = ip.st
            for f, ty in (("$osend", OSET_S), ("$orecv", OSET_R)):
                st.put(MS, f, ref.t, lib.new_empty(ip, ty).t)
            st.put(MS, "$rrec", ref.t, z3.K(z3.IntSort(), z3.IntVal(0)))
            st.put(MS, "$rrobj", ref.t, z3.K(z3.IntSort(), z3.IntVal(0)))
            st.put(MS, "$srec", ref.t, z3.K(z3.IntSort(), z3.IntVal(0)))

    def resume_assumptions(self, ip, what, payload):
        st, s, cur = ip.st, self.self_val.t, ip.ctx.cur.t
        h = H(st)
        own = payload.self if what == "call:Event.wait" else None
        st.assume(h.f(self.handle_cls, "_state", s) == self.S)  # a handle never changes its stream (frame: _state is written by the constructor only)
        st.assume(h.f(self.handle_cls, "$live", s))
        for n, t in wf_terms(h, self.S, cur):
            if n == "E1_running_task_is_not_suspended" and own is not None:
                ev = z3.Int(st.uniq("ev"))
                st.assume(z3.ForAll([ev], z3.Implies(ev != own, z3.And(z3.Select(rrec(h, self.S), ev) != cur, z3.Select(srec(h, self.S), ev) != cur)), patterns=[z3.Select(rrec(h, self.S), ev), z3.Select(srec(h, self.S), ev)]))
                continue
            st.assume(t)
        st.assume(receiver_private(h, self.S))
        for n, t in inv_terms(h, self.S, cur):
            st.assume(t)
        for n, t in guarantee(self.before, h, self.S, cur):  # rely = everybody's guarantee (transitive, reflexive)
            st.assume(t)
        st.assume(k_instance(h, self.handle_cls, self.S, s))
        self.resume_own(ip, what, payload, h)

    def resume_own(self, ip, what, payload, h):
        pass


def k_instance(h, cls, S, x):
    """the instance of K1 / K2 for one handle x (helps E-matching: the membership term does not occur otherwise)"""
    o = osend(h, S) if cls == "MSend" else orecv(h, S)
    return o.has(x) == z3.And(x > 0, h.f(cls, "$live", x), h.f(cls, "_state", x) == S, z3.Not(h.f(cls, "_closed", x)))


class RecvUnit(MemUnit):
    spec = RECV
    handle_cls = "MRecv"


class SendUnit(MemUnit):
    spec = SEND
    handle_cls = "MSend"

    def make_args(self, ip):
        return [], types.SimpleNamespace()


# ---- constructors (__post_init__ of a fresh clone)


class PostInitMixin:
    """__post_init__ of a new handle: called by the dataclass constructor with `_state` = an existing stream state and
    `_closed` = False; the new handle is live but not yet counted."""

    method = "__post_init__"

    def assume_state(self, ip):
        st = ip.st
        h = H(st)
        s, cur = self.self_val.t, ip.ctx.cur.t
        cls = self.handle_cls
        S = h.f(cls, "_state", s)
        st.assume(z3.And(h.f(cls, "$live", s), z3.Not(h.f(cls, "_closed", s)), S > 0))
        # precondition (from the call sites): a new handle is attached by clone() of an *open* handle of the same side
        # (the first pair of handles is attached to a fresh state by create_memory_object_stream -- unit CreateStream)
        st.assume((n_send if cls == "MSend" else n_recv)(h, S) > 0)
        for n, t in wf_terms(h, S, cur):
            st.assume(t)
        st.assume(receiver_private(h, S))
        for n, t in inv_terms(h, S, cur):
            if n.startswith("K1") and cls == "MSend":
                st.assume(k_send(h, S, except_=s))
            elif n.startswith("K2") and cls == "MRecv":
                st.assume(k_recv(h, S, except_=s))
            else:
                st.assume(t)

    def ghost_exit(self, ip, pre, a, exc, ret):
        # the new handle is open: it joins the ghost set of open handles
        fld = "$osend" if self.handle_cls == "MSend" else "$orecv"
        ty = OSET_S if self.handle_cls == "MSend" else OSET_R
        lib.set_add(ip, Sym(ip.st.get(MS, fld, self.S), ty), self.self_val)


def post_init_contract(name, count):
    return Contract(
        name,
        requires=lambda h, a: [],
        cases=[Case("counted", when=lambda pre, a: True, ensures=lambda pre, post, a, ret: [("one_more_open_handle", count(post, a.S) == count(pre, a.S) + 1), ("queues_untouched", queues_unchanged(pre, post, a.S))])],
        bind=None,
    )


class RecvPostInit(PostInitMixin, RecvUnit):
    contract = post_init_contract("MemoryObjectReceiveStream.__post_init__", n_recv)


class SendPostInit(PostInitMixin, SendUnit):
    contract = post_init_contract("MemoryObjectSendStream.__post_init__", n_send)


# ---- receive side


class RecvNowait(RecvUnit):
    method = "receive_nowait"
    contract = RECV_NOWAIT
    contracts = dict(E.EVENT_CONTRACTS)

    def on_exit(self, ip, pre, a, exc, ret):
        S = a.S
        if exc is not None and exc.pycls.__name__ == "EndOfStream":
            ip.ctx.oblige("MemoryObjectReceiveStream.receive_nowait/post:end_of_stream.only_when_every_send_clone_is_closed_and_nothing_remains", z3.And(n_send(pre, S) == 0, osend(pre, S).card == 0, buf(pre, S).len == 0, sq(pre, S).len == 0), "post")
        if exc is not None and exc.pycls.__name__ == "ClosedResourceError":
            ip.ctx.oblige("MemoryObjectReceiveStream.receive_nowait/post:closed.exactly_for_a_closed_handle", r_closed(pre, a), "post")


class Receive(RecvUnit):
    method = "receive"
    split = (2, 4, 2)  # spread the paths over several processes (first decisions: checkpoint outcome, receive_nowait case, ...)
    contract = Contract(
        "MemoryObjectReceiveStream.receive",
        requires=lambda h, a: [],
        cases=[
            Case("received", when=lambda pre, a: True, ret_ty=OBJ, ensures=lambda pre, post, a, ret: []),
            Case("closed", when=lambda pre, a: True, raises="ClosedResourceError", ensures=lambda pre, post, a, ret: []),
            Case("end_of_stream", when=lambda pre, a: True, raises="EndOfStream", ensures=lambda pre, post, a, ret: []),
            Case("cancelled", when=lambda pre, a: True, raises="CancelledError", ensures=lambda pre, post, a, ret: []),
        ],
        bind=bind_recv,
    )

    def make_args(self, ip):
        self.my_event = self.my_receiver = self.woken = None
        self.wait_case = None
        self.nowait_case = None
        return [], types.SimpleNamespace()

    def ghost_suspend(self, ip, what, payload):
        st = ip.st
        if what == "call:Event.wait":
            ev = payload.self
            self.my_event = ev
            h = H(st)
            self.my_receiver = rq(h, self.S).val(ev)
            st.put(MS, "$rrec", self.S, z3.Store(st.get(MS, "$rrec", self.S), ev, ip.ctx.cur.t))
            st.put(MS, "$rrobj", self.S, z3.Store(st.get(MS, "$rrobj", self.S), ev, self.my_receiver))
            ip.ctx.oblige("MemoryObjectReceiveStream.receive@block/post:blocks_only_when_nothing_is_available_and_a_sender_may_still_come", z3.And(buf(h, self.S).len == 0, sq(h, self.S).len == 0, n_send(h, self.S) != 0, rq(h, self.S).has(ev)), "post")
        elif what == "checkpoint":
            ip.ctx.oblige("MemoryObjectReceiveStream.receive@entry/post:checkpoint_before_touching_the_stream", stream_unchanged(self.seg, H(st), self.S), "post")

    def resume_own(self, ip, what, payload, h):
        st, cur = ip.st, ip.ctx.cur.t
        if what == "call:Event.wait":
            ev, r = self.my_event, self.my_receiver
            st.assume(z3.And(z3.Select(rrec(h, self.S), ev) == cur, z3.Select(rrobj(h, self.S), ev) == r))

    def ghost_resume(self, ip, what, payload):
        st = ip.st
        if what == "call:Event.wait":
            st.put(MS, "$rrec", self.S, z3.Store(st.get(MS, "$rrec", self.S), payload.self, 0))
            self.woken = H(st, st.snapshot())

    def after_suspending_call(self, ip, contract, a, case, exc, ret=None):
        if contract.qualname == "Event.wait":
            self.wait_case = case.name
            self.wait_exc = exc
            if exc is not None:
                # E2(d) is produced by a native Task.cancel() only: AnyIO's delivery skips a task whose wake-up is
                # already scheduled, and send_nowait never hands an item to a receiver with a pending cancellation
                # (obligation accepted.handed...: `not pending`); so an AnyIO cancellation finds the slot empty
                ip.st.assume(z3.Implies(exc.tag, z3.Not(has_item(H(ip.st), self.my_receiver))))

    def on_exit(self, ip, pre, a, exc, ret):
        S = self.S
        now = H(ip.st)
        name = "MemoryObjectReceiveStream.receive"
        if self.woken is None:
            return
        W, r, ev = self.woken, self.my_receiver, self.my_event
        ip.ctx.oblige(f"{name}/post:own_queue_entry_removed_on_every_exit", z3.Not(rq(now, S).has(ev)), "post")
        if exc is None:
            ip.ctx.oblige(f"{name}/post:received.returns_exactly_the_item_put_in_its_slot", z3.And(has_item(W, r), ip.term(ret, OBJ) == item_of(W, r)), "post")
        elif exc.pycls is not None and exc.pycls.__name__ == "EndOfStream":
            ip.ctx.oblige(f"{name}/post:end_of_stream.only_when_every_send_clone_is_closed_and_nothing_remains", z3.And(n_send(now, S) == 0, osend(now, S).card == 0, buf(now, S).len == 0, sq(now, S).len == 0), "post")
        elif exc.pycls is not None and exc.pycls.__name__ == "CancelledError":
            tag = exc.tag if exc.tag is not None else z3.BoolVal(True)
            ip.ctx.oblige(f"{name}/post:interrupted.no_item_lost[anyio_cancellation]", z3.Implies(tag, z3.Not(has_item(now, r))), "post")
            ip.ctx.oblige(f"{name}/post:interrupted.no_item_lost[native_cancel_after_handover]", z3.Implies(z3.Not(tag), z3.Not(has_item(now, r))), "post")
            ip.ctx.oblige(f"{name}/post:interrupted.consumed_nothing", z3.And(same_dq(BQC, W, now, W.f(MS, "buffer", S)), same_od(SQC, W, now, W.f(MS, "waiting_senders", S))), "post")


class RecvClone(RecvUnit):
    method = "clone"
    contract = Contract(
        "MemoryObjectReceiveStream.clone",
        requires=lambda h, a: [],
        cases=[
            Case("closed", when=r_closed, raises="ClosedResourceError", ensures=lambda pre, post, a, ret: [("unchanged", stream_unchanged(pre, post, a.S))]),
            Case("cloned", when=lambda pre, a: z3.Not(r_closed(pre, a)), ret_ty=MRECV, ensures=lambda pre, post, a, ret: [("one_more_open_receive_handle_on_the_same_stream", z3.And(n_recv(post, a.S) == n_recv(pre, a.S) + 1, post.f("MRecv", "_state", ret) == a.S, z3.Not(post.f("MRecv", "_closed", ret)), ret != a.self)), ("queues_untouched", queues_unchanged(pre, post, a.S))]),
        ],
        bind=bind_recv,
    )

    def contract_for(self, qualname, ctx):
        return None if qualname.endswith("__post_init__") else super().contract_for(qualname, ctx)

    def ghost_exit(self, ip, pre, a, exc, ret):
        if exc is None:
            lib.set_add(ip, Sym(ip.st.get(MS, "$orecv", self.S), OSET_R), ret)


def all_queued_sender_events_set(pre, post, S):
    Q0 = sq(pre, S)
    i = z3.Int(pre.st.uniq("i"))
    return z3.ForAll([i], z3.Implies(z3.And(Q0.lo <= i, i < Q0.hi), evflag(post, Q0.key_at(i))), patterns=[Q0.key_at(i)])


def only_events_of(pre, post, keys_has):
    e = z3.Int(pre.st.uniq("e"))
    return z3.And(pre.arr("Event", "_event") == post.arr("Event", "_event"), z3.ForAll([e], z3.Implies(z3.And(e > 0, z3.Not(keys_has(e))), evflag(post, e) == evflag(pre, e)), patterns=[evflag(post, e)]))


def recv_close_post(pre, post, a, ret):
    S = a.S
    last = n_recv(pre, S) == 1
    return [
        ("handle_closed_and_counted_once", z3.And(post.f("MRecv", "_closed", a.self), n_recv(post, S) == n_recv(pre, S) - 1, n_send(post, S) == n_send(pre, S))),
        ("last_close_wakes_every_blocked_sender", z3.Implies(last, all_queued_sender_events_set(pre, post, S))),
        ("only_blocked_senders_are_touched", z3.And(only_events_of(pre, post, lambda e: z3.And(last, sq(pre, S).has(e))), same_dq(BQC, pre, post, pre.f(MS, "buffer", S)), same_od(RQC, pre, post, pre.f(MS, "waiting_receivers", S)), same_od(SQC, pre, post, pre.f(MS, "waiting_senders", S)), slots_unchanged(pre, post))),
    ]


def set_all_events_loop(iter_name):
    """invariant template for the loop shape `for ev in <list>: ev.set()` (wherever it occurs): the events at the visited
    positions are set, events that are not in the list are untouched, set events stay set, nothing else changes"""

    def inv(ip, env):
        h = H(ip.st)
        En = ip.ctx.loop_entry
        k = ip.ctx.loop_k
        lst = env.vars[iter_name]
        L = h.dq(lst.ty.cls, lst.t)
        i = z3.Int(ip.st.uniq("i"))
        e = z3.Int(ip.st.uniq("e"))
        return [
            ("position_in_range", z3.And(L.lo <= k, k <= L.hi)),
            ("visited_events_set", z3.ForAll([i], z3.Implies(z3.And(L.lo <= i, i < k), evflag(h, L.at(i))), patterns=[L.at(i)])),
            ("events_outside_the_list_untouched", z3.And(En.arr("Event", "_event") == h.arr("Event", "_event"), z3.ForAll([e], z3.Implies(z3.And(e > 0, L.count(e) == 0), evflag(h, e) == evflag(En, e)), patterns=[evflag(h, e)]))),
            ("set_events_stay_set", z3.ForAll([e], z3.Implies(z3.And(e > 0, evflag(En, e)), evflag(h, e)), patterns=[evflag(h, e)])),
        ]

    return LoopSpec(inv, modifies={("AEvent", "flag")}, after_havoc=after_havoc_assume_wf, local_types={})


def shape_set_all_events(node):
    """`for <x> in <name>: <x>.set()`"""
    import ast

    if not (isinstance(node, ast.For) and isinstance(node.iter, ast.Name) and isinstance(node.target, ast.Name) and len(node.body) == 1 and not node.orelse):
        return None
    b = node.body[0]
    if isinstance(b, ast.Expr) and isinstance(b.value, ast.Call) and not b.value.args and not b.value.keywords:
        fn = b.value.func
        if isinstance(fn, ast.Attribute) and fn.attr == "set" and isinstance(fn.value, ast.Name) and fn.value.id == node.target.id:
            return node.iter.id
    return None


class RecvClose(RecvUnit):
    method = "close"
    contract = Contract(
        "MemoryObjectReceiveStream.close",
        requires=lambda h, a: [],
        cases=[
            Case("already_closed", when=r_closed, ensures=lambda pre, post, a, ret: [("idempotent", stream_unchanged(pre, post, a.S))]),
            Case("closed_now", when=lambda pre, a: z3.Not(r_closed(pre, a)), ensures=recv_close_post),
        ],
        bind=bind_recv,
    )

    def ghost_exit(self, ip, pre, a, exc, ret):
        h = H(ip.st)
        flipped = z3.And(z3.Not(pre.f("MRecv", "_closed", a.self)), h.f("MRecv", "_closed", a.self))
        ghost_remove_if(ip, Sym(ip.st.get(MS, "$orecv", self.S), OSET_R), a.self, flipped)


class RecvStatistics(RecvUnit):
    method = "statistics"
    contract = None

    def on_exit(self, ip, pre, a, exc, ret):
        S = self.S
        ok = exc is None and isinstance(ret, tuple) and len(ret) == 6
        ip.ctx.oblige("MemoryObjectReceiveStream.statistics/post:returns_six_numbers", z3.BoolVal(ok), "post")
        if ok:
            t = lambda v, ty=INT: ip.term(v, ty)
            mx = ret[1]
            ip.ctx.oblige(
                "MemoryObjectReceiveStream.statistics/post:reports_the_true_counts",
                z3.And(t(ret[0]) == buf(pre, S).len, t(ret[2]) == n_send(pre, S), t(ret[2]) == osend(pre, S).card, t(ret[3]) == n_recv(pre, S), t(ret[3]) == orecv(pre, S).card, t(ret[4]) == sq(pre, S).len, t(ret[5]) == rq(pre, S).len, ip.term(mx, INTINF) == maxbuf(pre, S)),
                "post",
            )
            ip.ctx.oblige("MemoryObjectReceiveStream.statistics/post:pure", stream_unchanged(pre, H(ip.st), S), "post")


# ---- send side


class SendItemUnit(SendUnit):
    def make_args(self, ip):
        it = Sym(z3.Int("item"), OBJ)
        self.item = it.t
        return [it], types.SimpleNamespace(item=it.t)


class SendNowait(SendItemUnit):
    method = "send_nowait"
    contract = SEND_NOWAIT
    contracts = dict(E.EVENT_CONTRACTS)
    loops = {("MemoryObjectSendStream.send_nowait", 0): SEND_NOWAIT_LOOP}

    def on_exit(self, ip, pre, a, exc, ret):
        S = a.S
        nm = "MemoryObjectSendStream.send_nowait"
        if exc is not None and exc.pycls.__name__ == "BrokenResourceError":
            ip.ctx.oblige(f"{nm}/post:broken.only_when_every_receive_clone_is_closed", z3.And(n_recv(pre, S) == 0, orecv(pre, S).card == 0), "post")
        if exc is not None and exc.pycls.__name__ == "ClosedResourceError":
            ip.ctx.oblige(f"{nm}/post:closed.exactly_for_a_closed_handle", s_closed(pre, a), "post")


class Send(SendItemUnit):
    method = "send"
    split = (2, 4, 2)
    contract = Contract(
        "MemoryObjectSendStream.send",
        requires=lambda h, a: [],
        cases=[
            Case("sent", when=lambda pre, a: True, ensures=lambda pre, post, a, ret: []),
            Case("closed", when=lambda pre, a: True, raises="ClosedResourceError", ensures=lambda pre, post, a, ret: []),
            Case("broken", when=lambda pre, a: True, raises="BrokenResourceError", ensures=lambda pre, post, a, ret: []),
            Case("cancelled", when=lambda pre, a: True, raises="CancelledError", ensures=lambda pre, post, a, ret: []),
        ],
        bind=bind_send,
    )

    def make_args(self, ip):
        self.my_event = self.woken = None
        return super().make_args(ip)

    def ghost_suspend(self, ip, what, payload):
        st = ip.st
        if what == "call:Event.wait":
            ev = payload.self
            self.my_event = ev
            h = H(st)
            st.put(MS, "$srec", self.S, z3.Store(st.get(MS, "$srec", self.S), ev, ip.ctx.cur.t))
            ip.ctx.oblige("MemoryObjectSendStream.send@block/post:blocks_only_when_full_with_its_item_queued_last", z3.And(z3.Not(room(h, self.S)), rq(h, self.S).len == 0, sq(h, self.S).has(ev), sq(h, self.S).val(ev) == self.item, sq(h, self.S).key_at(sq(h, self.S).hi - 1) == ev), "post")
        elif what == "checkpoint":
            ip.ctx.oblige("MemoryObjectSendStream.send@entry/post:checkpoint_before_touching_the_stream", stream_unchanged(self.seg, H(st), self.S), "post")

    def resume_own(self, ip, what, payload, h):
        if what == "call:Event.wait":
            ip.st.assume(z3.Select(srec(h, self.S), self.my_event) == ip.ctx.cur.t)

    def ghost_resume(self, ip, what, payload):
        st = ip.st
        if what == "call:Event.wait":
            st.put(MS, "$srec", self.S, z3.Store(st.get(MS, "$srec", self.S), payload.self, 0))
            self.woken = H(st, st.snapshot())

    def on_exit(self, ip, pre, a, exc, ret):
        S = self.S
        now = H(ip.st)
        nm = "MemoryObjectSendStream.send"
        if self.woken is None:
            return
        W, ev = self.woken, self.my_event
        ip.ctx.oblige(f"{nm}/post:own_queue_entry_removed_on_every_exit", z3.Not(sq(now, S).has(ev)), "post")
        if exc is None:
            ip.ctx.oblige(f"{nm}/post:sent.returns_only_after_a_receiver_took_the_item_out_of_the_queue", z3.And(evflag(W, ev), z3.Not(sq(W, S).has(ev))), "post")
        elif exc.pycls is not None and exc.pycls.__name__ == "BrokenResourceError":
            ip.ctx.oblige(f"{nm}/post:broken.only_when_every_receive_clone_is_closed", z3.And(n_recv(now, S) == 0, orecv(now, S).card == 0), "post")
            ip.ctx.oblige(f"{nm}/post:broken.item_was_not_delivered", sq(W, S).has(ev), "post")
        ip.ctx.oblige(f"{nm}/post:wakeup_touches_only_its_own_queue_entry", z3.And(same_dq(BQC, W, now, W.f(MS, "buffer", S)), same_od(RQC, W, now, W.f(MS, "waiting_receivers", S)), slots_unchanged(W, now), E.all_flags_unchanged(W, now)), "post")


class SendClone(SendUnit):
    method = "clone"
    contract = Contract(
        "MemoryObjectSendStream.clone",
        requires=lambda h, a: [],
        cases=[
            Case("closed", when=s_closed, raises="ClosedResourceError", ensures=lambda pre, post, a, ret: [("unchanged", stream_unchanged(pre, post, a.S))]),
            Case("cloned", when=lambda pre, a: z3.Not(s_closed(pre, a)), ret_ty=MSEND, ensures=lambda pre, post, a, ret: [("one_more_open_send_handle_on_the_same_stream", z3.And(n_send(post, a.S) == n_send(pre, a.S) + 1, post.f("MSend", "_state", ret) == a.S, z3.Not(post.f("MSend", "_closed", ret)), ret != a.self)), ("queues_untouched", queues_unchanged(pre, post, a.S))]),
        ],
        bind=bind_send,
    )

    def contract_for(self, qualname, ctx):
        return None if qualname.endswith("__post_init__") else super().contract_for(qualname, ctx)

    def ghost_exit(self, ip, pre, a, exc, ret):
        if exc is None:
            lib.set_add(ip, Sym(ip.st.get(MS, "$osend", self.S), OSET_S), ret)


def send_close_post(pre, post, a, ret):
    S = a.S
    last = n_send(pre, S) == 1
    R0 = rq(pre, S)
    i = z3.Int(pre.st.uniq("i"))
    return [
        ("handle_closed_and_counted_once", z3.And(post.f("MSend", "_closed", a.self), n_send(post, S) == n_send(pre, S) - 1, n_recv(post, S) == n_recv(pre, S))),
        ("last_close_wakes_and_dequeues_every_blocked_receiver", z3.Implies(last, z3.And(rq(post, S).len == 0, z3.ForAll([i], z3.Implies(z3.And(R0.lo <= i, i < R0.hi), evflag(post, R0.key_at(i))), patterns=[R0.key_at(i)])))),
        ("not_last_close_touches_no_queue", z3.Implies(z3.Not(last), same_od(RQC, pre, post, pre.f(MS, "waiting_receivers", S)))),
        ("only_blocked_receivers_are_touched", z3.And(only_events_of(pre, post, lambda e: z3.And(last, R0.has(e))), same_dq(BQC, pre, post, pre.f(MS, "buffer", S)), same_od(SQC, pre, post, pre.f(MS, "waiting_senders", S)), slots_unchanged(pre, post))),
    ]


class SendClose(SendUnit):
    method = "close"
    contract = Contract(
        "MemoryObjectSendStream.close",
        requires=lambda h, a: [],
        cases=[
            Case("already_closed", when=s_closed, ensures=lambda pre, post, a, ret: [("idempotent", stream_unchanged(pre, post, a.S))]),
            Case("closed_now", when=lambda pre, a: z3.Not(s_closed(pre, a)), ensures=send_close_post),
        ],
        bind=bind_send,
    )

    def ghost_exit(self, ip, pre, a, exc, ret):
        h = H(ip.st)
        flipped = z3.And(z3.Not(pre.f("MSend", "_closed", a.self)), h.f("MSend", "_closed", a.self))
        ghost_remove_if(ip, Sym(ip.st.get(MS, "$osend", self.S), OSET_S), a.self, flipped)


UNITS = [RecvPostInit, SendPostInit, RecvNowait, Receive, RecvClone, RecvClose, RecvStatistics, SendNowait, Send, SendClone, SendClose]
