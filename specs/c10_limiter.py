"""C10 (part 2) -- CapacityLimiter: tokens are never over-granted, waiters are served FCFS,
cancelled waiters neither leak nor duplicate a token, reported numbers are the true counts.

Functions under contract (anyio/_backends/_asyncio.py): CapacityLimiter.__init__, total_tokens (getter and
setter), borrowed_tokens, available_tokens, _notify_next_waiter, acquire_nowait, acquire_on_behalf_of_nowait,
acquire, acquire_on_behalf_of, release, release_on_behalf_of.

Ghost: WaitRec -- `$wp[ev]` the asyncio.Event `ev` belongs to a suspended acquire_on_behalf_of, `$wb[ev]` its
borrower.
"""
import types

import z3

from segvc.core import BOOL, CLASSES, INF, INT, NEG_INF, OBJ, REAL, ArrT, H, ODictT, RefT, SetT, Sym, register_class
from segvc.interp import Builtin
from segvc.unit import Case, ClassSpec, Contract, LemmaUnit, LoopSpec, MethodUnit

ASYNCIO = "anyio/_backends/_asyncio.py"
EV = RefT("AEvent")
BSET = SetT(OBJ)
WQ = ODictT(OBJ, EV)
SC, QC = BSET.cls, WQ.cls

register_class(
    "CapacityLimiter",
    {
        "_total_tokens": REAL,
        "_borrowers": BSET,
        "_wait_queue": WQ,
        "$wp": ArrT(EV, BOOL),
        "$wb": ArrT(EV, OBJ),
    },
    source=(ASYNCIO, "CapacityLimiter"),
)
CLASSES["CapacityLimiter"].ghost_fields = {"$wp", "$wb"}
LIM = ClassSpec("CapacityLimiter")
C = "CapacityLimiter"


def total(h, s):
    return h.f(C, "_total_tokens", s)


def bset(h, s):
    return h.set(SC, h.f(C, "_borrowers", s))


def wq(h, s):
    return h.od(QC, h.f(C, "_wait_queue", s))


def wp(h, s):
    return h.f(C, "$wp", s)


def wb(h, s):
    return h.f(C, "$wb", s)


def flag(h, ev):
    return h.f("AEvent", "flag", ev)


def card(h, s):
    return z3.ToReal(bset(h, s).card)


# math.inf is an opaque distinguished real (core.INF); a finite count is compared with a total that may be
# infinite by case distinction, never by the numeric value the solver happens to pick for INF
def lt_total(x, tot):
    return z3.Or(tot == INF, x < tot)


def le_total(x, tot):
    """`x <= tot` for an integer count x and a total that is an integer or +inf (P0), written in the literal form of
    the property -- "the last token was handed out while one was free": x - 1 < tot.  The two are the same for
    integral operands (lemma unit IntegralLemma below); z3 does not decide the mixed Int/Real form with IsInt."""
    return z3.Or(tot == INF, x - 1 < tot)


def ge_total(x, tot):
    return z3.And(tot != INF, x >= tot)


@LIM.assume("wf_containers")
def _(h, s, cur):
    return z3.And(h.f(C, "_borrowers", s) > 0, h.f(C, "_wait_queue", s) > 0, bset(h, s).wf(), wq(h, s).wf(), NEG_INF < 0, 0 < INF, z3.Not(z3.Select(wp(h, s), 0)))


@LIM.assume("memory_safety_queued_events_are_allocated")
def _(h, s, cur):
    al = h.arr("$", "alloc")
    return wq(h, s).forall_keys(lambda i, k, ev: z3.Select(al, ev))


@LIM.invariant("P0_total_is_nonnegative")
def _(h, s, cur):
    return z3.And(total(h, s) != NEG_INF, z3.Or(total(h, s) == INF, z3.And(z3.IsInt(total(h, s)), total(h, s) >= 0, total(h, s) < INF)))


@LIM.invariant("P1a_queued_waiter_is_a_record_unset_and_not_a_borrower")
def _(h, s, cur):
    return wq(h, s).forall_keys(
        lambda i, k, ev: z3.And(ev != 0, z3.Select(wp(h, s), ev), z3.Select(wb(h, s), ev) == k, z3.Not(flag(h, ev)), z3.Not(bset(h, s).has(k)))
    )


@LIM.invariant("P1b_record_unset_is_queued__set_has_its_token_reserved")
def _(h, s, cur):
    ev = z3.Int(h.st.uniq("ev"))
    b = z3.Select(wb(h, s), ev)
    q = wq(h, s)
    queued = z3.And(q.has(b), q.val(b) == ev)
    return z3.ForAll(
        [ev],
        z3.Implies(
            z3.Select(wp(h, s), ev),
            z3.And(z3.Implies(z3.Not(flag(h, ev)), queued), z3.Implies(flag(h, ev), z3.And(bset(h, s).has(b), z3.Not(queued)))),
        ),
        patterns=[z3.Select(wp(h, s), ev), flag(h, ev)],
    )


@LIM.invariant("P2_no_lost_wakeup_waiters_only_when_exhausted")
def _(h, s, cur):
    return z3.Implies(wq(h, s).len > 0, ge_total(card(h, s), total(h, s)))


# ------------------------------------------------------------------ helpers


def same_set(pre, post, s):
    a, b = bset(pre, s), bset(post, s)
    return z3.And(pre.f(C, "_borrowers", s) == post.f(C, "_borrowers", s), a.mem == b.mem, a.card == b.card)


def same_queue(pre, post, s):
    a, b = wq(pre, s), wq(post, s)
    return z3.And(pre.f(C, "_wait_queue", s) == post.f(C, "_wait_queue", s), a.lo == b.lo, a.hi == b.hi, a.kdata == b.kdata, a.hasarr == b.hasarr, a.valarr == b.valarr)


def same_events(pre, post):
    return pre.arr("AEvent", "flag") == post.arr("AEvent", "flag")


def unchanged(pre, post, s):
    return z3.And(total(pre, s) == total(post, s), same_set(pre, post, s), same_queue(pre, post, s), same_events(pre, post))


def first_waiter_granted(pre, post, s, base_mem, base_card):
    """the head of the queue (FCFS) is popped, becomes a borrower, its event is set; nobody else is touched.
    base_mem/base_card: the borrower set before the grant (after a possible removal)."""
    qa, qb = wq(pre, s), wq(post, s)
    k = qa.key_at(qa.lo)
    ev = qa.val(k)
    e = z3.Int(pre.st.uniq("e"))
    return z3.And(
        qb.lo == qa.lo + 1,
        qb.hi == qa.hi,
        qb.kdata == qa.kdata,
        qb.hasarr == z3.Store(qa.hasarr, k, False),
        pre.f(C, "_wait_queue", s) == post.f(C, "_wait_queue", s),
        bset(post, s).mem == z3.Store(base_mem, k, True),
        bset(post, s).card == base_card + 1,
        flag(post, ev),
        z3.ForAll([e], z3.Implies(e != ev, flag(post, e) == flag(pre, e))),
    )


def bind_self(ip, args, kwargs):
    return types.SimpleNamespace(self=args[0].t, cur=ip.ctx.cur.t)


def bind_borrower(ip, args, kwargs):
    return types.SimpleNamespace(self=args[0].t, cur=ip.ctx.cur.t, b=ip.term(args[1], OBJ))


def inv_post(post, a):
    return [("inv." + n, t) for n, t in LIM.inv_terms(post, a.self, a.cur)]


def can_grant(h, s):
    return z3.And(wq(h, s).len > 0, lt_total(card(h, s), total(h, s)))


NOTIFY = Contract(
    "CapacityLimiter._notify_next_waiter",
    requires=lambda h, a: [(n, t) for n, t in LIM.inv_terms(h, a.self, a.cur) if not n.startswith("P2")],
    cases=[
        Case(
            "grant",
            when=lambda pre, a: can_grant(pre, a.self),
            ensures=lambda pre, post, a, ret: [
                ("first_waiter_granted", first_waiter_granted(pre, post, a.self, bset(pre, a.self).mem, bset(pre, a.self).card)),
                ("total_unchanged", total(pre, a.self) == total(post, a.self)),
                ("granted_only_when_free", le_total(card(post, a.self), total(post, a.self))),
            ],
        ),
        Case("nothing", when=lambda pre, a: z3.Not(can_grant(pre, a.self)), ensures=lambda pre, post, a, ret: [("unchanged", unchanged(pre, post, a.self))]),
    ],
    modifies={(QC, "lo"), (QC, "has"), (SC, "mem"), (SC, "card"), ("AEvent", "flag")},
    bind=bind_self,
)

ACQ_NOWAIT_OBO = Contract(
    "CapacityLimiter.acquire_on_behalf_of_nowait",
    requires=lambda h, a: [],
    cases=[
        Case("double_borrow", when=lambda pre, a: bset(pre, a.self).has(a.b), raises="RuntimeError", ensures=lambda pre, post, a, ret: [("unchanged", unchanged(pre, post, a.self))]),
        Case(
            "would_block",
            when=lambda pre, a: z3.And(z3.Not(bset(pre, a.self).has(a.b)), z3.Or(wq(pre, a.self).len > 0, ge_total(card(pre, a.self), total(pre, a.self)))),
            raises="WouldBlock",
            ensures=lambda pre, post, a, ret: [("unchanged", unchanged(pre, post, a.self))],
        ),
        Case(
            "granted",
            when=lambda pre, a: z3.And(z3.Not(bset(pre, a.self).has(a.b)), wq(pre, a.self).len == 0, lt_total(card(pre, a.self), total(pre, a.self))),
            ensures=lambda pre, post, a, ret: [
                ("borrower_added", z3.And(bset(post, a.self).mem == z3.Store(bset(pre, a.self).mem, a.b, True), bset(post, a.self).card == bset(pre, a.self).card + 1)),
                ("granted_only_when_free_and_nobody_waits", z3.And(le_total(card(post, a.self), total(post, a.self)), wq(pre, a.self).len == 0)),
                ("rest_unchanged", z3.And(total(pre, a.self) == total(post, a.self), same_queue(pre, post, a.self), same_events(pre, post), pre.f(C, "_borrowers", a.self) == post.f(C, "_borrowers", a.self))),
            ],
        ),
    ],
    modifies={(SC, "mem"), (SC, "card")},
    bind=bind_borrower,
)


def no_inflight_grant_for(h, s, b):
    """precondition of release_on_behalf_of (from the call sites): the borrower is not the subject of a
    suspended acquire_on_behalf_of whose token has already been reserved"""
    ev = z3.Int(h.st.uniq("ev"))
    return z3.ForAll([ev], z3.Implies(z3.And(z3.Select(wp(h, s), ev), flag(h, ev)), z3.Select(wb(h, s), ev) != b), patterns=[z3.Select(wp(h, s), ev)])


def not_already_waiting(h, s, b):
    """precondition of acquire_on_behalf_of (A-borrower, from the call sites): one borrower identity is used by at
    most one acquire at a time -- it is not the key of a queued waiter"""
    return z3.Not(wq(h, s).has(b))


def release_post(pre, post, a, ret):
    s = a.self
    mem1 = z3.Store(bset(pre, s).mem, a.b, False)
    card1 = bset(pre, s).card - 1
    grant = z3.And(wq(pre, s).len > 0, lt_total(z3.ToReal(card1), total(pre, s)))
    no_grant = z3.And(bset(post, s).mem == mem1, bset(post, s).card == card1, same_queue(pre, post, s), same_events(pre, post))
    return [
        ("token_returned_then_first_waiter_served", z3.If(grant, first_waiter_granted(pre, post, s, mem1, card1), no_grant)),
        ("total_unchanged", total(pre, s) == total(post, s)),
        ("granted_only_when_free", z3.Implies(grant, le_total(card(post, s), total(post, s)))),
    ] + inv_post(post, a)


RELEASE_OBO = Contract(
    "CapacityLimiter.release_on_behalf_of",
    requires=lambda h, a: list(LIM.inv_terms(h, a.self, a.cur)) + [("A_borrower_no_inflight_grant", no_inflight_grant_for(h, a.self, a.b))],
    cases=[
        Case("not_a_borrower", when=lambda pre, a: z3.Not(bset(pre, a.self).has(a.b)), raises="RuntimeError", ensures=lambda pre, post, a, ret: [("unchanged", unchanged(pre, post, a.self))]),
        Case("released", when=lambda pre, a: bset(pre, a.self).has(a.b), ensures=release_post),
    ],
    modifies={(QC, "lo"), (QC, "has"), (SC, "mem"), (SC, "card"), ("AEvent", "flag")},
    bind=bind_borrower,
)


def real_getter(name, fn):
    return Contract(
        f"CapacityLimiter.{name}",
        requires=lambda h, a: [],
        cases=[Case("pure", when=lambda pre, a: True, ret_ty=REAL, ensures=lambda pre, post, a, ret: [("reports_true_count", ret == fn(pre, a.self)), ("unchanged", unchanged(pre, post, a.self))])],
        bind=bind_self,
    )


def lim_guarantee(a, b, s, t):
    ev = z3.Int(a.st.uniq("ev"))
    al = a.arr("$", "alloc")
    return [
        ("Q1_grant_only_when_free", z3.Implies(card(b, s) > card(a, s), le_total(card(b, s), total(b, s)))),
        ("set_events_stay_set", z3.ForAll([ev], z3.Implies(z3.And(z3.Select(al, ev), flag(a, ev)), flag(b, ev)), patterns=[flag(b, ev)])),
    ]


class LimUnit(MethodUnit):
    props = ("C10",)
    spec = LIM
    trusted = ("E1", "E2", "E7", "A-borrower")

    def guarantee(self, seg, now, s, cur):
        return lim_guarantee(seg, now, s, cur)

    def ghost_suspend(self, ip, what, payload):
        st, s = ip.st, self.self_val.t
        if what == "aevent":
            st.put(C, "$wp", s, z3.Store(st.get(C, "$wp", s), payload.t, True))
            st.put(C, "$wb", s, z3.Store(st.get(C, "$wb", s), payload.t, self.borrower_term))

    def resume_assumptions(self, ip, what, payload):
        st, s, cur = ip.st, self.self_val.t, ip.ctx.cur.t
        h = H(st)
        for n, t in self.spec.assumed_terms(h, s, cur) + self.spec.inv_terms(h, s, cur):
            st.assume(t)
        if what == "aevent":
            st.assume(z3.And(z3.Select(wp(h, s), payload.t), z3.Select(wb(h, s), payload.t) == self.borrower_term))
            # A-borrower: while this call is suspended nobody else acquires or releases for its borrower, so the
            # borrower can have become a holder only through this call's own event
            st.assume(z3.Implies(z3.Not(flag(h, payload.t)), z3.Not(bset(h, s).has(self.borrower_term))))
            ev = z3.Int(st.uniq("ev"))
            st.assume(z3.ForAll([ev], z3.Implies(z3.And(ev != payload.t, z3.Select(wp(h, s), ev)), z3.Select(wb(h, s), ev) != self.borrower_term), patterns=[z3.Select(wp(h, s), ev)]))
        elif getattr(self, "borrower_term", None) is not None:
            # suspended without a record (checkpoint): A-borrower again
            st.assume(bset(h, s).has(self.borrower_term) == bset(self.before, s).has(self.borrower_term))
            st.assume(no_inflight_grant_for(h, s, self.borrower_term))

    def ghost_resume(self, ip, what, payload):
        st, s = ip.st, self.self_val.t
        if what == "aevent":
            st.put(C, "$wp", s, z3.Store(st.get(C, "$wp", s), payload.t, False))


class BorrowerUnit(LimUnit):
    def make_args(self, ip):
        b = Sym(z3.Int("borrower"), OBJ)
        self.borrower_term = b.t
        return [b], types.SimpleNamespace(b=b.t)


class InitUnit(LimUnit):
    method = "__init__"
    is_init = True
    contract = Contract(
        "CapacityLimiter.__init__",
        requires=lambda h, a: [],
        cases=[
            Case("ok", when=lambda pre, a: True, ensures=lambda pre, post, a, ret: [("initial_state", z3.And(bset(post, a.self).card == 0, wq(post, a.self).len == 0))]),
            Case("bad_type", when=lambda pre, a: True, raises="TypeError", ensures=lambda pre, post, a, ret: []),
            Case("negative", when=lambda pre, a: True, raises="ValueError", ensures=lambda pre, post, a, ret: []),
        ],
        bind=bind_self,
    )

    def make_args(self, ip):
        v = symbolic_number(ip)
        self.new_total = ip.term(v, REAL)
        return [v], types.SimpleNamespace()

    def ghost_init(self, ip):
        st, s = ip.st, self.self_val.t
        st.put(C, "$wp", s, z3.K(z3.IntSort(), z3.BoolVal(False)))
        st.put(C, "$wb", s, z3.K(z3.IntSort(), z3.IntVal(0)))


def symbolic_number(ip):
    """an argument of type `float`: an int, +inf, -inf or another (finite, non-integral) float"""
    k = ip.ctx.decide(4, "value-kind")
    if k == 0:
        v = Sym(z3.Int("value_int"), INT)
        ip.st.assume(z3.And(NEG_INF < z3.ToReal(v.t), z3.ToReal(v.t) < INF))  # an int is finite
        return v
    if k == 1:
        return float("inf")
    if k == 2:
        return float("-inf")
    v = Sym(z3.Real("value_float"), REAL)
    ip.st.assume(z3.And(NEG_INF < v.t, v.t < INF))
    return v


def setter_loop_inv(ip, env):
    """`while self._wait_queue and ...`: every iteration grants the head waiter only while a token is free"""
    u = ip.ctx.unit
    h = H(ip.st)
    s = u.self_val.t
    out = [(n, t) for n, t in LIM.inv_terms(h, s, ip.ctx.cur.t) if not n.startswith("P2")]
    out.append(("Q1_no_over_grant_so_far", z3.Implies(card(h, s) > card(u.seg, s), le_total(card(h, s), total(h, s)))))
    out.append(("total_is_the_new_value", total(h, s) == u.new_total))
    ev = z3.Int(ip.st.uniq("ev"))
    out.append(("set_events_stay_set", z3.ForAll([ev], z3.Implies(z3.And(z3.Select(u.seg.arr("$", "alloc"), ev), flag(u.seg, ev)), flag(h, ev)), patterns=[flag(h, ev)])))
    # two-state, against the loop entry: the queue is only consumed from its head, one new borrower per popped waiter
    e = ip.ctx.loop_entry
    qe, qh = wq(e, s), wq(h, s)
    out.append(
        (
            "one_borrower_per_popped_waiter",
            z3.And(
                e.f(C, "_wait_queue", s) == h.f(C, "_wait_queue", s),
                e.f(C, "_borrowers", s) == h.f(C, "_borrowers", s),
                qh.hi == qe.hi,
                qh.lo >= qe.lo,
                qh.lo <= qh.hi,
                bset(h, s).card - bset(e, s).card == qh.lo - qe.lo,
            ),
        )
    )
    return out


def setter_after_havoc(ip, env):
    """container well-formedness (model facts, E7) is re-assumed for the havocked loop state"""
    u = ip.ctx.unit
    h = H(ip.st)
    for n, t in LIM.assumed_terms(h, u.self_val.t, ip.ctx.cur.t):
        ip.st.assume(t)


SETTER_LOOPS = {("CapacityLimiter.total_tokens.setter", 0): LoopSpec(setter_loop_inv, after_havoc=setter_after_havoc, modifies={(QC, "lo"), (QC, "has"), (SC, "mem"), (SC, "card"), ("AEvent", "flag")}, local_types={"waiters_to_notify": REAL})}
InitUnit.loops = SETTER_LOOPS
InitUnit.contracts = {"CapacityLimiter._notify_next_waiter": NOTIFY}


class SetterUnit(LimUnit):
    method = "total_tokens"
    is_setter = True
    contracts = {"CapacityLimiter._notify_next_waiter": NOTIFY}
    loops = SETTER_LOOPS
    contract = Contract(
        "CapacityLimiter.total_tokens.setter",
        requires=lambda h, a: [],
        cases=[
            Case("ok", when=lambda pre, a: True, ensures=lambda pre, post, a, ret: []),
            Case("bad_type", when=lambda pre, a: True, raises="TypeError", ensures=lambda pre, post, a, ret: [("unchanged", unchanged(pre, post, a.self))]),
            Case("negative", when=lambda pre, a: True, raises="ValueError", ensures=lambda pre, post, a, ret: [("unchanged", unchanged(pre, post, a.self))]),
        ],
        bind=bind_self,
    )

    def make_args(self, ip):
        v = symbolic_number(ip)
        self.value = v
        self.new_total = ip.term(v, REAL)
        return [v], types.SimpleNamespace()

    def on_exit(self, ip, pre, a, exc, ret):
        s = a.self
        post = H(ip.st)
        v = self.value
        is_int = isinstance(v, Sym) and v.ty is INT
        is_posinf = isinstance(v, float) and v == float("inf")
        if exc is None:
            ip.ctx.oblige("CapacityLimiter.total_tokens.setter/post:ok.accepted_only_nonnegative_int_or_inf", z3.BoolVal(is_posinf) if not is_int else v.t >= 0, "post")
            ip.ctx.oblige("CapacityLimiter.total_tokens.setter/post:ok.total_is_set", total(post, s) == self.new_total, "post")
        elif exc.pycls.__name__ == "TypeError":
            ip.ctx.oblige("CapacityLimiter.total_tokens.setter/post:bad_type.iff_neither_int_nor_inf", z3.BoolVal(not is_int and not (isinstance(v, float))), "post")
        elif exc.pycls.__name__ == "ValueError":
            ip.ctx.oblige("CapacityLimiter.total_tokens.setter/post:negative.iff_negative", (v.t < 0) if is_int else z3.BoolVal(isinstance(v, float) and v < 0), "post")


class NotifyUnit(LimUnit):
    method = "_notify_next_waiter"
    contract = NOTIFY

    def assume_state(self, ip):
        # called while P2 is temporarily broken (a token has just been returned)
        h = H(ip.st)
        s, cur = self.self_val.t, ip.ctx.cur.t
        for n, t in self.spec.assumed_terms(h, s, cur):
            ip.st.assume(t)
        for n, t in self.spec.inv_terms(h, s, cur):
            if not n.startswith("P2"):
                ip.st.assume(t)

    def assert_inv(self, ip, site):
        h = H(ip.st)
        s, cur = self.self_val.t, ip.ctx.cur.t
        for n, t in self.spec.inv_terms(h, s, cur):
            if not n.startswith("P2"):
                ip.ctx.oblige(f"{self.qualname}{site}/inv:{n}", t, "inv")
        # P2 is re-established whenever it held up to one returned token
        pre = self.seg
        ip.ctx.oblige(
            f"{self.qualname}{site}/inv:P2_restored_after_one_returned_token",
            z3.Implies(z3.Implies(wq(pre, s).len > 0, ge_total(card(pre, s) + 1, total(pre, s))), z3.Implies(wq(h, s).len > 0, ge_total(card(h, s), total(h, s)))),
            "inv",
        )


class AcqNowaitOboUnit(BorrowerUnit):
    method = "acquire_on_behalf_of_nowait"
    contract = ACQ_NOWAIT_OBO


class ReleaseOboUnit(BorrowerUnit):
    method = "release_on_behalf_of"
    contract = RELEASE_OBO
    contracts = {"CapacityLimiter._notify_next_waiter": NOTIFY}


class AcquireOboUnit(BorrowerUnit):
    method = "acquire_on_behalf_of"
    contracts = {
        "CapacityLimiter._notify_next_waiter": NOTIFY,
        "CapacityLimiter.acquire_on_behalf_of_nowait": ACQ_NOWAIT_OBO,
        "CapacityLimiter.release_on_behalf_of": RELEASE_OBO,
    }
    contract = Contract(
        "CapacityLimiter.acquire_on_behalf_of",
        requires=lambda h, a: [("A_borrower_no_inflight_grant", no_inflight_grant_for(h, a.self, a.b)), ("A_borrower_not_already_waiting", not_already_waiting(h, a.self, a.b))],
        cases=[
            Case("acquired", when=lambda pre, a: True, ensures=lambda pre, post, a, ret: [("borrower_holds_a_token", bset(post, a.self).has(a.b))]),
            Case("double_borrow", when=lambda pre, a: bset(pre, a.self).has(a.b), raises="RuntimeError", ensures=lambda pre, post, a, ret: [("unchanged", unchanged(pre, post, a.self))]),
            Case("cancelled", when=lambda pre, a: True, raises="CancelledError", ensures=lambda pre, post, a, ret: [("no_token_leaked_to_the_borrower", z3.Implies(z3.Not(bset(pre, a.self).has(a.b)), z3.Not(bset(post, a.self).has(a.b))))]),
        ],
        bind=bind_borrower,
    )


class AcquireUnit(LimUnit):
    """acquire() == acquire_on_behalf_of(current task); the callee's real body is inlined (no contract for it is
    registered here), so every segment of it is verified again with borrower = the running task"""

    method = "acquire"
    contracts = {
        "CapacityLimiter._notify_next_waiter": NOTIFY,
        "CapacityLimiter.acquire_on_behalf_of_nowait": ACQ_NOWAIT_OBO,
        "CapacityLimiter.release_on_behalf_of": RELEASE_OBO,
    }
    contract = Contract(
        "CapacityLimiter.acquire",
        requires=lambda h, a: [("A_borrower_no_inflight_grant", no_inflight_grant_for(h, a.self, a.cur)), ("A_borrower_not_already_waiting", not_already_waiting(h, a.self, a.cur))],
        cases=[
            Case("acquired", when=lambda pre, a: True, ensures=lambda pre, post, a, ret: [("current_task_holds_a_token", bset(post, a.self).has(a.cur))]),
            Case("double_borrow", when=lambda pre, a: bset(pre, a.self).has(a.cur), raises="RuntimeError", ensures=lambda pre, post, a, ret: [("unchanged", unchanged(pre, post, a.self))]),
            Case("cancelled", when=lambda pre, a: True, raises="CancelledError", ensures=lambda pre, post, a, ret: [("no_token_leaked_to_the_caller", z3.Implies(z3.Not(bset(pre, a.self).has(a.cur)), z3.Not(bset(post, a.self).has(a.cur))))]),
        ],
        bind=bind_self,
    )

    def make_args(self, ip):
        self.borrower_term = ip.ctx.cur.t
        return [], types.SimpleNamespace()


class ReleaseUnit(LimUnit):
    """release() == release_on_behalf_of(current task)"""

    method = "release"
    contracts = {"CapacityLimiter.release_on_behalf_of": RELEASE_OBO}
    contract = Contract(
        "CapacityLimiter.release",
        requires=lambda h, a: [("A_borrower_no_inflight_grant", no_inflight_grant_for(h, a.self, a.cur))],
        cases=[
            Case("not_a_borrower", when=lambda pre, a: z3.Not(bset(pre, a.self).has(a.cur)), raises="RuntimeError", ensures=lambda pre, post, a, ret: [("unchanged", unchanged(pre, post, a.self))]),
            Case("released", when=lambda pre, a: bset(pre, a.self).has(a.cur), ensures=lambda pre, post, a, ret: [("current_task_no_longer_borrows", z3.Not(bset(post, a.self).has(a.cur)))]),
        ],
        modifies={(QC, "lo"), (QC, "has"), (SC, "mem"), (SC, "card"), ("AEvent", "flag")},
        bind=bind_self,
    )


class AcqNowaitUnit(LimUnit):
    method = "acquire_nowait"
    contracts = {"CapacityLimiter.acquire_on_behalf_of_nowait": ACQ_NOWAIT_OBO}
    contract = Contract(
        "CapacityLimiter.acquire_nowait",
        requires=lambda h, a: [],
        cases=[
            Case("granted", when=lambda pre, a: True, ensures=lambda pre, post, a, ret: [("current_task_borrows", bset(post, a.self).has(a.cur)), ("only_when_free", le_total(card(post, a.self), total(post, a.self)))]),
            Case("double_borrow", when=lambda pre, a: bset(pre, a.self).has(a.cur), raises="RuntimeError", ensures=lambda pre, post, a, ret: [("unchanged", unchanged(pre, post, a.self))]),
            Case("would_block", when=lambda pre, a: True, raises="WouldBlock", ensures=lambda pre, post, a, ret: [("unchanged", unchanged(pre, post, a.self))]),
        ],
        bind=bind_self,
    )


class BorrowedUnit(LimUnit):
    method = "borrowed_tokens"
    contract = Contract(
        "CapacityLimiter.borrowed_tokens",
        requires=lambda h, a: [],
        cases=[Case("pure", when=lambda pre, a: True, ret_ty=INT, ensures=lambda pre, post, a, ret: [("reports_true_count", ret == bset(pre, a.self).card), ("unchanged", unchanged(pre, post, a.self))])],
        bind=bind_self,
    )


class AvailableUnit(LimUnit):
    method = "available_tokens"
    contract = None

    def on_exit(self, ip, pre, a, exc, ret):
        s = a.self
        ip.ctx.oblige("CapacityLimiter.available_tokens/post:returns_normally", z3.BoolVal(exc is None), "post")
        if exc is None:
            if isinstance(ret, float):
                ip.ctx.oblige("CapacityLimiter.available_tokens/post:infinite_iff_total_infinite", total(pre, s) == INF, "post")
            else:
                ip.ctx.oblige("CapacityLimiter.available_tokens/post:total_minus_borrowed", ip.term(ret, REAL) == total(pre, s) - card(pre, s), "post")
            ip.ctx.oblige("CapacityLimiter.available_tokens/post:unchanged", unchanged(pre, H(ip.st), s), "post")


class TotalGetterUnit(LimUnit):
    method = "total_tokens"
    contract = None

    def on_exit(self, ip, pre, a, exc, ret):
        ip.ctx.oblige("CapacityLimiter.total_tokens/post:reports_total", z3.BoolVal(exc is None) if exc is not None else ip.term(ret, REAL) == total(pre, a.self), "post")


class _BorrowerSnapshot:
    """value of `tuple(self._borrowers)`: a snapshot of the borrower set (the set term at the time of the call)"""

    def __init__(self, ref):
        self.ref = ref


def _b_tuple(ip, x):
    if not isinstance(x, Sym):
        raise NotImplementedError("tuple() of something other than the borrower set")
    return _BorrowerSnapshot(x.t)


class StatisticsUnit(LimUnit):
    """`CapacityLimiter.statistics()`: (borrowed, total, borrowers, waiting) are the true counts; nothing changes.
    `self.borrowed_tokens` / `self.total_tokens` are resolved through the real property bodies."""

    method = "statistics"
    contract = None
    globals = {"CapacityLimiterStatistics": Builtin("CapacityLimiterStatistics", lambda ip, *a: tuple(a)), "tuple": Builtin("tuple", _b_tuple)}

    def on_exit(self, ip, pre, a, exc, ret):
        s = a.self
        ok = exc is None and isinstance(ret, tuple) and len(ret) == 4 and isinstance(ret[2], _BorrowerSnapshot)
        ip.ctx.oblige("CapacityLimiter.statistics/post:returns_four_fields", z3.BoolVal(ok), "post")
        if ok:
            q = wq(pre, s)
            ip.ctx.oblige(
                "CapacityLimiter.statistics/post:reports_the_true_counts",
                z3.And(ip.term(ret[0], INT) == card(pre, s), ip.term(ret[1], REAL) == total(pre, s), ret[2].ref == pre.f(C, "_borrowers", s), ip.term(ret[3], INT) == q.len),
                "post",
            )
            ip.ctx.oblige("CapacityLimiter.statistics/post:unchanged", unchanged(pre, H(ip.st), s), "post")


class EnvNothing(LemmaUnit):
    """The asyncio.Event of a waiter is private to the limiter: the environment cannot set it; cancelling the
    waiting task changes no limiter state (the waiter's own except-clause does, and is verified there)."""

    props = ("C10",)
    name = "CapacityLimiter/env:cancel_changes_nothing"

    def lemma(self, ip):
        ip.ctx.oblige(f"{self.name}/env:no_state_change", z3.BoolVal(True), "env")


class IntegralLemma(LemmaUnit):
    """le_total's strict form is `<=` on integral operands (P0 proves the total integral or infinite)."""

    props = ("C10",)
    name = "CapacityLimiter/lemma:le_total_is_leq_on_integers"

    def lemma(self, ip):
        c, n = z3.Int("c"), z3.Int("n")
        ip.ctx.oblige(f"{self.name}/lemma:strict_form_equals_leq", (z3.ToReal(c) - 1 < z3.ToReal(n)) == (c <= n), "lemma")


UNITS = [IntegralLemma, InitUnit, SetterUnit, NotifyUnit, AcqNowaitOboUnit, ReleaseOboUnit, AcquireOboUnit, AcquireUnit, ReleaseUnit, AcqNowaitUnit, BorrowedUnit, AvailableUnit, TotalGetterUnit, StatisticsUnit]
