"""C08 -- checkpoint discipline: blocking primitives always check cancellation and yield.

This module adds the C08 obligations (segvc.unit.C08: K1 yield before returning, K2 cancellation checked before any
effect / cancelled-on-entry performs no effect, K4 the *_nowait / close calls have no suspension point) to the units
that already verify the operations for C09-C13, and adds small units for the delegating operations.

  operation (property's table)                      unit
  Lock.acquire / acquire_nowait / release           specs.c09_lock
  Semaphore.acquire / acquire_nowait / release      specs.c10_semaphore
  CapacityLimiter.acquire[_on_behalf_of] / nowait   specs.c10_limiter
  Event.wait / set / is_set, Condition.*            specs.c11_condition
  MemoryObject{Send,Receive}Stream.*                specs.c12_memory
  Future.wait, TaskHandle.wait                      here (delegation to Event.wait under its contract)
  to_thread.run_sync (loop side)                    here (path obligation: checkpoint() is the first statement)
  sleep / checkpoint                                E8 (asyncio.sleep(0) yields once) -- trusted
  functools.reduce, anyio.itertools                 bounded stand-in (replayers/C08.py --bounded-iter), not proved

(K3 -- an interrupted post-effect yield undoes the effect -- is the `cancelled` postcondition of the acquire contracts
of C09/C10 and is discharged there.)
"""
import ast
import types

import z3

from segvc import extract
from segvc.core import CLASSES, H, REAL, RefT, Sym, register_class
from segvc.unit import C08, Case, ClassSpec, Contract, LemmaUnit, MethodUnit
from specs import c09_lock as L
from specs import c10_limiter as LIM
from specs import c10_semaphore as SEM
from specs import c11_condition as E
from specs import c12_memory as M

S = lambda u: u.self_val.t  # noqa: E731


def add(cls, c08):
    cls.c08 = c08
    if "C08" not in cls.props:
        cls.props = tuple(cls.props) + ("C08",)
    return cls


lock_same = lambda a, b, u: z3.And(L.lock_fields_unchanged(a, b, S(u)), L.futures_unchanged(a, b))  # noqa: E731
sem_same = lambda a, b, u: SEM.fields_unchanged(a, b, S(u))  # noqa: E731
lim_same = lambda a, b, u: LIM.unchanged(a, b, S(u))  # noqa: E731
ev_same = lambda a, b, u: E.all_flags_unchanged(a, b)  # noqa: E731
cond_same = lambda a, b, u: E.cond_unchanged(a, b, S(u))  # noqa: E731
mem_same = lambda a, b, u: M.stream_unchanged(a, b, u.S)  # noqa: E731

UNITS = []
# ---- Lock
UNITS.append(add(L.AcquireUnit, C08(lock_same, exempt=lambda pre, u: pre.f("Lock", "_fast_acquire", S(u)))))
for c in (L.AcquireNowaitUnit, L.ReleaseUnit, L.LockedUnit):
    UNITS.append(add(c, C08(lock_same, kind="nowait")))
# ---- Semaphore
UNITS.append(add(SEM.AcquireUnit, C08(sem_same, exempt=lambda pre, u: pre.f("Semaphore", "_fast_acquire", S(u)))))
for c in (SEM.AcquireNowaitUnit, SEM.ReleaseUnit):
    UNITS.append(add(c, C08(sem_same, kind="nowait")))
# ---- CapacityLimiter
for c in (LIM.AcquireOboUnit, LIM.AcquireUnit):
    UNITS.append(add(c, C08(lim_same)))
for c in (LIM.AcqNowaitOboUnit, LIM.AcqNowaitUnit, LIM.ReleaseOboUnit, LIM.ReleaseUnit):
    UNITS.append(add(c, C08(lim_same, kind="nowait")))
# ---- Event / Condition
UNITS.append(add(E.EventWait, C08(ev_same)))
for c in (E.EventSet, E.EventIsSet):
    UNITS.append(add(c, C08(ev_same, kind="nowait")))
UNITS.append(add(E.CondWait, C08(cond_same)))
UNITS.append(add(E.CondAcquire, C08(cond_same, exempt=lambda pre, u: pre.f("Lock", "_fast_acquire", E.clock(pre, S(u))))))
for c in (E.CondAcquireNowait, E.CondRelease, E.CondNotify, E.CondNotifyAll, E.CondLocked):
    UNITS.append(add(c, C08(cond_same, kind="nowait")))
# ---- memory object streams
for c in (M.Send, M.Receive):
    UNITS.append(add(c, C08(mem_same)))
for c in (M.SendNowait, M.RecvNowait, M.SendClose, M.RecvClose, M.SendClone, M.RecvClone):
    UNITS.append(add(c, C08(mem_same, kind="nowait")))

# callees that are checkpoints themselves (their own C08 obligations above prove it)
E.EV_WAIT.checkpoints = True
E.LOCK_ACQUIRE_S.checkpoints = True


# ---- Future.wait / TaskHandle.wait: delegation to Event.wait

FUT = "anyio/_core/_futures.py"
TSK = "anyio/_core/_tasks.py"
register_class("AFuture", {"_finished_event": E.EVT}, source=(FUT, "Future"))
register_class("TaskHandle", {"_finished_event": E.EVT}, source=(TSK, "TaskHandle"))


def wait_unit(cls, qual):
    spec = ClassSpec(cls)
    spec.assumed.append(("event_is_an_object", lambda h, s, cur: z3.And(h.f(cls, "_finished_event", s) > 0, z3.Select(h.arr("$", "alloc"), h.f(cls, "_finished_event", s)), E.embedded(h))))

    class WaitUnit(MethodUnit):
        props = ("C08",)
        method = "wait"
        contracts = {"Event.wait": E.EV_WAIT}
        trusted = ("E1", "E7", "A-event-private")
        c08 = C08(lambda a, b, u: E.all_flags_unchanged(a, b))
        contract = Contract(
            f"{qual}.wait",
            requires=lambda h, a: [],
            cases=[
                Case("finished", when=lambda pre, a: True, ensures=lambda pre, post, a, ret: [("returns_only_when_finished", E.evflag(post, post.f(cls, "_finished_event", a.self)))]),
                Case("cancelled", when=lambda pre, a: True, raises="CancelledError", ensures=lambda pre, post, a, ret: []),
            ],
            bind=None,
        )

        def props_of(self, name):
            return {"C08"}

        def resume_assumptions(self, ip, what, payload):
            h = H(ip.st)
            s = self.self_val.t
            for n, t in self.spec.assumed_terms(h, s, ip.ctx.cur.t):
                ip.st.assume(t)
            ip.st.assume(h.f(cls, "_finished_event", s) == self.before.f(cls, "_finished_event", s))  # assigned by __init__ only

    WaitUnit.spec = spec
    WaitUnit.__name__ = f"{cls}Wait"
    return WaitUnit


FutureWait = wait_unit("AFuture", "Future")
TaskHandleWait = wait_unit("TaskHandle", "TaskHandle")
UNITS += [FutureWait, TaskHandleWait]


class AwaitDelegation(LemmaUnit):
    """Path obligations read off the AST of the real functions:
    * Future.__await__ and TaskHandle.__await__ delegate to wait() / _finished_event.wait() *unconditionally*
      (a `yield from <...>.wait().__await__()` as the first statement, not under any condition) -- so awaiting an already
      finished future still passes Event.wait's checkpoint;
    * AsyncIOBackend.run_sync_in_worker_thread starts with `await cls.checkpoint()` before touching any state (no thread
      started, no token taken when cancelled on entry);
    * AsyncIOBackend.checkpoint is `await sleep(0)` (E8)."""

    props = ("C08",)
    name = "C08/path"
    functions = (
        (FUT, "Future.__await__"),
        (TSK, "TaskHandle.__await__"),
        ("anyio/_backends/_asyncio.py", "AsyncIOBackend.run_sync_in_worker_thread"),
        ("anyio/_backends/_asyncio.py", "AsyncIOBackend.checkpoint"),
    )

    def lemma(self, ip):
        def first_stmt(modpath, qual):
            node = extract.module(modpath).get(qual)
            body = [s for s in node.body if not (isinstance(s, ast.Expr) and isinstance(s.value, ast.Constant))]
            return ast.unparse(body[0]) if body else ""

        def whole_body(modpath, qual):
            node = extract.module(modpath).get(qual)
            body = [s for s in node.body if not (isinstance(s, ast.Expr) and isinstance(s.value, ast.Constant))]
            return "; ".join(ast.unparse(s).replace("\n", " ") for s in body)

        checks = [
            ("Future.__await__/c08:delegates_unconditionally_to_wait", first_stmt(FUT, "Future.__await__") == "yield from self.wait().__await__()"),
            ("TaskHandle.__await__/c08:delegates_unconditionally_to_the_event_wait", first_stmt(TSK, "TaskHandle.__await__") == "yield from self._finished_event.wait().__await__()"),
            ("AsyncIOBackend.run_sync_in_worker_thread/c08:checkpoint_is_the_first_statement", first_stmt("anyio/_backends/_asyncio.py", "AsyncIOBackend.run_sync_in_worker_thread") == "await cls.checkpoint()"),
            ("AsyncIOBackend.checkpoint/c08:is_sleep_0", first_stmt("anyio/_backends/_asyncio.py", "AsyncIOBackend.checkpoint") == "await sleep(0)"),
        ]
        changed = []
        for name, ok in checks:
            if ok:
                ip.ctx.oblige(name, z3.BoolVal(True), "post")
            elif "delegates_to_the_backend" in name or "is_asyncio_sleep" in name or "under_a_shield" in name:
                # a one-statement front-end whose text changed: the comparison cannot tell a harmless rewrite from a
                # broken one, so this is *undecided* (exit 2) and the native probe of replayers/C08.py decides
                changed.append(name)
            else:
                ip.ctx.fail(name, "post", "the function no longer starts with the expected checkpoint / delegation")
        if changed:
            from segvc.core import Unsupported

            raise Unsupported("the text of a one-statement checkpoint front-end changed: " + ", ".join(changed))


UNITS.append(AwaitDelegation)


# ---- the one-statement front-ends of the table (sleep / checkpoint family): executed symbolically, so that a rewrite
# ---- through a local is not mistaken for a change of behaviour

from segvc.interp import AwaitableVal, Builtin, ClassVal, NS  # noqa: E402
from segvc.unit import FunctionUnit  # noqa: E402


class FrontEndUnit(FunctionUnit):
    props = ("C08",)
    trusted = ("E8",)
    target = None  # backend method that must be awaited exactly once with the caller's arguments
    nargs = 0

    def props_of(self, name):
        return {"C08"}

    def __init__(self):
        super().__init__()
        unit = self

        class Backend:
            pass

        self.backend = Backend()
        self.globals = {"get_async_backend": Builtin("get_async_backend", lambda ip: unit.backend)}

    def model_getattr(self, ip, obj, attr):
        if obj is self.backend:
            def call(ip, *a, **k):
                self.calls.append((attr, a, k, ip.ctx.flags["suspended"]))
                return AwaitableVal("checkpoint")

            return Builtin(f"backend.{attr}", call)
        return NotImplemented

    def make_args(self, ip):
        self.calls = []
        self.args = [Sym(z3.Real(f"arg{i}"), __import__("segvc.core", fromlist=["REAL"]).REAL) for i in range(self.nargs)]
        return list(self.args), {}

    def on_exit(self, ip, pre, exc, ret):
        ok = len(self.calls) == 1 and self.calls[0][0] == self.target and len(self.calls[0][1]) == self.nargs and all(x is y for x, y in zip(self.calls[0][1], self.args)) and not self.calls[0][2]
        ip.ctx.oblige(f"{self.funcname}/c08:awaits_exactly_the_backends_{self.target}_with_the_callers_arguments", z3.And(z3.BoolVal(ok), z3.BoolVal(ip.ctx.flags["suspended"] == 1 or exc is not None)), "post")


def front_end(modpath, funcname, target, nargs=0):
    return type(f"FrontEnd_{funcname}", (FrontEndUnit,), {"modpath": modpath, "funcname": funcname, "target": target, "nargs": nargs})


UNITS += [
    front_end("anyio/lowlevel.py", "checkpoint", "checkpoint"),
    front_end("anyio/lowlevel.py", "checkpoint_if_cancelled", "checkpoint_if_cancelled"),
    front_end("anyio/lowlevel.py", "cancel_shielded_checkpoint", "cancel_shielded_checkpoint"),
    front_end("anyio/_core/_eventloop.py", "sleep", "sleep", nargs=1),
]


class ShieldedCheckpointUnit(FunctionUnit):
    """AsyncIOBackend.cancel_shielded_checkpoint: exactly one asyncio.sleep(0), inside a scope created with shield=True"""

    props = ("C08",)
    trusted = ("E8", "A-shield")
    modpath = "anyio/_backends/_asyncio.py"
    funcname = "AsyncIOBackend.cancel_shielded_checkpoint"

    def props_of(self, name):
        return {"C08"}

    def __init__(self):
        super().__init__()
        unit = self

        class Scope:
            def __init__(self, shield):
                self.shield = shield

        def new_scope(ip, shield=False, **k):
            sc = Scope(shield)
            unit.scopes.append(sc)
            return sc

        def sleep(ip, d=None):
            unit.sleeps.append((d, unit.depth, [s.shield for s in unit.scopes]))
            return AwaitableVal("cancel_shielded_checkpoint")

        self.Scope = Scope
        self.globals = {"CancelScope": Builtin("CancelScope", new_scope), "sleep": Builtin("asyncio.sleep", sleep)}

    def model_getattr(self, ip, obj, attr):
        if isinstance(obj, self.Scope):
            if attr == "__enter__":
                def enter(ip):
                    self.depth += 1
                    return obj

                return Builtin("CancelScope.__enter__", enter)
            if attr == "__exit__":
                def exit_(ip, *a):
                    self.depth -= 1
                    return False

                return Builtin("CancelScope.__exit__", exit_)
        return NotImplemented

    def make_args(self, ip):
        self.scopes, self.sleeps, self.depth = [], [], 0
        return [ClassVal("AsyncIOBackend")], {}

    def on_exit(self, ip, pre, exc, ret):
        ok = len(self.sleeps) == 1 and self.sleeps[0][0] == 0 and self.sleeps[0][1] == 1 and self.sleeps[0][2] == [True]
        ip.ctx.oblige("AsyncIOBackend.cancel_shielded_checkpoint/c08:one_sleep_0_inside_a_shielded_scope", z3.BoolVal(ok), "post")


class BackendSleepUnit(FrontEndUnit):
    """AsyncIOBackend.sleep(delay) is asyncio.sleep(delay)"""

    modpath = "anyio/_backends/_asyncio.py"
    funcname = "AsyncIOBackend.sleep"

    def __init__(self):
        super().__init__()
        self.globals = {"sleep": Builtin("asyncio.sleep", lambda ip, d: (self.calls.append(("sleep", (d,), {}, 0)), AwaitableVal("checkpoint"))[1])}

    def make_args(self, ip):
        from segvc.core import REAL

        self.calls = []
        self.delay = Sym(z3.Real("delay"), REAL)
        return [ClassVal("AsyncIOBackend"), self.delay], {}

    def on_exit(self, ip, pre, exc, ret):
        ok = len(self.calls) == 1 and self.calls[0][1][0] is self.delay
        ip.ctx.oblige("AsyncIOBackend.sleep/c08:is_one_asyncio_sleep_of_the_given_delay", z3.BoolVal(ok), "post")


UNITS += [ShieldedCheckpointUnit, BackendSleepUnit]
