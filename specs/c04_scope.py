"""C04 / C06 (and the exit bookkeeping of C05) -- the asyncio CancelScope.

Functions under contract (anyio/_backends/_asyncio.py):
  CancelScope.__init__, _effectively_cancelled, _parent_cancellation_is_visible_to_us, __enter__, __exit__, cancel,
  _timeout, deadline (getter, setter), shield (getter, setter), cancel_called, cancelled_caught,
  AsyncIOBackend.current_effective_deadline
  anyio/_core/_tasks.py: fail_at (as a generator-based context manager), move_on_at
Callees used under an *assumed* contract (not verified here; see MANIFEST level_note): CancelScope._deliver_cancellation and
_restart_cancellation_in_parent (frame: they touch only delivery state -- _cancel_handle, _pending_uncancellations,
task cancellation requests), asyncio's loop.time / call_at / TimerHandle.cancel / Task.uncancel (E3-E5),
BaseExceptionGroup.split (CPython; leaf-wise partition by the predicate).

Spec functions over the scope tree (uninterpreted, introduced per heap snapshot with *explicit* unfoldings -- no
recursive quantified axiom, so no matching loop):
  eff(S)  = S.cancel_called or (not S.shield and S.parent is not None and eff(S.parent))      "effectively cancelled"
  ed(S)   = -inf if S.cancel_called else min(S.deadline, +inf if S.shield or no parent else ed(S.parent))
"""
import types

import z3

from segvc import lib
from segvc.core import BOOL, CLASSES, INF, INT, NEG_INF, REAL, STR, H, RefT, SetT, Sym, Unsupported, register_class
from segvc.interp import Builtin, ClassVal, ExcVal, NS, PyExc
from segvc.unit import Case, ClassSpec, Contract, FunctionUnit, LemmaUnit, LoopSpec, MethodUnit

ASYNCIO = "anyio/_backends/_asyncio.py"
TASKS = "anyio/_core/_tasks.py"
TASK = RefT("Task")
CS = RefT("CancelScope")
HANDLE = RefT("Handle")
CHILDREN = SetT(CS)
MEMBERS = SetT(TASK)
register_class("TaskState", {"parent_id": INT, "cancel_scope": CS}, source=(ASYNCIO, "TaskState"))
TSTATE = RefT("TaskState")
register_class("TaskStates", {"map": lib.ArrT(TASK, TSTATE)}, kind="env")  # the module-level WeakKeyDictionary _task_states
register_class(
    "CancelScope",
    {
        "_deadline": REAL,
        "_shield": BOOL,
        "_parent_scope": CS,
        "_child_scopes": CHILDREN,
        "_cancel_called": BOOL,
        "_cancel_reason": STR,
        "_cancelled_caught": BOOL,
        "_active": BOOL,
        "_timeout_handle": HANDLE,
        "_cancel_handle": HANDLE,
        "_tasks": MEMBERS,
        "_host_task": TASK,
        "_pending_uncancellations": INT,
        "$depth": INT,
    },
    source=(ASYNCIO, "CancelScope"),
)
CLASSES["CancelScope"].ghost_fields = {"$depth"}
C = "CancelScope"
SCOPE = ClassSpec(C)
TS_SINGLETON = z3.Int("task_states_object")


def fld(name):
    return lambda h, s: h.f(C, name, s)


cc, shield, parent, deadline_, active, thandle, chandle, host, pending_, caught = (fld(n) for n in ("_cancel_called", "_shield", "_parent_scope", "_deadline", "_active", "_timeout_handle", "_cancel_handle", "_host_task", "_pending_uncancellations", "_cancelled_caught"))


def children(h, s):
    return h.set(CHILDREN.cls, h.f(C, "_child_scopes", s))


def members(h, s):
    return h.set(MEMBERS.cls, h.f(C, "_tasks", s))


def tstate_of(h, t):
    return z3.Select(h.f("TaskStates", "map", TS_SINGLETON), t)


# ---- spec functions (per heap snapshot) ----------------------------------------------------------

_fn_cache: dict = {}


def _fn(h, name, sort, *arrays):
    """one function symbol per (spec function, the heap arrays it depends on); cached on the symbolic state (the arrays
    are kept alive there, so their ids are stable for the lifetime of the path)"""
    cache = h.st.__dict__.setdefault("_spec_fns", {})
    key = (name,) + tuple(a.get_id() for a in arrays)
    if key not in cache:
        cache[key] = (z3.Function(f"{name}!{len(cache)}", z3.IntSort(), sort), arrays)
    return cache[key][0]


def eff(h, s):
    f = _fn(h, "eff", z3.BoolSort(), h.arr(C, "_cancel_called"), h.arr(C, "_shield"), h.arr(C, "_parent_scope"))
    return f(s)


def eff_unfold(h, s):
    """one unfolding of the definition of eff at scope s (an instance of the definition, assumed where needed)"""
    return eff(h, s) == z3.If(s == 0, False, z3.Or(cc(h, s), z3.And(z3.Not(shield(h, s)), eff(h, parent(h, s)))))


def anc(h, s):
    """s or one of its ancestors (shields ignored) has been cancelled"""
    f = _fn(h, "anc", z3.BoolSort(), h.arr(C, "_cancel_called"), h.arr(C, "_parent_scope"))
    return f(s)


def anc_unfold(h, s):
    return anc(h, s) == z3.If(s == 0, False, z3.Or(cc(h, s), anc(h, parent(h, s))))


def visible(h, s):
    """the cancellation of an enclosing scope is visible to s"""
    return z3.And(parent(h, s) != 0, z3.Not(shield(h, s)), eff(h, parent(h, s)))


def rmin(a, b):
    return z3.If(b < a, b, a)


def ed(h, s):
    f = _fn(h, "ed", z3.RealSort(), h.arr(C, "_cancel_called"), h.arr(C, "_shield"), h.arr(C, "_parent_scope"), h.arr(C, "_deadline"))
    return f(s)


def ed_unfold(h, s):
    return ed(h, s) == z3.If(s == 0, INF, z3.If(cc(h, s), NEG_INF, z3.If(shield(h, s), deadline_(h, s), rmin(deadline_(h, s), ed(h, parent(h, s))))))


# ---- representation facts -------------------------------------------------------------------------------------


@SCOPE.assume("wf")
def _(h, s, cur):
    al = h.arr("$", "alloc")
    x = z3.Int(h.st.uniq("x"))
    return z3.And(
        s > 0,
        z3.Select(al, s),
        h.f(C, "_child_scopes", s) > 0,
        h.f(C, "_tasks", s) > 0,
        children(h, s).wf(),
        members(h, s).wf(),
        TS_SINGLETON > 0,
        NEG_INF < 0,
        0 < INF,
        deadline_(h, s) != NEG_INF,
        pending_(h, s) >= 0,
        z3.Implies(parent(h, s) != 0, z3.And(parent(h, s) > 0, z3.Select(al, parent(h, s)), h.f(C, "$depth", parent(h, s)) < h.f(C, "$depth", s), parent(h, s) != s, h.f(C, "_child_scopes", parent(h, s)) > 0, h.f(C, "_tasks", parent(h, s)) > 0, children(h, parent(h, s)).wf(), members(h, parent(h, s)).wf(), pending_(h, parent(h, s)) >= 0)),
        # distinct scopes own distinct containers (ownership of the sets created in __init__)
        z3.ForAll([x], z3.Implies(z3.And(x > 0, x != s), z3.And(h.f(C, "_child_scopes", x) != h.f(C, "_child_scopes", s), h.f(C, "_tasks", x) != h.f(C, "_tasks", s))), patterns=[h.f(C, "_child_scopes", x), h.f(C, "_tasks", x)]),
        z3.Implies(thandle(h, s) != 0, z3.And(thandle(h, s) > 0, z3.Select(al, thandle(h, s)))),
        z3.Implies(host(h, s) != 0, host(h, s) > 0),
        # the scope tree: a parent link leads to an allocated scope strictly closer to the root (ghost depth) or is None
        z3.ForAll([x], z3.Implies(z3.And(x > 0, z3.Select(al, x), parent(h, x) != 0), z3.And(parent(h, x) > 0, z3.Select(al, parent(h, x)), h.f(C, "$depth", parent(h, x)) < h.f(C, "$depth", x))), patterns=[parent(h, x)]),
        h.f("Loop", "time", 0) > NEG_INF,
        h.f("Loop", "time", 0) < INF,
        # the current scope recorded for the running task is an entered (active), allocated scope
        z3.Implies(
            z3.And(tstate_of(h, cur) != 0, h.f("TaskState", "cancel_scope", tstate_of(h, cur)) != 0),
            z3.And(tstate_of(h, cur) > 0, z3.Select(al, tstate_of(h, cur)), h.f("TaskState", "cancel_scope", tstate_of(h, cur)) > 0, z3.Select(al, h.f("TaskState", "cancel_scope", tstate_of(h, cur))), active(h, h.f("TaskState", "cancel_scope", tstate_of(h, cur)))),
        ),
    )


def now(h):
    return h.f("Loop", "time", 0)


def hwhen(h, x):
    return h.f("Handle", "when", x)


def hcancelled(h, x):
    return h.f("Handle", "cancelled", x)


def hfired(h, x):
    return h.f("Handle", "cb", x) == 1  # ghost: the loop has run (or is running) this timer's callback


@SCOPE.invariant("T1_an_armed_timer_is_pending_and_set_for_the_deadline")
def _(h, s, cur):
    t = thandle(h, s)
    return z3.Implies(t != 0, z3.And(hwhen(h, t) == deadline_(h, s), z3.Not(hcancelled(h, t)), deadline_(h, s) != INF))


@SCOPE.invariant("T2_an_active_uncancelled_scope_with_a_finite_deadline_has_its_timer_armed")
def _(h, s, cur):
    return z3.Implies(z3.And(active(h, s), z3.Not(cc(h, s)), deadline_(h, s) != INF), z3.And(thandle(h, s) != 0, z3.Not(hfired(h, thandle(h, s)))))


def is_current_scope_of_its_host(h, s):
    ts = tstate_of(h, host(h, s))
    return z3.And(host(h, s) != 0, ts != 0, h.f("TaskState", "cancel_scope", ts) == s)


@SCOPE.invariant("W1_an_active_scope_is_registered_with_its_parent")
def _(h, s, cur):
    return z3.Implies(z3.And(active(h, s), parent(h, s) != 0), children(h, parent(h, s)).has(s))


@SCOPE.invariant("W2_the_host_is_a_member_of_its_current_scope")
def _(h, s, cur):
    return z3.Implies(z3.And(active(h, s), is_current_scope_of_its_host(h, s)), members(h, s).has(host(h, s)))


@SCOPE.invariant("P1_owed_uncancellations_only_below_a_cancelled_scope")
def _(h, s, cur):
    return z3.Implies(pending_(h, s) > 0, anc(h, s))


@SCOPE.invariant("W3_host_task_is_set_exactly_while_active")
def _(h, s, cur):
    return (host(h, s) != 0) == active(h, s)


def scope_fields_same(a, b, s, except_=()):
    names = [n for n in ("_deadline", "_shield", "_parent_scope", "_cancel_called", "_cancelled_caught", "_active", "_timeout_handle", "_host_task", "_pending_uncancellations", "_child_scopes", "_tasks") if n not in except_]
    return z3.And(*[a.f(C, n, s) == b.f(C, n, s) for n in names])


def tree_same(a, b):
    """flags and links of *all* scopes (what eff / ed depend on)"""
    return z3.And(*[a.arr(C, n) == b.arr(C, n) for n in ("_cancel_called", "_shield", "_parent_scope", "_deadline")])


# ---- assumed contracts of the delivery machinery (C03's part; see module docstring) ----------------


def bind_self(ip, args, kwargs):
    return types.SimpleNamespace(self=args[0].t, cur=ip.ctx.cur.t)


DELIVERY_FRAME = {(C, "_cancel_handle"), (C, "_pending_uncancellations"), ("Task", "cancelling"), ("Task", "must_cancel"), ("Task", "ncancel"), ("Future", "state"), ("Handle", "cancelled"), ("Handle", "when"), ("Handle", "cb")}


def delivery_post(pre, post, a, ret):
    x = z3.Int(pre.st.uniq("x"))
    return [
        ("pending_uncancellations_only_grow_and_only_for_a_cancelled_origin", z3.ForAll([x], z3.And(pending_(post, x) >= pending_(pre, x), z3.Implies(pending_(post, x) > pending_(pre, x), cc(pre, x))), patterns=[pending_(post, x)])),
        ("futures_change_only_from_pending_to_cancelled_and_only_if_a_task_waits_on_them", z3.ForAll([x], z3.Or(pre.f("Future", "state", x) == post.f("Future", "state", x), z3.And(pre.f("Future", "state", x) == 0, post.f("Future", "state", x) == 3, pre.f("Future", "$awaited", x))), patterns=[post.f("Future", "state", x)])),
        ("existing_timer_handles_untouched", z3.ForAll([x], z3.Implies(z3.Select(pre.arr("$", "alloc"), x), z3.And(hwhen(post, x) == hwhen(pre, x), hcancelled(post, x) == hcancelled(pre, x), pre.f("Handle", "cb", x) == post.f("Handle", "cb", x))), patterns=[hwhen(post, x)])),
    ]


DELIVER = Contract("CancelScope._deliver_cancellation", requires=lambda h, a: [], cases=[Case("delivered", when=lambda pre, a: True, ret_ty=BOOL, ensures=delivery_post)], modifies=DELIVERY_FRAME, bind=bind_self)
RESTART = Contract("CancelScope._restart_cancellation_in_parent", requires=lambda h, a: [], cases=[Case("restarted", when=lambda pre, a: True, ensures=delivery_post)], modifies=DELIVERY_FRAME, bind=bind_self)

EFF_PROP = Contract(
    "CancelScope._effectively_cancelled",
    requires=lambda h, a: [],
    cases=[Case("pure", when=lambda pre, a: True, ret_ty=BOOL, ensures=lambda pre, post, a, ret: [("is_the_spec_function", ret == eff(pre, a.self))])],
    modifies=set(),
    bind=bind_self,
)
VISIBLE_PROP = Contract(
    "CancelScope._parent_cancellation_is_visible_to_us",
    requires=lambda h, a: [],
    cases=[Case("pure", when=lambda pre, a: True, ret_ty=BOOL, ensures=lambda pre, post, a, ret: [("is_the_spec_function", ret == visible(pre, a.self))])],
    modifies=set(),
    bind=bind_self,
)


# ---- environment: loop clock and timers (E4/E5), task states map -------------------------------------


class LoopVal:
    pass


LOOP = LoopVal()


def loop_time(ip):
    return ip.split_real(ip.st.get("Loop", "time", 0))


def loop_call_at(ip, when, cb, *args):
    st = ip.st
    r = Sym(st.alloc("Handle"), HANDLE)
    st.put("Handle", "when", r.t, ip.term(when, REAL))
    st.put("Handle", "cancelled", r.t, z3.BoolVal(False))
    st.put("Handle", "cb", r.t, z3.IntVal(0))
    ip.ctx.events.append(("call_at", when, cb))
    return r


def handle_cancel(ip, hd):
    ip.st.put("Handle", "cancelled", hd.t, z3.BoolVal(True))


def handle_when(ip, hd):
    return ip.split_real(ip.st.get("Handle", "when", hd.t))


def handle_cancelled(ip, hd):
    return Sym(ip.st.get("Handle", "cancelled", hd.t), BOOL)


lib.MODEL_METHODS["Handle"] = {"cancel": handle_cancel, "when": handle_when, "cancelled": handle_cancelled}


def task_uncancel(ip, t):
    st = ip.st
    st.put("Task", "nuncancel", t.t, st.get("Task", "nuncancel", t.t) + 1)
    return Sym(st.fresh("cancelling", z3.IntSort()), INT)


lib.MODEL_METHODS["Task"]["uncancel"] = task_uncancel


class TaskStatesVal:
    pass


TSV = TaskStatesVal()


class ScopeUnit(MethodUnit):
    props = ("C04", "C06")
    spec = SCOPE
    trusted = ("E1", "E3", "E4", "E5", "A-delivery", "A-split", "A-real")
    contracts = {
        "CancelScope._deliver_cancellation": DELIVER,
        "CancelScope._restart_cancellation_in_parent": RESTART,
        "CancelScope._effectively_cancelled": EFF_PROP,
        "CancelScope._parent_cancellation_is_visible_to_us": VISIBLE_PROP,
    }
    globals = {
        "get_running_loop": Builtin("get_running_loop", lambda ip: LOOP),
        "_task_states": TSV,
        "is_anyio_cancellation": Builtin("is_anyio_cancellation", lambda ip, e: Sym(e.tag, BOOL) if not isinstance(e.tag, bool) else e.tag),
        "BaseExceptionGroup": ClassVal("BaseExceptionGroup", pycls=BaseExceptionGroup),
    }

    def props_of(self, name):
        for p in ("C03", "C05"):
            if f"{p}." in name:
                return {p}
        base = set(self.only) if getattr(self, "only", None) else {"C04", "C06"} & set(self.props)
        if "scope_left." in name:  # the exit bookkeeping (whole post-state) is C05's as much as C04's / C06's
            base = base | {"C05"}
        return base

    def model_getattr(self, ip, obj, attr):
        if isinstance(obj, LoopVal):
            if attr == "time":
                return Builtin("loop.time", loop_time)
            if attr == "call_at":
                return Builtin("loop.call_at", loop_call_at)
        if isinstance(obj, TaskStatesVal) and attr == "get":
            return Builtin("_task_states.get", lambda ip, t, d=None: self.ts_get(ip, t, d))
        if isinstance(obj, ExcVal) and attr == "split":
            return Builtin("BaseExceptionGroup.split", lambda ip, pred: split_group(ip, obj, pred))
        return NotImplemented

    def model_setattr(self, ip, obj, attr, val):
        if isinstance(obj, ExcVal):
            obj.attrs[attr] = val
            return None
        return NotImplemented

    def ts_get(self, ip, t, default):
        r = tstate_of(H(ip.st), ip.term(t, TASK))
        if ip.ctx.branch(r != 0, "task-has-state"):
            return Sym(r, TSTATE)
        return default

    def get_item(self, ip, obj, idx):
        if isinstance(obj, TaskStatesVal):
            r = tstate_of(H(ip.st), ip.term(idx, TASK))
            if ip.ctx.branch(r != 0, "task-has-state"):
                return Sym(r, TSTATE)
            lib.raise_("KeyError", idx)
        return NotImplemented

    def set_item(self, ip, obj, idx, v):
        if isinstance(obj, TaskStatesVal):
            st = ip.st
            m = st.get("TaskStates", "map", TS_SINGLETON)
            st.put("TaskStates", "map", TS_SINGLETON, z3.Store(m, ip.term(idx, TASK), ip.term(v, TSTATE)))
            return None
        return NotImplemented

    call_frame = None  # the heap keys the call-site form of this operation havocs (its frame): checked against the body

    def on_entry(self, ip, pre, a):
        self.unfold(ip, pre, a.self)
        if self.call_frame is not None:
            self._wset = set()
            ip.st.writes = (ip.st.writes or []) + [self._wset]

    def ghost_exit(self, ip, pre, a, exc, ret):
        if self.call_frame is not None:
            extra = {w for w in self._wset if w not in self.call_frame and w[0] != "$" and not w[1].startswith("$")}
            if extra:
                ip.ctx.fail(f"{self.qualname}/frame:call_form", "frame", f"writes {sorted(extra)} outside the frame its call-site form havocs")
            else:
                ip.ctx.oblige(f"{self.qualname}/frame:call_form", z3.BoolVal(True), "frame")

    def unfold(self, ip, h, s):
        """instances of the definitions of the spec functions at self, its parent and None (engine-side instantiation)"""
        for t in (s, parent(h, s), z3.IntVal(0)):
            ip.st.assume(eff_unfold(h, t))
            ip.st.assume(anc_unfold(h, t))
        # eff(S) implies that S or an ancestor is cancelled: by induction on the ghost depth (pen-and-paper; recorded
        # in the evidence as an unchecked composition) -- used for the scope and its parent only
        ip.st.assume(z3.Implies(eff(h, s), anc(h, s)))
        ip.st.assume(z3.Implies(eff(h, parent(h, s)), anc(h, parent(h, s))))

    def assert_inv(self, ip, site):
        h = H(ip.st)
        self.unfold(ip, h, self.self_val.t)
        super().assert_inv(ip, site)

    def binop(self, ip, op, a, b):
        # string concatenation of messages (opaque)
        if (isinstance(a, Sym) and a.ty is STR) or (isinstance(b, Sym) and b.ty is STR) or (isinstance(a, str) and isinstance(b, (str, Sym))):
            return Sym(ip.st.fresh("str", z3.IntSort()), STR)
        return NotImplemented

    def guarantee(self, seg, now_, s, cur):
        return []


# ---- BaseExceptionGroup.split (abstract) -----------------------------------------------------------------


class GroupExc(ExcVal):
    """a BaseExceptionGroup whose leaves are abstracted to three kinds, each present or absent:
    AnyIO-tagged CancelledError, native CancelledError, any other exception"""

    def __init__(self, has_tagged, has_native, has_other):
        super().__init__(BaseExceptionGroup, ())
        self.has = {"tagged": has_tagged, "native": has_native, "other": has_other}


def leaf(kind):
    import asyncio

    if kind == "other":
        return ExcVal(ValueError, ())
    e = ExcVal(asyncio.CancelledError, ())
    e.tag = z3.BoolVal(kind == "tagged")
    return e


def split_group(ip, grp, pred):
    """CPython's BaseExceptionGroup.split(pred): the group is partitioned leaf-wise by the predicate (a function or an
    exception class); each side is None when empty.  The predicate -- the real lambda of the code -- is executed
    symbolically on one representative leaf per kind."""
    if not isinstance(grp, GroupExc):
        raise Unsupported("split() of a non-group")
    st = ip.st
    match = {}
    for kind in ("tagged", "native", "other"):
        lf = leaf(kind)
        if isinstance(pred, ClassVal):
            m = lib.exc_isinstance(ip, lf, (pred.pycls,))
        else:
            m = ip.truth(ip.call(pred, [lf], {}))
        match[kind] = m if not isinstance(m, bool) else z3.BoolVal(m)
    mt = {k: z3.And(grp.has[k], match[k]) for k in match}
    rt = {k: z3.And(grp.has[k], z3.Not(match[k])) for k in match}
    matched = GroupExc(mt["tagged"], mt["native"], mt["other"])
    rest = GroupExc(rt["tagged"], rt["native"], rt["other"])
    any_m = z3.Or(*mt.values())
    any_r = z3.Or(*rt.values())
    m_val = matched if ip.ctx.branch(any_m, "split-matched-nonempty") else None
    r_val = rest if ip.ctx.branch(any_r, "split-rest-nonempty") else None
    return (m_val, r_val)


# ---- the exit / enter / cancel contracts in a form usable at call sites (TaskGroup, fail_at, ...) ------------------
# The formulas are shared: ExitUnit / EnterUnit / CancelUnit discharge them against the real bodies, callers assume them.


def exit_legit(h, s, cur):
    return z3.And(active(h, s), host(h, s) == cur, tstate_of(h, cur) != 0, h.f("TaskState", "cancel_scope", tstate_of(h, cur)) == s)


def exit_own(h, s):
    """this scope was cancelled and no cancelled enclosing scope is visible to it"""
    return z3.And(cc(h, s), z3.Not(visible(h, s)))


def exc_shape(e):
    """(only AnyIO cancellations arrive, an AnyIO cancellation arrives, something else arrives too) for the exception
    object passed to __exit__"""
    F, T = z3.BoolVal(False), z3.BoolVal(True)
    if e is None:
        return F, F, F
    if isinstance(e, GroupExc):
        rest = z3.Or(e.has["native"], e.has["other"])
        return z3.And(e.has["tagged"], z3.Not(rest)), e.has["tagged"], rest
    if e.pycls is not None and e.pycls.__name__ == "CancelledError":
        tag = e.tag if e.tag is not None else F
        return tag, tag, z3.Not(tag)
    if e.pycls is None and e.kind is not None:
        is_c = e.kind == 0
        tag = e.tag if e.tag is not None else F
        return z3.And(is_c, tag), z3.And(is_c, tag), z3.Not(z3.And(is_c, tag))
    return F, F, T


def exit_bookkeeping(pre, post, s, cur):
    par = parent(pre, s)
    return z3.And(
        z3.Not(active(post, s)),
        host(post, s) == 0,
        thandle(post, s) == 0,
        z3.Implies(thandle(pre, s) != 0, hcancelled(post, thandle(pre, s))),
        z3.Not(members(post, s).has(cur)),
        post.f("TaskState", "cancel_scope", tstate_of(pre, cur)) == par,
        z3.Implies(par != 0, z3.And(z3.Not(children(post, par).has(s)), members(post, par).has(cur))),
        parent(post, s) == par,
        cc(post, s) == cc(pre, s),
        shield(post, s) == shield(pre, s),
        deadline_(post, s) == deadline_(pre, s),
    )


SCOPE_STATE_FRAME = {(C, n) for n in ("_active", "_host_task", "_timeout_handle", "_cancelled_caught", "_pending_uncancellations", "_parent_scope", "_cancel_called", "_cancel_reason", "_cancel_handle")} | {(CHILDREN.cls, "mem"), (CHILDREN.cls, "card"), (MEMBERS.cls, "mem"), (MEMBERS.cls, "card"), ("TaskState", "cancel_scope"), ("TaskState", "parent_id"), ("TaskStates", "map"), ("Task", "nuncancel"), ("Handle", "cancelled"), ("Handle", "when"), ("Handle", "cb"), ("Task", "cancelling"), ("Task", "must_cancel"), ("Task", "ncancel"), ("Future", "state")}


def others_untouched(pre, post, s, extra=()):
    """frame of enter / exit / cancel of scope s w.r.t. *other* scopes: flags, links and activity of every other scope
    are unchanged; only the parent's member / child sets change"""
    x = z3.Int(pre.st.uniq("x"))
    keep = ["_active", "_host_task", "_parent_scope", "_cancel_called", "_shield", "_deadline", "_cancelled_caught", "_tasks", "_child_scopes"]
    return z3.ForAll([x], z3.Implies(z3.And(x != s, *[x != e for e in extra]), z3.And(*[pre.f(C, n, x) == post.f(C, n, x) for n in keep])), patterns=[post.f(C, "_active", x), post.f(C, "_cancel_called", x), post.f(C, "_parent_scope", x), post.f(C, "_host_task", x)])


def _pats(pat, *terms):
    """explicit patterns only when the formula is *assumed* (the post-state arrays are then plain constants); a goal
    is negated and skolemised, and a pattern over Store-terms is rejected by z3"""
    return {"patterns": list(terms)} if pat else {}


def futures_only_get_cancelled(pre, post, pat=True):
    x = z3.Int(pre.st.uniq("x"))
    return z3.ForAll([x], z3.Or(pre.f("Future", "state", x) == post.f("Future", "state", x), z3.And(pre.f("Future", "state", x) == 0, post.f("Future", "state", x) == 3, pre.f("Future", "$awaited", x))), **_pats(pat, post.f("Future", "state", x)))


def other_sets_untouched(pre, post, s, pat=True):
    """enter / exit touch the member set of the scope and of its parent and the parent's child set, no other set"""
    o = z3.Int(pre.st.uniq("o"))
    par = parent(pre, s)
    mine = [pre.f(C, "_tasks", s), z3.If(par != 0, pre.f(C, "_tasks", par), pre.f(C, "_tasks", s))]
    kids = z3.If(par != 0, pre.f(C, "_child_scopes", par), 0)
    return z3.And(
        z3.ForAll([o], z3.Implies(z3.And(o != mine[0], o != mine[1]), z3.And(z3.Select(pre.arr(MEMBERS.cls, "mem"), o) == z3.Select(post.arr(MEMBERS.cls, "mem"), o), z3.Select(pre.arr(MEMBERS.cls, "card"), o) == z3.Select(post.arr(MEMBERS.cls, "card"), o))), **_pats(pat, z3.Select(post.arr(MEMBERS.cls, "mem"), o), z3.Select(post.arr(MEMBERS.cls, "card"), o))),
        z3.ForAll([o], z3.Implies(o != kids, z3.And(z3.Select(pre.arr(CHILDREN.cls, "mem"), o) == z3.Select(post.arr(CHILDREN.cls, "mem"), o), z3.Select(pre.arr(CHILDREN.cls, "card"), o) == z3.Select(post.arr(CHILDREN.cls, "card"), o))), **_pats(pat, z3.Select(post.arr(CHILDREN.cls, "mem"), o), z3.Select(post.arr(CHILDREN.cls, "card"), o))),
    )


class ScopeCall:
    """call-site form of a CancelScope method contract (custom shapes: the outcome depends on the exception object)"""

    def __init__(self, qualname, fn):
        self.qualname, self.fn = qualname, fn
        self.suspends = False

    def apply(self, ip, f, args, kwargs):
        return self.fn(ip, args, kwargs)


def _havoc_scope_frame(ip):
    st = ip.st
    st.havoc(keys=SCOPE_STATE_FRAME)
    if st.writes is not None:
        for ws in st.writes:
            ws.update(SCOPE_STATE_FRAME)


def call_exit(ip, args, kwargs):
    st, ctx = ip.st, ip.ctx
    s, e = args[0].t, args[2]
    cur = ctx.cur.t
    pre = H(st, st.snapshot())
    for t in (s, parent(pre, s), z3.IntVal(0)):
        st.assume(eff_unfold(pre, t))
    legit = exit_legit(pre, s, cur)
    anyio_only, has_anyio, has_rest = exc_shape(e)
    own = exit_own(pre, s)
    mixed = z3.And(own, has_anyio, has_rest, z3.BoolVal(isinstance(e, GroupExc)))
    k = ctx.decide(3 if isinstance(e, GroupExc) else 2, "scope-exit")
    if k == 0:
        if not st.feasible(z3.Not(legit)):
            raise lib.PathEnd("exit is legitimate")
        st.assume(z3.Not(legit))
        lib.raise_("RuntimeError", "This cancel scope is not active / not the current scope")
    st.assume(legit)
    if k == 1:
        st.assume(z3.Not(mixed))
    else:
        st.assume(mixed)
    _havoc_scope_frame(ip)
    post = H(st)
    st.assume(exit_bookkeeping(pre, post, s, cur))
    st.assume(others_untouched(pre, post, s, extra=()))
    st.assume(futures_only_get_cancelled(pre, post))
    st.assume(other_sets_untouched(pre, post, s))
    st.assume(z3.And(shield(post, s) == shield(pre, s), deadline_(post, s) == deadline_(pre, s), pre.f("TaskStates", "map", TS_SINGLETON) == post.f("TaskStates", "map", TS_SINGLETON)))
    st.assume(caught(post, s) == z3.Or(caught(pre, s), z3.And(own, has_anyio)))
    if k == 2:
        rest = GroupExc(z3.BoolVal(False), e.has["native"], e.has["other"])
        rest.leaves = getattr(e, "leaves", None)
        raise PyExc(rest)
    ret = Sym(st.fresh("swallow", z3.BoolSort()), BOOL)
    st.assume(ret.t == z3.And(own, anyio_only))
    return ret


def enter_post(pre, post, s, cur):
    prev = z3.If(tstate_of(pre, cur) == 0, 0, pre.f("TaskState", "cancel_scope", tstate_of(pre, cur)))
    return z3.And(
        active(post, s),
        host(post, s) == cur,
        members(post, s).has(cur),
        tstate_of(post, cur) != 0,
        post.f("TaskState", "cancel_scope", tstate_of(post, cur)) == s,
        parent(post, s) == prev,
        z3.Implies(prev != 0, children(post, prev).has(s)),
        shield(post, s) == shield(pre, s),
        deadline_(post, s) == deadline_(pre, s),
        z3.Implies(cc(pre, s), cc(post, s)),
        z3.Implies(cc(post, s), z3.Or(cc(pre, s), z3.And(deadline_(pre, s) != INF, now(pre) >= deadline_(pre, s)))),
    )


def call_enter(ip, args, kwargs):
    st, ctx = ip.st, ip.ctx
    s = args[0].t
    cur = ctx.cur.t
    pre = H(st, st.snapshot())
    if ctx.decide(2, "scope-enter") == 1:
        if not st.feasible(active(pre, s)):
            raise lib.PathEnd("scope not active")
        st.assume(active(pre, s))
        lib.raise_("RuntimeError", "Each CancelScope may only be used for a single 'with' block")
    st.assume(z3.Not(active(pre, s)))
    _havoc_scope_frame(ip)
    post = H(st)
    st.assume(enter_post(pre, post, s, cur))
    st.assume(others_untouched(pre, post, s))
    st.assume(futures_only_get_cancelled(pre, post))
    # parent(post, s) is the previous current scope: its member / child sets change, no other
    x_par = parent(post, s)
    o = z3.Int(st.uniq("o"))
    st.assume(z3.ForAll([o], z3.Implies(z3.And(o != pre.f(C, "_tasks", s), z3.Or(x_par == 0, o != pre.f(C, "_tasks", x_par))), z3.And(z3.Select(pre.arr(MEMBERS.cls, "mem"), o) == z3.Select(post.arr(MEMBERS.cls, "mem"), o), z3.Select(pre.arr(MEMBERS.cls, "card"), o) == z3.Select(post.arr(MEMBERS.cls, "card"), o))), patterns=[z3.Select(post.arr(MEMBERS.cls, "mem"), o), z3.Select(post.arr(MEMBERS.cls, "card"), o)]))
    return args[0]


def cancel_post(pre, post, s):
    """what a call of S.cancel() guarantees about the whole heap: assumed by the call-site form `call_cancel`, proved as
    obligations of CancelUnit (one formula list for both)"""
    x = z3.Int(pre.st.uniq("x"))
    al = pre.arr("$", "alloc")
    th = thandle(pre, s)
    dp = dict(delivery_post(pre, post, None, None))
    return [
        ("cancel_called_is_set", cc(post, s)),
        ("no_other_scope_is_cancelled_or_loses_its_timer", z3.ForAll([x], z3.Implies(x != s, z3.And(cc(post, x) == cc(pre, x), thandle(post, x) == thandle(pre, x))), patterns=[cc(post, x), thandle(post, x)])),
        ("the_timer_is_kept_on_a_repeated_cancel_and_dropped_on_the_first", z3.And(z3.Implies(cc(pre, s), thandle(post, s) == thandle(pre, s)), z3.Implies(z3.Not(cc(pre, s)), thandle(post, s) == 0))),
        ("pending_uncancellations_only_grow_and_only_for_a_cancelled_origin", z3.ForAll([x], z3.And(pending_(post, x) >= pending_(pre, x), z3.Implies(pending_(post, x) > pending_(pre, x), cc(post, x))), patterns=[pending_(post, x)])),
        ("futures", dp["futures_change_only_from_pending_to_cancelled_and_only_if_a_task_waits_on_them"]),
        ("other_existing_timer_handles_untouched", z3.ForAll([x], z3.Implies(z3.And(z3.Select(al, x), x != th), z3.And(hwhen(post, x) == hwhen(pre, x), hcancelled(post, x) == hcancelled(pre, x), pre.f("Handle", "cb", x) == post.f("Handle", "cb", x))), patterns=[hwhen(post, x)])),
        ("own_timer_is_cancelled_not_rescheduled", z3.Implies(th != 0, z3.And(hwhen(post, th) == hwhen(pre, th), pre.f("Handle", "cb", th) == post.f("Handle", "cb", th), z3.Implies(hcancelled(pre, th), hcancelled(post, th)), z3.Implies(z3.Not(cc(pre, s)), hcancelled(post, th))))),
    ]


def call_cancel(ip, args, kwargs):
    st = ip.st
    s = args[0].t
    pre = H(st, st.snapshot())
    frame = CancelUnit.call_frame
    st.havoc(keys=frame)
    if st.writes is not None:
        for ws in st.writes:
            ws.update(frame)
    post = H(st)
    for n, t in cancel_post(pre, post, s):
        st.assume(t)
    return None


SCOPE_CALLS = {
    "CancelScope.__enter__": ScopeCall("CancelScope.__enter__", call_enter),
    "CancelScope.__exit__": ScopeCall("CancelScope.__exit__", call_exit),
    "CancelScope.cancel": ScopeCall("CancelScope.cancel", call_cancel),
}


# ---- units ---------------------------------------------------------------------------------------------------------


def local_of_type(env, ty, prefer=None):
    """the loop's cursor is found by its type, not by its name (a renamed local must not detach the invariant)"""
    if prefer in env.vars and (env.vars[prefer] is None or (isinstance(env.vars[prefer], Sym) and env.vars[prefer].ty is ty)):
        return env.vars[prefer]
    cands = [v for k, v in env.vars.items() if isinstance(v, Sym) and v.ty is ty and k not in ("self", "cls")]
    if len(cands) == 1:
        return cands[0]
    raise Unsupported(f"cannot identify the loop cursor of type {ty}")


def eff_loop_inv(ip, env):
    u = ip.ctx.unit
    h = H(ip.st)
    s = u.self_val.t
    cur_scope = ip.term(local_of_type(env, CS, "cancel_scope"), CS)
    pre = u.seg
    return [
        ("walk_preserves_the_answer", eff(h, cur_scope) == eff(h, s)),
        ("cursor_is_a_scope_or_None", z3.Or(cur_scope == 0, z3.And(cur_scope > 0, z3.Select(h.arr("$", "alloc"), cur_scope)))),
        ("nothing_is_modified", z3.And(tree_same(pre, h), scope_fields_same(pre, h, s))),
    ]


def eff_after_havoc(ip, env):
    u = ip.ctx.unit
    h = H(ip.st)
    for n, t in SCOPE.assumed_terms(h, u.self_val.t, ip.ctx.cur.t):
        ip.st.assume(t)
    c_ = ip.term(local_of_type(env, CS, "cancel_scope"), CS)
    ip.st.assume(eff_unfold(h, c_))
    ip.st.assume(eff_unfold(h, z3.IntVal(0)))


class EffUnit(ScopeUnit):
    only = ("C04",)
    method = "_effectively_cancelled"
    contract = EFF_PROP
    contracts = {}
    loops = {("CancelScope._effectively_cancelled", 0): LoopSpec(eff_loop_inv, modifies=set(), after_havoc=eff_after_havoc, local_types={"cancel_scope": CS})}

class VisibleUnit(ScopeUnit):
    only = ("C04",)
    method = "_parent_cancellation_is_visible_to_us"
    contract = VISIBLE_PROP
    contracts = {"CancelScope._effectively_cancelled": EFF_PROP}

    def loop_spec_by_shape(self, node, f):
        """the pinned code delegates to `_effectively_cancelled`; an edit that walks the parent chain itself (seed C04-s4) is
        given the same invariant template as that walk: the answer for the cursor equals the answer for the scope the walk
        started from, and nothing is modified"""
        import ast as _ast

        if not isinstance(node, _ast.While):
            return None
        box = {}

        def inv(ip, env):
            u = ip.ctx.unit
            h = H(ip.st)
            cur_scope = ip.term(local_of_type(env, CS, "scope"), CS)
            if "start" not in box:
                box["start"] = cur_scope  # first evaluation = loop entry
            pre = u.seg
            return [
                ("walk_preserves_the_answer", eff(h, cur_scope) == eff(h, box["start"])),
                ("cursor_is_a_scope_or_None", z3.Or(cur_scope == 0, z3.And(cur_scope > 0, z3.Select(h.arr("$", "alloc"), cur_scope)))),
                ("nothing_is_modified", z3.And(tree_same(pre, h), scope_fields_same(pre, h, u.self_val.t))),
            ]

        def after_havoc(ip, env):
            u = ip.ctx.unit
            h = H(ip.st)
            for n, t in SCOPE.assumed_terms(h, u.self_val.t, ip.ctx.cur.t):
                ip.st.assume(t)
            c_ = ip.term(local_of_type(env, CS, "scope"), CS)
            ip.st.assume(eff_unfold(h, c_))
            ip.st.assume(eff_unfold(h, z3.IntVal(0)))
            ip.st.assume(eff_unfold(h, box["start"]))

        return LoopSpec(inv, modifies=set(), after_havoc=after_havoc, local_types={"scope": CS})


def exc_arg(ip):
    """the exception that reaches __exit__: none, a CancelledError (AnyIO-tagged or native), another exception, or a
    group with any mix of the three leaf kinds"""
    import asyncio

    k = ip.ctx.decide(4, "exc-kind")
    if k == 0:
        return None
    if k == 1:
        e = ExcVal(asyncio.CancelledError, ())
        e.tag = z3.Bool("exc_is_anyio_cancellation")
        return e
    if k == 2:
        return ExcVal(ValueError, ())
    g = GroupExc(z3.Bool("grp_has_tagged"), z3.Bool("grp_has_native"), z3.Bool("grp_has_other"))
    ip.st.assume(z3.Or(*g.has.values()))
    return g


def uncancel_loop_inv(ip, env):
    u = ip.ctx.unit
    h = H(ip.st)
    s = u.self_val.t
    En = ip.ctx.loop_entry
    hst = host(En, s)
    return [
        ("one_uncancel_per_pending_request", z3.And(pending_(h, s) >= 0, pending_(h, s) <= pending_(En, s), h.f("Task", "nuncancel", hst) - En.f("Task", "nuncancel", hst) == pending_(En, s) - pending_(h, s))),
        ("nothing_else_changes", z3.And(scope_fields_same(En, h, s, except_=("_pending_uncancellations",)), tree_same(En, h), En.arr("TaskState", "cancel_scope") == h.arr("TaskState", "cancel_scope"), En.f("TaskStates", "map", TS_SINGLETON) == h.f("TaskStates", "map", TS_SINGLETON), En.arr(CHILDREN.cls, "mem") == h.arr(CHILDREN.cls, "mem"), En.arr(MEMBERS.cls, "mem") == h.arr(MEMBERS.cls, "mem"), En.arr("Handle", "cancelled") == h.arr("Handle", "cancelled"))),
    ]


def scope_after_havoc(ip, env):
    u = ip.ctx.unit
    h = H(ip.st)
    for n, t in SCOPE.assumed_terms(h, u.self_val.t, ip.ctx.cur.t):
        ip.st.assume(t)


class ExitUnit(ScopeUnit):
    props = ("C03", "C04", "C05", "C06")
    call_frame = SCOPE_STATE_FRAME
    method = "__exit__"
    contract = None
    loops = {("CancelScope.__exit__", 0): LoopSpec(uncancel_loop_inv, modifies={(C, "_pending_uncancellations"), ("Task", "nuncancel")}, after_havoc=scope_after_havoc)}

    def make_args(self, ip):
        self.exc = exc_arg(ip)
        tp = lib.type_of_exc(ip, self.exc) if self.exc is not None else None
        return [tp, self.exc, None], types.SimpleNamespace()

    def on_exit(self, ip, pre, a, exc, ret):
        s, cur = a.self, a.cur
        post = H(ip.st)
        nm = "CancelScope.__exit__"
        legit = exit_legit(pre, s, cur)
        e = self.exc
        if exc is not None and exc.pycls is RuntimeError:
            ip.ctx.oblige(f"{nm}/post:refused.only_when_not_the_current_scope_of_the_calling_host_task", z3.Not(legit), "post")
            ip.ctx.oblige(f"{nm}/post:refused.state_unchanged", z3.And(scope_fields_same(pre, post, s), tree_same(pre, post)), "post")
            return
        ip.ctx.oblige(f"{nm}/post:accepted_only_for_the_current_scope_of_the_calling_host_task", legit, "post")
        own = exit_own(pre, s)
        # ---- C05 exit bookkeeping (whole post-state)
        ip.ctx.oblige(f"{nm}/post:scope_left.bookkeeping", exit_bookkeeping(pre, post, s, cur), "post")
        ip.ctx.oblige(f"{nm}/post:scope_left.other_scopes_untouched", others_untouched(pre, post, s), "post")
        ip.ctx.oblige(f"{nm}/post:scope_left.no_other_set_touched", other_sets_untouched(pre, post, s, pat=False), "post")
        ip.ctx.oblige(f"{nm}/post:scope_left.futures_only_get_cancelled", futures_only_get_cancelled(pre, post, pat=False), "post")
        ip.ctx.oblige(f"{nm}/post:pending_uncancellations_settled", z3.Or(pending_(post, s) == 0, z3.Not(own)), "post")
        # ---- C05: every recorded cancel() request is withdrawn exactly once, or handed to the parent; C03: the restart
        from specs import c03_delivery as D

        hst, par = host(pre, s), parent(pre, s)
        n = D.near(pre, par)
        dn = post.f("Task", "nuncancel", hst) - pre.f("Task", "nuncancel", hst)
        ip.ctx.oblige(f"{nm}/post:C05.the_timer_is_cancelled_and_cleared", z3.And(thandle(post, s) == 0, z3.Implies(thandle(pre, s) != 0, hcancelled(post, thandle(pre, s)))), "post")
        ip.ctx.oblige(f"{nm}/post:C05.own_cancellation.every_recorded_request_is_withdrawn_exactly_once", z3.Implies(own, z3.And(dn == pending_(pre, s), pending_(post, s) == 0)), "post")
        ip.ctx.oblige(
            f"{nm}/post:C05.otherwise.the_owed_requests_move_to_the_parent",
            z3.Implies(z3.Not(own), z3.And(dn == 0, pending_(post, s) == 0, z3.Implies(pending_(pre, s) > 0, z3.And(par != 0, pending_(post, par) >= pending_(pre, par) + pending_(pre, s), z3.Implies(par != n, pending_(post, par) == pending_(pre, par) + pending_(pre, s)))))),
            "post",
        )
        ip.ctx.oblige(f"{nm}/post:C03.leaving_restarts_the_delivery_in_the_nearest_cancelled_ancestor", z3.Implies(n != 0, z3.Or(chandle(post, n) != 0, z3.Not(D.live(post, n)))), "post")
        # ---- C04: absorb iff own cancellation, not visible parent cancellation, and an AnyIO cancellation
        swallowed = exc is None and ret is not None and ip.truth(ret) is not False
        ret_t = ip.truth(ret) if ret is not None else False
        ret_t = z3.BoolVal(ret_t) if isinstance(ret_t, bool) else ret_t
        if exc is not None:
            # __exit__ raised: only the mixed-group path may do that, re-raising the non-cancellation remainder
            ok = isinstance(exc, GroupExc) and isinstance(e, GroupExc)
            ip.ctx.oblige(f"{nm}/post:raises_only_the_remainder_of_a_mixed_group", z3.BoolVal(ok), "post")
            if ok:
                ip.ctx.oblige(f"{nm}/post:mixed_group.own_cancellation_stripped_rest_reraised", z3.And(own, e.has["tagged"], z3.Not(exc.has["tagged"]), exc.has["native"] == e.has["native"], exc.has["other"] == e.has["other"], z3.Or(e.has["native"], e.has["other"])), "post")
                ip.ctx.oblige(f"{nm}/post:mixed_group.cancelled_caught_set", caught(post, s), "post")
            return
        if e is None:
            anyio_only = z3.BoolVal(False)
            has_anyio = z3.BoolVal(False)
        elif isinstance(e, GroupExc):
            anyio_only = z3.And(e.has["tagged"], z3.Not(e.has["native"]), z3.Not(e.has["other"]))
            has_anyio = e.has["tagged"]
        elif e.tag is not None:
            anyio_only = e.tag
            has_anyio = e.tag
        else:
            anyio_only = z3.BoolVal(False)
            has_anyio = z3.BoolVal(False)
        ip.ctx.oblige(f"{nm}/post:absorbs_iff_own_cancellation_and_only_anyio_cancellations_arrive", ret_t == z3.And(own, anyio_only), "post")
        ip.ctx.oblige(f"{nm}/post:cancelled_caught_iff_it_absorbed_an_anyio_cancellation", caught(post, s) == z3.Or(caught(pre, s), z3.And(own, has_anyio)), "post")


class EnterUnit(ScopeUnit):
    props = ("C03", "C04", "C06")
    call_frame = SCOPE_STATE_FRAME
    method = "__enter__"
    contract = None

    def assume_state(self, ip):
        super().assume_state(ip)
        h = H(ip.st)
        s = self.self_val.t
        # precondition (single use, as the RuntimeError message says): the scope is as __init__ left it, apart from
        # a cancel() or a deadline / shield assignment made before entering
        ip.st.assume(z3.Implies(z3.Not(active(h, s)), z3.And(parent(h, s) == 0, host(h, s) == 0, thandle(h, s) == 0, pending_(h, s) == 0)))

    def on_exit(self, ip, pre, a, exc, ret):
        s, cur = a.self, a.cur
        post = H(ip.st)
        nm = "CancelScope.__enter__"
        if exc is not None:
            ip.ctx.oblige(f"{nm}/post:refused.only_a_second_use", z3.And(z3.BoolVal(exc.pycls is RuntimeError), active(pre, s)), "post")
            return
        ip.ctx.oblige(f"{nm}/post:entered", enter_post(pre, post, s, cur), "post")
        ip.ctx.oblige(f"{nm}/post:entered.other_scopes_untouched", others_untouched(pre, post, s), "post")
        ip.ctx.oblige(f"{nm}/post:entered.futures_only_get_cancelled", futures_only_get_cancelled(pre, post, pat=False), "post")
        o = z3.Int(ip.st.uniq("o"))
        x_par = parent(post, s)
        ip.ctx.oblige(f"{nm}/post:entered.no_other_member_set_touched", z3.ForAll([o], z3.Implies(z3.And(o != pre.f(C, "_tasks", s), z3.Or(x_par == 0, o != pre.f(C, "_tasks", x_par))), z3.And(z3.Select(pre.arr(MEMBERS.cls, "mem"), o) == z3.Select(post.arr(MEMBERS.cls, "mem"), o), z3.Select(pre.arr(MEMBERS.cls, "card"), o) == z3.Select(post.arr(MEMBERS.cls, "card"), o)))), "post")
        # C06: a deadline that has already passed cancels on entry; otherwise the timer is armed for the deadline
        passed = z3.And(deadline_(pre, s) != INF, now(pre) >= deadline_(pre, s))
        ip.ctx.oblige(f"{nm}/post:past_deadline_cancels_immediately_on_entry", z3.Implies(passed, cc(post, s)), "post")
        ip.ctx.oblige(f"{nm}/post:cancelled_on_entry_only_by_a_past_deadline_or_an_earlier_cancel", z3.Implies(cc(post, s), z3.Or(cc(pre, s), passed)), "post")
        from specs import c03_delivery as D

        ip.ctx.oblige(f"{nm}/post:C03.entering_a_cancelled_scope_schedules_a_delivery_or_no_task_is_live", z3.Implies(cc(post, s), z3.Or(chandle(post, s) != 0, z3.Not(D.live(post, s)))), "post")


class CancelUnit(ScopeUnit):
    props = ("C03", "C04", "C06")
    call_frame = {(C, "_cancel_called"), (C, "_cancel_reason"), (C, "_timeout_handle")} | DELIVERY_FRAME
    method = "cancel"
    contract = None

    def make_args(self, ip):
        return [None], types.SimpleNamespace()

    def on_exit(self, ip, pre, a, exc, ret):
        s = a.self
        post = H(ip.st)
        ip.ctx.oblige("CancelScope.cancel/post:cancelled_and_timer_disarmed", z3.And(z3.BoolVal(exc is None), cc(post, s), z3.Implies(z3.Not(cc(pre, s)), z3.And(thandle(post, s) == 0, z3.Implies(thandle(pre, s) != 0, hcancelled(post, thandle(pre, s)))))), "post")
        ip.ctx.oblige("CancelScope.cancel/post:idempotent", z3.Implies(cc(pre, s), scope_fields_same(pre, post, s)), "post")
        for n, t in cancel_post(pre, post, s):  # exactly what the call-site form `call_cancel` assumes
            ip.ctx.oblige(f"CancelScope.cancel/post:call_form.{n}", t, "post")
        from specs import c03_delivery as D

        ip.ctx.oblige("CancelScope.cancel/post:C03.cancelling_an_entered_scope_schedules_a_delivery_or_no_task_is_live", z3.Implies(z3.And(z3.Not(cc(pre, s)), active(pre, s)), z3.Or(chandle(post, s) != 0, z3.Not(D.live(post, s)))), "post")


def timer_callback_name():
    """the method the scope registers with loop.call_at -- read off the real source on every run"""
    import ast

    from segvc import extract

    mod = extract.module(ASYNCIO)
    names = set()
    cls = mod.defs.get("CancelScope")
    for n in ast.walk(cls) if cls is not None else []:
        if isinstance(n, ast.Call) and isinstance(n.func, ast.Attribute) and n.func.attr == "call_at" and len(n.args) >= 2:
            cb = n.args[1]
            if isinstance(cb, ast.Attribute) and isinstance(cb.value, ast.Name) and cb.value.id == "self":
                names.add(cb.attr)
    return sorted(names)


class TimeoutUnit(ScopeUnit):
    """`_timeout` both as a helper (called from __enter__ / the deadline setter with no timer armed) and as the timer
    callback (E5: the loop runs it for the armed, uncancelled handle at a time >= when - clock resolution, i.e. possibly
    marginally early): cancels iff the clock has reached the deadline, otherwise (re-)arms the timer AT the deadline."""

    only = ("C06",)
    method = "_timeout"
    contract = None
    callback_mode = None  # None: both roles (the function is helper and registered callback); True / False: one role

    def assume_state(self, ip):
        super().assume_state(ip)
        st = ip.st
        h = H(st)
        s = self.self_val.t
        self.as_callback = self.callback_mode if self.callback_mode is not None else ip.ctx.decide(2, "as-timer-callback") == 1
        if self.as_callback:
            t = thandle(h, s)
            st.assume(z3.And(t != 0, active(h, s)))
            st.put("Handle", "cb", t, z3.IntVal(1))  # E4/E5: this handle's callback is running now (spent)
        else:
            st.assume(thandle(h, s) == 0)  # call sites: __enter__ (fresh scope) and the deadline setter (after clearing it)

    def assert_inv(self, ip, site):
        h = H(ip.st)
        s, cur = self.self_val.t, ip.ctx.cur.t
        self.unfold(ip, h, s)
        for n, t in self.spec.inv_terms(h, s, cur):
            if n.startswith("T2") and not self.as_callback:
                continue  # the helper runs inside __enter__ before _active is set; T2 is asserted by its callers
            ip.ctx.oblige(f"{self.qualname}{site}/inv:{n}", t, "inv")

    def on_exit(self, ip, pre, a, exc, ret):
        s = a.self
        post = H(ip.st)
        nm = "CancelScope._timeout"
        due = z3.And(deadline_(pre, s) != INF, now(pre) >= deadline_(pre, s))
        ip.ctx.oblige(f"{nm}/post:cancels_exactly_when_the_clock_has_reached_the_deadline", z3.And(z3.BoolVal(exc is None), cc(post, s) == z3.Or(cc(pre, s), due)), "post")
        ip.ctx.oblige(f"{nm}/post:otherwise_the_timer_is_armed_for_the_deadline", z3.Implies(z3.And(z3.Not(due), deadline_(pre, s) != INF, z3.Not(cc(pre, s))), z3.And(thandle(post, s) != 0, hwhen(post, thandle(post, s)) == deadline_(pre, s), z3.Not(hcancelled(post, thandle(post, s))), z3.Not(hfired(post, thandle(post, s))))), "post")


class DeadlineSetterUnit(ScopeUnit):
    only = ("C06",)
    method = "deadline"
    is_setter = True
    contract = None
    contracts = dict(ScopeUnit.contracts)

    def make_args(self, ip):
        k = ip.ctx.decide(3, "value-kind")
        if k == 0:
            v = float("inf")
        elif k == 1:
            v = Sym(z3.Real("new_deadline"), REAL)
            ip.st.assume(z3.And(NEG_INF < v.t, v.t < INF))
        else:
            v = Sym(z3.Int("new_deadline_int"), INT)
        self.value = v
        return [v], types.SimpleNamespace()

    def on_exit(self, ip, pre, a, exc, ret):
        s = a.self
        post = H(ip.st)
        v = ip.term(self.value, REAL)
        ip.ctx.oblige("CancelScope.deadline.setter/post:deadline_assigned_and_old_timer_disarmed", z3.And(z3.BoolVal(exc is None), deadline_(post, s) == v, z3.Implies(thandle(pre, s) != 0, hcancelled(post, thandle(pre, s)))), "post")


class ShieldSetterUnit(ScopeUnit):
    props = ("C03", "C04")
    only = ("C04",)
    method = "shield"
    is_setter = True
    contract = None

    def make_args(self, ip):
        v = Sym(z3.Bool("new_shield"), BOOL)
        self.value = v
        return [v], types.SimpleNamespace()

    def on_exit(self, ip, pre, a, exc, ret):
        s = a.self
        post = H(ip.st)
        ip.ctx.oblige("CancelScope.shield.setter/post:shield_assigned_nothing_else", z3.And(z3.BoolVal(exc is None), shield(post, s) == self.value.t, scope_fields_same(pre, post, s, except_=("_shield", "_pending_uncancellations"))), "post")
        from specs import c03_delivery as D

        n = D.near(post, parent(post, s))
        ip.ctx.oblige("CancelScope.shield.setter/post:C03.unshielding_restarts_the_delivery_in_the_nearest_cancelled_ancestor", z3.Implies(z3.And(shield(pre, s), z3.Not(self.value.t), n != 0), z3.Or(chandle(post, n) != 0, z3.Not(D.live(post, n)))), "post")


class InitUnit(ScopeUnit):
    method = "__init__"
    is_init = True
    contract = None

    def make_args(self, ip):
        return [], types.SimpleNamespace()

    def make_kwargs(self, ip):
        d = Sym(z3.Real("deadline_arg"), REAL)
        ip.st.assume(z3.And(NEG_INF < d.t, d.t < INF))
        self.d = d
        return {"deadline": d if ip.ctx.decide(2, "deadline-kind") == 0 else float("inf"), "shield": Sym(z3.Bool("shield_arg"), BOOL)}

    def on_exit(self, ip, pre, a, exc, ret):
        s = a.self
        post = H(ip.st)
        ip.ctx.oblige("CancelScope.__init__/post:inactive_uncancelled_unarmed", z3.And(z3.BoolVal(exc is None), z3.Not(active(post, s)), z3.Not(cc(post, s)), z3.Not(caught(post, s)), thandle(post, s) == 0, host(post, s) == 0, parent(post, s) == 0, pending_(post, s) == 0), "post")


def getter_unit(name, fn, ty):
    class G(ScopeUnit):
        method = name
        contract = Contract(f"CancelScope.{name}", requires=lambda h, a: [], cases=[Case("pure", when=lambda pre, a: True, ret_ty=ty, ensures=lambda pre, post, a, ret: [("reports_the_field", ret == fn(pre, a.self)), ("pure", z3.And(scope_fields_same(pre, post, a.self), tree_same(pre, post)))])], bind=bind_self)

    G.__name__ = f"Getter_{name}"
    return G


# ---- fail_at (generator-based context manager) and current_effective_deadline ---------------------------------

OPAQUE_ENTER = Contract(
    "CancelScope.__enter__",
    requires=lambda h, a: [],
    cases=[Case("entered", when=lambda pre, a: True, ret_ty=CS, ensures=lambda pre, post, a, ret: [("returns_self", ret == a.self)]), Case("refused", when=lambda pre, a: True, raises="RuntimeError", ensures=lambda pre, post, a, ret: [])],
    bind=bind_self,
)
OPAQUE_EXIT = Contract(
    "CancelScope.__exit__",
    requires=lambda h, a: [],
    cases=[Case("left", when=lambda pre, a: True, ret_ty=BOOL, ensures=lambda pre, post, a, ret: []), Case("refused", when=lambda pre, a: True, raises="RuntimeError", ensures=lambda pre, post, a, ret: [])],
    bind=bind_self,
)


class FailAtUnit(FunctionUnit):
    """fail_at: after the block, TimeoutError is raised iff the scope caught its own cancellation and the clock has
    reached the scope's *current* deadline.  (With C04: cancelled_caught <=> own cancellation absorbed; with the timer
    obligations above: the scope is cancelled by its timer exactly when the clock reaches its deadline.)  The body of the
    `with` is arbitrary code: the heap is havocked at the `yield`, and the body may raise."""

    props = ("C06",)
    modpath = TASKS
    funcname = "fail_at"
    trusted = ("A-ctxmgr", "E5", "A-real")
    contracts = {"CancelScope.__enter__": OPAQUE_ENTER, "CancelScope.__exit__": OPAQUE_EXIT}
    globals = {}

    def contract_for(self, qualname, ctx):
        return self.contracts.get(qualname)

    def make_args(self, ip):
        k = ip.ctx.decide(3, "deadline-kind")
        if k == 0:
            d = None
        elif k == 1:
            d = float("inf")
        else:
            d = Sym(z3.Real("deadline_arg"), REAL)
            ip.st.assume(z3.And(NEG_INF < d.t, d.t < INF, NEG_INF < 0, 0 < INF))
        ip.st.assume(z3.And(NEG_INF < 0, 0 < INF, now(H(ip.st)) > NEG_INF, now(H(ip.st)) < INF))
        self.body_raised = None
        return [d], {"shield": Sym(z3.Bool("shield_arg"), BOOL), "reason": None}

    def __init__(self):
        super().__init__()
        self.globals = {"get_async_backend": Builtin("get_async_backend", lambda ip: self.make_backend(ip))}

    def make_backend(self, ip):
        def create_cancel_scope(ip, deadline=float("inf"), shield=False):
            sc = ip.construct(CLASSES[C], [], {"deadline": deadline, "shield": shield})
            self.scope = sc
            return sc

        return NS("backend", {"current_time": Builtin("current_time", loop_time), "create_cancel_scope": Builtin("create_cancel_scope", create_cancel_scope)})

    def model_getattr(self, ip, obj, attr):
        return NotImplemented

    def do_yield(self, ip, v):
        # the block under `with fail_at(...)` runs: anything may happen to the heap (the scope may be cancelled, its
        # deadline reassigned, time passes); then the block ends normally or with an exception thrown into the generator
        ip.st.havoc()
        h = H(ip.st)
        ip.st.assume(z3.And(NEG_INF < 0, 0 < INF, now(h) > NEG_INF, now(h) < INF, deadline_(h, self.scope.t) != NEG_INF))
        if ip.ctx.decide(2, "block-outcome") == 1:
            self.body_raised = lib.sym_exc(ip, "block_exc")
            raise PyExc(self.body_raised)
        return None

    def on_exit(self, ip, pre, exc, ret):
        nm = "fail_at"
        h = H(ip.st)
        s = self.scope.t if getattr(self, "scope", None) is not None else None
        if s is None:
            return
        is_timeout = exc is not None and exc.pycls is TimeoutError
        propagated = exc is not None and not is_timeout
        if propagated:
            # an exception of the block (or a refusal of the scope) passes through; no TimeoutError is invented
            ip.ctx.oblige(f"{nm}/post:other_exceptions_pass_through_unchanged", z3.BoolVal(exc is self.body_raised or exc.pycls is RuntimeError), "post")
            return
        due = z3.And(caught(h, s), now(h) >= deadline_(h, s))
        ip.ctx.oblige(f"{nm}/post:timeout_error_iff_own_cancellation_caught_and_the_scope_deadline_has_passed", z3.BoolVal(is_timeout) == due, "post")



class DelayWrapperUnit(FunctionUnit):
    """move_on_at / move_on_after / fail_after (anyio/_core/_tasks.py): the deadline handed on is the one asked for --
    `deadline` itself, `now + delay`, or +inf for None -- and the shield flag is forwarded unchanged; fail_after
    delegates to fail_at (verified above) and yields exactly the scope fail_at gives it."""

    props = ("C06",)
    modpath = TASKS
    trusted = ("A-real",)
    which = None

    def contract_for(self, qualname, ctx):
        return None

    def __init__(self):
        super().__init__()
        self.funcname = self.which
        self.name = self.qualname = self.which
        self.functions = ((self.modpath, self.which),)
        unit = self

        def create_cancel_scope(ip, deadline=float("inf"), shield=False):
            unit.created.append((deadline, shield))
            return unit.marker

        def fail_at(ip, deadline, shield=False, reason=None):
            unit.failat.append((deadline, shield, reason))
            return unit.cm

        self.marker = Sym(z3.Int("the_new_scope"), CS)

        class CM:
            pass

        self.cm = CM()
        self.globals = {
            "get_async_backend": Builtin("get_async_backend", lambda ip: NS("backend", {"current_time": Builtin("current_time", loop_time), "create_cancel_scope": Builtin("create_cancel_scope", create_cancel_scope)})),
            "fail_at": Builtin("fail_at", fail_at),
        }

    def model_getattr(self, ip, obj, attr):
        if obj is self.cm and attr == "__enter__":
            return Builtin("fail_at.__enter__", lambda ip: self.marker)
        if obj is self.cm and attr == "__exit__":
            return Builtin("fail_at.__exit__", lambda ip, *a: False)
        return NotImplemented

    def make_args(self, ip):
        self.created, self.failat, self.yielded = [], [], []
        st = ip.st
        st.assume(z3.And(NEG_INF < 0, 0 < INF, now(H(st)) > NEG_INF, now(H(st)) < INF))
        self.none = ip.ctx.decide(2, "argument-is-None") == 1
        self.arg = None if self.none else Sym(z3.Real("delay_or_deadline"), REAL)
        if self.arg is not None:
            st.assume(z3.And(self.arg.t > NEG_INF, self.arg.t < INF))
        self.shield = Sym(z3.Bool("shield_arg"), BOOL)
        self.reason = Sym(z3.Int("reason_arg"), STR)
        kw = {"shield": self.shield}
        if self.which == "fail_after":
            kw["reason"] = self.reason
        return [self.arg], kw

    def do_yield(self, ip, v):
        self.yielded.append(v)
        return None

    def on_exit(self, ip, pre, exc, ret):
        nm = self.which
        want = INF if self.none else (self.arg.t if nm == "move_on_at" else now(pre) + self.arg.t)
        ip.ctx.oblige(f"{nm}/post:never_raises_by_itself", z3.BoolVal(exc is None), "post")
        if nm == "fail_after":
            ok = len(self.failat) == 1 and not self.created
            ip.ctx.oblige(f"{nm}/post:delegates_once_to_fail_at_and_yields_its_scope", z3.BoolVal(ok and self.yielded == [self.marker]), "post")
            if ok:
                d, sh, rs = self.failat[0]
                ip.ctx.oblige(f"{nm}/post:the_deadline_is_now_plus_delay_or_infinite_and_shield_and_reason_are_forwarded", z3.And(ip.term(d, REAL) == want, ip.term(sh, BOOL) == self.shield.t, z3.BoolVal(rs is self.reason)), "post")
            return
        ok = len(self.created) == 1 and not self.failat
        ip.ctx.oblige(f"{nm}/post:creates_exactly_one_scope_and_returns_it", z3.BoolVal(ok and ret is self.marker), "post")
        if ok:
            d, sh = self.created[0]
            ip.ctx.oblige(f"{nm}/post:the_deadline_is_the_one_asked_for_or_infinite_and_shield_is_forwarded", z3.And(ip.term(d, REAL) == want, ip.term(sh, BOOL) == self.shield.t), "post")


def delay_units():
    return [type(f"DelayWrapper_{w}", (DelayWrapperUnit,), {"which": w}) for w in ("move_on_at", "move_on_after", "fail_after")]



def ed_loop_inv(ip, env):
    u = ip.ctx.unit
    h = H(ip.st)
    c_ = ip.term(env.vars["cancel_scope"], CS)
    d = env.vars["deadline"]
    dt = ip.term(d, REAL)
    return [
        ("min_so_far_with_the_rest_of_the_walk_is_the_answer", rmin(dt, ed(h, c_)) == ed(h, u.start)),
        ("cursor_is_a_scope_or_None", z3.Or(c_ == 0, z3.And(c_ > 0, z3.Select(h.arr("$", "alloc"), c_)))),
        ("running_minimum_is_a_deadline_or_plus_infinity", z3.And(dt > NEG_INF, dt <= INF)),
        ("nothing_is_modified", tree_same(u.entry, h)),
    ]


def ed_after_havoc(ip, env):
    u = ip.ctx.unit
    h = H(ip.st)
    u.assume_tree(ip, h)
    c_ = ip.term(env.vars["cancel_scope"], CS)
    for t in (c_, parent(h, c_), z3.IntVal(0), u.start):
        ip.st.assume(ed_unfold(h, t))
        # range of ed (by induction on the ghost depth, pen-and-paper): a deadline, +inf, or -inf
        ip.st.assume(z3.And(ed(h, t) >= NEG_INF, ed(h, t) <= INF))
    ip.st.assume(z3.Implies(c_ != 0, z3.And(deadline_(h, c_) > NEG_INF, deadline_(h, c_) <= INF)))


class EffectiveDeadlineUnit(FunctionUnit):
    """AsyncIOBackend.current_effective_deadline() == ed(current scope of the running task): the earliest deadline among
    the enclosing scopes up to and including the nearest shielded one, or -inf once a cancelled scope is met."""

    props = ("C06",)
    modpath = ASYNCIO
    funcname = "AsyncIOBackend.current_effective_deadline"
    trusted = ("A-real",)
    globals = {"_task_states": TSV}
    loops = {("AsyncIOBackend.current_effective_deadline", 0): LoopSpec(ed_loop_inv, modifies=set(), after_havoc=ed_after_havoc, local_types={"cancel_scope": CS, "deadline": REAL})}

    def loop_spec(self, qualname, ordinal):
        return self.loops.get((qualname, ordinal))

    def assume_tree(self, ip, h):
        al = h.arr("$", "alloc")
        x = z3.Int(ip.st.uniq("x"))
        ip.st.assume(z3.And(NEG_INF < 0, 0 < INF, TS_SINGLETON > 0))
        ip.st.assume(z3.ForAll([x], z3.Implies(z3.And(x > 0, z3.Select(al, x)), z3.And(deadline_(h, x) > NEG_INF, deadline_(h, x) <= INF, z3.Implies(parent(h, x) != 0, z3.And(parent(h, x) > 0, z3.Select(al, parent(h, x)))))), patterns=[parent(h, x)]))

    def make_args(self, ip):
        h = H(ip.st)
        self.assume_tree(ip, h)
        cur = ip.ctx.cur.t
        ts = tstate_of(h, cur)
        self.start = z3.If(ts == 0, 0, h.f("TaskState", "cancel_scope", ts))
        al = h.arr("$", "alloc")
        ip.st.assume(z3.Implies(ts != 0, z3.And(ts > 0, z3.Or(h.f("TaskState", "cancel_scope", ts) == 0, z3.And(h.f("TaskState", "cancel_scope", ts) > 0, z3.Select(al, h.f("TaskState", "cancel_scope", ts)))))))
        for t in (self.start, z3.IntVal(0)):
            ip.st.assume(ed_unfold(h, t))
            ip.st.assume(z3.And(ed(h, t) >= NEG_INF, ed(h, t) <= INF))
        ip.st.assume(z3.Implies(self.start != 0, z3.And(deadline_(h, self.start) > NEG_INF, deadline_(h, self.start) <= INF)))
        return [ClassVal("AsyncIOBackend")], {}

    def on_entry(self, ip, pre):
        self.entry = pre

    get_item = ScopeUnit.get_item
    ts_get = ScopeUnit.ts_get

    def model_getattr(self, ip, obj, attr):
        if isinstance(obj, TaskStatesVal) and attr == "get":
            return Builtin("_task_states.get", lambda ip, t, d=None: self.ts_get(ip, t, d))
        return NotImplemented

    def on_exit(self, ip, pre, exc, ret):
        nm = "AsyncIOBackend.current_effective_deadline"
        ip.ctx.oblige(f"{nm}/post:returns_normally", z3.BoolVal(exc is None), "post")
        if exc is None:
            ip.ctx.oblige(f"{nm}/post:is_the_earliest_deadline_up_to_the_nearest_shield_or_minus_infinity_once_cancelled", ip.term(ret, REAL) == ed(pre, self.start), "post")


def timeout_units():
    """`_timeout` in its helper role, and every method registered as the timer callback in its callback role"""
    cbs = timer_callback_name()
    out = []
    if cbs == ["_timeout"]:
        return [TimeoutUnit]
    helper = type("TimeoutHelperUnit", (TimeoutUnit,), {"callback_mode": False})
    out.append(helper)
    for nm in cbs:
        out.append(type(f"TimerCallbackUnit_{nm}", (TimeoutUnit,), {"method": nm, "callback_mode": True}))
    return out


UNITS = [InitUnit, EffUnit, VisibleUnit, EnterUnit, ExitUnit, CancelUnit, *timeout_units(), FailAtUnit, *delay_units(), EffectiveDeadlineUnit, DeadlineSetterUnit, ShieldSetterUnit, getter_unit("cancel_called", cc, BOOL), getter_unit("cancelled_caught", caught, BOOL), getter_unit("shield", shield, BOOL)]

# the delivery walk (C03 / C05 / C04(b)): proves the DELIVER / RESTART contracts the units above assume
from specs import c03_delivery as _delivery  # noqa: E402

UNITS += _delivery.UNITS
