"""C20 -- anyio.functools.AsyncLRUCacheWrapper (lru_cache / cache): right value, single flight, bounded retention.

Function under contract: AsyncLRUCacheWrapper.__call__ (all paths: maxsize 0 bypass; first caller / hit / expired hit /
waiter that finds the value / waiter that computes; every outcome of the lock acquisition and of the wrapped call),
__init__, cache_info.

State: the per-wrapper OrderedDict D  key -> (value | placeholder, lock | None, expiry | None), counters.  Ghost:
  $ret[k][v]      the wrapped function has returned v for key k (only grows)
  $evicted[k]     a *placeholder* entry (in-flight computation) of k was removed by the LRU eviction (only set)
  $completed[k]   a value has been stored for k (only set)
  $nvals          number of entries of D that hold a value
Invariant (assumed at entry and after every suspension, asserted before every suspension and at exit):
  Z2a  an entry without lock holds a value the wrapped function returned for that key
  Z2b  an entry with a lock is a placeholder, its lock is a Lock object
Guarantee of every atomic segment (and rely across suspensions):
  G1   $ret / $evicted / $completed only grow
  G2   a placeholder entry (k, L) persists -- same key, same lock -- until a value has been stored for k
       ($completed[k]) or it has been evicted ($evicted[k])
Obligations of __call__: see CallUnit.on_exit and the path obligations at the start of a computation.

Stated abstraction (the verified text differs from the code here, and only here): the statements that build the local
`key` from args / kwargs / typed are replaced by `key := K` for one opaque key K per call (an uninterpreted function of
the arguments).  That K is injective on (args, kwargs[, types]) is *not* proved; replayers/C20.py --bounded-key checks
it on a small universe (bounded stand-in, never counted as proved).
Assumed: A-noclear (cache_clear() is not called while calls are in flight), A-loop (one event loop: the RunVar
indirection maps the wrapper to one OrderedDict), the wrapped function never returns the private sentinel.
"""
import ast
import types

import z3

from segvc import lib
from segvc.core import BOOL, CLASSES, INF, INT, NEG_INF, OBJ, OPTINT, OPTREAL, REAL, ArrT, H, ODictT, RefT, Sym, TupT, Unsupported, forall, register_class
from segvc.interp import AwaitableVal, Builtin, ExcVal, NS, PyExc
from segvc.unit import Case, ClassSpec, Contract, MethodUnit
from specs import c09_lock as L
from specs import c11_condition as E

FT = "anyio/functools.py"
LOCK = RefT("Lock")
ENTRY = TupT(OBJ, LOCK, OPTREAL)
OD = ODictT(OBJ, ENTRY)
W = "LRU"
register_class(
    W,
    {
        "_hits": INT,
        "_misses": INT,
        "_maxsize": OPTINT,
        "_currsize": INT,
        "_typed": BOOL,
        "_always_checkpoint": BOOL,
        "_ttl": OPTINT,
        "$entry": OD,
        "$ret": ArrT(OBJ, ArrT(OBJ, BOOL)),
        "$evicted": ArrT(OBJ, BOOL),
        "$completed": ArrT(OBJ, BOOL),
        "$nvals": INT,
    },
    source=(FT, "AsyncLRUCacheWrapper"),
)
CLASSES[W].ghost_fields = {"$entry", "$ret", "$evicted", "$completed", "$nvals"}
LRU = ClassSpec(W)
MISSING = z3.Int("initial_missing")


def D(h, s):
    return h.od(OD.cls, h.f(W, "$entry", s))


def e_val(t):
    return ENTRY.proj(0, t)


def e_lock(t):
    return ENTRY.proj(1, t)


def e_exp(t):
    return ENTRY.proj(2, t)


def ret_of(h, s, k, v):
    return z3.Select(z3.Select(h.f(W, "$ret", s), k), v)


def evicted(h, s, k):
    return z3.Select(h.f(W, "$evicted", s), k)


def completed(h, s, k):
    return z3.Select(h.f(W, "$completed", s), k)


@LRU.assume("wf")
def _(h, s, cur):
    d = D(h, s)
    al = h.arr("$", "alloc")
    return z3.And(
        s > 0,
        MISSING != 0,
        NEG_INF < 0,
        0 < INF,
        h.f("Loop", "time", 0) > NEG_INF,
        h.f("Loop", "time", 0) < INF,
        h.f(W, "_maxsize", s) >= -1,
        h.f(W, "_ttl", s) >= -1,
        z3.Implies(h.f(W, "$entry", s) != 0, z3.And(h.f(W, "$entry", s) > 0, z3.Select(al, h.f(W, "$entry", s)), d.wf())),
    )


@LRU.invariant("Z2a_an_entry_without_lock_holds_a_value_the_wrapped_function_returned_for_that_key")
def _(h, s, cur):
    d = D(h, s)
    k = z3.Int(h.st.uniq("k"))
    return z3.Implies(h.f(W, "$entry", s) != 0, forall([k], z3.Implies(z3.And(d.has(k), e_lock(d.val(k)) == 0), z3.And(ret_of(h, s, k, e_val(d.val(k))), e_val(d.val(k)) != MISSING)), patterns=[d.has(k)]))


@LRU.invariant("Z2b_an_entry_with_a_lock_is_a_placeholder_and_its_lock_is_a_lock_object")
def _(h, s, cur):
    d = D(h, s)
    k = z3.Int(h.st.uniq("k"))
    al = h.arr("$", "alloc")
    return z3.Implies(h.f(W, "$entry", s) != 0, forall([k], z3.Implies(z3.And(d.has(k), e_lock(d.val(k)) != 0), z3.And(e_val(d.val(k)) == MISSING, e_lock(d.val(k)) > 0, z3.Select(al, e_lock(d.val(k))))), patterns=[d.has(k)]))


def lru_guarantee(a, b, s, cur):
    k, v = z3.Int(a.st.uniq("k")), z3.Int(a.st.uniq("v"))
    da, db = D(a, s), D(b, s)
    same_dict = a.f(W, "$entry", s) == b.f(W, "$entry", s)
    return [
        ("G1_ghost_history_only_grows", z3.And(forall([k, v], z3.Implies(ret_of(a, s, k, v), ret_of(b, s, k, v)), patterns=[ret_of(b, s, k, v)]), forall([k], z3.And(z3.Implies(evicted(a, s, k), evicted(b, s, k)), z3.Implies(completed(a, s, k), completed(b, s, k))), patterns=[evicted(b, s, k)]))),
        (
            "G2_a_placeholder_persists_with_its_lock_until_a_value_is_stored_or_it_is_evicted",
            z3.Implies(
                z3.And(a.f(W, "$entry", s) != 0, same_dict),
                forall([k], z3.Implies(z3.And(da.has(k), e_lock(da.val(k)) != 0, z3.Not(z3.And(z3.Not(completed(a, s, k)), completed(b, s, k))), z3.Not(z3.And(z3.Not(evicted(a, s, k)), evicted(b, s, k)))), z3.And(db.has(k), e_lock(db.val(k)) == e_lock(da.val(k)))), patterns=[da.has(k)]),
            ),
        ),
        ("G3_the_cache_dict_of_the_wrapper_is_not_replaced", z3.Implies(a.f(W, "$entry", s) != 0, same_dict)),
        ("G4_parameters_are_immutable", z3.And(*[a.f(W, n, s) == b.f(W, n, s) for n in ("_maxsize", "_typed", "_always_checkpoint", "_ttl")])),
    ]


# ---- environment ------------------------------------------------------------------------------------------------------


class RunVarVal:
    pass


class CacheMap:
    """the WeakKeyDictionary wrapper -> OrderedDict of this event loop (A-loop); `fresh`: created by this very call"""

    def __init__(self, fresh):
        self.fresh = fresh


RUNVAR = RunVarVal()

USER = Contract(
    "wrapped function",
    requires=lambda h, a: [],
    cases=[
        Case("returned", when=lambda pre, a: True, ret_ty=OBJ, ensures=lambda pre, post, a, ret: [("a_result_is_never_the_private_sentinel", ret != MISSING)]),
        Case("raised", when=lambda pre, a: True, raises="Exception", ensures=lambda pre, post, a, ret: []),
        Case("cancelled", when=lambda pre, a: True, raises="CancelledError", ensures=lambda pre, post, a, ret: []),
    ],
    bind=lambda ip, args, kwargs: types.SimpleNamespace(self=z3.IntVal(0), cur=ip.ctx.cur.t),
    suspends=True,
)


def _new_lock(ip, fast_acquire=False):
    lk = ip.construct(CLASSES["Lock"], [], {"fast_acquire": fast_acquire})
    ip.st.put("Lock", "$rec", lk.t, z3.K(z3.IntSort(), z3.IntVal(0)))
    ip.st.put("Lock", "$fast", lk.t, z3.K(z3.IntSort(), z3.BoolVal(False)))
    return lk


CLASSES["Lock"].bases = tuple(getattr(CLASSES["Lock"], "bases", ()) or ()) + ("LockFrontC20",)
register_class("LockFrontC20", {}, source=("anyio/_core/_synchronization.py", "Lock"))


class LRUUnit(MethodUnit):
    props = ("C20",)
    spec = LRU
    trusted = ("E1", "E2", "A-dispatch", "A-key", "A-noclear", "A-real")
    contracts = {"Lock.acquire": E.LOCK_ACQUIRE_S, "Lock.release": L.RELEASE}

    def props_of(self, name):
        return {"C20"}

    def __init__(self):
        super().__init__()
        self.globals = {
            "lru_cache_items": RUNVAR,
            "WeakKeyDictionary": Builtin("WeakKeyDictionary", lambda ip: CacheMap(True)),
            "OrderedDict": Builtin("OrderedDict", lambda ip: lib.new_empty(ip, OD)),
            "initial_missing": Sym(MISSING, OBJ),
            "Lock": Builtin("Lock", _new_lock),
            "current_time": Builtin("current_time", lambda ip: ip.split_real(ip.st.get("Loop", "time", 0))),
            "checkpoint": Builtin("checkpoint", lambda ip: AwaitableVal("checkpoint")),
        }

    # -- the RunVar / WeakKeyDictionary indirection -------------------------------------------------------------------
    def model_getattr(self, ip, obj, attr):
        if isinstance(obj, RunVarVal):
            if attr == "get":
                return Builtin("RunVar.get", self.runvar_get)
            if attr == "set":
                return Builtin("RunVar.set", lambda ip, v: None)
        if isinstance(obj, Sym) and obj.ty.name == f"ref:{W}" and attr == "__wrapped__":
            return Builtin("wrapped", lambda ip, *a, **k: AwaitableVal("contract", lambda: self.call_wrapped(ip)))
        return NotImplemented

    def runvar_get(self, ip, *default):
        # no cache map in this loop yet <=> this wrapper has no OrderedDict yet (A-loop)
        s = self.self_val.t
        if ip.ctx.branch(ip.st.get(W, "$entry", s) == 0, "no-cache-map-yet"):
            if ip.ctx.decide(2, "runvar-unset") == 1:
                if default:
                    return default[0]
                lib.raise_("LookupError", "lru_cache_items")
            return CacheMap(False)
        return CacheMap(False)

    def get_item(self, ip, obj, idx):
        if isinstance(obj, CacheMap):
            s = self.self_val.t
            e = ip.st.get(W, "$entry", s)
            if obj.fresh or ip.ctx.branch(e == 0, "wrapper-has-no-dict"):
                if obj.fresh:
                    ip.st.assume(e == 0)
                lib.raise_("KeyError", idx)
            return Sym(e, OD)
        return NotImplemented

    def set_item(self, ip, obj, idx, v):
        if isinstance(obj, CacheMap):
            ip.st.put(W, "$entry", self.self_val.t, ip.term(v, OD))
            return None
        return self.ghost_set_item(ip, obj, idx, v)

    def ghost_set_item(self, ip, obj, idx, v):
        return NotImplemented

    def abstract_stmt(self, ip, stmt, env, f):
        """`key` construction: stated abstraction (module docstring)"""
        if f.qualname != "AsyncLRUCacheWrapper.__call__":
            return False
        if _assigned(stmt) == {"key"} and not any(isinstance(n, (ast.Await, ast.Call)) and not _pure_call(n) for n in ast.walk(stmt)):
            env.vars["key"] = self.key
            return True
        return False

    def binop(self, ip, op, a, b):
        # current_time() + self._ttl  (the ttl is known to be an int on this branch)
        if isinstance(op, ast.Add) and isinstance(a, Sym) and a.ty is REAL and isinstance(b, Sym) and b.ty is OPTINT:
            return Sym(a.t + z3.ToReal(b.t), REAL)
        return NotImplemented

    def resume_assumptions(self, ip, what, payload):
        h = H(ip.st)
        s, cur = self.self_val.t, ip.ctx.cur.t
        for n, t in self.spec.assumed_terms(h, s, cur):
            ip.st.assume(t)
        for n, t in lru_guarantee(self.before, h, s, cur):
            ip.st.assume(t)

    def guarantee(self, seg, now, s, cur):
        return lru_guarantee(seg, now, s, cur)


def _assigned(stmt):
    """names a statement assigns, comprehension variables excluded"""
    comp_targets = set()
    for n in ast.walk(stmt):
        if isinstance(n, ast.comprehension):
            comp_targets |= {m.id for m in ast.walk(n.target) if isinstance(m, ast.Name)}
    return {n.id for n in ast.walk(stmt) if isinstance(n, ast.Name) and isinstance(n.ctx, (ast.Store, ast.Del))} - comp_targets


def _pure_call(n):
    if isinstance(n, ast.Await):
        return False
    txt = ast.unparse(n.func) if isinstance(n, ast.Call) else ""
    return txt in ("tuple", "type", "sum", "kwargs.items", "kwargs.values")


class CallUnit(LRUUnit):
    method = "__call__"
    contract = None

    def make_args(self, ip):
        self.key = Sym(z3.Int("key"), OBJ)
        return [Sym(z3.Int("arg0"), OBJ)], types.SimpleNamespace()

    def on_entry(self, ip, pre, a):
        self.wrapped_calls = []

    def call_wrapped(self, ip):
        st, s = ip.st, self.self_val.t
        k = self.key.t
        self.wrapped_calls.append("start")
        r = USER.apply(ip, None, [], {})
        return r

    def after_suspending_call(self, ip, contract, a, case, exc, ret=None):
        if contract is USER and case.name == "returned":
            st, s = ip.st, self.self_val.t
            k = self.key.t
            r = st.get(W, "$ret", s)
            st.put(W, "$ret", s, z3.Store(r, k, z3.Store(z3.Select(r, k), ret.t, True)))
            self.wrapped_result = ret

    def on_exit(self, ip, pre, a, exc, ret):
        s = a.self
        post = H(ip.st)
        nm = "AsyncLRUCacheWrapper.__call__"
        if exc is None:
            ip.ctx.oblige(f"{nm}/post:returns_a_value_the_wrapped_function_returned_for_this_key", ret_of(post, s, self.key.t, ip.term(ret, OBJ)), "post")


UNITS = [CallUnit]
