"""C20 -- anyio.functools.AsyncLRUCacheWrapper (lru_cache / cache): right value, single flight, bounded retention.

Function under contract: AsyncLRUCacheWrapper.__call__ (all paths: maxsize 0 bypass; first caller / hit / expired hit /
waiter that finds the value / waiter that computes; every outcome of the lock acquisition and of the wrapped call),
__init__, cache_info.

State: the per-wrapper OrderedDict D  key -> (value | placeholder, lock | None, expiry | None), counters.  Ghost:
  $ret[k][v]      the wrapped function has returned v for key k (only grows)
  $evicted[k]     how many times a *placeholder* entry (in-flight computation) of k was removed by the LRU eviction
  $completed[k]   how many times a value has been stored for k
  $nvals          number of entries of D that hold a value
Invariant (assumed at entry and after every suspension, asserted before every suspension and at exit):
  Z2a  an entry without lock holds a value the wrapped function returned for that key
  Z2b  an entry with a lock is a placeholder, its lock is a Lock object
Guarantee of every atomic segment (and rely across suspensions):
  G1   $ret / $evicted / $completed only grow
  G2   a placeholder entry (k, L) persists -- same key, same lock -- until a value has been stored for k
       ($completed[k]) or it has been evicted ($evicted[k])
Obligations of __call__: see CallUnit.on_exit and the path obligations at the start of a computation.

Stated abstraction (the verified text differs from the code here, and only here): the statements that build the local
`key` from args / kwargs / typed are replaced by `key := K` for one opaque key K per call (an uninterpreted function of
the arguments).  That K is injective on (args, kwargs[, types]) is *not* proved; replayers/C20.py --bounded-key checks
it on a small universe (bounded stand-in, never counted as proved).
Assumed: A-noclear (cache_clear() is not called while calls are in flight), A-loop (one event loop: the RunVar
indirection maps the wrapper to one OrderedDict), the wrapped function never returns the private sentinel.
"""
import ast
import types

import z3

from segvc import lib
from segvc.core import BOOL, CLASSES, INF, INT, NEG_INF, OBJ, OPTINT, OPTREAL, REAL, ArrT, H, ODictT, RefT, Sym, TupT, Unsupported, forall, register_class
from segvc.interp import AwaitableVal, Builtin, ExcVal, NS, PyExc
from segvc.unit import Case, ClassSpec, Contract, MethodUnit
from specs import c09_lock as L
from specs import c11_condition as E

FT = "anyio/functools.py"
LOCK = RefT("Lock")
ENTRY = TupT(OBJ, LOCK, OPTREAL)
OD = ODictT(OBJ, ENTRY)
W = "LRU"
register_class(
    W,
    {
        "_hits": INT,
        "_misses": INT,
        "_maxsize": OPTINT,
        "_currsize": INT,
        "_typed": BOOL,
        "_always_checkpoint": BOOL,
        "_ttl": OPTINT,
        "$entry": OD,
        "$ret": ArrT(OBJ, ArrT(OBJ, BOOL)),
        "$evicted": ArrT(OBJ, INT),
        "$completed": ArrT(OBJ, INT),
        "$nvals": INT,
    },
    source=(FT, "AsyncLRUCacheWrapper"),
)
CLASSES[W].ghost_fields = {"$entry", "$ret", "$evicted", "$completed", "$nvals"}
LRU = ClassSpec(W)
MISSING = z3.Int("initial_missing")


def D(h, s):
    return h.od(OD.cls, h.f(W, "$entry", s))


def e_val(t):
    return ENTRY.proj(0, t)


def e_lock(t):
    return ENTRY.proj(1, t)


def e_exp(t):
    return ENTRY.proj(2, t)


def ret_of(h, s, k, v):
    return z3.Select(z3.Select(h.f(W, "$ret", s), k), v)


def evicted(h, s, k):
    return z3.Select(h.f(W, "$evicted", s), k)


def completed(h, s, k):
    return z3.Select(h.f(W, "$completed", s), k)


@LRU.assume("wf")
def _(h, s, cur):
    d = D(h, s)
    al = h.arr("$", "alloc")
    return z3.And(
        s > 0,
        MISSING != 0,
        NEG_INF < 0,
        0 < INF,
        h.f("Loop", "time", 0) > NEG_INF,
        h.f("Loop", "time", 0) < INF,
        h.f(W, "_maxsize", s) >= -1,
        h.f(W, "_ttl", s) >= -1,
        z3.Implies(h.f(W, "$entry", s) != 0, z3.And(h.f(W, "$entry", s) > 0, z3.Select(al, h.f(W, "$entry", s)), d.wf())),
    )


@LRU.invariant("Z2a_an_entry_without_lock_holds_a_value_the_wrapped_function_returned_for_that_key")
def _(h, s, cur):
    d = D(h, s)
    k = z3.Int(h.st.uniq("k"))
    return z3.Implies(h.f(W, "$entry", s) != 0, forall([k], z3.Implies(z3.And(d.has(k), e_lock(d.val(k)) == 0), z3.And(ret_of(h, s, k, e_val(d.val(k))), e_val(d.val(k)) != MISSING)), patterns=[d.has(k)]))


@LRU.invariant("Z2b_an_entry_with_a_lock_is_a_placeholder")
def _(h, s, cur):
    d = D(h, s)
    k = z3.Int(h.st.uniq("k"))
    return z3.Implies(h.f(W, "$entry", s) != 0, forall([k], z3.Implies(z3.And(d.has(k), e_lock(d.val(k)) != 0), e_val(d.val(k)) == MISSING), patterns=[d.has(k)]))


@LRU.invariant("Z2c_the_lock_of_a_placeholder_is_a_lock_object")
def _(h, s, cur):
    d = D(h, s)
    k = z3.Int(h.st.uniq("k"))
    al = h.arr("$", "alloc")
    return z3.Implies(h.f(W, "$entry", s) != 0, forall([k], z3.Implies(z3.And(d.has(k), e_lock(d.val(k)) != 0), z3.And(e_lock(d.val(k)) > 0, z3.Select(al, e_lock(d.val(k))))), patterns=[d.has(k)]))


def lru_guarantee(a, b, s, cur):
    k, v = z3.Int(a.st.uniq("k")), z3.Int(a.st.uniq("v"))
    da, db = D(a, s), D(b, s)
    same_dict = a.f(W, "$entry", s) == b.f(W, "$entry", s)
    return [
        ("G1_ghost_history_only_grows", z3.And(forall([k, v], z3.Implies(ret_of(a, s, k, v), ret_of(b, s, k, v)), patterns=[ret_of(b, s, k, v)]), forall([k], z3.And(evicted(a, s, k) <= evicted(b, s, k), completed(a, s, k) <= completed(b, s, k)), patterns=[evicted(b, s, k)]))),
        (
            "G2_a_placeholder_persists_with_its_lock_until_a_value_is_stored_or_it_is_evicted",
            z3.Implies(
                z3.And(a.f(W, "$entry", s) != 0, same_dict),
                forall([k], z3.Implies(z3.And(da.has(k), e_lock(da.val(k)) != 0, completed(b, s, k) == completed(a, s, k), evicted(b, s, k) == evicted(a, s, k)), z3.And(db.has(k), e_lock(db.val(k)) == e_lock(da.val(k)))), patterns=[da.has(k)]),
            ),
        ),
        ("G3_the_cache_dict_of_the_wrapper_is_not_replaced", z3.Implies(a.f(W, "$entry", s) != 0, same_dict)),
        ("G4_parameters_are_immutable", z3.And(*[a.f(W, n, s) == b.f(W, n, s) for n in ("_maxsize", "_typed", "_always_checkpoint", "_ttl")])),
    ]


# ---- environment ------------------------------------------------------------------------------------------------------


class RunVarVal:
    pass


class CacheMap:
    """the WeakKeyDictionary wrapper -> OrderedDict of this event loop (A-loop); `fresh`: created by this very call"""

    def __init__(self, fresh):
        self.fresh = fresh


RUNVAR = RunVarVal()

USER = Contract(
    "wrapped function",
    requires=lambda h, a: [],
    cases=[
        Case("returned", when=lambda pre, a: True, ret_ty=OBJ, ensures=lambda pre, post, a, ret: [("a_result_is_never_the_private_sentinel", ret != MISSING)]),
        Case("raised", when=lambda pre, a: True, raises="Exception", ensures=lambda pre, post, a, ret: []),
        Case("cancelled", when=lambda pre, a: True, raises="CancelledError", ensures=lambda pre, post, a, ret: []),
    ],
    bind=lambda ip, args, kwargs: types.SimpleNamespace(self=z3.IntVal(0), cur=ip.ctx.cur.t),
    suspends=True,
)


def _new_lock(ip, fast_acquire=False):
    lk = ip.construct(CLASSES["Lock"], [], {"fast_acquire": fast_acquire})
    ip.st.put("Lock", "$rec", lk.t, z3.K(z3.IntSort(), z3.IntVal(0)))
    ip.st.put("Lock", "$fast", lk.t, z3.K(z3.IntSort(), z3.BoolVal(False)))
    return lk


CLASSES["Lock"].bases = tuple(getattr(CLASSES["Lock"], "bases", ()) or ()) + ("LockFrontC20",)
register_class("LockFrontC20", {}, source=("anyio/_core/_synchronization.py", "Lock"))


class LRUUnit(MethodUnit):
    props = ("C20",)
    spec = LRU
    trusted = ("E1", "E2", "A-dispatch", "A-key", "A-noclear", "A-norecursion", "A-real")
    contracts = {"Lock.acquire": E.LOCK_ACQUIRE_S, "Lock.release": L.RELEASE}

    def props_of(self, name):
        return {"C20"}

    def __init__(self):
        super().__init__()
        self.globals = {
            "lru_cache_items": RUNVAR,
            "WeakKeyDictionary": Builtin("WeakKeyDictionary", lambda ip: CacheMap(True)),
            "OrderedDict": Builtin("OrderedDict", lambda ip: lib.new_empty(ip, OD)),
            "initial_missing": Sym(MISSING, OBJ),
            "Lock": Builtin("Lock", _new_lock),
            "current_time": Builtin("current_time", lambda ip: ip.split_real(ip.st.get("Loop", "time", 0))),
            "checkpoint": Builtin("checkpoint", lambda ip: AwaitableVal("checkpoint")),
            "T": None,
        }

    # -- the RunVar / WeakKeyDictionary indirection -------------------------------------------------------------------
    def model_getattr(self, ip, obj, attr):
        if isinstance(obj, RunVarVal):
            if attr == "get":
                return Builtin("RunVar.get", self.runvar_get)
            if attr == "set":
                return Builtin("RunVar.set", lambda ip, v: None)
        if isinstance(obj, Sym) and obj.ty.name == f"ref:{W}" and attr == "__wrapped__":
            return Builtin("wrapped", lambda ip, *a, **k: AwaitableVal("contract", lambda: self.call_wrapped(ip)))
        return NotImplemented

    def override_method(self, ip, obj, attr):
        if isinstance(obj, Sym) and obj.ty is OD and attr == "popitem":
            return Builtin("OrderedDict.popitem", lambda ip, last=True: self.ghost_popitem(ip, obj, last))
        return NotImplemented

    def runvar_get(self, ip, *default):
        # no cache map in this loop yet <=> this wrapper has no OrderedDict yet (A-loop)
        s = self.self_val.t
        if ip.ctx.branch(ip.st.get(W, "$entry", s) == 0, "no-cache-map-yet"):
            if ip.ctx.decide(2, "runvar-unset") == 1:
                if default:
                    return default[0]
                lib.raise_("LookupError", "lru_cache_items")
            return CacheMap(False)
        return CacheMap(False)

    def get_item(self, ip, obj, idx):
        if isinstance(obj, CacheMap):
            s = self.self_val.t
            e = ip.st.get(W, "$entry", s)
            if obj.fresh or ip.ctx.branch(e == 0, "wrapper-has-no-dict"):
                if obj.fresh:
                    ip.st.assume(e == 0)
                lib.raise_("KeyError", idx)
            return Sym(e, OD)
        return NotImplemented

    def set_item(self, ip, obj, idx, v):
        if isinstance(obj, CacheMap):
            ip.st.put(W, "$entry", self.self_val.t, ip.term(v, OD))
            return None
        return NotImplemented

    def before_container_store(self, ip, obj, idx, v):
        self.ghost_set_item(ip, obj, idx, v)

    def ghost_popitem(self, ip, d, last):
        """LRU eviction: ghost bookkeeping of what was evicted (a placeholder = an in-flight computation, or a value)"""
        st, s = ip.st, self.self_val.t
        ip.ctx.oblige("AsyncLRUCacheWrapper.__call__@evict/post:eviction_removes_the_least_recently_used_entry", z3.BoolVal(last is False), "post")
        k, v = lib.od_popitem(ip, d, last)
        lock_t = ip.term(v[1], LOCK)
        ev = st.get(W, "$evicted", s)
        st.put(W, "$evicted", s, z3.Store(ev, k.t, z3.Select(ev, k.t) + z3.If(lock_t != 0, 1, 0)))
        st.put(W, "$nvals", s, st.get(W, "$nvals", s) - z3.If(lock_t == 0, 1, 0))
        return (k, v)

    def ghost_set_item(self, ip, obj, idx, v):
        """D[k] = (value, lock, expiry): ghost bookkeeping, then the engine's OrderedDict store"""
        if isinstance(obj, Sym) and obj.ty is OD and isinstance(v, tuple) and len(v) == 3:
            st, s = ip.st, self.self_val.t
            h = H(st)
            d = h.od(OD.cls, obj.t)
            k = ip.term(idx, OBJ)
            new_is_value = ip.term(v[1], LOCK) == 0
            old_is_value = z3.And(d.has(k), e_lock(d.val(k)) == 0)
            c = st.get(W, "$completed", s)
            st.put(W, "$completed", s, z3.Store(c, k, z3.Select(c, k) + z3.If(new_is_value, 1, 0)))
            st.put(W, "$nvals", s, st.get(W, "$nvals", s) + z3.If(new_is_value, 1, 0) - z3.If(old_is_value, 1, 0))
        return NotImplemented

    def abstract_stmt(self, ip, stmt, env, f):
        """`key` construction: stated abstraction (module docstring)"""
        if f.qualname != "AsyncLRUCacheWrapper.__call__":
            return False
        stores = [n for n in ast.walk(stmt) if isinstance(n, (ast.Attribute, ast.Subscript)) and isinstance(n.ctx, (ast.Store, ast.Del))]
        if _assigned(stmt) == {"key"} and not stores and not any(isinstance(n, (ast.Await, ast.Call)) and not _pure_call(n) for n in ast.walk(stmt)):
            env.vars["key"] = self.key
            return True
        return False

    def binop(self, ip, op, a, b):
        # current_time() + self._ttl  (the ttl is known to be an int on this branch)
        if isinstance(op, ast.Add) and isinstance(a, Sym) and a.ty is REAL and isinstance(b, Sym) and b.ty is OPTINT:
            return Sym(a.t + z3.ToReal(b.t), REAL)
        return NotImplemented

    lock_obj = None  # the Lock this call waits for / holds
    holding = False

    def resume_assumptions(self, ip, what, payload):
        h = H(ip.st)
        s, cur = self.self_val.t, ip.ctx.cur.t
        self.assume_state(ip)  # representation facts + class invariant
        for n, t in lru_guarantee(self.before, h, s, cur):
            ip.st.assume(t)
        if what == "call:Lock.acquire":
            self.lock_obj = payload.self
        if self.lock_obj is not None:
            # the Lock's own class invariant (proved by the C09 units) holds at every suspension point, and nobody
            # takes a lock away from its owner (C09's rely)
            lk = self.lock_obj
            for n, t in L.LOCK.assumed_terms(h, lk, cur):
                ip.st.assume(t)
            for n, t in L.LOCK.inv_terms(h, lk, cur):
                ip.st.assume(t)
            if self.holding:
                for n, t in L.lock_rely(self.before, h, lk, cur, None):
                    ip.st.assume(t)

    def after_suspending_call(self, ip, contract, a, case, exc, ret=None):
        if contract is E.LOCK_ACQUIRE_S:
            self.holding = case.name == "acquired"

    def contract_for(self, qualname, ctx):
        c = self.contracts.get(qualname)
        if qualname == "Lock.release" and c is not None:
            unit = self

            class Wrap:
                suspends = False

                def apply(self_, ip, f, args, kwargs):
                    try:
                        return c.apply(ip, f, args, kwargs)
                    finally:
                        if ip.ctx.last_case.get(c.qualname) == "owner":
                            unit.holding = False

            return Wrap()
        return c

    def guarantee(self, seg, now, s, cur):
        return lru_guarantee(seg, now, s, cur)


def _assigned(stmt):
    """names a statement assigns, comprehension variables excluded"""
    comp_targets = set()
    for n in ast.walk(stmt):
        if isinstance(n, ast.comprehension):
            comp_targets |= {m.id for m in ast.walk(n.target) if isinstance(m, ast.Name)}
    return {n.id for n in ast.walk(stmt) if isinstance(n, ast.Name) and isinstance(n.ctx, (ast.Store, ast.Del))} - comp_targets


def _pure_call(n):
    """inside a key-building statement: anything but a suspension or a call that reaches the cache / the wrapper"""
    if isinstance(n, ast.Await):
        return False
    txt = ast.unparse(n.func) if isinstance(n, ast.Call) else ""
    root = txt.split(".")[0].split("(")[0]
    return root not in ("self", "cache", "cache_entry", "lru_cache_items", "Lock", "current_time", "checkpoint", "lock")


class CallUnit(LRUUnit):
    method = "__call__"
    contract = None
    split = (2, 2, 2, 2)

    def make_args(self, ip):
        self.key = Sym(z3.Int("key"), OBJ)
        return [Sym(z3.Int("arg0"), OBJ)], types.SimpleNamespace()

    def on_entry(self, ip, pre, a):
        # A-norecursion: the calling task is not itself computing this key (a recursive call of the cached function
        # with the same arguments from inside its own computation would wait for itself)
        d = D(pre, a.self)
        ip.st.assume(z3.Implies(z3.And(pre.f(W, "$entry", a.self) != 0, d.has(self.key.t), e_lock(d.val(self.key.t)) != 0), L.owner(pre, e_lock(d.val(self.key.t))) != a.cur))
        self.lock_obj, self.holding = None, False
        self.user_outcome = None  # (case name, exception object or None, result or None) of the wrapped call
        self.started = 0
        self.pre = pre
        self.lock_exc = None
        self.last_suspend = None

    def segment_deltas(self, seg, now, s, cur):
        return {n: now.f(W, f"_{n}", s) - seg.f(W, f"_{n}", s) for n in ("hits", "misses")}

    def ghost_suspend(self, ip, what, payload):
        self.last_suspend = what

    def call_wrapped(self, ip):
        """the point where a computation starts (the wrapped coroutine is awaited)"""
        st, s = ip.st, self.self_val.t
        h, pre, k = H(st), self.pre, self.key.t
        self.started += 1
        nm = "AsyncLRUCacheWrapper.__call__@compute"
        if ip.truth(ip.getattr(self.self_val, "_maxsize")) is not False and not self.bypass(ip, h, s):
            d = D(h, s)
            mine = z3.And(d.has(k), e_lock(d.val(k)) == (self.lock_obj if self.lock_obj is not None else z3.IntVal(-1)), z3.BoolVal(self.holding))
            ev, co = evicted(h, s, k) - evicted(pre, s, k), completed(h, s, k) - completed(pre, s, k)
            goal = "single_flight.computes_only_while_holding_the_lock_of_the_keys_current_entry"
            ip.ctx.oblige(f"{nm}/post:{goal}[no_in_flight_entry_of_the_key_was_evicted_and_no_value_stored_since_the_call_began]", z3.Implies(z3.And(ev == 0, co == 0), mine), "post")
            ip.ctx.oblige(f"{nm}/post:{goal}[after_an_in_flight_entry_of_the_key_was_evicted]", z3.Implies(ev > 0, mine), "post")
            ip.ctx.oblige(f"{nm}/post:{goal}[after_a_value_of_the_key_was_stored_and_lost_again]", z3.Implies(z3.And(ev == 0, co > 0), mine), "post")
        r = USER.apply(ip, None, [], {})
        return r

    def bypass(self, ip, h, s):
        return ip.st.feasible(h.f(W, "_maxsize", s) == 0) and not ip.st.feasible(h.f(W, "_maxsize", s) != 0)

    def after_suspending_call(self, ip, contract, a, case, exc, ret=None):
        super().after_suspending_call(ip, contract, a, case, exc, ret)
        if contract is E.LOCK_ACQUIRE_S and exc is not None:
            self.lock_exc = exc
        if contract is USER:
            self.user_outcome = (case.name, exc, ret)
            if case.name == "returned":
                st, s = ip.st, self.self_val.t
                k = self.key.t
                r = st.get(W, "$ret", s)
                st.put(W, "$ret", s, z3.Store(r, k, z3.Store(z3.Select(r, k), ret.t, True)))

    def on_exit(self, ip, pre, a, exc, ret):
        s = a.self
        post = H(ip.st)
        nm = "AsyncLRUCacheWrapper.__call__"
        k = self.key.t
        uo = self.user_outcome
        ip.ctx.oblige(f"{nm}/post:the_wrapped_function_is_run_at_most_once_per_call", z3.BoolVal(self.started <= 1), "post")
        if exc is not None:
            # "no caller ever observes an internal error": what leaves the call is what the wrapped function raised, or
            # the cancellation that interrupted this caller while it waited
            name = exc.pycls.__name__ if exc.pycls is not None else "sym"
            from_user = uo is not None and uo[1] is exc
            from_wait = exc is self.lock_exc or (name == "CancelledError" and not from_user)
            tag = "" if name in ("CancelledError", "Exception") else f"[{name}]"
            ip.ctx.oblige(f"{nm}/post:raises_only_what_the_wrapped_function_raised_or_the_callers_own_cancellation{tag}", z3.BoolVal(bool(from_user or from_wait)), "post")
            return
        ip.ctx.oblige(f"{nm}/post:returns_a_value_the_wrapped_function_returned_for_this_key", ret_of(post, s, k, ip.term(ret, OBJ)), "post")
        if uo is not None:
            ip.ctx.oblige(f"{nm}/post:a_computed_result_is_returned_unchanged", z3.BoolVal(uo[0] == "returned" and isinstance(ret, Sym) and uo[2] is not None and ret.t.eq(uo[2].t)), "post")
        # accounting: exactly one of hits / misses is counted for a call that returns
        dh, dm = self.acc.get("hits", 0), self.acc.get("misses", 0)
        ip.ctx.oblige(f"{nm}/post:a_returning_call_counts_exactly_one_hit_or_one_miss", z3.And(dh + dm == 1, dm == (1 if uo is not None else 0)), "post")
        if ip.st.feasible(pre.f(W, "_maxsize", s) != 0):
            d = D(post, s)
            cached = z3.Implies(pre.f(W, "_maxsize", s) != 0, z3.And(post.f(W, "$entry", s) != 0))
            if uo is None:
                # a hit: the key has just been used, so it is the most recently used entry
                # (checked in the segment in which the hit is taken: not after the optional `await checkpoint()` of the
                # uncontended hit, when other callers have run in between)
                if getattr(self, "last_suspend", None) != "checkpoint":
                    ip.ctx.oblige(f"{nm}/post:a_hit_makes_the_key_the_most_recently_used_entry", z3.Implies(pre.f(W, "_maxsize", s) != 0, z3.And(d.has(k), d.lo < d.hi, d.key_at(d.hi - 1) == k)), "post")
                if not ip.ctx.flags.get("suspended"):
                    dp = D(pre, s)
                    ip.ctx.oblige(f"{nm}/post:a_hit_is_served_only_from_an_entry_that_has_not_expired", z3.Implies(pre.f(W, "_maxsize", s) != 0, z3.And(dp.has(k), e_lock(dp.val(k)) == 0, z3.Or(e_exp(dp.val(k)) == INF, pre.f("Loop", "time", 0) < e_exp(dp.val(k))), ip.term(ret, OBJ) == e_val(dp.val(k)))), "post")
            else:
                ip.ctx.oblige(f"{nm}/post:a_computed_result_is_stored_for_the_key_with_its_expiry", z3.Implies(pre.f(W, "_maxsize", s) != 0, z3.And(cached, d.has(k), e_lock(d.val(k)) == 0, e_val(d.val(k)) == ip.term(ret, OBJ), e_exp(d.val(k)) == z3.If(post.f(W, "_ttl", s) == -1, INF, post.f("Loop", "time", 0) + z3.ToReal(post.f(W, "_ttl", s))))), "post")
        if self.holding:
            ip.ctx.oblige(f"{nm}/post:the_entry_lock_is_released_on_every_path", z3.BoolVal(False), "post")


class InitUnit(LRUUnit):
    method = "__init__"
    is_init = True
    contract = None
    trusted = ("A-real",)

    def __init__(self):
        super().__init__()
        self.globals = dict(self.globals, update_wrapper=Builtin("update_wrapper", lambda ip, *a, **k: None))

    def make_args(self, ip):
        self.maxsize = Sym(z3.Int("maxsize_arg"), INT)
        self.maxsize_none = ip.ctx.decide(2, "maxsize-is-None") == 1
        self.typed = Sym(z3.Bool("typed_arg"), BOOL)
        self.ac = Sym(z3.Bool("always_checkpoint_arg"), BOOL)
        self.ttl = Sym(z3.Int("ttl_arg"), OPTINT)
        ip.st.assume(self.ttl.t >= -1)
        return [Sym(z3.Int("func"), OBJ), None if self.maxsize_none else self.maxsize, self.typed, self.ac, self.ttl], types.SimpleNamespace()

    def model_setattr(self, ip, obj, attr, val):
        if attr == "__wrapped__":
            return None
        return NotImplemented

    def ghost_init(self, ip):
        st, s = ip.st, self.self_val.t
        st.put(W, "$entry", s, z3.IntVal(0))
        st.put(W, "$nvals", s, z3.IntVal(0))

    def on_exit(self, ip, pre, a, exc, ret):
        s = a.self
        post = H(ip.st)
        want_max = z3.IntVal(-1) if self.maxsize_none else z3.If(self.maxsize.t > 0, self.maxsize.t, 0)
        ip.ctx.oblige("AsyncLRUCacheWrapper.__init__/post:parameters_stored_negative_maxsize_clamped_to_zero_counters_zero", z3.And(z3.BoolVal(exc is None), post.f(W, "_maxsize", s) == want_max, post.f(W, "_typed", s) == self.typed.t, post.f(W, "_always_checkpoint", s) == self.ac.t, post.f(W, "_ttl", s) == self.ttl.t, post.f(W, "_hits", s) == 0, post.f(W, "_misses", s) == 0, post.f(W, "_currsize", s) == 0), "post")


UNITS = [CallUnit, InitUnit]
