"""C09 / C10 -- the lazy front-end adapters of anyio/_core/_synchronization.py:
LockAdapter, SemaphoreAdapter, CapacityLimiterAdapter (objects created outside an event loop; the backend object is
created on first use).

What is proved is a *delegation refinement*: an adapter behaves as the backend object that
`get_async_backend().create_lock / create_semaphore / create_capacity_limiter` returns for exactly the constructor
parameters the adapter was given.  The backend object is opaque here (its behaviour is what the C09 / C10 units prove of
the asyncio classes); every call on it is recorded in a ghost event log.  Per adapter method:
  * the backend object is created at most once, only when there is none yet, with exactly the adapter's stored
    parameters, and is then stored in the adapter; an existing one is never replaced;
  * exactly the expected backend operation is invoked -- same name, on the adapter's backend object, with the caller's
    arguments, once -- and nothing else;
  * its result is returned unchanged / its exception propagates unchanged;
  * before the backend object exists, the read-only queries answer from the stored parameters (value = initial value,
    borrowed = 0, available = total, ...), and never create it;
  * no other field of the adapter changes.
Trusted: A-dispatch (the backend factory functions return the asyncio classes constructed with the same arguments:
AsyncIOBackend.create_lock / create_semaphore / create_capacity_limiter are one-line `return Cls(args)` functions).
Known and *not* a finding of C10: SemaphoreAdapter does not forward `fast_acquire` (the backend semaphore then always
checkpoints -- the safe side for C08); the obligation below states exactly what the code forwards.
"""
import types

import z3

from segvc import lib
from segvc.core import BOOL, CLASSES, H, INT, INTINF, OBJ, OPTINT, RefT, Sym, register_class
from segvc.interp import AwaitableVal, Builtin, ExcVal, NS, PyExc
from segvc.unit import Case, ClassSpec, Contract, MethodUnit

SYNC = "anyio/_core/_synchronization.py"
register_class("BackendObj", {"$kind": INT, "$state": INT}, kind="env")
BOBJ = RefT("BackendObj")
register_class("LockFront", {}, source=(SYNC, "Lock"))
register_class("LockAdapter", {"_internal_lock": BOBJ, "_fast_acquire": BOOL}, source=(SYNC, "LockAdapter"), bases=("LockFront",))
register_class("SemaphoreFront", {"_fast_acquire": BOOL}, source=(SYNC, "Semaphore"))
register_class("SemaphoreAdapter", {"_internal_semaphore": BOBJ, "_initial_value": INT, "_max_value": OPTINT, "_fast_acquire": BOOL}, source=(SYNC, "SemaphoreAdapter"), bases=("SemaphoreFront",))
register_class("LimiterFront", {}, source=(SYNC, "CapacityLimiter"))
register_class("CapacityLimiterAdapter", {"_internal_limiter": BOBJ, "_total_tokens": INTINF}, source=(SYNC, "CapacityLimiterAdapter"), bases=("LimiterFront",))

KIND = {"lock": 1, "semaphore": 2, "limiter": 3}
INNER = {"LockAdapter": "_internal_lock", "SemaphoreAdapter": "_internal_semaphore", "CapacityLimiterAdapter": "_internal_limiter"}
PARAMS = {"LockAdapter": ("_fast_acquire",), "SemaphoreAdapter": ("_initial_value", "_max_value", "_fast_acquire"), "CapacityLimiterAdapter": ("_total_tokens",)}
ASYNC_OPS = {"acquire", "acquire_on_behalf_of", "__aenter__", "__aexit__"}
GETTERS = {"value": INT, "total_tokens": INTINF, "borrowed_tokens": INT, "available_tokens": INTINF}

OPAQUE_SYNC = Contract(
    "backend operation",
    requires=lambda h, a: [],
    cases=[
        Case("returned", when=lambda pre, a: True, ret_ty=OBJ, ensures=lambda pre, post, a, ret: []),
        Case("raised", when=lambda pre, a: True, raises="Exception", ensures=lambda pre, post, a, ret: []),
    ],
    modifies={("BackendObj", "$state")},
    bind=lambda ip, args, kwargs: types.SimpleNamespace(self=z3.IntVal(0), cur=ip.ctx.cur.t),
)
OPAQUE_ASYNC = Contract(
    "backend coroutine",
    requires=lambda h, a: [],
    cases=[
        Case("returned", when=lambda pre, a: True, ret_ty=OBJ, ensures=lambda pre, post, a, ret: []),
        Case("raised", when=lambda pre, a: True, raises="Exception", ensures=lambda pre, post, a, ret: []),
        Case("cancelled", when=lambda pre, a: True, raises="CancelledError", ensures=lambda pre, post, a, ret: []),
    ],
    bind=lambda ip, args, kwargs: types.SimpleNamespace(self=z3.IntVal(0), cur=ip.ctx.cur.t),
    suspends=True,
)


def inner(h, cls, s):
    return h.f(cls, INNER[cls], s)


class AdapterBase(MethodUnit):
    props = ("C10",)
    trusted = ("E1", "A-dispatch")
    cls = None
    expect = None  # (kind, backend attribute, number of forwarded positional arguments) or None: no backend call expected
    before_creation = None  # for queries: lambda pre, s -> z3 value returned while no backend object exists
    returns_result = False
    may_create = True

    def props_of(self, name):
        return set(self.props)

    def __init__(self):
        super().__init__()
        unit = self

        def create(kind):
            def fn(ip, *args, **kwargs):
                st = ip.st
                r = Sym(st.alloc("BackendObj"), BOBJ)
                st.put("BackendObj", "$kind", r.t, z3.IntVal(KIND[kind]))
                unit.log.append(("create", kind, r.t, args, kwargs))
                return r

            return Builtin(f"create_{kind}", fn)

        self.globals = {
            "get_async_backend": Builtin("get_async_backend", lambda ip: NS("backend", {"create_lock": create("lock"), "create_semaphore": create("semaphore"), "create_capacity_limiter": create("limiter")})),
        }

    # -- the opaque backend object ---------------------------------------------------------------------------------
    def model_getattr(self, ip, obj, attr):
        if isinstance(obj, Sym) and obj.ty is BOBJ:
            unit = self
            if attr in GETTERS:
                r = Sym(ip.st.fresh(f"backend_{attr}", GETTERS[attr].sort()), GETTERS[attr])
                self.log.append(("get", attr, obj.t, (), {}, r))
                return r

            def call(ip, *args, **kwargs):
                rec = ["call", attr, obj.t, args, kwargs, None, None]
                unit.log.append(rec)

                def finish(fn):
                    try:
                        rec[5] = fn()
                    except PyExc as e:
                        rec[6] = e.exc
                        raise
                    return rec[5]

                if attr in ASYNC_OPS:
                    return AwaitableVal("contract", lambda: finish(lambda: OPAQUE_ASYNC.apply(ip, None, [], {})))
                return finish(lambda: OPAQUE_SYNC.apply(ip, None, [], {}))

            return Builtin(f"backend.{attr}", call)
        return NotImplemented

    def model_setattr(self, ip, obj, attr, val):
        if isinstance(obj, Sym) and obj.ty is BOBJ:
            self.log.append(("set", attr, obj.t, (val,), {}, None))
            if ip.ctx.decide(2, "backend-setter") == 1:
                e = ExcVal(lib.exc_classes()["Exception"], ())
                self.log[-1] = self.log[-1][:5] + (e,)
                raise PyExc(e)
            return None
        return NotImplemented

    def assume_state(self, ip):
        super().assume_state(ip)
        h = H(ip.st)
        s = self.self_val.t
        i = inner(h, self.cls, s)
        ip.st.assume(z3.Implies(i != 0, z3.And(i > 0, z3.Select(h.arr("$", "alloc"), i))))
        if self.cls == "SemaphoreAdapter":
            ip.st.assume(h.f(self.cls, "_max_value", s) >= -1)
        if self.cls == "CapacityLimiterAdapter":
            ip.st.assume(h.f(self.cls, "_total_tokens", s) >= -1)

    def on_entry(self, ip, pre, a):
        self.log = []

    def resume_assumptions(self, ip, what, payload):
        # rely: the adapter's parameters are immutable and its backend object, once created, is never replaced
        st, s = ip.st, self.self_val.t
        h, b = H(st), self.before
        st.assume(z3.Implies(inner(b, self.cls, s) != 0, inner(h, self.cls, s) == inner(b, self.cls, s)))
        for p in PARAMS[self.cls]:
            st.assume(h.f(self.cls, p, s) == b.f(self.cls, p, s))
        i = inner(h, self.cls, s)
        st.assume(z3.Implies(i != 0, z3.And(i > 0, z3.Select(h.arr("$", "alloc"), i))))

    # -- obligations ---------------------------------------------------------------------------------------------------
    def check_creation(self, ip, pre, post, s, nm):
        cls = self.cls
        creates = [e for e in self.log if e[0] == "create"]
        ip.ctx.oblige(f"{nm}/post:the_backend_object_is_created_at_most_once", z3.BoolVal(len(creates) <= 1), "post")
        if not creates:
            if not ip.ctx.flags.get("suspended") and not self.is_init:
                ip.ctx.oblige(f"{nm}/post:an_existing_backend_object_is_never_replaced", inner(post, cls, s) == inner(pre, cls, s), "post")
            return
        _, kind, ref, args, kwargs = creates[0]
        ip.ctx.oblige(f"{nm}/post:created_only_when_there_is_none_and_by_an_operation_that_needs_it", z3.And(inner(pre, cls, s) == 0, z3.BoolVal(bool(self.may_create))), "post")
        ip.ctx.oblige(f"{nm}/post:the_created_backend_object_is_of_the_right_kind_and_is_stored", z3.And(z3.BoolVal(kind == {"LockAdapter": "lock", "SemaphoreAdapter": "semaphore", "CapacityLimiterAdapter": "limiter"}[cls]), inner(post, cls, s) == ref), "post")
        # parameters: exactly what the adapter stores
        f = lambda n: pre.f(cls, n, s)  # noqa: E731
        T = lambda v, ty: ip.term(v, ty)  # noqa: E731
        if cls == "LockAdapter":
            ok = z3.And(z3.BoolVal(len(args) == 0 and set(kwargs) == {"fast_acquire"}), T(kwargs.get("fast_acquire", False), BOOL) == f("_fast_acquire"))
        elif cls == "SemaphoreAdapter":
            ok = z3.And(z3.BoolVal(len(args) == 1 and set(kwargs) <= {"max_value", "fast_acquire"} and "max_value" in kwargs), T(args[0], INT) == f("_initial_value") if args else z3.BoolVal(False), T(kwargs.get("max_value"), OPTINT) == f("_max_value"))
        else:
            ok = z3.And(z3.BoolVal(len(args) == 1 and not kwargs), T(args[0], INTINF) == f("_total_tokens") if args else z3.BoolVal(False))
        ip.ctx.oblige(f"{nm}/post:created_with_exactly_the_parameters_given_to_the_adapter", ok, "post")

    def check_params_frame(self, ip, pre, post, s, nm, allow=()):
        for p in PARAMS[self.cls]:
            if p in allow:
                continue
            if not ip.ctx.flags.get("suspended"):
                ip.ctx.oblige(f"{nm}/post:parameter_{p}_unchanged", post.f(self.cls, p, s) == pre.f(self.cls, p, s), "post")

    def on_exit(self, ip, pre, a, exc, ret):
        s = a.self
        post = H(ip.st)
        nm = f"{self.cls}.{self.method}" + (".setter" if self.is_setter else "")
        cls = self.cls
        self.check_creation(ip, pre, post, s, nm)
        self.check_params_frame(ip, pre, post, s, nm)
        ops = [e for e in self.log if e[0] in ("call", "get", "set")]
        if self.expect is None:
            ip.ctx.oblige(f"{nm}/post:no_backend_operation_is_invoked", z3.BoolVal(not ops), "post")
            return
        kind, attr, nargs = self.expect
        if not ops:
            # answered without the backend object: legal only for queries, and only while it does not exist
            if self.before_creation is None:
                ip.ctx.oblige(f"{nm}/post:the_backend_operation_{attr}_is_invoked", z3.BoolVal(False), "post")
                return
            ip.ctx.oblige(f"{nm}/post:answered_locally_only_while_no_backend_object_exists", z3.And(inner(pre, cls, s) == 0, inner(post, cls, s) == 0, z3.BoolVal(exc is None)), "post")
            want = self.before_creation(pre, s)
            if want is not None and exc is None:
                ip.ctx.oblige(f"{nm}/post:answered_from_the_stored_parameters", ip.term(ret, self.ret_ty) == want if ret is not None else z3.BoolVal(False), "post")
            return
        ip.ctx.oblige(f"{nm}/post:exactly_one_backend_operation", z3.BoolVal(len(ops) == 1), "post")
        e = ops[0]
        ip.ctx.oblige(f"{nm}/post:it_is_{attr}_on_the_adapters_backend_object", z3.And(z3.BoolVal(e[0] == kind and e[1] == attr), e[2] == inner(post, cls, s) if not ip.ctx.flags.get("suspended") else e[2] == e[2]), "post")
        if self.before_creation is not None:
            ip.ctx.oblige(f"{nm}/post:a_query_does_not_create_the_backend_object", inner(pre, cls, s) != 0, "post")
        fwd = list(e[3])
        mine = list(self.args)[:nargs]
        same = len(fwd) == len(mine) and not e[4] and all((x is y) or (isinstance(x, Sym) and isinstance(y, Sym) and x.t.eq(y.t)) for x, y in zip(fwd, mine))
        ip.ctx.oblige(f"{nm}/post:the_callers_arguments_are_forwarded_unchanged", z3.BoolVal(same), "post")
        r_back, e_back = (e[5], e[6]) if e[0] == "call" else (e[5] if e[0] == "get" else None, e[5] if e[0] == "set" else None)
        if e_back is not None:
            ip.ctx.oblige(f"{nm}/post:the_backend_exception_propagates_unchanged", z3.BoolVal(exc is e_back), "post")
        else:
            ip.ctx.oblige(f"{nm}/post:raises_only_what_the_backend_raised", z3.BoolVal(exc is None), "post")
            if self.returns_result and exc is None:
                ok = ret is r_back or (isinstance(ret, Sym) and isinstance(r_back, Sym) and ret.t.eq(r_back.t))
                ip.ctx.oblige(f"{nm}/post:the_backend_result_is_returned_unchanged", z3.BoolVal(bool(ok)), "post")

    def make_args(self, ip):
        n = self.expect[2] if self.expect else 0
        n = max(n, getattr(self, "nparams", 0))
        self.args = [Sym(z3.Int(f"arg{i}"), OBJ) for i in range(n)]
        return list(self.args), types.SimpleNamespace()


UNITS = []


def unit(cls, method, expect, *, before_creation=None, returns_result=False, ret_ty=None, nparams=0, is_setter=False, may_create=True, props=("C10",)):
    spec = ClassSpec(cls)
    ns = dict(cls=cls, method=method, expect=expect, before_creation=staticmethod(before_creation) if before_creation else None, returns_result=returns_result, ret_ty=ret_ty, nparams=nparams, is_setter=is_setter, may_create=may_create, props=props, spec=spec, contract=None)
    U = type(f"{cls}_{method}{'_setter' if is_setter else ''}", (AdapterBase,), ns)
    UNITS.append(U)
    return U


L, S_, C_ = "LockAdapter", "SemaphoreAdapter", "CapacityLimiterAdapter"
P9 = ("C09",)
# ---- LockAdapter (C09)
unit(L, "acquire", ("call", "acquire", 0), props=P9)
unit(L, "acquire_nowait", ("call", "acquire_nowait", 0), props=P9)
unit(L, "release", ("call", "release", 0), props=P9)
unit(L, "locked", ("call", "locked", 0), returns_result=True, props=P9)
unit(L, "__aenter__", ("call", "acquire", 0), props=P9)
unit(L, "__aexit__", ("call", "release", 0), before_creation=lambda pre, s: None, nparams=3, may_create=False, props=P9)
# ---- SemaphoreAdapter (C10)
unit(S_, "acquire", ("call", "acquire", 0))
unit(S_, "acquire_nowait", ("call", "acquire_nowait", 0))
unit(S_, "release", ("call", "release", 0))
unit(S_, "value", ("get", "value", 0), before_creation=lambda pre, s: pre.f(S_, "_initial_value", s), returns_result=True, ret_ty=INT, may_create=False)
unit(S_, "max_value", None, may_create=False)
unit(S_, "__aenter__", ("call", "acquire", 0))
unit(S_, "__aexit__", ("call", "release", 0), nparams=3)
# ---- CapacityLimiterAdapter (C10)
unit(C_, "acquire", ("call", "acquire", 0))
unit(C_, "acquire_nowait", ("call", "acquire_nowait", 0))
unit(C_, "acquire_on_behalf_of", ("call", "acquire_on_behalf_of", 1))
unit(C_, "acquire_on_behalf_of_nowait", ("call", "acquire_on_behalf_of_nowait", 1))
unit(C_, "release", ("call", "release", 0))
unit(C_, "release_on_behalf_of", ("call", "release_on_behalf_of", 1))
unit(C_, "__aenter__", ("call", "__aenter__", 0))
unit(C_, "__aexit__", ("call", "__aexit__", 3), returns_result=True)
unit(C_, "total_tokens", ("get", "total_tokens", 0), before_creation=lambda pre, s: pre.f(C_, "_total_tokens", s), returns_result=True, ret_ty=INTINF, may_create=False)
unit(C_, "borrowed_tokens", ("get", "borrowed_tokens", 0), before_creation=lambda pre, s: z3.IntVal(0), returns_result=True, ret_ty=INT, may_create=False)
unit(C_, "available_tokens", ("get", "available_tokens", 0), before_creation=lambda pre, s: pre.f(C_, "_total_tokens", s), returns_result=True, ret_ty=INTINF, may_create=False)


# ---- SemaphoreAdapter.max_value: the stored parameter
class _SemMax(UNITS[[u.__name__ for u in UNITS].index("SemaphoreAdapter_max_value")]):
    def on_exit(self, ip, pre, a, exc, ret):
        super().on_exit(ip, pre, a, exc, ret)
        ip.ctx.oblige("SemaphoreAdapter.max_value/post:reports_the_max_value_given_to_the_adapter", z3.And(z3.BoolVal(exc is None), ip.term(ret, OPTINT) == pre.f(S_, "_max_value", a.self)) if exc is None else z3.BoolVal(False), "post")


UNITS[[u.__name__ for u in UNITS].index("SemaphoreAdapter_max_value")] = _SemMax


# ---- constructors: the parameters are stored as given, no backend object yet
class InitBase(AdapterBase):
    method = "__init__"
    is_init = True
    expect = None
    may_create = False

    def check_params_frame(self, ip, pre, post, s, nm, allow=()):
        pass


class LockAdapterInit(InitBase):
    cls, spec, props = L, ClassSpec(L), P9

    def make_args(self, ip):
        return [], types.SimpleNamespace()

    def make_kwargs(self, ip):
        self.fast = Sym(z3.Bool("fast_acquire"), BOOL)
        return {"fast_acquire": self.fast}

    def on_exit(self, ip, pre, a, exc, ret):
        super().on_exit(ip, pre, a, exc, ret)
        post = H(ip.st)
        ip.ctx.oblige("LockAdapter.__init__/post:stores_its_parameter_and_has_no_backend_object_yet", z3.And(z3.BoolVal(exc is None), inner(post, L, a.self) == 0, post.f(L, "_fast_acquire", a.self) == self.fast.t), "post")


class SemaphoreAdapterInit(InitBase):
    cls, spec = S_, ClassSpec(S_)

    def make_args(self, ip):
        self.initial = Sym(z3.Int("initial_value"), INT)
        self.maxv = Sym(z3.Int("max_value"), OPTINT)
        ip.st.assume(self.maxv.t >= -1)
        return [self.initial], types.SimpleNamespace()

    def make_kwargs(self, ip):
        return {"max_value": self.maxv, "fast_acquire": Sym(z3.Bool("fast_acquire"), BOOL)}

    def on_exit(self, ip, pre, a, exc, ret):
        super().on_exit(ip, pre, a, exc, ret)
        post = H(ip.st)
        s = a.self
        valid = z3.And(self.initial.t >= 0, z3.Or(self.maxv.t == -1, self.maxv.t >= self.initial.t))
        if exc is not None:
            ip.ctx.oblige("SemaphoreAdapter.__init__/post:refuses_only_invalid_parameters", z3.And(z3.BoolVal(exc.pycls is not None and exc.pycls.__name__ in ("ValueError", "TypeError")), z3.Not(valid)), "post")
        else:
            ip.ctx.oblige("SemaphoreAdapter.__init__/post:accepts_only_valid_parameters_and_stores_them", z3.And(valid, inner(post, S_, s) == 0, post.f(S_, "_initial_value", s) == self.initial.t, post.f(S_, "_max_value", s) == self.maxv.t), "post")


class LimiterAdapterInit(InitBase):
    cls, spec = C_, ClassSpec(C_)

    def make_args(self, ip):
        self.total = Sym(z3.Int("total_tokens"), INTINF)
        ip.st.assume(z3.Or(self.total.t >= -1, self.total.t < -1))
        return [self.total], types.SimpleNamespace()

    def on_exit(self, ip, pre, a, exc, ret):
        super().on_exit(ip, pre, a, exc, ret)
        post = H(ip.st)
        s = a.self
        if exc is None:
            ip.ctx.oblige("CapacityLimiterAdapter.__init__/post:stores_the_total_and_has_no_backend_object_yet", z3.And(inner(post, C_, s) == 0, post.f(C_, "_total_tokens", s) == self.total.t), "post")


class LimiterTotalSetter(AdapterBase):
    """total_tokens = v: validated, then stored (no backend object yet) or forwarded to the backend object's setter"""

    cls, spec = C_, ClassSpec(C_)
    method = "total_tokens"
    is_setter = True
    expect = ("set", "total_tokens", 1)
    may_create = False

    def make_args(self, ip):
        self.value = Sym(z3.Int("new_total"), INTINF)
        self.args = [self.value]
        return [self.value], types.SimpleNamespace()

    def on_exit(self, ip, pre, a, exc, ret):
        s = a.self
        post = H(ip.st)
        nm = "CapacityLimiterAdapter.total_tokens.setter"
        self.check_creation(ip, pre, post, s, nm)
        ops = [e for e in self.log if e[0] in ("call", "get", "set")]
        v = self.value.t
        if not ops:
            if exc is not None:
                ip.ctx.oblige(f"{nm}/post:refuses_only_a_negative_total", z3.And(z3.BoolVal(exc.pycls is not None and exc.pycls.__name__ in ("ValueError", "TypeError")), v < -1, post.f(C_, "_total_tokens", s) == pre.f(C_, "_total_tokens", s)), "post")
            else:
                ip.ctx.oblige(f"{nm}/post:stored_locally_only_while_no_backend_object_exists", z3.And(inner(pre, C_, s) == 0, post.f(C_, "_total_tokens", s) == v, v >= -1), "post")
            return
        e = ops[0]
        ip.ctx.oblige(f"{nm}/post:forwarded_once_to_the_backend_objects_setter_with_the_same_value", z3.And(z3.BoolVal(len(ops) == 1 and e[0] == "set" and e[1] == "total_tokens" and len(e[3]) == 1 and isinstance(e[3][0], Sym) and e[3][0].t.eq(v)), e[2] == inner(pre, C_, s), inner(pre, C_, s) != 0, v >= -1), "post")
        ip.ctx.oblige(f"{nm}/post:the_backend_outcome_is_the_outcome", z3.BoolVal((exc is None and e[5] is None) or (exc is not None and exc is e[5])), "post")


UNITS += [LockAdapterInit, SemaphoreAdapterInit, LimiterAdapterInit, LimiterTotalSetter]
