"""Side-car contracts for anyio, read by segvc."""
