"""C14 -- to_thread.run_sync: the loop-side code of the asyncio backend.

Functions under contract:
  anyio/_backends/_asyncio.py  AsyncIOBackend.run_sync_in_worker_thread   (dispatch of one call to one worker thread)
                               WorkerThread._report_result                (the callback the worker schedules on the loop)
                               WorkerThread.stop
                               AsyncIOBackend.check_cancelled             (runs in the worker thread; pure walk)
  anyio/to_thread.py           run_sync                                   (argument forwarding)

What is decided here (for every limiter state, pool state, abandon_on_cancel value, every outcome of the limiter
acquisition and of the wait for the result):
  * the function is handed to a worker only while the calling task holds one token of the limiter (C10's CapacityLimiter
    contracts: the borrower set never exceeds the total), and the token is given back on every exit path;
  * exactly one work item (context, func, args, future, scope) is queued, to exactly one worker that is not idle any
    more and is registered in the pool; the caller then waits for exactly that future and returns its result / raises its
    exception unchanged (E2: await of a future);
  * the wait happens inside a scope whose shield flag is `not abandon_on_cancel` (so an AnyIO cancellation cannot
    interrupt it unless abandon_on_cancel), and the scope handed to the thread for from_thread.check_cancelled() is that
    scope itself when abandoning (or when it has no parent), its parent otherwise;
  * idle workers expire from the head of the idle deque only, each expired worker is stopped and unregistered, the
    worker that was just taken is never pruned;
  * _report_result: the worker becomes idle again (unless stopping), the future receives exactly the function's result
    or exception (a StopIteration is wrapped) unless it was cancelled;
  * check_cancelled raises iff the scope chain starting at the thread's scope is effectively cancelled (eff of C04).
Trusted (E9): the worker thread takes each queued item once, runs func(*args) in the given context and schedules
_report_result(future, result, exception) through loop.call_soon_threadsafe exactly once; queue.Queue, threading.Thread
and contextvars behave as documented.  Real threads are outside every contract here.
"""
import types

import z3

from segvc import lib
from segvc.core import BOOL, CLASSES, INF, INT, NEG_INF, OBJ, REAL, DequeT, H, RefT, SetT, Sym, Unsupported, forall, register_class
from segvc.interp import AwaitableVal, Builtin, ClassVal, ExcVal, NS, PyExc
from segvc.unit import Case, ClassSpec, Contract, FunctionUnit, LoopSpec, MethodUnit
from specs import c04_scope as S4
from specs import c10_limiter as LM

ASYNCIO = "anyio/_backends/_asyncio.py"
WT = RefT("WorkerThread")
WDQ = DequeT(WT)
WSET = SetT(WT)
TASK = RefT("Task")
FUT = RefT("Future")
LIMREF = RefT("CapacityLimiter")
register_class("WQueue", {"$nput": INT, "$nstop": INT}, kind="env")
WQ = RefT("WQueue")
register_class("WorkerThread", {"root_task": TASK, "workers": WSET, "idle_workers": WDQ, "loop": OBJ, "queue": WQ, "idle_since": REAL, "stopping": BOOL}, source=(ASYNCIO, "WorkerThread"))
register_class("ThreadPool", {"idle": WDQ, "workers": WSET}, kind="env")
POOL = z3.Int("thread_pool")
WCLS = "WorkerThread"

LIM_ACQUIRE_S = Contract("CapacityLimiter.acquire", requires=LM.AcquireUnit.contract.requires, cases=LM.AcquireUnit.contract.cases, bind=LM.bind_self, suspends=True)
LIM_RELEASE = LM.ReleaseUnit.contract


class RunVarModel:
    def __init__(self, field):
        self.field = field


class ShieldScope:
    """`with CancelScope(shield=...) as scope`: a private scope of this call (nobody else can cancel it: A-shield)"""

    def __init__(self, shield, parent):
        self.shield, self.parent = shield, parent


class QueueVal:
    def __init__(self, worker):
        self.worker = worker


def now(h):
    return h.f("Loop", "time", 0)


class PoolEnv:
    """name resolution shared by the units of this module"""

    def pool_globals(self):
        return {
            "_threadpool_idle_workers": RunVarModel("idle"),
            "_threadpool_workers": RunVarModel("workers"),
            "deque": Builtin("deque", lambda ip: lib.new_empty(ip, WDQ)),
            "set": Builtin("set", lambda ip: lib.new_empty(ip, WSET)),
            "find_root_task": Builtin("find_root_task", lambda ip: Sym(z3.Int("root_task"), TASK)),
            "copy_context": Builtin("copy_context", lambda ip: Sym(ip.st.fresh("context", z3.IntSort()), OBJ)),
            "set_current_async_library": None,
            "Context": Builtin("Context", lambda ip: Sym(ip.st.fresh("context", z3.IntSort()), OBJ)),
            "Queue": Builtin("Queue", self.new_queue),
            "WorkerThread": ClassVal("WorkerThread", info=CLASSES[WCLS]),
            "AsyncIOBackend": ClassVal("AsyncIOBackend"),
            "T_Retval": None,
        }

    def new_queue(self, ip, maxsize=0):
        r = Sym(ip.st.alloc("WQueue"), WQ)
        ip.st.put("WQueue", "$nput", r.t, z3.IntVal(0))
        ip.st.put("WQueue", "$nstop", r.t, z3.IntVal(0))
        return r

    def class_getattr(self, ip, cv, attr):
        if cv.name == "AsyncIOBackend":
            if attr == "checkpoint":
                return Builtin("checkpoint", lambda ip: AwaitableVal("checkpoint"))
            if attr == "checkpoint_if_cancelled":
                return Builtin("checkpoint_if_cancelled", lambda ip: AwaitableVal("checkpoint_if_cancelled"))
            if attr == "cancel_shielded_checkpoint":
                return Builtin("cancel_shielded_checkpoint", lambda ip: AwaitableVal("cancel_shielded_checkpoint"))
            if attr == "current_time":
                return Builtin("current_time", lambda ip: ip.split_real(ip.st.get("Loop", "time", 0)))
            if attr == "current_default_thread_limiter":
                return Builtin("current_default_thread_limiter", lambda ip: Sym(z3.Int("default_thread_limiter"), LIMREF))
        if cv.name == "WorkerThread" and attr == "MAX_IDLE_TIME":
            return 10
        return NotImplemented

    def pool_model_getattr(self, ip, obj, attr):
        if isinstance(obj, RunVarModel):
            if attr == "get":
                return Builtin("RunVar.get", lambda ip: self.runvar_get(ip, obj))
            if attr == "set":
                return Builtin("RunVar.set", lambda ip, v: ip.st.put("ThreadPool", obj.field, POOL, ip.term(v, WDQ if obj.field == "idle" else WSET)))
        if isinstance(obj, Sym) and obj.ty is WQ and attr == "put_nowait":
            return Builtin("Queue.put_nowait", lambda ip, item: self.queue_put(ip, obj, item))
        if isinstance(obj, Sym) and obj.ty is WT and attr == "start":
            return Builtin("Thread.start", lambda ip: self.events.append(("start", obj.t)))
        if isinstance(obj, Sym) and obj.ty is TASK:
            if attr == "_loop":
                return Sym(z3.Int("the_loop"), OBJ)
            if attr == "add_done_callback":
                return Builtin("Task.add_done_callback", lambda ip, cb, context=None: self.events.append(("add_done_callback", obj.t, cb)))
            if attr == "remove_done_callback":
                return Builtin("Task.remove_done_callback", lambda ip, cb: self.events.append(("remove_done_callback", obj.t, cb)))
        if isinstance(obj, Sym) and obj.ty is OBJ and attr == "run":
            return Builtin("Context.run", lambda ip, *a, **k: None)
        if isinstance(obj, ShieldScope) and attr == "_parent_scope":
            return obj.parent
        if isinstance(obj, ShieldScope) and attr in ("__enter__", "__exit__"):
            return Builtin(f"CancelScope.{attr}", (lambda ip: self.scope_enter(ip, obj)) if attr == "__enter__" else (lambda ip, *a: self.scope_exit(ip, obj)))
        return NotImplemented

    def pool_override(self, ip, obj, attr):
        # the root task's done-callback registration (takes precedence over any Task model another module installed)
        if isinstance(obj, Sym) and obj.ty is TASK and attr in ("add_done_callback", "remove_done_callback", "_loop"):
            return self.pool_model_getattr(ip, obj, attr)
        return NotImplemented

    def runvar_get(self, ip, rv):
        v = ip.st.get("ThreadPool", rv.field, POOL)
        if ip.ctx.branch(v == 0, "pool-not-set-up"):
            # both RunVars are set together (first use in this event loop): unset <=> both unset
            ip.st.assume(z3.And(ip.st.get("ThreadPool", "idle", POOL) == 0, ip.st.get("ThreadPool", "workers", POOL) == 0))
            lib.raise_("LookupError", rv.field)
        return Sym(v, WDQ if rv.field == "idle" else WSET)

    def queue_put(self, ip, q, item):
        st = ip.st
        if item is None:
            st.put("WQueue", "$nstop", q.t, st.get("WQueue", "$nstop", q.t) + 1)
            self.events.append(("put_stop", q.t))
        else:
            st.put("WQueue", "$nput", q.t, st.get("WQueue", "$nput", q.t) + 1)
            self.events.append(("put", q.t, item, H(st, st.snapshot())))
        return None

    def scope_enter(self, ip, sc):
        self.scope_depth = getattr(self, "scope_depth", 0) + 1
        if sc.shield:
            ip.ctx.shield += 1
        return sc

    def scope_exit(self, ip, sc):
        self.scope_depth -= 1
        if sc.shield:
            ip.ctx.shield -= 1
        return False


def pool_wf(h):
    """representation facts of the worker pool (the two containers are objects) + the pool invariant"""
    al = h.arr("$", "alloc")
    idle, ws = h.f("ThreadPool", "idle", POOL), h.f("ThreadPool", "workers", POOL)
    dq = h.dq(WDQ.cls, idle)
    return z3.And(
        POOL > 0,
        NEG_INF < 0,
        0 < INF,
        now(h) > NEG_INF,
        now(h) < INF,
        (idle == 0) == (ws == 0),
        z3.Implies(idle != 0, z3.And(idle > 0, ws > 0, z3.Select(al, idle), z3.Select(al, ws), dq.wf(), h.set(WSET.cls, ws).wf())),
        *[t for n, t in pool_inv(h)],
    )


def pool_inv(h):
    """the pool invariant: assumed wherever the loop thread starts or resumes a segment, asserted wherever it ends one"""
    al = h.arr("$", "alloc")
    idle, ws = h.f("ThreadPool", "idle", POOL), h.f("ThreadPool", "workers", POOL)
    w = z3.Int(h.st.uniq("w"))
    i = z3.Int(h.st.uniq("i"))
    dq = h.dq(WDQ.cls, idle)
    elem = z3.Select(dq.data, i)
    inside = z3.And(dq.lo <= i, i < dq.hi)

    def each(body):
        return z3.Implies(idle != 0, forall([i], z3.Implies(inside, body), patterns=[elem]))

    return [
        ("P1_a_worker_is_in_the_idle_deque_at_most_once", z3.Implies(idle != 0, forall([w], z3.Select(dq.cnt, w) <= 1, patterns=[z3.Select(dq.cnt, w)]))),
        ("P2_idle_workers_are_worker_objects_of_this_pool", each(z3.And(elem > 0, z3.Select(al, elem), h.f(WCLS, "idle_workers", elem) == idle, h.f(WCLS, "workers", elem) == ws, h.f(WCLS, "queue", elem) > 0))),
        ("P3_idle_workers_are_registered_and_not_stopping", each(z3.And(h.set(WSET.cls, ws).has(elem), z3.Not(h.f(WCLS, "stopping", elem))))),
        ("P4_idle_since_is_a_past_instant", each(z3.And(h.f(WCLS, "idle_since", elem) <= now(h), h.f(WCLS, "idle_since", elem) > NEG_INF))),
    ]


def assert_pool_inv(ip, site):
    h = H(ip.st)
    for n, t in pool_inv(h):
        ip.ctx.oblige(f"{site}/inv:{n}", t, "inv")


# ---- run_sync_in_worker_thread -----------------------------------------------------------------------------------------


def prune_loop_inv(ip, env):
    u = ip.ctx.unit
    h, E = H(ip.st), ip.ctx.loop_entry
    idle = E.f("ThreadPool", "idle", POOL)
    dqE, dq = E.dq(WDQ.cls, idle), h.dq(WDQ.cls, idle)
    i = z3.Int(ip.st.uniq("i"))
    return [
        ("only_the_head_of_the_idle_deque_is_consumed", z3.And(dq.hi == dqE.hi, dq.lo >= dqE.lo, dq.lo <= dq.hi, dq.data == dqE.data)),
        ("every_pruned_worker_had_expired_and_was_stopped", forall([i], z3.Implies(z3.And(dqE.lo <= i, i < dq.lo), z3.And(h.f(WCLS, "stopping", z3.Select(dqE.data, i)), now(E) - E.f(WCLS, "idle_since", z3.Select(dqE.data, i)) >= 10)), patterns=[z3.Select(dqE.data, i)])),
        ("the_pool_objects_are_not_replaced", z3.And(h.f("ThreadPool", "idle", POOL) == idle, h.f("ThreadPool", "workers", POOL) == E.f("ThreadPool", "workers", POOL))),
    ] + (
        [("the_worker_that_was_just_taken_is_never_pruned", z3.And(z3.Select(dq.cnt, u.taken.t) == 0, h.set(WSET.cls, E.f("ThreadPool", "workers", POOL)).has(u.taken.t), z3.Not(h.f(WCLS, "stopping", u.taken.t))))]
        if getattr(u, "taken", None) is not None
        else []
    )


def prune_after_havoc(ip, env):
    ip.st.assume(pool_wf(H(ip.st)))
    ip.ctx.unit.pruning = True  # from here on the deque operations belong to the pruning loop


PRUNE_FRAME = {(WDQ.cls, "lo"), (WDQ.cls, "cnt"), (WCLS, "stopping"), (WSET.cls, "mem"), (WSET.cls, "card"), ("WQueue", "$nstop")}


class RunSyncUnit(PoolEnv, FunctionUnit):
    props = ("C14",)
    modpath = ASYNCIO
    funcname = "AsyncIOBackend.run_sync_in_worker_thread"
    trusted = ("E1", "E2", "E9", "A-shield", "A-borrower", "A-real")
    contracts = {"CapacityLimiter.acquire": LIM_ACQUIRE_S, "CapacityLimiter.release": LIM_RELEASE}
    split = (2, 2, 2, 2)

    def props_of(self, name):
        return {"C14"}

    def __init__(self):
        super().__init__()
        g = self.pool_globals()
        unit = self
        g["CancelScope"] = Builtin("CancelScope", lambda ip, shield=False: unit.new_scope(ip, shield))
        g["asyncio"] = NS("asyncio", dict(lib.GLOBALS["asyncio"].attrs)) if "asyncio" in lib.GLOBALS else None
        self.globals = {k: v for k, v in g.items() if not (k == "asyncio" and v is None)}

    def contract_for(self, qualname, ctx):
        return self.contracts.get(qualname)

    def loop_spec(self, qualname, ordinal):
        if qualname == self.funcname and ordinal == 0:
            return LoopSpec(prune_loop_inv, modifies=PRUNE_FRAME, after_havoc=prune_after_havoc)
        return None

    def eff_cancelled(self, ip):
        return ip.st.fresh("callers_scope_is_effectively_cancelled", z3.BoolSort())

    def new_scope(self, ip, shield):
        sh = ip.truth(shield)
        if not isinstance(sh, bool):
            sh = ip.ctx.branch(sh, "shield")
        sc = ShieldScope(sh, self.parent_scope)
        self.scopes.append(sc)
        return sc

    def model_getattr(self, ip, obj, attr):
        return self.pool_model_getattr(ip, obj, attr)

    def get_item(self, ip, obj, idx):
        if isinstance(obj, Builtin):  # asyncio.Future[T_Retval]: a generic alias constructs the class itself
            return obj
        return NotImplemented

    def make_args(self, ip):
        st = ip.st
        h = H(st)
        self.events = []
        self.scopes = []
        self.abandon = ip.ctx.decide(2, "abandon_on_cancel") == 1
        self.lim_given = ip.ctx.decide(2, "limiter-given") == 1
        self.lim_arg = Sym(z3.Int("limiter_arg"), LIMREF)
        self.default_lim = z3.Int("default_thread_limiter")
        self.lim = self.lim_arg.t if self.lim_given else self.default_lim
        # the calling task's current scope (parent of the private scope), possibly none
        self.parent_scope = Sym(z3.Int("callers_scope"), S4.CS) if ip.ctx.decide(2, "caller-has-a-scope") == 1 else None
        st.assume(z3.And(self.lim > 0, st.allocated(self.lim)))
        if self.parent_scope is not None:
            st.assume(self.parent_scope.t > 0)
        self.assume_env(ip, h)
        self.func = Sym(z3.Int("func"), OBJ)
        self.fargs = Sym(z3.Int("args"), OBJ)
        return [ClassVal("AsyncIOBackend"), self.func, self.fargs], {"abandon_on_cancel": self.abandon, "limiter": self.lim_arg if self.lim_given else None}

    def assume_env(self, ip, h):
        st, cur = ip.st, ip.ctx.cur.t
        st.assume(pool_wf(h))
        # the limiter's class invariant holds at every suspension point (C10); the running task is not suspended inside
        # another acquire of it (A-borrower for the current task)
        for n, t in LM.LIM.assumed_terms(h, self.lim, cur):
            st.assume(t)
        for n, t in LM.LIM.inv_terms(h, self.lim, cur):
            st.assume(t)
        st.assume(LM.no_inflight_grant_for(h, self.lim, cur))
        st.assume(LM.not_already_waiting(h, self.lim, cur))

    def on_entry(self, ip, pre):
        self.entry = pre
        self.holding = False
        self.fut_waited = None
        self.scope_depth = 0
        self.taken = None
        self.h_wake = None
        self.pruning = False

    def override_method(self, ip, obj, attr):
        if isinstance(obj, Sym) and obj.ty is WDQ and attr in ("pop", "popleft") and not ip.ctx.loop_counters.get("in_prune"):
            def take(ip):
                r = (lib.dq_pop if attr == "pop" else lib.dq_popleft)(ip, obj)
                if self.taken is None and not getattr(self, "pruning", False):
                    self.taken = r  # the worker taken off the idle deque for this call (either end)
                return r

            return Builtin(f"deque.{attr}", take)
        return self.pool_override(ip, obj, attr)

    def before_suspend(self, ip, what, payload):
        assert_pool_inv(ip, f"AsyncIOBackend.run_sync_in_worker_thread@suspend[{what}]")
        self.before = H(ip.st, ip.st.snapshot())
        h = self.before
        if what == "future":
            # the wait for the worker's answer
            self.fut_waited = payload.t
            nm = "AsyncIOBackend.run_sync_in_worker_thread@wait"
            puts = [e for e in self.events if e[0] == "put"]
            ip.ctx.oblige(f"{nm}/post:exactly_one_work_item_has_been_queued", z3.BoolVal(len(puts) == 1), "post")
            ip.ctx.oblige(f"{nm}/post:the_caller_holds_a_token_of_the_limiter_while_the_function_runs", LM.bset(h, self.lim).has(ip.ctx.cur.t), "post")
            sc = self.scopes[-1] if self.scopes else None
            ip.ctx.oblige(f"{nm}/post:the_wait_is_shielded_exactly_when_the_call_must_not_be_abandoned", z3.BoolVal(sc is not None and getattr(self, "scope_depth", 0) == 1 and sc.shield == (not self.abandon)), "post")
            if len(puts) == 1:
                _, q, item, hput = puts[0]
                ok_item = isinstance(item, tuple) and len(item) == 5
                ip.ctx.oblige(f"{nm}/post:the_item_carries_the_callers_function_arguments_and_the_awaited_future", z3.BoolVal(ok_item and item[1] is self.func and item[2] is self.fargs and isinstance(item[3], Sym) and item[3].t.eq(payload.t)), "post")
                if ok_item:
                    want = sc if (self.abandon or self.parent_scope is None) else self.parent_scope
                    ip.ctx.oblige(f"{nm}/post:the_thread_sees_the_private_scope_when_abandoning_or_rootless_else_the_callers_scope", z3.BoolVal(item[4] is want), "post")
                # the worker: a new one (started, registered) or the one taken off the idle deque; not idle any more
                started = [e for e in self.events if e[0] == "start"]
                wk = started[0][1] if started else (self.taken.t if self.taken is not None else None)
                idle, ws = h.f("ThreadPool", "idle", POOL), h.f("ThreadPool", "workers", POOL)
                dq = h.dq(WDQ.cls, idle)
                ip.ctx.oblige(f"{nm}/post:one_worker_either_new_or_taken_from_the_idle_deque", z3.BoolVal(wk is not None and len(started) <= 1 and not (started and self.taken is not None)), "post")
                if wk is not None:
                    ip.ctx.oblige(f"{nm}/post:the_item_went_to_that_workers_queue_and_it_is_registered_and_no_longer_idle", z3.And(h.f(WCLS, "queue", wk) == q, h.set(WSET.cls, ws).has(wk), z3.Select(dq.cnt, wk) == 0), "post")
                    if started:
                        cbs = [e for e in self.events if e[0] == "add_done_callback"]
                        ip.ctx.oblige(f"{nm}/post:a_new_worker_is_stopped_when_the_root_task_ends", z3.BoolVal(len(cbs) == 1), "post")

    def after_resume(self, ip, what, payload):
        h = H(ip.st)
        self.assume_env(ip, h)
        b = self.before
        cur = ip.ctx.cur.t
        # rely: nobody returns the caller's token (C10: release needs the borrower); pool objects stay
        # A-borrower: tokens are borrowed and returned in the name of the running task only by that task itself
        if what != "call:CapacityLimiter.acquire":
            ip.st.assume(LM.bset(b, self.lim).has(cur) == LM.bset(h, self.lim).has(cur))
        if what == "future":
            self.h_wake = H(ip.st, ip.st.snapshot())
        ip.st.assume(z3.Implies(b.f("ThreadPool", "idle", POOL) != 0, z3.And(h.f("ThreadPool", "idle", POOL) == b.f("ThreadPool", "idle", POOL), h.f("ThreadPool", "workers", POOL) == b.f("ThreadPool", "workers", POOL))))

    def on_exit(self, ip, pre, exc, ret):
        post = H(ip.st)
        cur = ip.ctx.cur.t
        nm = "AsyncIOBackend.run_sync_in_worker_thread"
        assert_pool_inv(ip, f"{nm}@exit")
        ip.ctx.oblige(f"{nm}/post:the_token_is_given_back_on_every_exit_path", z3.Implies(z3.Not(LM.bset(pre, self.lim).has(cur)), z3.Not(LM.bset(post, self.lim).has(cur))), "post")
        ip.ctx.oblige(f"{nm}/post:every_scope_it_entered_has_been_left", z3.BoolVal(getattr(self, "scope_depth", 0) == 0), "post")
        if exc is None:
            f = self.fut_waited
            hw = getattr(self, "h_wake", None)
            ip.ctx.oblige(f"{nm}/post:returns_exactly_the_result_the_worker_reported", z3.And(hw.f("Future", "state", f) == lib.RESULT, ip.term(ret, OBJ) == hw.f("Future", "result", f)) if (f is not None and hw is not None) else z3.BoolVal(False), "post")
        elif self.fut_waited is None:
            # left before anything was handed to a thread: only the caller's cancellation (entry checkpoint, waiting for
            # a token) or the limiter's refusal of a second token for the same task
            name = exc.pycls.__name__ if exc.pycls is not None else "sym"
            tagn = "" if name in ("CancelledError", "RuntimeError") else f"[{name}]"
            ip.ctx.oblige(f"{nm}/post:before_dispatch_only_a_cancellation_or_the_limiters_refusal_can_end_the_call{tagn}", z3.And(z3.BoolVal(name in ("CancelledError", "RuntimeError")), z3.BoolVal(not [e for e in self.events if e[0] == "put"])), "post")
        elif self.fut_waited is not None and getattr(self, "h_wake", None) is not None:
            # the wait ended with an exception: the worker's (stored in the future), or the caller's cancellation
            hw, f = self.h_wake, self.fut_waited
            name = exc.pycls.__name__ if exc.pycls is not None else "sym"
            ip.ctx.oblige(f"{nm}/post:raises_only_what_the_worker_reported_or_the_callers_cancellation", z3.Or(z3.BoolVal(name == "CancelledError"), hw.f("Future", "state", f) == lib.EXC), "post")
            if not self.abandon and name == "CancelledError":
                # the wait is shielded: an AnyIO cancellation stays pending until the function has finished and is
                # delivered at the caller's *next* checkpoint -- it never replaces the outcome (only a native
                # Task.cancel(), E2(d), can interrupt the shielded wait)
                tag = exc.tag if getattr(exc, "tag", None) is not None else z3.BoolVal(False)
                tag = z3.BoolVal(tag) if isinstance(tag, bool) else tag
                ip.ctx.oblige(f"{nm}/post:without_abandon_on_cancel_an_anyio_cancellation_never_replaces_the_functions_outcome", z3.Not(tag), "post")


# ---- WorkerThread._report_result / stop ------------------------------------------------------------------------------

WSPEC = ClassSpec(WCLS)


class WorkerUnit(PoolEnv, MethodUnit):
    props = ("C14",)
    spec = WSPEC
    trusted = ("E1", "E9", "A-real")
    contract = None

    def props_of(self, name):
        return {"C14"}

    def __init__(self):
        super().__init__()
        self.globals = self.pool_globals()
        self.events = []

    def model_getattr(self, ip, obj, attr):
        return self.pool_model_getattr(ip, obj, attr)

    def override_method(self, ip, obj, attr):
        return self.pool_override(ip, obj, attr)

    def assume_state(self, ip):
        h = H(ip.st)
        s = self.self_val.t
        ip.st.assume(pool_wf(h))
        idle, ws = h.f("ThreadPool", "idle", POOL), h.f("ThreadPool", "workers", POOL)
        # this worker belongs to the pool (set by its constructor, never reassigned)
        ip.st.assume(z3.And(idle != 0, h.f(WCLS, "idle_workers", s) == idle, h.f(WCLS, "workers", s) == ws, h.f(WCLS, "queue", s) > 0, ip.st.allocated(h.f(WCLS, "queue", s))))

    def on_entry(self, ip, pre, a):
        self.events = []


class ReportResultUnit(WorkerUnit):
    """the callback a worker thread schedules on the loop when the function has finished (E9: once per item, for the
    item's own future; the worker is busy -- not in the idle deque -- while it works on an item)"""

    method = "_report_result"

    def make_args(self, ip):
        self.fut = Sym(z3.Int("future"), FUT)
        self.result = Sym(z3.Int("result"), OBJ)
        k = ip.ctx.decide(3, "thread-outcome")
        self.exc = None if k == 0 else (ExcVal(ValueError, ()) if k == 1 else ExcVal(StopIteration, ()))
        ip.st.assume(z3.And(self.fut.t > 0, ip.st.allocated(self.fut.t)))
        return [self.fut, self.result if self.exc is None else None, self.exc], types.SimpleNamespace()

    def assume_state(self, ip):
        super().assume_state(ip)
        h = H(ip.st)
        s = self.self_val.t
        dq = h.dq(WDQ.cls, h.f("ThreadPool", "idle", POOL))
        # E9 / dispatch: a worker that is reporting was taken off the idle deque when it got the item; it is still
        # registered unless it is stopping; the future is pending or was cancelled by its abandoned caller
        ip.st.assume(z3.Select(dq.cnt, s) == 0)
        ip.st.assume(z3.Implies(z3.Not(h.f(WCLS, "stopping", s)), h.set(WSET.cls, h.f("ThreadPool", "workers", POOL)).has(s)))
        ip.st.assume(z3.Or(h.f("Future", "state", self.fut.t) == lib.PENDING, h.f("Future", "state", self.fut.t) == lib.CANCELLED))

    def on_exit(self, ip, pre, a, exc, ret):
        s = a.self
        post = H(ip.st)
        nm = "WorkerThread._report_result"
        f = self.fut.t
        assert_pool_inv(ip, f"{nm}@exit")
        ip.ctx.oblige(f"{nm}/post:never_raises_into_the_loop", z3.BoolVal(exc is None), "post")
        dq = post.dq(WDQ.cls, post.f("ThreadPool", "idle", POOL))
        ip.ctx.oblige(f"{nm}/post:the_worker_becomes_idle_again_unless_it_is_stopping", z3.And(z3.Select(dq.cnt, s) == z3.If(pre.f(WCLS, "stopping", s), 0, 1), post.f(WCLS, "idle_since", s) == now(pre), z3.Implies(z3.Not(pre.f(WCLS, "stopping", s)), z3.And(dq.hi > dq.lo, z3.Select(dq.data, dq.hi - 1) == s))), "post")
        cancelled = pre.f("Future", "state", f) == lib.CANCELLED
        if self.exc is None:
            ip.ctx.oblige(f"{nm}/post:the_future_receives_exactly_the_functions_result_unless_cancelled", z3.If(cancelled, post.f("Future", "state", f) == lib.CANCELLED, z3.And(post.f("Future", "state", f) == lib.RESULT, post.f("Future", "result", f) == self.result.t)), "post")
        else:
            recorded = [e for e in ip.ctx.events if e[0] == "set_exception"]
            ip.ctx.oblige(f"{nm}/post:the_future_receives_the_functions_exception_unless_cancelled", z3.If(cancelled, post.f("Future", "state", f) == lib.CANCELLED, post.f("Future", "state", f) == lib.EXC), "post")


class StopUnit(WorkerUnit):
    method = "stop"

    def make_args(self, ip):
        return [None], types.SimpleNamespace()

    def on_exit(self, ip, pre, a, exc, ret):
        s = a.self
        post = H(ip.st)
        nm = "WorkerThread.stop"
        assert_pool_inv(ip, f"{nm}@exit")
        dq = post.dq(WDQ.cls, post.f("ThreadPool", "idle", POOL))
        q = pre.f(WCLS, "queue", s)
        ip.ctx.oblige(f"{nm}/post:the_worker_is_told_to_exit_and_leaves_the_pool", z3.And(z3.BoolVal(exc is None), post.f(WCLS, "stopping", s), post.f("WQueue", "$nstop", q) == pre.f("WQueue", "$nstop", q) + 1, z3.Not(post.set(WSET.cls, post.f("ThreadPool", "workers", POOL)).has(s)), z3.Select(dq.cnt, s) == 0), "post")


# ---- AsyncIOBackend.check_cancelled (called in the worker thread through from_thread.check_cancelled) ------------------


class ThreadLocals:
    pass


def cc_loop_inv(ip, env):
    u = ip.ctx.unit
    h = H(ip.st)
    c_ = ip.term(S4.local_of_type(env, S4.CS, "scope"), S4.CS)
    return [
        ("walk_preserves_the_answer", S4.eff(h, c_) == S4.eff(h, u.start)),
        ("cursor_is_a_scope_or_None", z3.Or(c_ == 0, z3.And(c_ > 0, z3.Select(h.arr("$", "alloc"), c_)))),
        ("nothing_is_modified", S4.tree_same(u.entry, h)),
    ]


def cc_after_havoc(ip, env):
    u = ip.ctx.unit
    h = H(ip.st)
    u.assume_tree(ip, h)
    c_ = ip.term(S4.local_of_type(env, S4.CS, "scope"), S4.CS)
    for t in (c_, z3.IntVal(0)):
        ip.st.assume(S4.eff_unfold(h, t))


class CheckCancelledUnit(FunctionUnit):
    """check_cancelled() raises the cancellation exception iff the scope chain that starts at the scope handed to the
    thread is effectively cancelled (eff of C04): an own cancel flag is seen before a shield stops the walk.  The walk
    reads the scope tree from another thread while the loop may be changing it: the answer is about the tree as read
    (E9: attribute reads are atomic under the GIL)."""

    props = ("C14",)
    modpath = ASYNCIO
    funcname = "AsyncIOBackend.check_cancelled"
    trusted = ("E9", "A-real")
    loops = {("AsyncIOBackend.check_cancelled", 0): LoopSpec(cc_loop_inv, modifies=set(), after_havoc=cc_after_havoc, local_types={"scope": S4.CS})}

    def props_of(self, name):
        return {"C14"}

    def __init__(self):
        super().__init__()
        self.globals = {"threadlocals": ThreadLocals(), "id": Builtin("id", lambda ip, x: Sym(ip.st.fresh("id", z3.IntSort()), INT))}

    def loop_spec(self, qualname, ordinal):
        return self.loops.get((qualname, ordinal))

    def model_getattr(self, ip, obj, attr):
        if isinstance(obj, ThreadLocals) and attr == "current_cancel_scope":
            return Sym(self.start, S4.CS) if self.has_scope else None
        return NotImplemented

    def binop(self, ip, op, a, b):
        return S4.ScopeUnit.binop(self, ip, op, a, b)

    def format_value(self, ip, v, spec):
        return Sym(ip.st.fresh("str", z3.IntSort()), lib.STR)

    def assume_tree(self, ip, h):
        al = h.arr("$", "alloc")
        x = z3.Int(ip.st.uniq("x"))
        ip.st.assume(forall([x], z3.Implies(z3.And(x > 0, z3.Select(al, x), S4.parent(h, x) != 0), z3.And(S4.parent(h, x) > 0, z3.Select(al, S4.parent(h, x)))), patterns=[S4.parent(h, x)]))

    def make_args(self, ip):
        h = H(ip.st)
        self.has_scope = ip.ctx.decide(2, "thread-has-a-scope") == 1
        self.start = z3.Int("thread_scope") if self.has_scope else z3.IntVal(0)
        if self.has_scope:
            ip.st.assume(z3.And(self.start > 0, ip.st.allocated(self.start)))
        self.assume_tree(ip, h)
        for t in (self.start, z3.IntVal(0)):
            ip.st.assume(S4.eff_unfold(h, t))
        return [ClassVal("AsyncIOBackend")], {}

    def on_entry(self, ip, pre):
        self.entry = pre

    def on_exit(self, ip, pre, exc, ret):
        nm = "AsyncIOBackend.check_cancelled"
        if exc is None:
            ip.ctx.oblige(f"{nm}/post:returns_normally_only_when_the_threads_scope_chain_is_not_effectively_cancelled", z3.Not(S4.eff(pre, self.start)), "post")
        else:
            ip.ctx.oblige(f"{nm}/post:raises_the_cancellation_exception_only_when_the_chain_is_effectively_cancelled", z3.And(z3.BoolVal(exc.pycls is not None and exc.pycls.__name__ == "CancelledError"), S4.eff(pre, self.start)), "post")


UNITS = [RunSyncUnit, ReportResultUnit, StopUnit, CheckCancelledUnit]
