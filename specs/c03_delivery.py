"""C03 / C05 (and part (b) of C04) -- the cancellation delivery walk of the asyncio CancelScope.

Functions under contract (anyio/_backends/_asyncio.py):
  CancelScope._deliver_cancellation(origin)      the recursive walk over member tasks and child scopes
  CancelScope._restart_cancellation_in_parent()  the walk to the nearest cancelled ancestor
(their contracts DELIVER / RESTART were *assumed* by the C04/C06 units; with this module they are proved, and the
stronger clauses proved here are what those units -- __enter__, __exit__, cancel, _timeout -- now assume at their calls).

Spec functions over the scope tree (uninterpreted per heap snapshot, unfolded explicitly; S ranges over scopes):
  REACH(S, t) = t in S._tasks  or  exists child c of S: not c.shield and not c.cancel_called and REACH(c, t)
  LIVE(S)     = (exists t in S._tasks: not t.done())  or  exists child c of S: not c.shield and not c.cancel_called and LIVE(c)
  NEAR(S)     = None if S is None; S if S.cancel_called; None if S.shield; else NEAR(S.parent)

What is proved of one call  ret = S._deliver_cancellation(origin)  (origin.cancel_called is the precondition):
  C03  not ret  =>  not LIVE(S)                      an idle answer means no live task is reachable from S
  C03  every member task t of S that is eligible (not done, no cancellation already on its way, not the running task,
       started or the host, and not waiting on a finished future) has got a cancel() request -- or the future it waits
       on has been cancelled by this very walk
  C03  origin is S  =>  (S._cancel_handle is not None) == ret, and a new handle is a fresh pending callback
  C04b a task's cancellation state changes only if REACH(S, t): shielded and separately cancelled children are skipped
  C05a origin._pending_uncancellations grows by exactly the number of cancel() requests made on origin's host task,
       no other scope's counter changes
and of  S._restart_cancellation_in_parent():  with n = NEAR(S.parent):  n is None and nothing changes, or n has a
delivery scheduled afterwards (n._cancel_handle is not None) or not LIVE(n).

Not proved here (stated in the evidence): the *liveness* composition of C03 -- that the chain of rescheduled callbacks
eventually reaches a task that keeps catching cancellations -- needs a fairness argument over loop iterations; the
contracts give its per-iteration safety core.  Termination of the recursion (the scope tree is finite and acyclic) is
not proved.  REACH(origin, t) => the scope of t is effectively cancelled: induction over the tree, pen and paper.
"""
import types

import z3

from segvc import lib
from segvc.core import BOOL, CLASSES, H, RefT, Sym, forall, register_class
from segvc.interp import AwaitableVal, Builtin, ClassVal
from segvc.unit import Case, Contract, FunctionUnit, LoopSpec
from specs import c04_scope as S4
from specs.c04_scope import C, CHILDREN, CS, MEMBERS, SCOPE, TASK, ScopeUnit, cc, chandle, children, host, members, parent, pending_, shield

FUT = RefT("Future")
PENDING, CANCELLED = lib.PENDING, lib.CANCELLED


# ---- spec functions ----------------------------------------------------------------------------------


def _fn2(h, name, doms, rng, *arrays):
    cache = h.st.__dict__.setdefault("_spec_fns", {})
    key = (name,) + tuple(a.get_id() for a in arrays)
    if key not in cache:
        cache[key] = (z3.Function(f"{name}!{len(cache)}", *doms, rng), arrays)
    return cache[key][0]


def _tree_arrays(h):
    return (h.arr(C, "_cancel_called"), h.arr(C, "_shield"), h.arr(C, "_child_scopes"), h.arr(C, "_tasks"), h.arr(CHILDREN.cls, "mem"), h.arr(MEMBERS.cls, "mem"))


def reach(h, s, t):
    return _fn2(h, "reach", (z3.IntSort(), z3.IntSort()), z3.BoolSort(), *_tree_arrays(h))(s, t)


def live(h, s):
    return _fn2(h, "live", (z3.IntSort(),), z3.BoolSort(), *_tree_arrays(h), h.arr("Task", "done"))(s)


def near(h, s):
    return _fn2(h, "near", (z3.IntSort(),), z3.IntSort(), h.arr(C, "_cancel_called"), h.arr(C, "_shield"), h.arr(C, "_parent_scope"))(s)


def near_unfold(h, s):
    return near(h, s) == z3.If(s == 0, 0, z3.If(cc(h, s), s, z3.If(shield(h, s), 0, near(h, parent(h, s)))))


def passable(h, c):
    """the walk descends into child c"""
    return z3.And(z3.Not(shield(h, c)), z3.Not(cc(h, c)))


def reach_intro(h, s):
    """the two <= instances of REACH's definition at s (the proof only ever needs this direction)"""
    t, c = z3.Int(h.st.uniq("t")), z3.Int(h.st.uniq("c"))
    return z3.And(
        forall([t], z3.Implies(members(h, s).has(t), reach(h, s, t)), patterns=[reach(h, s, t)]),
        forall([c, t], z3.Implies(z3.And(children(h, s).has(c), passable(h, c), reach(h, c, t)), reach(h, s, t)), patterns=[reach(h, c, t)]),
    )


def live_elim(h, s):
    """the => direction of LIVE's definition at s, with Skolem witnesses"""
    t0, c0 = h.st.fresh("live_task", z3.IntSort()), h.st.fresh("live_child", z3.IntSort())
    return z3.Implies(live(h, s), z3.Or(z3.And(members(h, s).has(t0), z3.Not(h.f("Task", "done", t0))), z3.And(children(h, s).has(c0), passable(h, c0), live(h, c0))))


def live_intro(h, s):
    """the <= instances of LIVE's definition at s"""
    t, c = z3.Int(h.st.uniq("t")), z3.Int(h.st.uniq("c"))
    return z3.And(
        forall([t], z3.Implies(z3.And(members(h, s).has(t), z3.Not(h.f("Task", "done", t))), live(h, s)), patterns=[members(h, s).has(t)]),
        forall([c], z3.Implies(z3.And(children(h, s).has(c), passable(h, c), live(h, c)), live(h, s)), patterns=[live(h, c)]),
    )


def tf(h, n, t):
    return h.f("Task", n, t)


def fstate(h, x):
    return h.f("Future", "state", x)


def changed(a, b, t):
    return z3.Or(tf(a, "ncancel", t) != tf(b, "ncancel", t), tf(a, "cancelling", t) != tf(b, "cancelling", t), tf(a, "must_cancel", t) != tf(b, "must_cancel", t))


def eligible(h, s, cur, t):
    w = tf(h, "fut_waiter", t)
    return z3.And(z3.Not(tf(h, "done", t)), z3.Not(tf(h, "must_cancel", t)), t != cur, z3.Or(t == host(h, s), tf(h, "started", t)), z3.Or(w == 0, fstate(h, w) == PENDING))


def served(pre, now_, t):
    """t has got a cancel() request, or the future it was waiting on has been cancelled by the walk"""
    w = tf(pre, "fut_waiter", t)
    return z3.Or(tf(now_, "ncancel", t) > tf(pre, "ncancel", t), z3.And(w != 0, fstate(now_, w) == CANCELLED))


def counters_balance(pre, now_, origin):
    ho = host(pre, origin)
    x = z3.Int(pre.st.uniq("x"))
    return z3.And(
        pending_(now_, origin) - pending_(pre, origin) == z3.If(ho != 0, tf(now_, "ncancel", ho) - tf(pre, "ncancel", ho), 0),
        forall([x], z3.Implies(x != origin, pending_(now_, x) == pending_(pre, x)), patterns=[pending_(now_, x)]),
    )


def monotone(pre, now_):
    x = z3.Int(pre.st.uniq("x"))
    return z3.And(
        forall([x], z3.Or(fstate(pre, x) == fstate(now_, x), z3.And(fstate(pre, x) == PENDING, fstate(now_, x) == CANCELLED, pre.f("Future", "$awaited", x))), patterns=[fstate(now_, x)]),
        forall([x], tf(now_, "ncancel", x) >= tf(pre, "ncancel", x), patterns=[tf(now_, "ncancel", x)]),
    )


def handles_kept(pre, now_, origin):
    x = z3.Int(pre.st.uniq("x"))
    return z3.And(
        forall([x], z3.Implies(z3.Select(pre.arr("$", "alloc"), x), z3.And(S4.hwhen(now_, x) == S4.hwhen(pre, x), S4.hcancelled(now_, x) == S4.hcancelled(pre, x), pre.f("Handle", "cb", x) == now_.f("Handle", "cb", x))), patterns=[S4.hwhen(now_, x)]),
        forall([x], z3.Implies(x != origin, chandle(now_, x) == chandle(pre, x)), patterns=[chandle(now_, x)]),
    )


# ---- the contracts --------------------------------------------------------------------------------------------


def bind_deliver(ip, args, kwargs):
    return types.SimpleNamespace(self=args[0].t, origin=ip.term(args[1], CS), cur=ip.ctx.cur.t)


def deliver_post(pre, post, a, ret):
    s, o = a.self, a.origin
    t = z3.Int(pre.st.uniq("t"))
    r = ret.t if isinstance(ret, Sym) else (ret if isinstance(ret, z3.ExprRef) else z3.BoolVal(bool(ret)))
    return S4.delivery_post(pre, post, a, ret) + [
        ("C03.an_idle_answer_means_no_live_task_is_reachable", z3.Implies(z3.Not(r), z3.Not(live(pre, s)))),
        ("C05.a_retry_is_asked_for_only_while_a_live_task_is_reachable", z3.Implies(r, live(pre, s))),
        ("C03.every_eligible_member_task_gets_a_cancel_request", forall([t], z3.Implies(z3.And(members(pre, s).has(t), eligible(pre, s, a.cur, t)), served(pre, post, t)), patterns=[members(pre, s).has(t)])),
        ("C03.the_callback_is_rescheduled_iff_a_retry_is_needed", z3.Implies(o == s, z3.And((chandle(post, s) != 0) == r, z3.Implies(r, z3.And(chandle(post, s) > 0, z3.Not(z3.Select(pre.arr("$", "alloc"), chandle(post, s))), z3.Not(S4.hcancelled(post, chandle(post, s)))))))),
        ("C04.only_tasks_reachable_without_crossing_a_shield_are_cancelled", forall([t], z3.Implies(changed(pre, post, t), reach(pre, s, t)), patterns=[tf(post, "ncancel", t)])),
        ("C05.one_owed_uncancellation_per_cancel_request_on_the_origins_host", counters_balance(pre, post, o)),
        ("cancellation_requests_and_futures_are_monotone", monotone(pre, post)),
        ("other_delivery_handles_untouched", handles_kept(pre, post, o)),
    ]


def deliver_requires(h, a):
    return [("origin_is_a_cancelled_scope", z3.And(a.origin > 0, z3.Select(h.arr("$", "alloc"), a.origin), cc(h, a.origin)))]


S4.DELIVER.requires = deliver_requires
S4.DELIVER.bind = bind_deliver
S4.DELIVER.cases[0].ensures = deliver_post


def restart_post(pre, post, a, ret):
    s = a.self
    n = near(pre, parent(pre, s))
    x = z3.Int(pre.st.uniq("x"))
    D = lambda h, y: h.f(C, "$depth", y)  # noqa: E731
    return S4.delivery_post(pre, post, a, ret) + [
        ("C03.the_nearest_cancelled_ancestor_has_a_delivery_scheduled_or_no_live_task", z3.Implies(n != 0, z3.Or(chandle(post, n) != 0, z3.Not(live(pre, n))))),
        ("C03.nothing_happens_without_a_visible_cancelled_ancestor", z3.Implies(n == 0, z3.And(*[pre.arr(*k) == post.arr(*k) for k in sorted(S4.DELIVERY_FRAME)]))),
        ("C05.only_the_counter_of_that_ancestor_may_grow", forall([x], z3.Implies(pending_(post, x) != pending_(pre, x), z3.And(x == n, D(pre, x) < D(pre, s))), patterns=[pending_(post, x)])),
        ("cancellation_requests_and_futures_are_monotone", monotone(pre, post)),
        ("other_delivery_handles_untouched", handles_kept(pre, post, n)),
    ]


S4.RESTART.cases[0].ensures = restart_post

# ---- environment --------------------------------------------------------------------------------------------------


def loop_call_soon(ip, cb, *args):
    st = ip.st
    r = Sym(st.alloc("Handle"), S4.HANDLE)
    st.put("Handle", "cancelled", r.t, z3.BoolVal(False))
    st.put("Handle", "cb", r.t, z3.IntVal(0))
    ip.ctx.events.append(("call_soon", cb, args))
    return r


class DeliveryBase(ScopeUnit):
    props = ("C03", "C04", "C05")
    trusted = ("E1", "E3", "E4", "A-walk", "A-sets")
    globals = dict(ScopeUnit.globals, _task_started=Builtin("_task_started", lambda ip, t: Sym(ip.st.get("Task", "started", t.t), BOOL)))

    def props_of(self, name):
        for p in ("C03", "C04", "C05"):
            if f"{p}." in name:
                return {p}
        return {"C03", "C05"}

    def model_getattr(self, ip, obj, attr):
        if isinstance(obj, S4.LoopVal) and attr == "call_soon":
            return Builtin("loop.call_soon", loop_call_soon)
        if isinstance(obj, Sym) and obj.ty is TASK:
            if attr == "_must_cancel":
                return Sym(ip.st.get("Task", "must_cancel", obj.t), BOOL)
            if attr == "_fut_waiter":
                return Sym(ip.st.get("Task", "fut_waiter", obj.t), FUT)
        return super().model_getattr(ip, obj, attr)

    def isinstance(self, ip, x, cls):
        # E3: a task's _fut_waiter is None or a future
        if isinstance(x, Sym) and x.ty is FUT:
            return Sym(x.t != 0, BOOL)
        if x is None:
            return False
        return NotImplemented

    def assume_state(self, ip):
        super().assume_state(ip)
        self.delivery_facts(ip, H(ip.st))

    def delivery_facts(self, ip, h):
        s = self.self_val.t
        ip.st.assume(reach_intro(h, s))
        ip.st.assume(live_intro(h, s))
        x = z3.Int(ip.st.uniq("x"))
        # type invariant of the two sets: they hold scope / task objects
        al = h.arr("$", "alloc")
        ip.st.assume(forall([x], z3.Implies(children(h, s).has(x), z3.And(x > 0, z3.Select(al, x))), patterns=[children(h, s).has(x)]))
        ip.st.assume(forall([x], z3.Implies(members(h, s).has(x), x > 0), patterns=[members(h, s).has(x)]))
        # E3: a task's waiter is None or an allocated future; counters are natural numbers
        ip.st.assume(forall([x], z3.And(tf(h, "fut_waiter", x) >= 0, tf(h, "ncancel", x) >= 0, z3.Implies(tf(h, "fut_waiter", x) != 0, h.f("Future", "$awaited", tf(h, "fut_waiter", x)))), patterns=[tf(h, "fut_waiter", x)]))


# ---- _deliver_cancellation ---------------------------------------------------------------------------------------


def _entry(ip):
    return ip.ctx.unit.seg


def tasks_loop_inv(ip, env):
    u = ip.ctx.unit
    h, E = H(ip.st), u.seg
    s, o, cur = u.self_val.t, u.origin, ip.ctx.cur.t
    V = ip.ctx.loop_visited
    sr = ip.truth(env.vars["should_retry"]) if "should_retry" in env.vars else None
    retry = z3.BoolVal(sr) if isinstance(sr, bool) else sr
    t = z3.Int(ip.st.uniq("t"))
    out = [
        ("C04.only_visited_members_are_touched", forall([t], z3.Implies(changed(E, h, t), z3.Select(V, t)), patterns=[tf(h, "ncancel", t)])),
        ("C03.every_visited_eligible_task_has_been_served", forall([t], z3.Implies(z3.And(z3.Select(V, t), eligible(E, s, cur, t)), served(E, h, t)), patterns=[z3.Select(V, t)])),
        ("C05.counters_balance", counters_balance(E, h, o)),
        ("monotone", monotone(E, h)),
    ]
    if retry is not None:
        out.insert(0, ("C03.no_retry_so_far_means_every_visited_task_is_done", z3.Implies(z3.Not(retry), forall([t], z3.Implies(z3.Select(V, t), tf(h, "done", t)), patterns=[z3.Select(V, t)]))))
        t2 = z3.Int(ip.st.uniq("t"))
        out.insert(1, ("C05.a_retry_is_backed_by_a_visited_task_that_is_not_done", z3.Implies(retry, z3.Exists([t2], z3.And(z3.Select(V, t2), z3.Not(tf(h, "done", t2)))))))
    return out


def children_loop_inv(ip, env):
    u = ip.ctx.unit
    h, E = H(ip.st), u.seg
    s, o, cur = u.self_val.t, u.origin, ip.ctx.cur.t
    V = ip.ctx.loop_visited
    sr = ip.truth(env.vars["should_retry"]) if "should_retry" in env.vars else None
    retry = z3.BoolVal(sr) if isinstance(sr, bool) else sr
    t, c = z3.Int(ip.st.uniq("t")), z3.Int(ip.st.uniq("c"))
    out = [
        ("C04.only_reachable_tasks_are_touched", forall([t], z3.Implies(changed(E, h, t), reach(E, s, t)), patterns=[tf(h, "ncancel", t)])),
        ("C03.every_eligible_member_has_been_served", forall([t], z3.Implies(z3.And(members(E, s).has(t), eligible(E, s, cur, t)), served(E, h, t)), patterns=[members(E, s).has(t)])),
        ("C05.counters_balance", counters_balance(E, h, o)),
        ("monotone", monotone(E, h)),
        ("handles_kept", handles_kept(E, h, o)),
    ]
    if retry is not None:
        out.insert(0, ("C05.a_retry_is_backed_by_a_live_task", z3.Implies(retry, live(E, s))))
        out.insert(
            0,
            (
                "C03.no_retry_so_far_means_no_live_member_and_no_live_visited_child",
                z3.Implies(z3.Not(retry), z3.And(forall([t], z3.Implies(members(E, s).has(t), tf(E, "done", t)), patterns=[members(E, s).has(t)]), forall([c], z3.Implies(z3.And(z3.Select(V, c), passable(E, c)), z3.Not(live(E, c))), patterns=[z3.Select(V, c)]))),
            ),
        )
    return out


def deliver_after_havoc(ip, env):
    u = ip.ctx.unit
    h = H(ip.st)
    for n, t in SCOPE.assumed_terms(h, u.self_val.t, ip.ctx.cur.t):
        ip.st.assume(t)
    u.delivery_facts(ip, h)


TASK_LOOP_FRAME = {("Task", "cancelling"), ("Task", "must_cancel"), ("Task", "ncancel"), ("Future", "state"), (C, "_pending_uncancellations")}


class DeliverUnit(DeliveryBase):
    method = "_deliver_cancellation"
    contract = S4.DELIVER
    contracts = {"CancelScope._deliver_cancellation": S4.DELIVER}
    loops = {
        ("CancelScope._deliver_cancellation", 0): LoopSpec(tasks_loop_inv, modifies=TASK_LOOP_FRAME, after_havoc=deliver_after_havoc, local_types={"should_retry": BOOL}),
        ("CancelScope._deliver_cancellation", 1): LoopSpec(children_loop_inv, modifies=S4.DELIVERY_FRAME, after_havoc=deliver_after_havoc, local_types={"should_retry": BOOL}),
    }

    def contract_for(self, qualname, ctx):
        return self.contracts.get(qualname)  # the recursive call is checked against the contract being proved

    def make_args(self, ip):
        st = ip.st
        o = st.fresh("origin", z3.IntSort())
        self.origin = o
        return [Sym(o, CS)], types.SimpleNamespace(origin=o)

    def on_entry(self, ip, pre, a):
        super().on_entry(ip, pre, a)
        ip.st.assume(live_elim(pre, a.self))


# ---- _restart_cancellation_in_parent ------------------------------------------------------------------------------


def restart_loop_inv(ip, env):
    u = ip.ctx.unit
    h, E = H(ip.st), u.seg
    s = u.self_val.t
    cur_scope = ip.term(S4.local_of_type(env, CS, "scope"), CS)
    D = lambda y: E.f(C, "$depth", y)  # noqa: E731
    return [
        ("the_walk_keeps_the_nearest_cancelled_ancestor", near(E, cur_scope) == near(E, parent(E, s))),
        ("cursor_is_a_proper_ancestor_or_None", z3.Or(cur_scope == 0, z3.And(cur_scope > 0, z3.Select(E.arr("$", "alloc"), cur_scope), D(cur_scope) < D(s)))),
        ("nothing_is_modified_while_walking", z3.And(*[E.arr(*k) == h.arr(*k) for k in sorted(S4.DELIVERY_FRAME)])),
    ]


def restart_after_havoc(ip, env):
    u = ip.ctx.unit
    h = H(ip.st)
    for n, t in SCOPE.assumed_terms(h, u.self_val.t, ip.ctx.cur.t):
        ip.st.assume(t)
    c_ = ip.term(S4.local_of_type(env, CS, "scope"), CS)
    ip.st.assume(near_unfold(u.seg, c_))
    ip.st.assume(near_unfold(u.seg, z3.IntVal(0)))


class RestartUnit(DeliveryBase):
    method = "_restart_cancellation_in_parent"
    contract = S4.RESTART
    contracts = {"CancelScope._deliver_cancellation": S4.DELIVER}
    loops = {("CancelScope._restart_cancellation_in_parent", 0): LoopSpec(restart_loop_inv, modifies=set(), after_havoc=restart_after_havoc, local_types={"scope": CS})}

    def on_entry(self, ip, pre, a):
        super().on_entry(ip, pre, a)
        for t in (parent(pre, a.self), z3.IntVal(0)):
            ip.st.assume(near_unfold(pre, t))


# ---- AsyncIOBackend.checkpoint_if_cancelled --------------------------------------------------------------------


def cic_loop_inv(ip, env):
    u = ip.ctx.unit
    h, E = H(ip.st), u.entry
    c_ = ip.term(S4.local_of_type(env, CS, "cancel_scope"), CS)
    return [
        ("once_it_has_yielded_it_stands_on_a_cancelled_scope", z3.Implies(u.awaited, z3.And(c_ != 0, cc(h, c_)))),
        ("before_it_yields_the_walk_preserves_the_answer_and_nothing_changes", z3.Implies(z3.Not(u.awaited), z3.And(S4.tree_same(E, h), S4.eff(E, c_) == S4.eff(E, u.start)))),
        ("cursor_is_a_scope_or_None", z3.Or(c_ == 0, z3.And(c_ > 0, z3.Select(h.arr("$", "alloc"), c_)))),
    ]


def cic_after_havoc(ip, env):
    u = ip.ctx.unit
    u.awaited = ip.st.fresh("has_yielded", z3.BoolSort())
    c_ = ip.term(S4.local_of_type(env, CS, "cancel_scope"), CS)
    u.assume_tree(ip, H(ip.st))
    for t in (c_, z3.IntVal(0)):
        ip.st.assume(S4.eff_unfold(u.entry, t))


class CheckpointIfCancelledUnit(FunctionUnit):
    """AsyncIOBackend.checkpoint_if_cancelled() -- the function behind E-model `checkpoint_if_cancelled` that the units
    of C08-C13 use: with S0 the running task's current scope,
      * it returns normally only without having yielded, and only if not eff(S0);
      * once it has yielded (asyncio.sleep(0), E8) it keeps standing on a scope whose cancel_called is set -- which is
        never reset (rely) -- and yields again: the only way out is the cancellation exception raised into the sleep;
      * it writes nothing.
    Whether that exception arrives is C03's liveness part (delivery, proved per iteration above)."""

    props = ("C03",)
    modpath = S4.ASYNCIO
    funcname = "AsyncIOBackend.checkpoint_if_cancelled"
    trusted = ("E1", "E8", "A-walk")
    globals = {"_task_states": S4.TSV, "sleep": Builtin("asyncio.sleep", lambda ip, d=0, *a: AwaitableVal("checkpoint"))}
    loops = {("AsyncIOBackend.checkpoint_if_cancelled", 0): LoopSpec(cic_loop_inv, modifies=None, after_havoc=cic_after_havoc, local_types={"cancel_scope": CS})}

    def props_of(self, name):
        return {"C03"}

    def loop_spec(self, qualname, ordinal):
        return self.loops.get((qualname, ordinal))

    def assume_tree(self, ip, h):
        al = h.arr("$", "alloc")
        x = z3.Int(ip.st.uniq("x"))
        ip.st.assume(S4.TS_SINGLETON > 0)
        ip.st.assume(forall([x], z3.Implies(z3.And(x > 0, z3.Select(al, x), parent(h, x) != 0), z3.And(parent(h, x) > 0, z3.Select(al, parent(h, x)))), patterns=[parent(h, x)]))

    def make_args(self, ip):
        h = H(ip.st)
        self.assume_tree(ip, h)
        cur = ip.ctx.cur.t
        ts = S4.tstate_of(h, cur)
        cs_ = h.f("TaskState", "cancel_scope", ts)
        self.start = z3.If(ts == 0, 0, cs_)
        al = h.arr("$", "alloc")
        ip.st.assume(z3.Implies(ts != 0, z3.And(ts > 0, z3.Or(cs_ == 0, z3.And(cs_ > 0, z3.Select(al, cs_))))))
        for t in (self.start, z3.IntVal(0)):
            ip.st.assume(S4.eff_unfold(h, t))
        self.awaited = z3.BoolVal(False)
        return [ClassVal("AsyncIOBackend")], {}

    def on_entry(self, ip, pre):
        self.entry = pre
        self.wset = set()
        ip.st.writes = (ip.st.writes or []) + [self.wset]

    get_item = ScopeUnit.get_item
    ts_get = ScopeUnit.ts_get

    def model_getattr(self, ip, obj, attr):
        if isinstance(obj, S4.TaskStatesVal) and attr == "get":
            return Builtin("_task_states.get", lambda ip, t, d=None: self.ts_get(ip, t, d))
        return NotImplemented

    def before_suspend(self, ip, what, payload):
        self.before = H(ip.st, ip.st.snapshot())
        self.awaited = z3.BoolVal(True)

    def after_resume(self, ip, what, payload):
        h = H(ip.st)
        self.assume_tree(ip, h)
        x = z3.Int(ip.st.uniq("x"))
        b = self.before
        # rely: objects stay allocated; a scope's cancel_called flag is set by cancel() and never reset
        ip.st.assume(forall([x], z3.Implies(z3.Select(b.arr("$", "alloc"), x), z3.Select(h.arr("$", "alloc"), x)), patterns=[z3.Select(h.arr("$", "alloc"), x)]))
        ip.st.assume(forall([x], z3.Implies(cc(b, x), cc(h, x)), patterns=[cc(h, x)]))

    def on_exit(self, ip, pre, exc, ret):
        nm = "AsyncIOBackend.checkpoint_if_cancelled"
        if exc is None:
            ip.ctx.oblige(f"{nm}/post:C03.returns_normally_only_without_yielding_and_outside_any_effectively_cancelled_scope", z3.And(z3.Not(self.awaited), z3.Not(S4.eff(pre, self.start))), "post")
        else:
            is_c = lib.exc_isinstance(ip, exc, (lib.exc_classes()["CancelledError"],))
            is_c = z3.BoolVal(is_c) if isinstance(is_c, bool) else is_c
            ip.ctx.oblige(f"{nm}/post:C03.raises_only_the_cancellation_that_interrupted_its_yield", z3.And(is_c, self.awaited), "post")
        extra = {w for w in self.wset if w != ("*", "*") and w[0] != "$"}
        if extra:
            ip.ctx.fail(f"{nm}/frame", "frame", f"writes {sorted(extra)}")
        else:
            ip.ctx.oblige(f"{nm}/frame", z3.BoolVal(True), "frame")


UNITS = [DeliverUnit, RestartUnit, CheckpointIfCancelledUnit]
