"""C11 -- Event and Condition: no early, spurious or lost wake-ups.

Functions under contract:
  anyio/_backends/_asyncio.py       Event.__init__, set, is_set, wait
  anyio/_core/_synchronization.py   EventAdapter.__init__, _event, set, is_set, wait
                                    Condition.__init__, acquire, acquire_nowait, release, locked, notify,
                                    notify_all, wait, _check_acquired (inlined into its callers)

The Condition is verified *modularly*: its lock is used only through the C09 contracts of Lock.acquire (as a
suspending callee), Lock.acquire_nowait, Lock.release, Lock.locked; its one-shot events only through the Event
contracts proved in this file.

Ghost: `Condition.$wrec[e]` = the task suspended in `await event.wait()` on event e inside Condition.wait (0: none).
"""
import ast
import types

import z3

from segvc import extract
from segvc.core import BOOL, CLASSES, INT, ArrT, DequeT, H, RefT, Sym, register_class
from segvc.interp import Builtin
from segvc.unit import Case, ClassSpec, Contract, LemmaUnit, LoopSpec, MethodUnit
from specs import c09_lock as L

ASYNCIO = "anyio/_backends/_asyncio.py"
SYNC = "anyio/_core/_synchronization.py"
TASK = RefT("Task")
AEV = RefT("AEvent")

register_class("Event", {"_event": AEV}, source=(ASYNCIO, "Event"))
EVT = RefT("Event")
register_class("EventAdapter", {"_internal_event": EVT, "_is_set": BOOL}, source=(SYNC, "EventAdapter"))
EQ = DequeT(EVT)
DQ = EQ.cls
register_class(
    "Condition",
    {"_owner_task": TASK, "_lock": RefT("Lock"), "_waiters": EQ, "$wrec": ArrT(EVT, TASK)},
    source=(SYNC, "Condition"),
)
CLASSES["Condition"].ghost_fields = {"$wrec"}


def aev(h, e):
    return h.f("Event", "_event", e)


def evflag(h, e):
    """abstract state of an anyio Event: the flag of its private asyncio.Event"""
    return h.f("AEvent", "flag", aev(h, e))


def bind_self(ip, args, kwargs):
    return types.SimpleNamespace(self=args[0].t, cur=ip.ctx.cur.t)


# =============================================================================== Event (asyncio backend)

EVENT = ClassSpec("Event")


@EVENT.assume("own_asyncio_event_is_allocated")
def _(h, s, cur):
    return z3.And(aev(h, s) > 0, z3.Select(h.arr("$", "alloc"), aev(h, s)))


def embedded_asyncio_event(ip):
    """`asyncio.Event()` evaluated inside Event.__init__: a new, unset event that takes its owner's identity"""
    from segvc.core import Sym as _S

    f, env = ip.ctx.frames[-1]
    if not f.qualname.endswith("Event.__init__"):
        from segvc.core import Unsupported

        raise Unsupported("asyncio.Event() outside Event.__init__ in a C11 unit")
    me = env.vars["self"]
    ip.st.put("AEvent", "flag", me.t, z3.BoolVal(False))
    return _S(me.t, AEV)


def embedded(h):
    """Heap-model choice for an *owned* sub-object (A-event-private): the asyncio.Event of a wrapper is created in
    Event.__init__ by `self._event = asyncio.Event()` and is never reassigned, handed out or reached through another
    path (both facts are obligations of the unit Event/frame below), so distinct wrappers have distinct asyncio
    events.  The model therefore gives the owned object the identity of its owner: `_event[e] == e`."""
    e = z3.Int(h.st.uniq("e"))
    return z3.ForAll([e], z3.Implies(e > 0, aev(h, e) == e), patterns=[aev(h, e)])


@EVENT.assume("asyncio_event_is_private_to_its_wrapper")
def _(h, s, cur):
    return embedded(h)


def other_flags_unchanged(pre, post, s):
    e = z3.Int(pre.st.uniq("e"))
    return z3.And(
        pre.arr("Event", "_event") == post.arr("Event", "_event"),
        z3.ForAll([e], z3.Implies(z3.And(e != s, e > 0), evflag(post, e) == evflag(pre, e)), patterns=[evflag(post, e)]),
    )


def all_flags_unchanged(pre, post):
    return z3.And(pre.arr("Event", "_event") == post.arr("Event", "_event"), pre.arr("AEvent", "flag") == post.arr("AEvent", "flag"))


EV_SET = Contract(
    "Event.set",
    requires=lambda h, a: [],
    cases=[Case("set", when=lambda pre, a: True, ensures=lambda pre, post, a, ret: [("flag_is_set", evflag(post, a.self)), ("no_other_event_touched", other_flags_unchanged(pre, post, a.self))])],
    modifies={("AEvent", "flag")},
    bind=bind_self,
)
EV_IS_SET = Contract(
    "Event.is_set",
    requires=lambda h, a: [],
    cases=[Case("pure", when=lambda pre, a: True, ret_ty=BOOL, ensures=lambda pre, post, a, ret: [("reports_flag", ret == evflag(pre, a.self)), ("unchanged", all_flags_unchanged(pre, post))])],
    modifies=set(),
    bind=bind_self,
)
EV_WAIT = Contract(
    "Event.wait",
    requires=lambda h, a: [],
    cases=[
        Case("returned", when=lambda pre, a: True, ensures=lambda pre, post, a, ret: [("returns_only_when_set", evflag(post, a.self))]),
        Case("cancelled", when=lambda pre, a: True, raises="CancelledError", ensures=lambda pre, post, a, ret: []),
    ],
    bind=bind_self,
    suspends=True,
)


def event_guarantee(a, b, s, t):
    e = z3.Int(a.st.uniq("e"))
    return [
        ("a_set_event_stays_set", z3.ForAll([e], z3.Implies(z3.And(e > 0, evflag(a, e)), evflag(b, e)), patterns=[evflag(b, e)])),
        ("wrapper_keeps_its_asyncio_event", a.arr("Event", "_event") == b.arr("Event", "_event")),
    ]


def _asyncio_ns():
    from segvc.interp import NS

    return NS("asyncio", {"Event": Builtin("asyncio.Event", embedded_asyncio_event)})


class EventUnit(MethodUnit):
    props = ("C11",)
    spec = EVENT
    trusted = ("E1", "E7", "A-event-private")
    globals = {"asyncio": _asyncio_ns()}

    def guarantee(self, seg, now, s, cur):
        return event_guarantee(seg, now, s, cur)

    def resume_assumptions(self, ip, what, payload):
        st, s, cur = ip.st, self.self_val.t, ip.ctx.cur.t
        h = H(st)
        for n, t in self.spec.assumed_terms(h, s, cur):
            st.assume(t)
        # rely = the guarantee of every Event method (above) and E7 (asyncio.Event has no spontaneous clear())
        st.assume(aev(h, s) == aev(self.before, s))
        st.assume(z3.Implies(evflag(self.before, s), evflag(h, s)))


class EventInit(EventUnit):
    method = "__init__"
    is_init = True
    contract = Contract(
        "Event.__init__",
        requires=lambda h, a: [],
        cases=[
            Case(
                "init",
                when=lambda pre, a: True,
                ensures=lambda pre, post, a, ret: [
                    ("starts_unset", z3.Not(evflag(post, a.self))),
                    ("private_event_is_its_own", aev(post, a.self) == a.self),
                    ("no_other_event_touched", pre.arr("AEvent", "flag") == z3.Store(post.arr("AEvent", "flag"), a.self, z3.Select(pre.arr("AEvent", "flag"), a.self))),
                ],
            )
        ],
        bind=bind_self,
    )


class EventSet(EventUnit):
    method = "set"
    contract = EV_SET


class EventIsSet(EventUnit):
    method = "is_set"
    contract = EV_IS_SET


class EventWait(EventUnit):
    method = "wait"
    contract = EV_WAIT
    contracts = {"Event.is_set": EV_IS_SET}


class EventFrame(LemmaUnit):
    """A-frame for the ownership argument: outside Event.__init__ nothing in src/anyio stores to an attribute called
    `_event`, and nothing calls `.clear()` on / reads `._event` of an object other than `self` inside class Event --
    so the asyncio.Event stays private to its wrapper and a set flag is never cleared."""

    props = ("C11",)
    name = "Event/frame"
    functions = ((ASYNCIO, "Event"),)

    def lemma(self, ip):
        import os

        from segvc.core import SRC

        bad_store, bad_use = [], []
        for root, _, files in os.walk(os.path.join(SRC, "anyio")):
            for fn in files:
                if not fn.endswith(".py") or fn == "_trio.py":
                    continue
                rel = os.path.relpath(os.path.join(root, fn), SRC)
                mod = extract.module(rel)
                cls_event = mod.defs.get("Event") if rel == ASYNCIO else None
                inside = set()
                if cls_event is not None:
                    inside = {id(n) for n in ast.walk(cls_event)}
                for n in ast.walk(mod.tree):
                    if isinstance(n, ast.Attribute) and n.attr == "_event":
                        in_event_cls = id(n) in inside
                        if isinstance(n.ctx, (ast.Store, ast.Del)):
                            fnode = mod.defs.get("Event.__init__")
                            if not (in_event_cls and fnode is not None and id(n) in {id(x) for x in ast.walk(fnode)}):
                                if not (rel == SYNC):  # EventAdapter has a read-only property of that name
                                    bad_store.append(f"{rel}:{n.lineno}")
                        elif rel == ASYNCIO and not in_event_cls:
                            bad_use.append(f"{rel}:{n.lineno}")
                        elif in_event_cls and not (isinstance(n.value, ast.Name) and n.value.id == "self"):
                            bad_use.append(f"{rel}:{n.lineno}")
                if cls_event is not None:
                    for n in ast.walk(cls_event):
                        if isinstance(n, ast.Attribute) and n.attr == "clear":
                            bad_use.append(f"{rel}:{n.lineno} clear()")
        if bad_store:
            ip.ctx.fail(f"{self.name}:_event_written_only_in___init__", "frame", f"store to ._event at {bad_store}")
        else:
            ip.ctx.oblige(f"{self.name}:_event_written_only_in___init__", z3.BoolVal(True), "frame")
        if bad_use:
            ip.ctx.fail(f"{self.name}:_event_not_shared_and_never_cleared", "frame", f"{bad_use}")
        else:
            ip.ctx.oblige(f"{self.name}:_event_not_shared_and_never_cleared", z3.BoolVal(True), "frame")


# =============================================================================== EventAdapter (lazy front-end)

ADAPT = ClassSpec("EventAdapter")
A = "EventAdapter"


def inner(h, s):
    return h.f(A, "_internal_event", s)


def aflag(h, s):
    """abstract flag of the adapter: its own boolean until the backend event exists, then the backend event's"""
    return z3.If(inner(h, s) == 0, h.f(A, "_is_set", s), evflag(h, inner(h, s)))


@ADAPT.assume("inner_event_wellformed")
def _(h, s, cur):
    i = inner(h, s)
    return z3.And(embedded(h), z3.Implies(i != 0, z3.And(i > 0, z3.Select(h.arr("$", "alloc"), i))))


def adapter_guarantee(a, b, s, t):
    return [
        ("a_set_event_stays_set", z3.Implies(aflag(a, s), aflag(b, s))),
        ("backend_event_is_created_once", z3.Implies(inner(a, s) != 0, inner(b, s) == inner(a, s))),
    ]


AD_EVENT_GETTER = Contract(
    "EventAdapter._event",
    requires=lambda h, a: [],
    cases=[
        Case(
            "get",
            when=lambda pre, a: True,
            ret_ty=EVT,
            ensures=lambda pre, post, a, ret: [
                ("returns_the_backend_event", z3.And(ret == inner(post, a.self), ret != 0)),
                ("flag_carried_over", aflag(post, a.self) == aflag(pre, a.self)),
                ("created_once", z3.Implies(inner(pre, a.self) != 0, z3.And(inner(post, a.self) == inner(pre, a.self), all_flags_unchanged(pre, post)))),
                ("inner_is_an_object", z3.And(inner(post, a.self) > 0, z3.Select(post.arr("$", "alloc"), inner(post, a.self)))),
            ],
        )
    ],
    bind=bind_self,
)


class AdapterUnit(MethodUnit):
    props = ("C11",)
    spec = ADAPT
    trusted = ("E1", "E7", "A-event-private", "A-dispatch")
    globals = {}

    def guarantee(self, seg, now, s, cur):
        return adapter_guarantee(seg, now, s, cur)

    def resume_assumptions(self, ip, what, payload):
        st, s, cur = ip.st, self.self_val.t, ip.ctx.cur.t
        h = H(st)
        for n, t in self.spec.assumed_terms(h, s, cur):
            st.assume(t)
        for n, t in adapter_guarantee(self.before, h, s, cur):  # rely = everybody's guarantee
            st.assume(t)


def _create_event(ip):
    """get_async_backend().create_event() == the asyncio backend's Event() (dispatch trusted: A-dispatch)"""
    return ip.construct(CLASSES["Event"], [], {})


BACKEND_NS = None


def backend_ns():
    from segvc.interp import NS

    return NS("backend", {"create_event": Builtin("create_event", lambda ip: _create_event(ip))})


AdapterUnit.globals = {"get_async_backend": Builtin("get_async_backend", lambda ip: backend_ns()), "asyncio": _asyncio_ns()}


class AdapterInit(AdapterUnit):
    method = "__init__"
    is_init = True
    contract = Contract(
        "EventAdapter.__init__",
        requires=lambda h, a: [],
        cases=[Case("init", when=lambda pre, a: True, ensures=lambda pre, post, a, ret: [("starts_unset", z3.Not(aflag(post, a.self))), ("no_backend_event_yet", inner(post, a.self) == 0)])],
        bind=bind_self,
    )


class AdapterEventGetter(AdapterUnit):
    method = "_event"
    contract = AD_EVENT_GETTER
    contracts = {"Event.set": EV_SET}


class AdapterSet(AdapterUnit):
    method = "set"
    contracts = {"Event.set": EV_SET, "EventAdapter._event": AD_EVENT_GETTER}
    contract = Contract(
        "EventAdapter.set",
        requires=lambda h, a: [],
        cases=[Case("set", when=lambda pre, a: True, ensures=lambda pre, post, a, ret: [("flag_is_set", aflag(post, a.self))])],
        bind=bind_self,
    )


class AdapterIsSet(AdapterUnit):
    method = "is_set"
    contracts = {"Event.is_set": EV_IS_SET}
    contract = Contract(
        "EventAdapter.is_set",
        requires=lambda h, a: [],
        cases=[Case("pure", when=lambda pre, a: True, ret_ty=BOOL, ensures=lambda pre, post, a, ret: [("reports_flag", ret == aflag(pre, a.self)), ("flag_unchanged", aflag(post, a.self) == aflag(pre, a.self))])],
        bind=bind_self,
    )


class AdapterWait(AdapterUnit):
    method = "wait"
    contracts = {"Event.wait": EV_WAIT, "EventAdapter._event": AD_EVENT_GETTER}
    contract = Contract(
        "EventAdapter.wait",
        requires=lambda h, a: [],
        cases=[
            Case("returned", when=lambda pre, a: True, ensures=lambda pre, post, a, ret: [("returns_only_when_set", aflag(post, a.self))]),
            Case("cancelled", when=lambda pre, a: True, raises="CancelledError", ensures=lambda pre, post, a, ret: []),
        ],
        bind=bind_self,
    )


# =============================================================================== Condition

COND = ClassSpec("Condition")
C = "Condition"


def cowner(h, s):
    return h.f(C, "_owner_task", s)


def clock(h, s):
    return h.f(C, "_lock", s)


def cq(h, s):
    return h.dq(DQ, h.f(C, "_waiters", s))


def wrec(h, s):
    return h.f(C, "$wrec", s)


@COND.assume("wf")
def _(h, s, cur):
    al = h.arr("$", "alloc")
    q = cq(h, s)
    e = z3.Int(h.st.uniq("e"))
    return z3.And(
        clock(h, s) > 0,
        z3.Select(al, clock(h, s)),
        h.f(C, "_waiters", s) > 0,
        q.wf(),
        z3.Select(wrec(h, s), 0) == 0,
        # queued events are allocated objects with a private asyncio.Event (ownership, see EVENT above)
        z3.ForAll([e], z3.Implies(q.count(e) >= 1, z3.And(e > 0, z3.Select(al, e))), patterns=[q.count(e)]),
        z3.ForAll([e], z3.Implies(z3.Select(wrec(h, s), e) != 0, z3.And(e > 0, z3.Select(al, e))), patterns=[z3.Select(wrec(h, s), e)]),
    )


@COND.assume("events_have_private_asyncio_events")
def _(h, s, cur):
    return embedded(h)


@COND.assume("lock_model_facts")
def _(h, s, cur):
    return z3.And(*[t for n, t in L.LOCK.assumed_terms(h, clock(h, s), cur)])


@COND.assume("E1_running_task_is_not_suspended_in_wait")
def _(h, s, cur):
    e = z3.Int(h.st.uniq("e"))
    return z3.ForAll([e], z3.Select(wrec(h, s), e) != cur, patterns=[z3.Select(wrec(h, s), e)])


for _n, _fn in L.LOCK.clauses:
    COND.clauses.append(("lock." + _n, (lambda fn: lambda h, s, cur: fn(h, clock(h, s), cur))(_fn)))


@COND.invariant("N0_recorded_owner_holds_the_lock")
def _(h, s, cur):
    return z3.Implies(cowner(h, s) != 0, L.owner(h, clock(h, s)) == cowner(h, s))


@COND.invariant("N1a_queued_events_are_unset_and_belong_to_a_suspended_waiter")
def _(h, s, cur):
    return cq(h, s).forall(lambda i, e: z3.And(e != 0, z3.Not(evflag(h, e)), z3.Select(wrec(h, s), e) != 0))


@COND.invariant("N1b_queued_events_distinct")
def _(h, s, cur):
    e = z3.Int(h.st.uniq("e"))
    return z3.ForAll([e], cq(h, s).count(e) <= 1)


@COND.invariant("N1c_unset_waiter_is_queued__notified_waiter_is_not")
def _(h, s, cur):
    e = z3.Int(h.st.uniq("e"))
    q = cq(h, s)
    return z3.ForAll(
        [e],
        z3.Implies(z3.Select(wrec(h, s), e) != 0, z3.And(z3.Implies(z3.Not(evflag(h, e)), q.count(e) == 1), z3.Implies(evflag(h, e), q.count(e) == 0))),
        patterns=[z3.Select(wrec(h, s), e)],
    )


def lock_unchanged(pre, post, s):
    lk = clock(pre, s)
    return z3.And(clock(post, s) == lk, L.lock_fields_unchanged(pre, post, lk), L.futures_unchanged(pre, post))


def queue_unchanged(pre, post, s):
    a, b = cq(pre, s), cq(post, s)
    return z3.And(pre.f(C, "_waiters", s) == post.f(C, "_waiters", s), a.lo == b.lo, a.hi == b.hi, a.data == b.data, a.cnt == b.cnt)


def cond_unchanged(pre, post, s):
    return z3.And(cowner(pre, s) == cowner(post, s), lock_unchanged(pre, post, s), queue_unchanged(pre, post, s), all_flags_unchanged(pre, post))


def cond_guarantee(a, b, s, t):
    e = z3.Int(a.st.uniq("e"))
    return [
        ("a_set_event_stays_set", z3.ForAll([e], z3.Implies(z3.And(e > 0, z3.Select(a.arr("$", "alloc"), e), evflag(a, e)), evflag(b, e)), patterns=[evflag(b, e)])),
        ("lock_object_never_replaced", clock(a, s) == clock(b, s)),
        ("recorded_owner_changes_only_to_or_from_the_running_task", z3.Implies(cowner(b, s) != cowner(a, s), z3.Or(cowner(b, s) == t, z3.And(cowner(a, s) == t, cowner(b, s) == 0)))),
    ]


def holder(h, a):
    return cowner(h, a.self) == a.cur


LOCK_ACQUIRE_S = Contract("Lock.acquire", requires=L.ACQUIRE.requires, cases=L.ACQUIRE.cases, bind=L.bind_self, suspends=True)
LOCK_CONTRACTS = {"Lock.acquire": LOCK_ACQUIRE_S, "Lock.acquire_nowait": L.ACQUIRE_NOWAIT, "Lock.release": L.RELEASE, "Lock.locked": L.LOCKED, "Lock.statistics": L.STATISTICS}
EVENT_CONTRACTS = {"Event.set": EV_SET, "Event.is_set": EV_IS_SET, "Event.wait": EV_WAIT}


class ShieldScope:
    """`with CancelScope(shield=True):` around the re-acquire.  Nobody else holds a reference to this scope, so it is
    never cancelled and its __exit__ swallows nothing (trusted: A-shield).  The shield itself only removes AnyIO
    cancellation from the outcomes of the enclosed await; a native Task.cancel() can still interrupt it, and the
    contracts used here keep that outcome."""


def _new_event(ip):
    return ip.construct(CLASSES["Event"], [], {})


def _new_lock(ip, **kw):
    """`Lock()` front-end == the asyncio backend's Lock(fast_acquire=False) (dispatch trusted: A-dispatch)"""
    lk = ip.construct(CLASSES["Lock"], [], {"fast_acquire": False})
    ip.st.put("Lock", "$rec", lk.t, z3.K(z3.IntSort(), z3.IntVal(0)))
    ip.st.put("Lock", "$fast", lk.t, z3.K(z3.IntSort(), z3.BoolVal(False)))
    return lk


class CondUnit(MethodUnit):
    props = ("C11",)
    spec = COND
    trusted = ("E1", "E2", "E7", "A-own", "A-event-private", "A-dispatch", "A-shield", "A-taskinfo")
    contracts = dict(LOCK_CONTRACTS, **EVENT_CONTRACTS)
    globals = {
        "Event": Builtin("Event", lambda ip: _new_event(ip)),
        "Lock": Builtin("Lock", _new_lock),
        "get_current_task": Builtin("get_current_task", lambda ip: ip.ctx.cur),
        "CancelScope": Builtin("CancelScope", lambda ip, shield=False: ShieldScope()),
        "asyncio": _asyncio_ns(),
        "checkpoint_if_cancelled": Builtin("checkpoint_if_cancelled", lambda ip: __import__("segvc.lib", fromlist=["x"]).b_checkpoint_if_cancelled(ip)),
    }

    def model_getattr(self, ip, obj, attr):
        if isinstance(obj, ShieldScope):
            if attr == "__enter__":

                def enter(ip):
                    ip.ctx.shield += 1
                    return obj

                return Builtin("scope.__enter__", enter)
            if attr == "__exit__":

                def exit_(ip, *a):
                    ip.ctx.shield -= 1
                    return False

                return Builtin("scope.__exit__", exit_)
        return NotImplemented

    def guarantee(self, seg, now, s, cur):
        return cond_guarantee(seg, now, s, cur)

    def eff_cancelled(self, ip):
        return z3.Bool("eff_cancelled_at_entry")

    def resume_assumptions(self, ip, what, payload):
        st, s, cur = ip.st, self.self_val.t, ip.ctx.cur.t
        h = H(st)
        own_event = payload.self if what == "call:Event.wait" else None
        for n, fn in self.spec.assumed:
            if n == "E1_running_task_is_not_suspended_in_wait" and own_event is not None:
                e = z3.Int(st.uniq("e"))
                st.assume(z3.ForAll([e], z3.Implies(e != own_event, z3.Select(wrec(h, s), e) != cur), patterns=[z3.Select(wrec(h, s), e)]))
                continue
            st.assume(fn(h, s, cur))
        for n, t in self.spec.inv_terms(h, s, cur):
            st.assume(t)
        # rely (= the guarantee of every segment of every other task, A-own: the lock is used through the condition)
        st.assume(clock(h, s) == clock(self.before, s))
        st.assume(z3.Implies(cowner(self.before, s) == cur, z3.And(cowner(h, s) == cur)))
        st.assume(z3.Implies(cowner(self.before, s) != cur, cowner(h, s) != cur))
        if what != "call:Lock.acquire":
            # the C09 rely: the lock is neither taken from nor given to a task that is not waiting for it
            for n, t in L.lock_rely(self.before, h, clock(h, s), cur, None):
                st.assume(t)
        if own_event is not None:
            st.assume(z3.Select(wrec(h, s), own_event) == cur)  # only its owner removes a record
            st.assume(aev(h, own_event) == aev(self.before, own_event))
            st.assume(z3.Select(h.arr("$", "alloc"), own_event))


def release_post(pre, post, a, ret):
    s = a.self
    lk = clock(pre, s)
    la = types.SimpleNamespace(self=lk, cur=a.cur)
    return [("lock." + n, t) for n, t in L.release_handoff(pre, post, la, ret) if not n.startswith("inv.")] + [
        ("owner_record_cleared", cowner(post, s) == 0),
        ("waiters_untouched", z3.And(queue_unchanged(pre, post, s), all_flags_unchanged(pre, post))),
    ]


C_RELEASE = Contract(
    "Condition.release",
    requires=lambda h, a: [],
    cases=[
        Case("not_lock_owner", when=lambda pre, a: L.owner(pre, clock(pre, a.self)) != a.cur, raises="RuntimeError", ensures=lambda pre, post, a, ret: [("unchanged", cond_unchanged(pre, post, a.self))]),
        Case("released", when=lambda pre, a: L.owner(pre, clock(pre, a.self)) == a.cur, ensures=release_post),
    ],
    bind=bind_self,
)

C_ACQUIRE = Contract(
    "Condition.acquire",
    requires=lambda h, a: [],
    cases=[
        Case("acquired", when=lambda pre, a: L.owner(pre, clock(pre, a.self)) != a.cur, ensures=lambda pre, post, a, ret: [("caller_holds_lock_and_is_recorded", z3.And(L.owner(post, clock(post, a.self)) == a.cur, cowner(post, a.self) == a.cur))]),
        Case("reentrant", when=lambda pre, a: L.owner(pre, clock(pre, a.self)) == a.cur, raises="RuntimeError", ensures=lambda pre, post, a, ret: [("unchanged", cond_unchanged(pre, post, a.self))]),
        Case("cancelled", when=lambda pre, a: L.owner(pre, clock(pre, a.self)) != a.cur, raises="CancelledError", ensures=lambda pre, post, a, ret: [("caller_does_not_hold", z3.And(L.owner(post, clock(post, a.self)) != a.cur, cowner(post, a.self) != a.cur))]),
    ],
    bind=bind_self,
)


class CondInit(CondUnit):
    method = "__init__"
    is_init = True
    contract = Contract(
        "Condition.__init__",
        requires=lambda h, a: [],
        cases=[Case("init", when=lambda pre, a: True, ensures=lambda pre, post, a, ret: [("no_waiters_no_recorded_owner", z3.And(cq(post, a.self).len == 0, cowner(post, a.self) == 0))])],
        bind=bind_self,
    )

    def make_args(self, ip):
        # lock=None (a fresh Lock is created) or a caller-supplied lock that is currently free (A-own: handed over)
        if ip.ctx.decide(2, "lock-arg") == 0:
            return [None], types.SimpleNamespace()
        lk = Sym(z3.Int("given_lock"), RefT("Lock"))
        st = ip.st
        h = H(st)
        st.assume(z3.And(lk.t > 0, st.allocated(lk.t)))
        for n, t in L.LOCK.assumed_terms(h, lk.t, ip.ctx.cur.t) + L.LOCK.inv_terms(h, lk.t, ip.ctx.cur.t):
            st.assume(t)
        return [lk], types.SimpleNamespace()

    def ghost_init(self, ip):
        ip.st.put(C, "$wrec", self.self_val.t, z3.K(z3.IntSort(), z3.IntVal(0)))

    def assert_inv(self, ip, site):
        # wf facts of the freshly built object are model facts of the allocator; the invariant proper is asserted
        h = H(ip.st)
        s, cur = self.self_val.t, ip.ctx.cur.t
        for n, t in self.spec.inv_terms(h, s, cur):
            ip.ctx.oblige(f"{self.qualname}{site}/inv:{n}", t, "inv")


class CondAcquire(CondUnit):
    method = "acquire"
    contract = C_ACQUIRE


class CondAcquireNowait(CondUnit):
    method = "acquire_nowait"
    contract = Contract(
        "Condition.acquire_nowait",
        requires=lambda h, a: [],
        cases=[
            Case("free", when=lambda pre, a: L.owner(pre, clock(pre, a.self)) == 0, ensures=lambda pre, post, a, ret: [("caller_holds_lock_and_is_recorded", z3.And(L.owner(post, clock(post, a.self)) == a.cur, cowner(post, a.self) == a.cur))]),
            Case("reentrant", when=lambda pre, a: L.owner(pre, clock(pre, a.self)) == a.cur, raises="RuntimeError", ensures=lambda pre, post, a, ret: [("unchanged", cond_unchanged(pre, post, a.self))]),
            Case("held_by_other", when=lambda pre, a: z3.And(L.owner(pre, clock(pre, a.self)) != 0, L.owner(pre, clock(pre, a.self)) != a.cur), raises="WouldBlock", ensures=lambda pre, post, a, ret: [("unchanged", cond_unchanged(pre, post, a.self))]),
        ],
        bind=bind_self,
    )


class CondRelease(CondUnit):
    method = "release"
    contract = C_RELEASE


class CondLocked(CondUnit):
    method = "locked"
    contract = Contract(
        "Condition.locked",
        requires=lambda h, a: [],
        cases=[Case("pure", when=lambda pre, a: True, ret_ty=BOOL, ensures=lambda pre, post, a, ret: [("reports_truth", ret == (L.owner(pre, clock(pre, a.self)) != 0)), ("unchanged", cond_unchanged(pre, post, a.self))])],
        bind=bind_self,
    )


class CondStatistics(CondUnit):
    """`Condition.statistics()`: tasks_waiting is the length of the waiter queue, the second field is what the lock's
    own statistics() returned (contract L.STATISTICS; its fields are proved in C09), nothing changes"""

    method = "statistics"
    contract = None
    globals = dict(CondUnit.globals, ConditionStatistics=Builtin("ConditionStatistics", lambda ip, *a: tuple(a)))

    def on_exit(self, ip, pre, a, exc, ret):
        s = a.self
        ok = exc is None and isinstance(ret, tuple) and len(ret) == 2
        ip.ctx.oblige("Condition.statistics/post:returns_two_fields", z3.BoolVal(ok), "post")
        if ok:
            q = cq(pre, s)
            ip.ctx.oblige("Condition.statistics/post:reports_the_true_waiter_count", ip.term(ret[0], INT) == q.hi - q.lo, "post")
            ip.ctx.oblige("Condition.statistics/post:unchanged", cond_unchanged(pre, H(ip.st), s), "post")


# ---- notify / notify_all


def popped_prefix_set(E, h, s):
    """events popped since E (a prefix of E's queue, in waiting order) are set; every other event is untouched"""
    qe, qh = cq(E, s), cq(h, s)
    i = z3.Int(E.st.uniq("i"))
    e = z3.Int(E.st.uniq("e"))
    return z3.And(
        E.f(C, "_waiters", s) == h.f(C, "_waiters", s),
        qh.hi == qe.hi,
        qh.data == qe.data,
        qe.lo <= qh.lo,
        qh.lo <= qh.hi,
        E.arr("Event", "_event") == h.arr("Event", "_event"),
        z3.ForAll([i], z3.Implies(z3.And(qe.lo <= i, i < qh.lo), z3.And(evflag(h, qe.at(i)), qh.count(qe.at(i)) == 0)), patterns=[qe.at(i)]),
        z3.ForAll([e], z3.Implies(z3.And(e > 0, qh.count(e) == qe.count(e)), evflag(h, e) == evflag(E, e)), patterns=[evflag(h, e)]),
        z3.ForAll([e], z3.And(qh.count(e) <= qe.count(e), qh.count(e) >= 0), patterns=[qh.count(e)]),
        z3.ForAll([e], z3.Implies(z3.And(e > 0, evflag(E, e)), evflag(h, e)), patterns=[evflag(h, e)]),
    )


def notify_loop_inv(ip, env):
    """phrased over the abstraction (how many events were popped from the head), so that it fits the real
    `for _ in range(n)` loop and a `while` re-phrasing of it alike"""
    u = ip.ctx.unit
    h = H(ip.st)
    s, cur = u.self_val.t, ip.ctx.cur.t
    E = u.seg  # the loop starts in the state of the call (nothing is modified before it)
    n = u.n_term
    popped = cq(h, s).lo - cq(E, s).lo
    out = [(nm, t) for nm, t in COND.inv_terms(h, s, cur)]
    out += [
        ("popped_at_most_n_from_the_head", z3.And(popped >= 0, popped <= z3.If(n > 0, n, 0))),
        ("popped_events_set_others_untouched", popped_prefix_set(E, h, s)),
        ("owner_and_lock_untouched", z3.And(cowner(h, s) == cowner(E, s), lock_unchanged(E, h, s), wrec(h, s) == wrec(E, s))),
    ]
    if ip.ctx.loop_k is not None:
        out.append(("one_event_popped_per_iteration", popped == ip.ctx.loop_k))
    else:
        ln = env.vars.get("n")
        if isinstance(ln, Sym) and ln.ty is INT:
            out.append(("countdown_matches_popped", ln.t == n - popped))
    return out


def cond_after_havoc(ip, env):
    u = ip.ctx.unit
    h = H(ip.st)
    for n, t in COND.assumed_terms(h, u.self_val.t, ip.ctx.cur.t):
        ip.st.assume(t)


NOTIFY_LOOP = LoopSpec(notify_loop_inv, modifies={(DQ, "lo"), (DQ, "cnt"), ("AEvent", "flag")}, after_havoc=cond_after_havoc, local_types={"event": EVT})


def notify_post(pre, post, a, ret):
    s = a.self
    qa, qb = cq(pre, s), cq(post, s)
    n0 = z3.If(a.n > 0, a.n, 0)
    want = z3.If(n0 < qa.len, n0, qa.len)
    return [
        ("releases_min_n_len_waiters_from_the_head", qb.lo - qa.lo == want),
        ("exactly_those_are_set_in_waiting_order", popped_prefix_set(pre, post, s)),
        ("owner_and_lock_untouched", z3.And(cowner(post, s) == cowner(pre, s), lock_unchanged(pre, post, s))),
    ]


class CondNotify(CondUnit):
    method = "notify"
    loops = {("Condition.notify", 0): NOTIFY_LOOP}
    contract = Contract(
        "Condition.notify",
        requires=lambda h, a: [],
        cases=[
            Case("refused", when=lambda pre, a: z3.Not(holder(pre, a)), raises="RuntimeError", ensures=lambda pre, post, a, ret: [("unchanged", cond_unchanged(pre, post, a.self))]),
            Case("notified", when=holder, ensures=notify_post),
        ],
        bind=bind_self,
    )

    def make_args(self, ip):
        n = Sym(z3.Int("n"), INT)
        self.n_term = n.t
        return [n], types.SimpleNamespace(n=n.t)

    def on_exit(self, ip, pre, a, exc, ret):
        # the property sentence: refused unless the caller currently holds the condition's lock
        if exc is None:
            ip.ctx.oblige("Condition.notify/post:accepted_only_from_the_lock_holder", L.owner(pre, clock(pre, a.self)) == a.cur, "post")


def notify_all_loop_inv(ip, env):
    u = ip.ctx.unit
    h = H(ip.st)
    s, cur = u.self_val.t, ip.ctx.cur.t
    E = u.seg
    k = ip.ctx.loop_k
    qe = cq(E, s)
    i = z3.Int(ip.st.uniq("i"))
    e = z3.Int(ip.st.uniq("e"))
    return [
        ("position_in_range", z3.And(qe.lo <= k, k <= qe.hi)),
        ("queue_untouched", z3.And(queue_unchanged(E, h, s), E.arr("Event", "_event") == h.arr("Event", "_event"))),
        ("visited_events_set", z3.ForAll([i], z3.Implies(z3.And(qe.lo <= i, i < k), evflag(h, qe.at(i))), patterns=[qe.at(i)])),
        ("events_outside_the_queue_untouched", z3.ForAll([e], z3.Implies(z3.And(e > 0, qe.count(e) == 0), evflag(h, e) == evflag(E, e)), patterns=[evflag(h, e)])),
        ("set_events_stay_set", z3.ForAll([e], z3.Implies(z3.And(e > 0, evflag(E, e)), evflag(h, e)), patterns=[evflag(h, e)])),
        ("owner_and_lock_untouched", z3.And(cowner(h, s) == cowner(E, s), lock_unchanged(E, h, s), wrec(h, s) == wrec(E, s))),
    ]


NOTIFY_ALL_LOOP = LoopSpec(notify_all_loop_inv, modifies={("AEvent", "flag")}, after_havoc=cond_after_havoc, local_types={"event": EVT})


def notify_all_post(pre, post, a, ret):
    s = a.self
    qa = cq(pre, s)
    i = z3.Int(pre.st.uniq("i"))
    e = z3.Int(pre.st.uniq("e"))
    return [
        ("queue_emptied", cq(post, s).len == 0),
        ("every_waiting_event_set", z3.ForAll([i], z3.Implies(z3.And(qa.lo <= i, i < qa.hi), evflag(post, qa.at(i))), patterns=[qa.at(i)])),
        ("events_outside_the_queue_untouched", z3.ForAll([e], z3.Implies(z3.And(e > 0, qa.count(e) == 0), evflag(post, e) == evflag(pre, e)), patterns=[evflag(post, e)])),
        ("owner_and_lock_untouched", z3.And(cowner(post, s) == cowner(pre, s), lock_unchanged(pre, post, s))),
    ]


class CondNotifyAll(CondUnit):
    method = "notify_all"
    loops = {("Condition.notify_all", 0): NOTIFY_ALL_LOOP}
    contract = Contract(
        "Condition.notify_all",
        requires=lambda h, a: [],
        cases=[
            Case("refused", when=lambda pre, a: z3.Not(holder(pre, a)), raises="RuntimeError", ensures=lambda pre, post, a, ret: [("unchanged", cond_unchanged(pre, post, a.self))]),
            Case("notified", when=holder, ensures=notify_all_post),
        ],
        bind=bind_self,
    )

    def on_entry(self, ip, pre, a):
        # model fact of real deques (counts are true multiplicities): a counted element occurs at some position.
        # Only needed here (every queued event is visited by the loop), kept out of the shared assumptions because
        # its Skolem positions feed a matching loop in z3 when combined with the per-index facts.
        ip.st.assume(cq(pre, a.self).wf_pos())

    def on_exit(self, ip, pre, a, exc, ret):
        if exc is None:
            ip.ctx.oblige("Condition.notify_all/post:accepted_only_from_the_lock_holder", L.owner(pre, clock(pre, a.self)) == a.cur, "post")


# ---- wait


class CondWait(CondUnit):
    method = "wait"
    split = (2, 2, 2)
    contract = Contract(
        "Condition.wait",
        requires=lambda h, a: [],
        cases=[
            Case("notified", when=lambda pre, a: z3.And(holder(pre, a), z3.Not(a.eff)), ensures=lambda pre, post, a, ret: [("caller_holds_the_lock_again", z3.And(L.owner(post, clock(post, a.self)) == a.cur, cowner(post, a.self) == a.cur))]),
            Case("refused", when=lambda pre, a: z3.And(z3.Not(holder(pre, a)), z3.Not(a.eff)), raises="RuntimeError", ensures=lambda pre, post, a, ret: [("unchanged", cond_unchanged(pre, post, a.self))]),
            Case("cancelled_on_entry", when=lambda pre, a: a.eff, raises="CancelledError", ensures=lambda pre, post, a, ret: []),
            Case("interrupted", when=lambda pre, a: z3.And(holder(pre, a), z3.Not(a.eff)), raises="CancelledError", ensures=lambda pre, post, a, ret: []),
        ],
        bind=bind_self,
    )

    def make_args(self, ip):
        self.my_event = None
        self.waited = None
        return [], types.SimpleNamespace(eff=z3.Bool("eff_cancelled_at_entry"))

    def ghost_suspend(self, ip, what, payload):
        st, s, cur = ip.st, self.self_val.t, ip.ctx.cur.t
        if what == "call:Event.wait":
            self.my_event = payload.self
            st.put(C, "$wrec", s, z3.Store(st.get(C, "$wrec", s), payload.self, cur))
        elif what == "call:Lock.acquire" and self.waited is not None:
            self.check_after_wait(ip)
        elif what == "checkpoint_if_cancelled":
            ip.ctx.oblige("Condition.wait@entry/post:cancelled_on_entry.no_effect_before_the_cancellation_lands", cond_unchanged(self.seg, H(st), s), "post")

    def ghost_resume(self, ip, what, payload):
        st, s = ip.st, self.self_val.t
        if what == "call:Event.wait":
            st.put(C, "$wrec", s, z3.Store(st.get(C, "$wrec", s), payload.self, 0))
            self.waited = H(st, st.snapshot())

    def after_suspending_call(self, ip, contract, a, case, exc, ret=None):
        if contract.qualname == "Event.wait":
            self.wait_case = case.name

    def check_after_wait(self, ip):
        """the segment between waking up in `await event.wait()` and the (shielded) re-acquire"""
        st, s, cur = ip.st, self.self_val.t, ip.ctx.cur.t
        W, h = self.waited, H(st)
        e = self.my_event
        tag = "Condition.wait@wakeup"
        qa, qb = cq(W, s), cq(h, s)
        x = z3.Int(st.uniq("e"))
        if self.wait_case == "returned":
            ip.ctx.oblige(f"{tag}/post:returns_only_after_being_notified", evflag(W, e), "post")
            ip.ctx.oblige(f"{tag}/post:normal_wakeup_touches_nothing", z3.And(queue_unchanged(W, h, s), all_flags_unchanged(W, h), cowner(W, s) == cowner(h, s), lock_unchanged(W, h, s)), "post")
            return
        # interrupted
        removed_self = z3.And(
            qb.count(e) == 0,
            qb.len == qa.len - 1,
            z3.ForAll([x], z3.Implies(x != e, qb.count(x) == qa.count(x)), patterns=[qb.count(x)]),
            all_flags_unchanged(W, h),
        )
        head = qa.at(qa.lo)
        passed_on = z3.And(
            qb.lo == qa.lo + 1,
            qb.hi == qa.hi,
            qb.data == qa.data,
            evflag(h, head),
            z3.ForAll([x], z3.Implies(z3.And(x > 0, x != head), evflag(h, x) == evflag(W, x)), patterns=[evflag(h, x)]),
        )
        ip.ctx.oblige(f"{tag}/post:interrupted_unnotified_waiter_leaves_the_queue", z3.Implies(z3.Not(evflag(W, e)), removed_self), "post")
        ip.ctx.oblige(f"{tag}/post:notification_of_an_interrupted_waiter_is_passed_on_to_the_next", z3.Implies(z3.And(evflag(W, e), qa.len > 0), passed_on), "post")
        ip.ctx.oblige(f"{tag}/post:nothing_to_pass_on_when_nobody_waits", z3.Implies(z3.And(evflag(W, e), qa.len == 0), z3.And(queue_unchanged(W, h, s), all_flags_unchanged(W, h))), "post")

    def on_exit(self, ip, pre, a, exc, ret):
        if exc is not None and self.waited is None and exc.pycls is not None and exc.pycls.__name__ == "CancelledError":
            # cancelled on entry: the lock is kept, nobody was enqueued, nothing was released
            ip.ctx.oblige("Condition.wait/post:cancelled_on_entry.no_effect_lock_kept", cond_unchanged(self.seg, H(ip.st), a.self), "post")
        if exc is not None and exc.pycls is not None and exc.pycls.__name__ == "CancelledError" and self.waited is not None:
            tag = exc.tag if exc.tag is not None else z3.BoolVal(True)
            # an AnyIO cancellation leaves wait() only from the interrupted event wait (where the notification is
            # passed on); the re-acquire is shielded, so afterwards the caller holds the lock again
            ip.ctx.oblige("Condition.wait/post:interrupted.anyio_cancellation_never_escapes_after_a_consumed_notification", z3.Implies(tag, z3.BoolVal(self.wait_case == "cancelled")), "post")
            ip.ctx.oblige("Condition.wait/post:interrupted.lock_reacquired_before_an_anyio_cancellation_propagates", z3.Implies(tag, z3.And(L.owner(H(ip.st), clock(H(ip.st), a.self)) == a.cur, cowner(H(ip.st), a.self) == a.cur)), "post")
        if exc is None:
            ip.ctx.oblige("Condition.wait/post:returned_through_a_notification", z3.BoolVal(self.waited is not None and self.wait_case == "returned"), "post")
            ip.ctx.oblige("Condition.wait/post:accepted_only_from_the_lock_holder", L.owner(pre, clock(pre, a.self)) == a.cur, "post")


UNITS = [
    EventInit,
    EventSet,
    EventIsSet,
    EventWait,
    EventFrame,
    AdapterInit,
    AdapterEventGetter,
    AdapterSet,
    AdapterIsSet,
    AdapterWait,
    CondInit,
    CondAcquire,
    CondAcquireNowait,
    CondRelease,
    CondLocked,
    CondStatistics,
    CondNotify,
    CondNotifyAll,
    CondWait,
]
