"""C01 / C02 / C07 -- the asyncio TaskGroup: join, error collection, start() handshake.

Functions under contract (anyio/_backends/_asyncio.py):
  TaskGroup.__init__, __aenter__, __aexit__, create_task (with _spawn inlined), the per-child done callback
  TaskGroup._spawn.<locals>.task_done (as a loop callback, E6), _AsyncioTaskStatus.started, TaskGroup.start
  anyio/_core/_tasks.py: TaskHandle._run_coro, status, exception, return_value, cancel
The group's CancelScope is used through the C04 contracts of __enter__ / __exit__ / cancel (call-site forms in
specs/c04_scope.py) and _effectively_cancelled.

Exceptions that live in the heap (the group's `_exceptions` list, futures) are `Exc` objects with a class kind and an
AnyIO tag.  Ghost: `TaskGroup.$exc_deleted` (the `del self._exceptions` at the end of __aexit__ happened).
"""
import types

import z3

from segvc import lib
from segvc.core import BOOL, CLASSES, INT, OBJ, H, ListT, RefT, SetT, Sym, Unsupported, register_class
from segvc.interp import Builtin, ClassVal, CoroVal, Env, ExcVal, FuncVal, NS, PyExc, kind_id
from segvc.lib import CANCELLED, EXC, PENDING, RESULT
from segvc.unit import Case, ClassSpec, Contract, FunctionUnit, LemmaUnit, LoopSpec, MethodUnit
from specs import c04_scope as S

ASYNCIO = "anyio/_backends/_asyncio.py"
TSK = "anyio/_core/_tasks.py"
TASK = RefT("Task")
FUT = RefT("Future")
CS = S.CS
EXLIST = ListT(OBJ)
TASKSET = SetT(TASK)
register_class(
    "TaskGroup",
    {"cancel_scope": CS, "_entered": BOOL, "_exceptions": EXLIST, "_tasks": TASKSET, "_on_completed_fut": FUT, "$exc_deleted": BOOL},
    source=(ASYNCIO, "TaskGroup"),
)
CLASSES["TaskGroup"].ghost_fields = {"$exc_deleted"}
G = "TaskGroup"
TG = ClassSpec(G)
CANCEL_KIND = kind_id("CancelledError")


def scope(h, s):
    return h.f(G, "cancel_scope", s)


def tasks(h, s):
    return h.set(TASKSET.cls, h.f(G, "_tasks", s))


def excs(h, s):
    return h.dq(EXLIST.cls, h.f(G, "_exceptions", s))


def fut(h, s):
    return h.f(G, "_on_completed_fut", s)


def deleted(h, s):
    return h.f(G, "$exc_deleted", s)


def ekind(h, e):
    return h.f("Exc", "kind", e)


def fstate(h, f):
    return h.f("Future", "state", f)


@TG.assume("wf")
def _(h, s, cur):
    al = h.arr("$", "alloc")
    c = scope(h, s)
    return z3.And(
        s > 0,
        z3.Select(al, s),
        c > 0,
        h.f(G, "_exceptions", s) > 0,
        h.f(G, "_tasks", s) > 0,
        z3.Select(al, h.f(G, "_exceptions", s)),
        z3.Select(al, h.f(G, "_tasks", s)),
        excs(h, s).wf(),
        tasks(h, s).wf(),
        h.f(G, "_tasks", s) != h.f(S.C, "_tasks", c),  # the group's own child set is not the scope's member set
        z3.ForAll([z3.Int("any_scope")], h.f(S.C, "_tasks", z3.Int("any_scope")) != h.f(G, "_tasks", s), patterns=[h.f(S.C, "_tasks", z3.Int("any_scope"))]),  # ... nor any scope's (created by the group's __init__, never handed out)
        z3.Implies(fut(h, s) != 0, z3.And(fut(h, s) > 0, z3.Select(al, fut(h, s)))),
        excs(h, s).forall(lambda i, e: z3.And(e > 0, z3.Select(al, e))),  # collected exceptions are objects
        z3.ForAll([z3.Int("any_task")], z3.Implies(tasks(h, s).has(z3.Int("any_task")), z3.And(z3.Int("any_task") > 0, z3.Select(al, z3.Int("any_task")))), patterns=[tasks(h, s).has(z3.Int("any_task"))]),  # children are task objects
        *[t for _, t in S.SCOPE.assumed_terms(h, c, cur)],
    )


@TG.invariant("J1_after_the_block_has_exited_no_child_is_left_and_the_scope_is_closed")
def _(h, s, cur):
    return z3.Implies(deleted(h, s), z3.And(tasks(h, s).card == 0, z3.Not(S.active(h, scope(h, s)))))


@TG.invariant("J0_the_exit_runs_only_after_the_entry")
def _(h, s, cur):
    return z3.Implies(deleted(h, s), h.f(G, "_entered", s))


@TG.invariant("J2_cancellation_exceptions_are_never_collected_as_errors")
def _(h, s, cur):
    return excs(h, s).forall(lambda i, e: ekind(h, e) != CANCEL_KIND)


@TG.invariant("J3_the_completion_future_is_only_resolved_or_cancelled")
def _(h, s, cur):
    return z3.Implies(fut(h, s) != 0, fstate(h, fut(h, s)) != EXC)


def exc_list_grew_by(a, b, s, items):
    """the list of collected exceptions in b is the one of a with `items` appended, in order (nothing dropped)"""
    A, B = excs(a, s), excs(b, s)
    i = z3.Int(a.st.uniq("i"))
    conj = [a.f(G, "_exceptions", s) == b.f(G, "_exceptions", s), B.lo == A.lo, B.hi == A.hi + len(items), z3.ForAll([i], z3.Implies(z3.And(A.lo <= i, i < A.hi), B.at(i) == A.at(i)), patterns=[B.at(i)])]
    for k, it in enumerate(items):
        conj.append(B.at(A.hi + k) == it)
    return z3.And(*conj)


def exc_list_only_grows(a, b, s):
    A, B = excs(a, s), excs(b, s)
    i = z3.Int(a.st.uniq("i"))
    return z3.And(a.f(G, "_exceptions", s) == b.f(G, "_exceptions", s), B.lo == A.lo, B.hi >= A.hi, z3.ForAll([i], z3.Implies(z3.And(A.lo <= i, i < A.hi), B.at(i) == A.at(i)), patterns=[B.at(i)]))


def tg_guarantee(a, b, s, t):
    return [
        ("collected_exceptions_are_only_appended", z3.Implies(z3.Not(deleted(b, s)), exc_list_only_grows(a, b, s))),
        ("the_group_keeps_its_scope", scope(a, s) == scope(b, s)),
    ]


# ---- environment: asyncio.Task as seen by the group (E3/E6) ---------------------------------------------------


def task_exception(ip, t):
    """Task.exception() of a *done* task: None, the exception the coroutine raised, or CancelledError raised when the
    task was cancelled"""
    k = ip.ctx.decide(3, "task-outcome")
    if k == 0:
        return None
    if k == 1:
        return lib.sym_exc(ip, "child_exc", kinds=["Exception", "BaseException", "BaseExceptionGroup", "KeyboardInterrupt"])
    raise PyExc(lib.new_cancelled(ip))


lib.MODEL_METHODS["Task"]["exception"] = task_exception
lib.MODEL_METHODS["Task"]["add_done_callback"] = lambda ip, t, cb: ip.ctx.events.append(("add_done_callback", t, cb))


def fut_exception_setter(ip, f, e):
    return lib.fut_set_exception(ip, f, e)


C01_KEYS = ("J1_", "no_child_is_left", "scope_is_closed", "child_removed_from", "host_is_woken", "TaskHandle", "callback_never_raises", "entered_and_scope_active", "empty_group_with")
C02_KEYS = ("J2_", "starts_unshielded", "body_exception", "a_failing_body", "clean_exit_records", "raised_group", "without_collected_errors", "a_cancellation_is_absorbed", "a_body_exception_does_not_vanish", "returns_normally_only_when", "child_error_is_collected", "cancels_the_siblings", "a_cancelled_child_adds_no_error", "a_child_that_returned", "collected_exceptions_are_only_appended")
C07_KEYS = ("before_started", "without_started", "after_started", "after_the_starter_was_cancelled", "started", "start")


def tg_props_of(name):
    tail = name.split("/", 1)[-1]
    if "C03." in tail:
        return {"C03"}
    if "task_done" in name and any(k in tail for k in ("before_started", "without_started", "after_started", "after_the_starter_was_cancelled")):
        return {"C02", "C07"}  # routing of a child's outcome: what surfaces where (C02) and the start() handshake (C07)
    if name.startswith(("TaskGroup.start", "_AsyncioTaskStatus.")):
        return {"C07"}
    if name.startswith("TaskHandle.") or any(k in tail for k in C01_KEYS):
        return {"C01"}
    if any(k in tail for k in C02_KEYS):
        return {"C02"}
    return {"C01", "C02", "C07"}


class TGBase:
    """name resolution and environment hooks shared by the TaskGroup units"""

    def props_of(self, name):
        return tg_props_of(name)

    contracts = dict(S.SCOPE_CALLS)
    contracts["CancelScope._effectively_cancelled"] = S.EFF_PROP
    contracts["CancelScope._deliver_cancellation"] = S.DELIVER  # proved by specs/c03_delivery.py
    contracts["CancelScope._restart_cancellation_in_parent"] = S.RESTART

    def tg_globals(self):
        return {
            "get_running_loop": Builtin("get_running_loop", lambda ip: S.LOOP),
            "_task_states": S.TSV,
            "is_anyio_cancellation": Builtin("is_anyio_cancellation", lambda ip, e: Sym(e.tag, BOOL) if e.tag is not None and not isinstance(e.tag, bool) else bool(e.tag)),
            "BaseExceptionGroup": ClassVal("BaseExceptionGroup", pycls=BaseExceptionGroup),
            "CancelScope": ClassVal("CancelScope", info=CLASSES[S.C]),
        }

    def tg_model_getattr(self, ip, obj, attr):
        if isinstance(obj, S.LoopVal):
            if attr == "create_future":
                return Builtin("loop.create_future", lib.new_future)
            if attr == "time":
                return Builtin("loop.time", S.loop_time)
            if attr == "call_at":
                return Builtin("loop.call_at", S.loop_call_at)
        if isinstance(obj, S.TaskStatesVal) and attr == "get":
            return Builtin("_task_states.get", lambda ip, t, d=None: S.ScopeUnit.ts_get(self, ip, t, d))
        return NotImplemented

    def construct_exception(self, ip, pycls, args):
        if pycls is BaseExceptionGroup:
            lst = args[1]
            if not (isinstance(lst, Sym) and lst.ty is EXLIST):
                raise Unsupported("BaseExceptionGroup from something else than the collected list")
            st = ip.st
            h = H(st)
            L = h.dq(EXLIST.cls, lst.t)
            # the leaves are the collected exceptions: none of them is a cancellation (invariant J2, asserted here)
            ip.ctx.oblige(f"{ip.where()}/post:raised_group_contains_no_cancellation", L.forall(lambda i, e: ekind(h, e) != CANCEL_KIND), "post")
            g = S.GroupExc(z3.BoolVal(False), z3.BoolVal(False), L.len > 0)
            g.leaves = (lst.t, L.data, L.lo, L.hi)
            return g
        return NotImplemented

    def contract_for(self, qualname, ctx):
        return self.contracts.get(qualname)

    def make_list(self, ip, elems):
        if elems:
            raise Unsupported("non-empty list literal")
        from segvc.interp import EmptyLit

        return EmptyLit(("deque",))

    get_item = S.ScopeUnit.get_item
    set_item = S.ScopeUnit.set_item
    binop = S.ScopeUnit.binop

    def del_item(self, ip, obj, idx):
        if isinstance(obj, S.TaskStatesVal):
            st = ip.st
            m = st.get("TaskStates", "map", S.TS_SINGLETON)
            t = ip.term(idx, TASK)
            if not ip.ctx.branch(z3.Select(m, t) != 0, "task-has-state"):
                lib.raise_("KeyError", idx)
            st.put("TaskStates", "map", S.TS_SINGLETON, z3.Store(m, t, 0))
            return None
        return NotImplemented


class TGUnit(TGBase, MethodUnit):
    props = ("C01", "C02", "C07")
    spec = TG
    trusted = ("E1", "E2", "E3", "E6", "A-delivery", "A-split", "A-scope-contracts")

    def __init__(self):
        super().__init__()
        self.globals = self.tg_globals()

    def model_getattr(self, ip, obj, attr):
        return self.tg_model_getattr(ip, obj, attr)

    def guarantee(self, seg, now, s, cur):
        return tg_guarantee(seg, now, s, cur)

    def del_attr(self, ip, obj, attr):
        if isinstance(obj, Sym) and obj.ty.cls == G and attr == "_exceptions":
            ip.st.put(G, "$exc_deleted", obj.t, z3.BoolVal(True))
            return None
        raise Unsupported(f"del .{attr}")

    def unfold(self, ip, h):
        c = scope(h, self.self_val.t)
        for t in (c, S.parent(h, c), z3.IntVal(0)):
            ip.st.assume(S.eff_unfold(h, t))

    def resume_assumptions(self, ip, what, payload):
        st, s, cur = ip.st, self.self_val.t, ip.ctx.cur.t
        h = H(st)
        b = self.before
        for n, t in self.spec.assumed_terms(h, s, cur) + self.spec.inv_terms(h, s, cur):
            st.assume(t)
        # rely: what the segments of other tasks (children finishing, other tasks spawning into the group) can do while
        # the host is suspended inside __aexit__/start: they append to the collected exceptions, add / remove children,
        # cancel scopes -- but they neither enter nor leave the *host's* scopes, nor move its current-scope pointer
        for n, t in tg_guarantee(b, h, s, cur):
            st.assume(t)
        st.assume(fut(h, s) == fut(b, s))  # only the host (this call) assigns the completion future
        for ws in getattr(self, "private_scopes", ()):
            st.assume(z3.And(S.cc(h, ws) == S.cc(b, ws), S.shield(h, ws) == S.shield(b, ws), S.deadline_(h, ws) == S.deadline_(b, ws)))  # nobody else holds a reference to this local scope
        st.assume(z3.And(deleted(h, s) == deleted(b, s), h.f(G, "_entered", s) == b.f(G, "_entered", s), h.f(G, "_exceptions", s) == b.f(G, "_exceptions", s), h.f(G, "_tasks", s) == b.f(G, "_tasks", s)))
        x = z3.Int(st.uniq("x"))
        st.assume(z3.ForAll([x], z3.Implies(S.host(b, x) == cur, z3.And(S.host(h, x) == cur, S.active(h, x) == S.active(b, x), S.parent(h, x) == S.parent(b, x), h.f(S.C, "_tasks", x) == b.f(S.C, "_tasks", x), h.f(S.C, "_child_scopes", x) == b.f(S.C, "_child_scopes", x))), patterns=[S.host(h, x), S.active(h, x)]))
        st.assume(z3.ForAll([x], z3.Implies(S.host(h, x) == cur, S.host(b, x) == cur), patterns=[S.host(h, x)]))
        st.assume(z3.And(S.tstate_of(h, cur) == S.tstate_of(b, cur), h.f("TaskState", "cancel_scope", S.tstate_of(b, cur)) == b.f("TaskState", "cancel_scope", S.tstate_of(b, cur))))
        # cancel_called is monotone; the host stays a member of its current scope
        st.assume(z3.ForAll([x], z3.Implies(S.cc(b, x), S.cc(h, x)), patterns=[S.cc(h, x)]))
        cs_now = h.f("TaskState", "cancel_scope", S.tstate_of(h, cur))
        st.assume(z3.Implies(cs_now != 0, S.members(h, cs_now).has(cur)))
        self.unfold(ip, h)


# ---- __init__ / __aenter__ -------------------------------------------------------------------------------------------------


class InitUnit(TGUnit):
    method = "__init__"
    is_init = True
    contract = None

    def assert_inv(self, ip, site):
        h = H(ip.st)
        for n, t in self.spec.inv_terms(h, self.self_val.t, ip.ctx.cur.t):
            ip.ctx.oblige(f"{self.qualname}{site}/inv:{n}", t, "inv")

    def ghost_init(self, ip):
        ip.st.put(G, "$exc_deleted", self.self_val.t, z3.BoolVal(False))

    def on_exit(self, ip, pre, a, exc, ret):
        s = a.self
        post = H(ip.st)
        ip.ctx.oblige("TaskGroup.__init__/post:empty_group_with_a_fresh_inactive_scope", z3.And(z3.BoolVal(exc is None), tasks(post, s).card == 0, excs(post, s).len == 0, z3.Not(post.f(G, "_entered", s)), fut(post, s) == 0, z3.Not(S.active(post, scope(post, s))), z3.Not(S.cc(post, scope(post, s)))), "post")


class AEnterUnit(TGUnit):
    method = "__aenter__"
    contract = None

    def on_exit(self, ip, pre, a, exc, ret):
        s = a.self
        post = H(ip.st)
        if exc is not None:
            ip.ctx.oblige("TaskGroup.__aenter__/post:refused.only_a_second_entry_or_a_used_scope", z3.And(z3.BoolVal(exc.pycls is RuntimeError), z3.Or(pre.f(G, "_entered", s), S.active(pre, scope(pre, s)))), "post")
            return
        ip.ctx.oblige("TaskGroup.__aenter__/post:entered_and_scope_active_with_the_caller_as_host", z3.And(post.f(G, "_entered", s), S.active(post, scope(post, s)), S.host(post, scope(post, s)) == a.cur), "post")


# ---- __aexit__ ---------------------------------------------------------------------------------------------------------------------


def body_exc(ip):
    """what the body of the `async with` ended with: nothing, a cancellation (AnyIO or native), another exception"""
    import asyncio

    k = ip.ctx.decide(3, "body-outcome")
    if k == 0:
        return None
    if k == 1:
        e = ExcVal(asyncio.CancelledError, ())
        e.tag = z3.Bool("body_exc_is_anyio_cancellation")
        return e
    return lib.sym_exc(ip, "body_exc", kinds=["Exception", "BaseException", "BaseExceptionGroup", "KeyboardInterrupt"])


class AExitUnit(TGUnit):
    method = "__aexit__"
    contract = None
    split = (3, 2, 2)
    loops = {}

    def make_args(self, ip):
        self.exc = body_exc(ip)
        tp = lib.type_of_exc(ip, self.exc) if self.exc is not None else None
        return [tp, self.exc, None], types.SimpleNamespace()

    def assume_state(self, ip):
        super().assume_state(ip)
        st = ip.st
        h = H(st)
        s, cur = self.self_val.t, ip.ctx.cur.t
        c = scope(h, s)
        # precondition (context-manager discipline): the block was entered by this task, the group's scope is the
        # task's current scope, the exit has not run yet
        st.assume(z3.And(h.f(G, "_entered", s), z3.Not(deleted(h, s)), S.exit_legit(h, c, cur)))
        st.assume(S.members(h, c).has(cur))
        self.unfold(ip, h)
        if self.exc is not None:
            lib.exc_ref(ip, self.exc)

    def contract_for(self, qualname, ctx):
        if qualname == "CancelScope.__exit__":
            inner = S.SCOPE_CALLS[qualname]
            unit = self

            def fn(ip, args, kwargs):
                unit.last_scope_state = H(ip.st, ip.st.snapshot())  # the state in which the (last) scope exit decides
                for t in (args[0].t, S.parent(unit.last_scope_state, args[0].t), z3.IntVal(0)):
                    ip.st.assume(S.eff_unfold(unit.last_scope_state, t))
                return inner.fn(ip, args, kwargs)

            return S.ScopeCall(qualname, fn)
        return super().contract_for(qualname, ctx)

    def loop_spec(self, qualname, ordinal):
        if qualname == "TaskGroup.__aexit__" and ordinal == 0:
            return LoopSpec(self.wait_loop_inv, modifies=None, after_havoc=self.wait_after_havoc, gen_locals={"exc_val": self.gen_exc_val})
        return None

    def loop_spec_by_shape(self, node, f):
        """the wait loop recognised by its shape -- `while self._tasks:` around an `await self._on_completed_fut` -- so
        that it keeps its invariant when an edit moves it into a helper method of the group"""
        import ast

        if not (isinstance(node, ast.While) and ast.unparse(node.test) == "self._tasks"):
            return None
        if not any(isinstance(n, ast.Await) and ast.unparse(n.value) == "self._on_completed_fut" for n in ast.walk(node)):
            return None
        return LoopSpec(self.wait_loop_inv, modifies=None, after_havoc=self.wait_after_havoc, gen_locals={"exc_val": self.gen_exc_val})

    def wait_scope_of(self, ip, env, h):
        """the wait scope: the local of that type where the loop sits in __aexit__ itself; in a helper, the current scope
        of the running host task"""
        try:
            return ip.term(S.local_of_type(env, CS, "wait_scope"), CS)
        except Unsupported:
            return h.f("TaskState", "cancel_scope", S.tstate_of(h, ip.ctx.cur.t))

    def gen_exc_val(self, ip, v):
        """`exc_val` after any number of iterations of the wait loop: what it was before the loop, or a CancelledError
        caught while waiting (it replaces `None`, or a cancellation when the new one is a native one)"""
        if ip.ctx.decide(2, "exc_val-replaced") == 0:
            return v
        if v is not None:
            is_c = lib.exc_isinstance(ip, v, (lib.exc_classes()["CancelledError"],))
            if is_c is False:
                raise lib.PathEnd("a non-cancellation body exception is never replaced")
            if is_c is not True:
                ip.st.assume(is_c)
        return lib.new_cancelled(ip)

    def wait_loop_inv(self, ip, env):
        h = H(ip.st)
        s, cur = self.self_val.t, ip.ctx.cur.t
        c = scope(h, s)
        ws = self.wait_scope_of(ip, env, h)
        self.private_scopes = (ws,)
        if self.after_record is None:
            self.snapshot_record(ip)  # first evaluation = loop entry: the state after the first (suspension-free) part
            # the wait starts unshielded: a cancellation of an enclosing scope must be able to reach the waiting host
            # (it is shielded only after the first one was caught, #695); asked once, at loop entry
            ip.ctx.oblige("TaskGroup.__aexit__@wait/post:the_wait_for_the_children_starts_unshielded", z3.Not(S.shield(h, ws)), "post")
        E0 = self.entry
        out = [(n, t) for n, t in TG.inv_terms(h, s, cur)]
        out += [
            ("the_group_object_is_not_rewired", z3.And(scope(h, s) == scope(E0, s), h.f(G, "_exceptions", s) == E0.f(G, "_exceptions", s), h.f(G, "_tasks", s) == E0.f(G, "_tasks", s))),
            ("wait_scope_is_the_current_scope_of_the_host", S.exit_legit(h, ws, cur)),
            ("wait_scope_is_nested_directly_in_the_group_scope", z3.And(S.parent(h, ws) == c, ws != c)),
            ("group_scope_is_still_active_with_the_same_host", z3.And(S.active(h, c), S.host(h, c) == cur)),
            ("wait_scope_is_never_cancelled_itself", z3.And(z3.Not(S.cc(h, ws)), S.deadline_(h, ws) == S.INF)),
            ("exit_has_not_run", z3.And(z3.Not(deleted(h, s)), h.f(G, "_entered", s))),
            ("body_exception_recorded_once", self.recorded(h)),
            ("scope_cancelled_when_the_body_failed", z3.Implies(z3.BoolVal(self.exc is not None), S.cc(h, c))),
        ]
        return out

    def wait_after_havoc(self, ip, env):
        h = H(ip.st)
        s, cur = self.self_val.t, ip.ctx.cur.t
        for n, t in TG.assumed_terms(h, s, cur):
            ip.st.assume(t)
        ws = self.wait_scope_of(ip, env, h)
        for n, t in S.SCOPE.assumed_terms(h, ws, cur):
            ip.st.assume(t)
        self.unfold(ip, h)
        for t in (ws,):
            ip.st.assume(S.eff_unfold(h, t))

    def recorded(self, h):
        """the body's exception was appended to the collected list exactly once iff it is not a cancellation"""
        s = self.self_val.t
        first = self.after_record
        if first is None:
            return z3.BoolVal(True)
        return exc_list_only_grows(first, h, s)

    def on_entry(self, ip, pre, a):
        self.after_record = None
        self.entry = pre
        self.private_scopes = ()
        self.last_scope_state = None
        self.via_exit_checkpoint = False

    def before_suspend(self, ip, what, payload):
        if self.after_record is None:
            self.snapshot_record(ip)
        if what == "cancel_shielded_checkpoint":
            self.via_exit_checkpoint = True  # the group had no children: the exit runs its one checkpoint (else branch)
        super().before_suspend(ip, what, payload)

    def assert_inv(self, ip, site):
        # obligations reached through the exit checkpoint of a childless group are named apart: two recorded findings
        # (F4, F9) live on exactly that path and must not mask the same clauses on the waiting path
        if site == "@exit" and self.via_exit_checkpoint:
            site = "@exit[after_the_exit_checkpoint_of_a_childless_group]"
        super().assert_inv(ip, site)

    def snapshot_record(self, ip):
        st = ip.st
        self.after_record = H(st, st.snapshot())
        s = self.self_val.t
        e = self.exc
        nm = "TaskGroup.__aexit__"
        if e is None:
            want = exc_list_grew_by(self.entry, self.after_record, s, [])
            ip.ctx.oblige(f"{nm}@first/post:clean_exit_records_nothing_and_does_not_cancel", z3.And(want, S.cc(self.after_record, scope(self.entry, s)) == S.cc(self.entry, scope(self.entry, s))), "post")
            return
        is_cancel = lib.exc_isinstance(ip, e, (lib.exc_classes()["CancelledError"],))
        is_cancel = z3.BoolVal(is_cancel) if isinstance(is_cancel, bool) else is_cancel
        ip.ctx.oblige(
            f"{nm}@first/post:body_exception_is_recorded_exactly_once_unless_it_is_a_cancellation",
            z3.If(is_cancel, exc_list_grew_by(self.entry, self.after_record, s, []), exc_list_grew_by(self.entry, self.after_record, s, [lib.exc_ref(ip, e)])),
            "post",
        )
        ip.ctx.oblige(f"{nm}@first/post:a_failing_body_cancels_the_group", S.cc(self.after_record, scope(self.entry, s)), "post")

    def on_exit(self, ip, pre, a, exc, ret):
        s, cur = a.self, a.cur
        post = H(ip.st)
        nm = "TaskGroup.__aexit__"
        c = scope(pre, s)
        if self.after_record is None:
            self.snapshot_record(ip)
        # ---- C01: join
        path = "[after_the_exit_checkpoint_of_a_childless_group]" if self.via_exit_checkpoint else ""
        ip.ctx.oblige(f"{nm}/post:no_child_is_left_when_the_block_exits{path}", tasks(post, s).card == 0, "post")
        ip.ctx.oblige(f"{nm}/post:the_group_scope_is_closed_so_nothing_can_be_started_afterwards", z3.And(z3.Not(S.active(post, c)), deleted(post, s)), "post")
        # ---- C02: what surfaces
        L = excs(post, s)
        e = self.exc
        if exc is not None and isinstance(exc, S.GroupExc) and getattr(exc, "leaves", None) is not None and (e is None or exc is not e):
            lst, data, lo, hi = exc.leaves
            ip.ctx.oblige(f"{nm}/post:raised_group_has_exactly_the_collected_exceptions_as_leaves", z3.And(lst == post.f(G, "_exceptions", s), data == L.data, lo == L.lo, hi == L.hi, L.len > 0), "post")
        elif exc is not None:
            is_cancel = lib.exc_isinstance(ip, exc, (lib.exc_classes()["CancelledError"],))
            is_cancel = z3.BoolVal(is_cancel) if isinstance(is_cancel, bool) else is_cancel
            # without collected errors the only thing that can leave the block is a cancellation: the body's own, or
            # one that interrupted the wait for the children (it passes through unchanged)
            native_at_ckpt = self.via_exit_checkpoint and exc.tag is not None and z3.is_false(exc.tag)
            sfx = "[native_cancel_at_the_exit_checkpoint_of_a_childless_group]" if native_at_ckpt else ""
            ip.ctx.oblige(f"{nm}/post:without_collected_errors_only_a_cancellation_propagates{sfx}", z3.And(L.len == 0, is_cancel), "post")
        else:
            ip.ctx.oblige(f"{nm}/post:returns_normally_only_when_nothing_was_collected", L.len == 0, "post")
            swallowed = ip.truth(ret) if ret is not None else False
            swallowed = z3.BoolVal(swallowed) if isinstance(swallowed, bool) else swallowed
            # a cancellation (of the body, or caught while waiting for the children) is absorbed only as the group
            # scope's own AnyIO cancellation; otherwise nothing is swallowed
            ip.ctx.oblige(f"{nm}/post:a_cancellation_is_absorbed_only_by_the_scope_it_belongs_to", z3.Implies(swallowed, S.exit_own(self.last_scope_state or pre, c)), "post")
            if e is not None:
                ip.ctx.oblige(f"{nm}/post:a_body_exception_does_not_vanish_unless_absorbed", swallowed, "post")

    last_scope_state = None


# ---- the per-child done callback ----------------------------------------------------------------------------------------------


class TaskDoneUnit(TGBase, FunctionUnit):
    """TaskGroup._spawn.<locals>.task_done: run by the loop exactly once when the child task is done (E6)."""

    props = ("C01", "C02", "C07")
    modpath = ASYNCIO
    funcname = "TaskGroup._spawn.<locals>.task_done"
    trusted = ("E1", "E3", "E6", "A-delivery", "A-scope-contracts")
    split = (3, 3)

    def __init__(self):
        super().__init__()
        self.globals = self.tg_globals()

    def model_getattr(self, ip, obj, attr):
        return self.tg_model_getattr(ip, obj, attr)

    def loop_spec(self, qualname, ordinal):
        # `while isinstance(e.__context__, CancelledError)`: exception chaining is dropped by the extraction
        # (__context__ is None), the loop body is unreachable
        return LoopSpec(lambda ip, env: [], modifies=set())

    def run(self, ip):
        st = ip.st
        self.tg = Sym(z3.Int("tg"), RefT(G))
        self.task = Sym(z3.Int("child_task"), TASK)
        h = H(st)
        s, cur = self.tg.t, ip.ctx.cur.t
        k = ip.ctx.decide(3, "status-future")
        if k == 0:
            self.tsf = None
        else:
            self.tsf = Sym(z3.Int("task_status_future"), FUT)
            st.assume(z3.And(self.tsf.t > 0, st.allocated(self.tsf.t), self.tsf.t != fut(h, self.tg.t)))  # the readiness future is not the host's completion future
        for n, t in TG.assumed_terms(h, s, cur) + TG.inv_terms(h, s, cur):
            st.assume(t)
        t_ = self.task.t
        ts = S.tstate_of(h, t_)
        tcs = h.f("TaskState", "cancel_scope", ts)
        # E6 + the registration made by _spawn (G1): the finished child is a member of the group and of its current
        # scope (which it has left all inner scopes of), and its task state is registered
        st.assume(z3.And(t_ > 0, st.allocated(t_), h.f("Task", "done", t_), tasks(h, s).has(t_), ts > 0, st.allocated(ts), tcs > 0, st.allocated(tcs), S.members(h, tcs).has(t_), h.f(S.C, "_tasks", tcs) > 0, S.members(h, tcs).wf(), h.f(S.C, "_tasks", tcs) != h.f(G, "_tasks", s)))
        st.assume(z3.Not(deleted(h, s)))  # J1: a child is still registered, so the block has not exited
        c = scope(h, s)
        for x in (c, S.parent(h, c), z3.IntVal(0)):
            st.assume(S.eff_unfold(h, x))
        self.pre = H(st, st.snapshot())
        node = __import__("segvc.extract", fromlist=["x"]).module(ASYNCIO).get(self.funcname)
        env = Env({"self": self.tg, "task": self.task, "task_status_future": self.tsf})
        f = FuncVal(node, env, ASYNCIO, self.funcname)
        exc = None
        self.outcome = None
        try:
            call_env = ip.bind_args(f, [self.task], {})
            ip.run_body(f, call_env)
        except PyExc as e:
            exc = e.exc
        ip.ctx.cover(f"{self.funcname}/cover:exit[{'return' if exc is None else 'raise'}]")
        self.check(ip, exc)

    def check(self, ip, exc):
        st = ip.st
        pre, post = self.pre, H(st)
        s, t_ = self.tg.t, self.task.t
        nm = "TaskGroup.task_done"
        c = scope(pre, s)
        for x in (c, S.parent(post, c), z3.IntVal(0)):
            st.assume(S.eff_unfold(post, x))
        ip.ctx.oblige(f"{nm}/post:callback_never_raises", z3.BoolVal(exc is None), "post")
        if exc is not None:
            return
        # ---- C01: bookkeeping
        tcs = pre.f("TaskState", "cancel_scope", S.tstate_of(pre, t_))
        ip.ctx.oblige(f"{nm}/post:child_removed_from_the_group_from_its_scope_and_from_the_task_states", z3.And(z3.Not(tasks(post, s).has(t_)), tasks(post, s).card == tasks(pre, s).card - 1, z3.Not(S.members(post, tcs).has(t_)), S.tstate_of(post, t_) == 0), "post")
        f0 = fut(pre, s)
        ip.ctx.oblige(f"{nm}/post:host_is_woken_when_the_last_child_is_gone", z3.Implies(z3.And(f0 != 0, tasks(post, s).card == 0), fstate(post, f0) != PENDING), "post")
        for n, t in TG.inv_terms(post, s, ip.ctx.cur.t):
            ip.ctx.oblige(f"{nm}@exit/inv:{n}", t, "inv")
        for n, t in tg_guarantee(pre, post, s, ip.ctx.cur.t):
            ip.ctx.oblige(f"{nm}@exit/guar:{n}", t, "guar")
        # ---- C02 / C07: routing of the child's outcome
        lbl = ip.ctx.labels
        outcome = next((x for x in lbl if x.startswith("task-outcome=")), "task-outcome=0")
        k = int(outcome.split("=")[1])
        tsf = self.tsf
        unchanged_list = exc_list_grew_by(pre, post, s, [])
        group_cancelled_now = z3.And(S.cc(post, c), z3.Not(S.cc(pre, c)))
        if tsf is None:
            pending_status = z3.BoolVal(False)
            tsf_state_pre = None
        else:
            tsf_state_pre = fstate(pre, tsf.t)
            pending_status = tsf_state_pre == PENDING
        child_exc = self.child_exc_ref(ip)
        if k == 0:  # the child returned normally
            ip.ctx.oblige(f"{nm}/post:a_child_that_returned_adds_no_error", unchanged_list, "post")
            if tsf is not None:
                ip.ctx.oblige(f"{nm}/post:returned_without_started.reported_to_start_only_as_an_error_that_is_not_a_cancellation", z3.Implies(pending_status, z3.And(fstate(post, tsf.t) == EXC, ekind(post, post.f("Future", "exc", tsf.t)) == kind_id("Exception"), z3.Not(group_cancelled_now))), "post")
            ip.ctx.oblige(f"{nm}/post:a_child_that_returned_does_not_cancel_the_group", z3.Not(group_cancelled_now), "post")
        elif k == 1:  # the child raised a non-cancellation exception
            to_group = exc_list_grew_by(pre, post, s, [child_exc])
            if tsf is None:
                ip.ctx.oblige(f"{nm}/post:child_error_is_collected_exactly_once", to_group, "post")
                ip.ctx.oblige(f"{nm}/post:child_error_cancels_the_siblings", S.eff(post, c), "post")
            else:
                routed_to_start = z3.And(fstate(post, tsf.t) == EXC, post.f("Future", "exc", tsf.t) == child_exc, unchanged_list, z3.Not(group_cancelled_now))
                ip.ctx.oblige(f"{nm}/post:child_error_before_started_goes_to_start_only_and_does_not_cancel_the_group", z3.Implies(pending_status, routed_to_start), "post")
                ip.ctx.oblige(f"{nm}/post:child_error_after_started_is_collected_exactly_once", z3.Implies(tsf_state_pre == RESULT, z3.And(to_group, S.eff(post, c))), "post")
                ip.ctx.oblige(f"{nm}/post:child_error_after_the_starter_was_cancelled_still_surfaces", z3.Implies(tsf_state_pre == CANCELLED, z3.And(to_group, S.eff(post, c))), "post")
        else:  # the child was cancelled
            ip.ctx.oblige(f"{nm}/post:a_cancelled_child_adds_no_error", unchanged_list, "post")
            if tsf is not None:
                ip.ctx.oblige(f"{nm}/post:cancelled_before_started.the_cancellation_itself_is_reported_to_start_only", z3.Implies(pending_status, z3.And(fstate(post, tsf.t) == EXC, post.f("Future", "exc", tsf.t) == child_exc, z3.Not(group_cancelled_now))), "post")

    def child_exc_ref(self, ip):
        for ev in ip.ctx.events:
            if ev[0] == "child-exc":
                return ev[1]
        return z3.IntVal(-1)

    def note_future_exception(self, ip, fut_, e):
        pass


def _task_exception_recording(ip, t):
    k = ip.ctx.decide(3, "task-outcome")
    if k == 0:
        return None
    if k == 1:
        e = lib.sym_exc(ip, "child_exc", kinds=["Exception", "BaseException", "BaseExceptionGroup", "KeyboardInterrupt"])
        ip.ctx.events.append(("child-exc", lib.exc_ref(ip, e)))
        return e
    e = lib.new_cancelled(ip)
    ip.ctx.events.append(("child-exc", lib.exc_ref(ip, e)))
    raise PyExc(e)


lib.MODEL_METHODS["Task"]["exception"] = _task_exception_recording

UNITS = [InitUnit, AEnterUnit, AExitUnit, TaskDoneUnit]


# =============================================================================== TaskHandle (anyio/_core/_tasks.py)

from specs import c08_checkpoints as K  # noqa: E402  (registers class "TaskHandle" with its finished event; Event contracts)
from specs import c11_condition as E  # noqa: E402

TH = "TaskHandle"
CLASSES[TH].fields.update({"_cancel_scope": CS, "_exception": OBJ, "_return_value": OBJ, "_start_value": OBJ, "_name": lib.STR})
THR = RefT(TH)
HANDLE = ClassSpec(TH)
ST_PENDING, ST_FINISHED, ST_CANCELLING, ST_CANCELLED, ST_FAILED = 1, 2, 3, 4, 5  # Enum auto() values in declaration order


def h_event(h, s):
    return h.f(TH, "_finished_event", s)


def h_scope(h, s):
    return h.f(TH, "_cancel_scope", s)


def h_finished(h, s):
    return E.evflag(h, h_event(h, s))


def h_exc(h, s):
    return h.f(TH, "_exception", s)


@HANDLE.assume("wf")
def _(h, s, cur):
    al = h.arr("$", "alloc")
    c = h_scope(h, s)
    return z3.And(s > 0, z3.Select(al, s), h_event(h, s) > 0, z3.Select(al, h_event(h, s)), E.embedded(h), c > 0, z3.Implies(h_exc(h, s) != 0, z3.And(h_exc(h, s) > 0, z3.Select(al, h_exc(h, s)))), *[t for _, t in S.SCOPE.assumed_terms(h, c, cur)])


def status_spec(h, s):
    """the status as a total function of (finished, cancel requested, exception class) -- the table of the property"""
    fin = h_finished(h, s)
    exc = h_exc(h, s)
    return z3.If(
        z3.Not(fin),
        z3.If(S.cc(h, h_scope(h, s)), ST_CANCELLING, ST_PENDING),
        z3.If(exc == 0, ST_FINISHED, z3.If(ekind(h, exc) == CANCEL_KIND, ST_CANCELLED, ST_FAILED)),
    )


class StatusNS:
    """TaskHandle.Status (an Enum): members are modelled by their auto() values"""

    values = {"PENDING": ST_PENDING, "FINISHED": ST_FINISHED, "CANCELLING": ST_CANCELLING, "CANCELLED": ST_CANCELLED, "FAILED": ST_FAILED}


class HandleUnit(TGBase, MethodUnit):
    props = ("C01",)
    spec = HANDLE
    trusted = ("E1", "E7", "A-event-private", "A-scope-contracts", "A-user-coro")
    contracts = dict(TGBase.contracts)
    contracts.update(E.EVENT_CONTRACTS)

    def props_of(self, name):
        return {"C01"}

    def __init__(self):
        super().__init__()
        g = self.tg_globals()
        g.update({"get_cancelled_exc_class": Builtin("get_cancelled_exc_class", lambda ip: ClassVal("CancelledError", pycls=lib.exc_classes()["CancelledError"])), "asyncio": E._asyncio_ns(), "TaskHandle": ClassVal("TaskHandle", info=CLASSES[TH])})
        self.globals = g

    def class_getattr(self, ip, cv, attr):
        if cv.name == "TaskHandle" and attr == "Status":
            return StatusNS()
        return NotImplemented

    def model_getattr(self, ip, obj, attr):
        if isinstance(obj, StatusNS) and attr in StatusNS.values:
            return StatusNS.values[attr]
        return self.tg_model_getattr(ip, obj, attr)

    def construct_exception(self, ip, pycls, args):
        return NotImplemented

    def isinstance(self, ip, x, cls):
        # an exception object read back from a field of the handle
        if isinstance(x, Sym) and x.ty is OBJ and isinstance(cls, ClassVal) and cls.pycls is not None and issubclass(cls.pycls, BaseException):
            r = lib.exc_isinstance(ip, lib.exc_from_ref(ip, x.t), (cls.pycls,))
            return r if isinstance(r, bool) else Sym(r, BOOL)
        return NotImplemented

    def guarantee(self, seg, now, s, cur):
        return []

    def resume_assumptions(self, ip, what, payload):
        st, s, cur = ip.st, self.self_val.t, ip.ctx.cur.t
        h, b = H(st), self.before
        for n, t in self.spec.assumed_terms(h, s, cur):
            st.assume(t)
        # the handle's own fields are written by its wrapper coroutine only (this call)
        st.assume(z3.And(*[h.f(TH, n, s) == b.f(TH, n, s) for n in ("_finished_event", "_cancel_scope", "_exception", "_return_value")]))
        st.assume(z3.Implies(E.evflag(b, h_event(b, s)), E.evflag(h, h_event(h, s))))
        st.assume(z3.Implies(z3.Not(E.evflag(b, h_event(b, s))), z3.Not(E.evflag(h, h_event(h, s)))))  # only _run_coro sets it
        x = z3.Int(st.uniq("x"))
        st.assume(z3.ForAll([x], z3.Implies(S.host(b, x) == cur, z3.And(S.host(h, x) == cur, S.active(h, x) == S.active(b, x), S.parent(h, x) == S.parent(b, x))), patterns=[S.host(h, x)]))
        st.assume(z3.And(S.tstate_of(h, cur) == S.tstate_of(b, cur), h.f("TaskState", "cancel_scope", S.tstate_of(b, cur)) == b.f("TaskState", "cancel_scope", S.tstate_of(b, cur))))
        st.assume(z3.ForAll([x], z3.Implies(S.cc(b, x), S.cc(h, x)), patterns=[S.cc(h, x)]))
        c = h_scope(h, s)
        for t in (c, S.parent(h, c), z3.IntVal(0)):
            st.assume(S.eff_unfold(h, t))


USER_CORO = Contract(
    "user coroutine",
    requires=lambda h, a: [],
    cases=[
        Case("returned", when=lambda pre, a: True, ret_ty=OBJ, ensures=lambda pre, post, a, ret: []),
        Case("raised", when=lambda pre, a: True, raises="Exception", ensures=lambda pre, post, a, ret: []),
        Case("cancelled", when=lambda pre, a: True, raises="CancelledError", ensures=lambda pre, post, a, ret: []),
    ],
    bind=lambda ip, args, kwargs: types.SimpleNamespace(self=z3.IntVal(0), cur=ip.ctx.cur.t),
    suspends=True,
)


class RunCoroUnit(HandleUnit):
    """TaskHandle._run_coro: the wrapper every child task runs.  The user's coroutine is an opaque suspending callee
    (returns a value, raises, or is cancelled)."""

    method = "_run_coro"
    contract = None
    split = (2, 3)

    def assume_state(self, ip):
        super().assume_state(ip)
        h = H(ip.st)
        s = self.self_val.t
        # a fresh handle as __init__ leaves it; the task runs its wrapper exactly once
        ip.st.assume(z3.And(z3.Not(h_finished(h, s)), h_exc(h, s) == 0, z3.Not(S.active(h, h_scope(h, s))), S.parent(h, h_scope(h, s)) == 0, S.host(h, h_scope(h, s)) == 0, S.thandle(h, h_scope(h, s)) == 0, S.pending_(h, h_scope(h, s)) == 0))
        self.set_at = None

    def model_getattr(self, ip, obj, attr):
        return super().model_getattr(ip, obj, attr)

    def do_await_user(self, ip):
        return USER_CORO.apply(ip, None, [], {})

    def get_coro(self, ip):
        from segvc.interp import AwaitableVal

        return AwaitableVal("contract", lambda: self.do_await_user(ip))

    def after_suspending_call(self, ip, contract, a, case, exc, ret=None):
        if contract is USER_CORO:
            self.outcome = (case.name, exc, ret)

    def on_entry(self, ip, pre, a):
        self.outcome = None

    def contract_for(self, qualname, ctx):
        if qualname == "Event.set":
            unit = self
            inner = E.EV_SET

            class Wrap:
                suspends = False

                def apply(self_, ip, f, args, kwargs):
                    r = inner.apply(ip, f, args, kwargs)
                    unit.set_at = (ip.ctx.flags["suspended"], H(ip.st, ip.st.snapshot()))
                    return r

            return Wrap()
        return super().contract_for(qualname, ctx)

    def on_exit(self, ip, pre, a, exc, ret):
        s = a.self
        post = H(ip.st)
        nm = "TaskHandle._run_coro"
        if self.outcome is None:
            # the wrapper did not get as far as running the coroutine (its scope refused to be entered)
            ip.ctx.oblige(f"{nm}/post:coroutine_not_run_only_if_the_scope_was_refused", z3.BoolVal(exc is not None and exc.pycls is RuntimeError), "post")
            return
        kind, uexc, uret = self.outcome
        ip.ctx.oblige(f"{nm}/post:finished_event_is_set_on_every_exit", h_finished(post, s), "post")
        ip.ctx.oblige(f"{nm}/post:no_suspension_point_after_the_finished_event_is_set", z3.BoolVal(self.set_at is not None and self.set_at[0] == ip.ctx.flags["suspended"]), "post")
        if self.set_at is not None:
            at = self.set_at[1]
            if kind == "returned":
                ip.ctx.oblige(f"{nm}/post:return_value_recorded_before_completion_is_signalled", z3.And(at.f(TH, "_return_value", s) == uret.t, h_exc(at, s) == 0), "post")
            else:
                ip.ctx.oblige(f"{nm}/post:exception_recorded_before_completion_is_signalled", h_exc(at, s) == lib.exc_ref(ip, uexc), "post")
        if kind == "returned":
            ip.ctx.oblige(f"{nm}/post:status_is_finished_with_the_coroutines_value", z3.And(status_spec(post, s) == ST_FINISHED, post.f(TH, "_return_value", s) == uret.t), "post")
        elif kind == "raised":
            ip.ctx.oblige(f"{nm}/post:status_is_failed_with_the_coroutines_exception", z3.And(status_spec(post, s) == ST_FAILED, h_exc(post, s) == lib.exc_ref(ip, uexc)), "post")
        else:
            ip.ctx.oblige(f"{nm}/post:status_is_cancelled", z3.And(status_spec(post, s) == ST_CANCELLED, h_exc(post, s) == lib.exc_ref(ip, uexc)), "post")


def _run_coro_getattr(self, ip, obj, attr):
    if isinstance(obj, Sym) and obj.ty is THR and attr == "_coro" and isinstance(self, RunCoroUnit):
        return self.get_coro(ip)
    return HandleUnit.model_getattr(self, ip, obj, attr)


class StatusUnit(HandleUnit):
    method = "status"
    contract = None

    def on_exit(self, ip, pre, a, exc, ret):
        ok = exc is None and ret is not None
        ip.ctx.oblige("TaskHandle.status/post:returns_a_status", z3.BoolVal(ok), "post")
        if ok:
            ip.ctx.oblige("TaskHandle.status/post:is_the_function_of_finished_cancel_requested_and_exception_class", ip.term(ret, INT) == status_spec(pre, a.self), "post")


STATUS_PROP = Contract("TaskHandle.status", requires=lambda h, a: [], cases=[Case("pure", when=lambda pre, a: True, ret_ty=INT, ensures=lambda pre, post, a, ret: [("spec", ret == status_spec(pre, a.self))])], modifies=set(), bind=lambda ip, args, kwargs: types.SimpleNamespace(self=args[0].t, cur=ip.ctx.cur.t))


class ExceptionPropUnit(HandleUnit):
    method = "exception"
    contract = None
    contracts = dict(HandleUnit.contracts, **{"TaskHandle.status": STATUS_PROP})

    def on_exit(self, ip, pre, a, exc, ret):
        s = a.self
        st_ = status_spec(pre, s)
        nm = "TaskHandle.exception"
        if exc is None:
            ip.ctx.oblige(f"{nm}/post:returns_only_for_finished_or_failed", z3.Or(st_ == ST_FINISHED, st_ == ST_FAILED), "post")
            ip.ctx.oblige(f"{nm}/post:none_iff_finished_else_the_recorded_exception", z3.If(st_ == ST_FINISHED, z3.BoolVal(ret is None), z3.BoolVal(ret is not None) if ret is None else ip.term(ret, OBJ) == h_exc(pre, s)), "post")
        else:
            name = exc.pycls.__name__ if exc.pycls else "?"
            want = {"TaskNotFinished": st_ == ST_PENDING, "TaskCancelled": z3.Or(st_ == ST_CANCELLING, st_ == ST_CANCELLED)}.get(name, z3.BoolVal(False))
            ip.ctx.oblige(f"{nm}/post:raises_exactly_per_status[{name}]", want, "post")


class ReturnValuePropUnit(HandleUnit):
    method = "return_value"
    contract = None
    contracts = dict(HandleUnit.contracts, **{"TaskHandle.status": STATUS_PROP})

    def on_exit(self, ip, pre, a, exc, ret):
        s = a.self
        st_ = status_spec(pre, s)
        nm = "TaskHandle.return_value"
        if exc is None:
            ip.ctx.oblige(f"{nm}/post:returns_the_recorded_value_only_when_finished", z3.And(st_ == ST_FINISHED, ip.term(ret, OBJ) == pre.f(TH, "_return_value", s)), "post")
        else:
            name = exc.pycls.__name__ if exc.pycls else "?"
            want = {"TaskNotFinished": st_ == ST_PENDING, "TaskCancelled": z3.Or(st_ == ST_CANCELLING, st_ == ST_CANCELLED), "TaskFailed": st_ == ST_FAILED}.get(name, z3.BoolVal(False))
            ip.ctx.oblige(f"{nm}/post:raises_exactly_per_status[{name}]", want, "post")


class HandleCancelUnit(HandleUnit):
    method = "cancel"
    contract = None

    def on_exit(self, ip, pre, a, exc, ret):
        s = a.self
        post = H(ip.st)
        ip.ctx.oblige("TaskHandle.cancel/post:requests_cancellation_iff_not_finished", z3.And(z3.BoolVal(exc is None), S.cc(post, h_scope(pre, s)) == z3.Or(S.cc(pre, h_scope(pre, s)), z3.Not(h_finished(pre, s))), h_finished(post, s) == h_finished(pre, s)), "post")


RunCoroUnit.model_getattr = _run_coro_getattr
UNITS += [RunCoroUnit, StatusUnit, ExceptionPropUnit, ReturnValuePropUnit, HandleCancelUnit]


# =============================================================================== create_task / _spawn, start, started

register_class("TaskStatus", {"_future": FUT, "_parent_id": INT}, source=(ASYNCIO, "_AsyncioTaskStatus"))
TSTAT = RefT("TaskStatus")


def new_handle(ip, coro=None, name=None):
    """TaskHandle(coro, name): a fresh, unfinished handle with its own inactive, uncancelled scope (the constructor
    itself -- name formatting, front-end dispatch of CancelScope()/Event() -- is not under contract: A-dispatch)"""
    st = ip.st
    hd = Sym(st.alloc(TH), THR)
    ev = E._new_event(ip)
    sc = ip.construct(CLASSES[S.C], [], {})
    st.put(TH, "_finished_event", hd.t, ev.t)
    st.put(TH, "_cancel_scope", hd.t, sc.t)
    st.put(TH, "_exception", hd.t, z3.IntVal(0))
    st.put(TH, "_name", hd.t, st.fresh("name", z3.IntSort()))
    return hd


def loop_create_task(ip, coro, name=None, **kw):
    """loop.create_task(coro): a new task that has not run yet (E6: it does not run before the creating segment ends)"""
    st = ip.st
    t = Sym(st.alloc("Task"), TASK)
    st.put("Task", "done", t.t, z3.BoolVal(False))
    st.put("Task", "started", t.t, z3.BoolVal(False))
    st.put("Task", "must_cancel", t.t, z3.BoolVal(False))
    ip.ctx.events.append(("create_task", t))
    return t


class SpawnMixin:
    def spawn_globals(self):
        g = self.tg_globals()
        g.update(
            {
                "TaskHandle": Builtin("TaskHandle", new_handle),
                "Coroutine": ClassVal("Coroutine"),
                "get_coro_name": Builtin("get_coro_name", lambda ip, coro, name: Sym(ip.st.fresh("name", z3.IntSort()), lib.STR)),
                "get_callable_name": Builtin("get_callable_name", lambda ip, func, name: Sym(ip.st.fresh("name", z3.IntSort()), lib.STR)),
                "call_for_coroutine": Builtin("call_for_coroutine", lambda ip, func, args, **kw: Sym(ip.st.fresh("coro", z3.IntSort()), OBJ)),
                "_eager_task_factory_code": None,
                "getattr": Builtin("getattr", lambda ip, o, n, d=None: d),
                "_AsyncioTaskStatus": ClassVal("_AsyncioTaskStatus", info=CLASSES["TaskStatus"]),
            }
        )
        attrs = dict(lib.GLOBALS["asyncio"].attrs)
        attrs.update(E._asyncio_ns().attrs)
        attrs.update({"get_running_loop": Builtin("get_running_loop", lambda ip: S.LOOP), "future_add_to_awaited_by": None})
        g["asyncio"] = NS("asyncio", attrs)
        return g

    def spawn_model_getattr(self, ip, obj, attr):
        if isinstance(obj, S.LoopVal):
            if attr == "get_task_factory":
                return Builtin("loop.get_task_factory", lambda ip: None)
            if attr == "create_task":
                return Builtin("loop.create_task", loop_create_task)
        if isinstance(obj, Sym) and obj.ty is OBJ and attr == "close":
            return Builtin("coro.close", lambda ip: None)
        if isinstance(obj, Sym) and obj.ty is OBJ and attr == "__class__":
            return NS("cls", {"__qualname__": "x"})
        if isinstance(obj, Sym) and obj.ty is THR and attr == "_run_coro":
            return Builtin("TaskHandle._run_coro", lambda ip: CoroVal(None, None))
        if isinstance(obj, Sym) and obj.ty is THR and attr == "name":
            return Sym(ip.st.get(TH, "_name", obj.t), lib.STR)
        return self.tg_model_getattr(ip, obj, attr)

    def isinstance(self, ip, x, cls):
        if isinstance(cls, ClassVal) and cls.name == "Coroutine":
            return Sym(z3.Bool("coro_is_a_coroutine"), BOOL)
        return NotImplemented

    def registered(self, h, s, t):
        """what _spawn establishes for the new child t of group s (the precondition of its done callback)"""
        c = scope(h, s)
        ts = S.tstate_of(h, t)
        return z3.And(tasks(h, s).has(t), S.members(h, c).has(t), ts != 0, h.f("TaskState", "cancel_scope", ts) == c, z3.Not(h.f("Task", "done", t)))


def spawn_restarts_delivery(ip, nm, post, s):
    """C03 ("never lost because the task was newly created"): once the new child is registered in the group's scope c,
    the scope whose cancellation reaches c -- c itself if cancelled, else the nearest cancelled ancestor not behind a
    shield -- has a delivery callback scheduled, or no live task (the child is one) is reachable from it"""
    from specs import c03_delivery as D

    c = scope(post, s)
    n = z3.If(S.cc(post, c), c, z3.If(S.shield(post, c), 0, D.near(post, S.parent(post, c))))
    ip.ctx.oblige(f"{nm}/post:C03.a_child_started_inside_a_cancelled_scope_has_a_delivery_scheduled", z3.Implies(n != 0, z3.Or(S.chandle(post, n) != 0, z3.Not(D.live(post, n)))), "post")


class CreateTaskUnit(SpawnMixin, TGUnit):
    props = ("C01", "C02", "C03", "C07")
    method = "create_task"
    contract = None

    def __init__(self):
        super().__init__()
        self.globals = self.spawn_globals()

    def model_getattr(self, ip, obj, attr):
        return self.spawn_model_getattr(ip, obj, attr)

    def make_args(self, ip):
        return [Sym(z3.Int("coro"), OBJ)], types.SimpleNamespace()

    def make_kwargs(self, ip):
        return {"name": None, "context": None}

    def on_exit(self, ip, pre, a, exc, ret):
        s = a.self
        post = H(ip.st)
        nm = "TaskGroup.create_task"
        ok_state = z3.And(pre.f(G, "_entered", s), S.active(pre, scope(pre, s)))
        if exc is not None:
            name = exc.pycls.__name__ if exc.pycls else "?"
            if name == "RuntimeError":
                ip.ctx.oblige(f"{nm}/post:refused_unless_entered_and_the_group_scope_is_active", z3.Not(ok_state), "post")
                ip.ctx.oblige(f"{nm}/post:refused.nothing_started", z3.And(tasks(post, s).card == tasks(pre, s).card, z3.BoolVal(not any(e[0] == "create_task" for e in ip.ctx.events))), "post")
            else:
                ip.ctx.oblige(f"{nm}/post:type_error_only_for_a_non_coroutine", z3.And(z3.BoolVal(name == "TypeError"), z3.Not(z3.Bool("coro_is_a_coroutine"))), "post")
            return
        created = [e[1] for e in ip.ctx.events if e[0] == "create_task"]
        cbs = [e for e in ip.ctx.events if e[0] == "add_done_callback"]
        ip.ctx.oblige(f"{nm}/post:accepted_only_while_entered_and_active", ok_state, "post")
        ip.ctx.oblige(f"{nm}/post:exactly_one_task_created_with_its_done_callback", z3.BoolVal(len(created) == 1 and len(cbs) == 1), "post")
        if len(created) == 1:
            t = created[0].t
            c = scope(post, s)
            ts = S.tstate_of(post, t)
            ip.ctx.oblige(f"{nm}/post:child_is_a_member_of_the_group", z3.And(tasks(post, s).has(t), tasks(post, s).card == tasks(pre, s).card + 1), "post")
            ip.ctx.oblige(f"{nm}/post:child_is_a_member_of_the_group_scope", S.members(post, c).has(t), "post")
            ip.ctx.oblige(f"{nm}/post:child_task_state_is_registered_with_the_group_scope", z3.And(ts != 0, post.f("TaskState", "cancel_scope", ts) == c, z3.Not(post.f("Task", "done", t))), "post")
            ip.ctx.oblige(f"{nm}/post:returns_the_handle_of_an_unfinished_task", z3.BoolVal(isinstance(ret, Sym) and ret.ty is THR), "post")
            spawn_restarts_delivery(ip, nm, post, s)


class StartedUnit(SpawnMixin, TGBase, MethodUnit):
    props = ("C07",)
    spec = ClassSpec("TaskStatus")
    method = "started"
    contract = None
    trusted = ("E1", "E2")

    def props_of(self, name):
        return {"C07"}

    def __init__(self):
        super().__init__()
        self.globals = self.spawn_globals()

    def model_getattr(self, ip, obj, attr):
        return self.spawn_model_getattr(ip, obj, attr)

    def assume_state(self, ip):
        st = ip.st
        h = H(st)
        s, cur = self.self_val.t, ip.ctx.cur.t
        f_ = h.f("TaskStatus", "_future", s)
        st.assume(z3.And(f_ > 0, st.allocated(f_), S.TS_SINGLETON > 0, S.tstate_of(h, cur) > 0, st.allocated(S.tstate_of(h, cur))))  # the child calling started() is a registered task

    def assert_inv(self, ip, site):
        pass

    def make_args(self, ip):
        v = Sym(z3.Int("start_value"), OBJ)
        self.value = v
        return [v], types.SimpleNamespace()

    def on_exit(self, ip, pre, a, exc, ret):
        s = a.self
        post = H(ip.st)
        f_ = pre.f("TaskStatus", "_future", s)
        nm = "_AsyncioTaskStatus.started"
        st0 = fstate(pre, f_)
        if exc is not None:
            ip.ctx.oblige(f"{nm}/post:second_call_is_an_error_unless_the_caller_was_cancelled", z3.And(z3.BoolVal(exc.pycls is RuntimeError), st0 != PENDING, st0 != CANCELLED), "post")
            return
        ip.ctx.oblige(f"{nm}/post:accepted_when_pending_or_when_the_caller_was_cancelled", z3.Or(st0 == PENDING, st0 == CANCELLED), "post")
        ip.ctx.oblige(f"{nm}/post:value_delivered_iff_the_future_was_pending", z3.If(st0 == PENDING, z3.And(fstate(post, f_) == RESULT, post.f("Future", "result", f_) == self.value.t), fstate(post, f_) == st0), "post")
        ip.ctx.oblige(f"{nm}/post:child_is_reparented", post.f("TaskState", "parent_id", S.tstate_of(pre, a.cur)) == pre.f("TaskStatus", "_parent_id", s), "post")


HANDLE_WAIT = K.TaskHandleWait.contract
HANDLE_WAIT.suspends = True
HANDLE_WAIT.bind = lambda ip, args, kwargs: types.SimpleNamespace(self=args[0].t, cur=ip.ctx.cur.t)


class StartUnit(SpawnMixin, TGUnit):
    method = "start"
    contract = None
    split = (2, 2, 2, 2, 2)

    def __init__(self):
        super().__init__()
        g = self.spawn_globals()
        unit = self

        def make_handle(ip, coro=None, name=None):
            hd = new_handle(ip, coro, name)
            ip.ctx.events.append(("handle", hd.t))
            unit.handles = (hd.t,)
            return hd

        g["TaskHandle"] = Builtin("TaskHandle", make_handle)
        self.globals = g
        self.contracts = dict(TGBase.contracts)
        self.contracts.update({"TaskHandle.wait": HANDLE_WAIT, "TaskHandle.status": STATUS_PROP, "CancelScope.cancel": S.SCOPE_CALLS["CancelScope.cancel"]})

    def contract_for(self, qualname, ctx):
        if qualname == "TaskHandle.status":
            unit = self

            class Wrap:
                suspends = False

                def apply(self_, ip, f, args, kwargs):
                    r = STATUS_PROP.apply(ip, f, args, kwargs)
                    unit.pending_at_failure = r.t == ST_PENDING  # evaluated in the `except BaseException` handler of start()
                    return r

            return Wrap()
        return self.contracts.get(qualname)

    def after_suspending_call(self, ip, contract, a, case, exc, ret=None):
        if contract is HANDLE_WAIT and case.name == "cancelled":
            self.native_interrupt = True  # the wait runs under CancelScope(shield=True): only a native cancel gets here

    def class_getattr(self, ip, cv, attr):
        if cv.name == "TaskHandle" and attr == "Status":
            return StatusNS()
        return NotImplemented

    def model_getattr(self, ip, obj, attr):
        if isinstance(obj, StatusNS) and attr in StatusNS.values:
            return StatusNS.values[attr]
        if isinstance(obj, Builtin) and obj.name == "TaskHandle" and attr == "Status":
            return StatusNS()
        return self.spawn_model_getattr(ip, obj, attr)

    def call_opaque(self, ip, f, args, kwargs):
        return NotImplemented

    def make_args(self, ip):
        return [Sym(z3.Int("func"), OBJ)], types.SimpleNamespace()

    def make_kwargs(self, ip):
        return {"name": None, "return_handle": False}

    def resolve_handle_ctor(self):
        pass

    def on_entry(self, ip, pre, a):
        self.handle = None
        self.future = None
        self.handles = ()
        self.pending_at_failure = None
        self.native_interrupt = False

    def ghost_suspend(self, ip, what, payload):
        if what == "future" and self.future is None:
            self.future = payload.t
            created = [e[1] for e in ip.ctx.events if e[0] == "create_task"]
            h = H(ip.st)
            ok = len(created) == 1
            ip.ctx.oblige("TaskGroup.start@wait/post:exactly_one_child_spawned_and_registered_before_waiting", z3.And(z3.BoolVal(ok), self.registered(h, self.self_val.t, created[0].t) if ok else z3.BoolVal(False)), "post")

    def resume_assumptions(self, ip, what, payload):
        super().resume_assumptions(ip, what, payload)
        st = ip.st
        h, b = H(st), self.before
        # the handle created by this call: its fields are written by its wrapper coroutine only; a finished handle
        # stays finished; the readiness future is resolved by started() (a value), by task_done (an exception) or
        # cancelled with the caller -- never reset
        for hd in getattr(self, "handles", ()):
            st.assume(z3.And(h.f(TH, "_finished_event", hd) == b.f(TH, "_finished_event", hd), h.f(TH, "_cancel_scope", hd) == b.f(TH, "_cancel_scope", hd), z3.Implies(h_finished(b, hd), h_finished(h, hd)), E.embedded(h)))

    def on_exit(self, ip, pre, a, exc, ret):
        s = a.self
        post = H(ip.st)
        nm = "TaskGroup.start"
        ok_state = z3.And(pre.f(G, "_entered", s), S.active(pre, scope(pre, s)))
        if self.future is None:
            ip.ctx.oblige(f"{nm}/post:refused_unless_entered_and_the_group_scope_is_active", z3.And(z3.BoolVal(exc is not None and exc.pycls is RuntimeError), z3.Not(ok_state)), "post")
            return
        f_ = self.future
        if exc is None:
            ip.ctx.oblige(f"{nm}/post:returns_exactly_the_value_passed_to_started", z3.And(fstate(post, f_) == RESULT, ip.term(ret, OBJ) == post.f("Future", "result", f_)), "post")
            return
        # start() raises: the child's own exception (future has one), or the caller was interrupted
        hds = [e[1] for e in ip.ctx.events if e[0] == "handle"]
        if hds:
            hd = hds[0]
            tag = exc.tag if getattr(exc, "tag", None) is not None else z3.BoolVal(False)
            # end-state form (independent of how the code finds out): start() never re-raises while its child is still
            # PENDING -- running with no cancellation requested -- unless the child has already called started() (it is
            # a regular member of the group then)
            ip.ctx.oblige(f"{nm}/post:start_never_re_raises_while_its_child_is_still_pending", z3.Or(status_spec(post, hd) != ST_PENDING, fstate(post, f_) == RESULT), "post")
            was_pending = getattr(self, "pending_at_failure", None)
            if was_pending is not None:
                # the child had not finished when start() failed: it was cancelled and start() re-raises only after
                # its wrapper has signalled completion -- unless a *native* cancellation interrupted the shielded wait
                ip.ctx.oblige(f"{nm}/post:a_pending_child_is_cancelled_and_has_terminated_before_start_re_raises", z3.Implies(was_pending, z3.And(S.cc(post, h_scope(post, hd)), z3.Or(h_finished(post, hd), z3.BoolVal(getattr(self, "native_interrupt", False))))), "post")


UNITS += [CreateTaskUnit, StartedUnit, StartUnit]


# ---- abc.TaskGroup.start_soon: the public entry point delegates to create_task ----------------------------------------

register_class("TaskGroupABC", {}, source=("anyio/abc/_tasks.py", "TaskGroup"))


class StartSoonUnit(MethodUnit):
    """TaskGroup.start_soon(func, *args, name=) == create_task(call_for_coroutine(func, args), name=<callable name>):
    exactly one create_task call, for the coroutine made from the caller's function and arguments, its handle returned,
    its refusal (group not active) passed on"""

    props = ("C01",)
    spec = ClassSpec("TaskGroupABC")
    method = "start_soon"
    contract = None
    trusted = ("E1",)

    def props_of(self, name):
        return {"C01"}

    def __init__(self):
        super().__init__()
        unit = self
        self.globals = {
            "get_callable_name": Builtin("get_callable_name", lambda ip, func, name: ("name_of", func, name)),
            "call_for_coroutine": Builtin("call_for_coroutine", lambda ip, func, args, **kw: ("coro_of", func, args, kw)),
        }

    def override_method(self, ip, obj, attr):
        if isinstance(obj, Sym) and obj.ty is RefT("TaskGroupABC") and attr == "create_task":
            def create_task(ip, coro, **kw):
                self.created.append((coro, kw))
                if ip.ctx.decide(2, "create_task-refuses") == 1:
                    self.refusal = ExcVal(RuntimeError, ())
                    raise PyExc(self.refusal)
                self.handle = Sym(ip.st.fresh("handle", z3.IntSort()), OBJ)
                return self.handle

            return Builtin("TaskGroup.create_task", create_task)
        return NotImplemented

    def make_args(self, ip):
        self.created, self.refusal, self.handle = [], None, None
        self.func, self.a0 = Sym(z3.Int("func"), OBJ), Sym(z3.Int("arg0"), OBJ)
        return [self.func, self.a0], types.SimpleNamespace()

    def make_kwargs(self, ip):
        self.name_arg = Sym(z3.Int("name"), OBJ)
        return {"name": self.name_arg}

    def on_exit(self, ip, pre, a, exc, ret):
        nm = "TaskGroup.start_soon"
        ok = len(self.created) == 1
        if ok:
            coro, kw = self.created[0]
            ok = isinstance(coro, tuple) and coro[0] == "coro_of" and coro[1] is self.func and isinstance(coro[2], tuple) and len(coro[2]) == 1 and coro[2][0] is self.a0 and not coro[3] and set(kw) == {"name"} and isinstance(kw["name"], tuple) and kw["name"][1] is self.func and kw["name"][2] is self.name_arg
        ip.ctx.oblige(f"{nm}/post:exactly_one_create_task_for_the_coroutine_of_the_callers_function_and_arguments", z3.BoolVal(bool(ok)), "post")
        if exc is None:
            ip.ctx.oblige(f"{nm}/post:returns_the_handle_create_task_returned", z3.BoolVal(ret is self.handle and self.handle is not None), "post")
        else:
            ip.ctx.oblige(f"{nm}/post:raises_only_what_create_task_raised", z3.BoolVal(exc is self.refusal), "post")


UNITS += [StartSoonUnit]
