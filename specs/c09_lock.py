"""C09 -- Lock: mutual exclusion, FIFO hand-off, cancel-safe waiters.

Functions under contract (anyio/_backends/_asyncio.py): Lock.acquire, Lock.acquire_nowait,
Lock.release, Lock.locked.  Ghost state: `$rec` maps the future of every *suspended* acquire()
to its task (AcqRec of DESIGN.md), `$fast` marks tasks suspended in the post-acquire yield.
"""
import types

import z3

from segvc.core import BOOL, CLASSES, INT, ArrT, DequeT, H, RefT, Sym, TupT, register_class
from segvc.interp import Builtin
from segvc.lib import CANCELLED, EXC, PENDING, RESULT
from segvc.unit import Case, ClassSpec, Contract, LemmaUnit, LoopSpec, MethodUnit

ASYNCIO = "anyio/_backends/_asyncio.py"
TASK, FUT = RefT("Task"), RefT("Future")
WAITER = TupT(TASK, FUT)
WQ = DequeT(WAITER)
DQ = WQ.cls

register_class(
    "Lock",
    {
        "_fast_acquire": BOOL,
        "_owner_task": TASK,
        "_waiters": WQ,
        "$rec": ArrT(FUT, TASK),  # ghost: future of a suspended acquire -> its task (0: none)
        "$fast": ArrT(TASK, BOOL),  # ghost: task is suspended in the post-acquire yield
    },
    source=(ASYNCIO, "Lock"),
)
CLASSES["Lock"].ghost_fields = {"$rec", "$fast"}

LOCK = ClassSpec("Lock")


def owner(h, s):
    return h.f("Lock", "_owner_task", s)


def queue(h, s):
    return h.dq(DQ, h.f("Lock", "_waiters", s))


def rec(h, s):
    return h.f("Lock", "$rec", s)


def fast(h, s):
    return h.f("Lock", "$fast", s)


def fstate(h, f):
    return h.f("Future", "state", f)


@LOCK.assume("wf_queue")
def _(h, s, cur):
    return z3.And(h.f("Lock", "_waiters", s) > 0, queue(h, s).wf())


@LOCK.assume("memory_safety_queued_futures_are_allocated")
def _(h, s, cur):
    e = z3.Const(h.st.uniq("e"), WAITER.sort())
    q = queue(h, s)
    al = h.arr("$", "alloc")
    return z3.And(
        q.forall(lambda i, x: z3.And(z3.Select(al, WAITER.proj(1, x)))),
        z3.ForAll([e], z3.Implies(q.count(e) >= 1, z3.Select(al, WAITER.proj(1, e))), patterns=[q.count(e)]),
    )


def e1_running(h, s, cur, own_fut=None, own_fast=False):
    """E1: the running task is not suspended anywhere else (own record excepted while resuming)"""
    f = z3.Int(h.st.uniq("f"))
    body = z3.Select(rec(h, s), f) != cur
    if own_fut is not None:
        body = z3.Implies(f != own_fut, body)
    out = [z3.ForAll([f], body), z3.Select(rec(h, s), 0) == 0]
    if not own_fast:
        out.append(z3.Not(z3.Select(fast(h, s), cur)))
    return z3.And(*out)


@LOCK.assume("E1_running_task_is_not_suspended")
def _(h, s, cur):
    return e1_running(h, s, cur)


@LOCK.invariant("L1_entries_are_records_pending_or_cancelled")
def _(h, s, cur):
    q = queue(h, s)
    return q.forall(
        lambda i, e: z3.And(
            WAITER.proj(0, e) != 0,
            WAITER.proj(1, e) != 0,
            z3.Select(rec(h, s), WAITER.proj(1, e)) == WAITER.proj(0, e),
            z3.Or(fstate(h, WAITER.proj(1, e)) == PENDING, fstate(h, WAITER.proj(1, e)) == CANCELLED),
        )
    )


@LOCK.invariant("L1b_entries_distinct")
def _(h, s, cur):
    e = z3.Const(h.st.uniq("e"), WAITER.sort())
    return z3.ForAll([e], queue(h, s).count(e) <= 1)


@LOCK.invariant("L2_record_states")
def _(h, s, cur):
    f = z3.Int(h.st.uniq("f"))
    r = z3.Select(rec(h, s), f)
    e = WAITER.mk(r, f)
    q = queue(h, s)
    return z3.ForAll(
        [f],
        z3.Implies(
            r != 0,
            z3.And(
                z3.Implies(fstate(h, f) == PENDING, q.count(e) == 1),
                z3.Implies(fstate(h, f) == RESULT, z3.And(owner(h, s) == r, q.count(e) == 0)),
                fstate(h, f) != EXC,
            ),
        ),
        patterns=[r, fstate(h, f)],
    )


@LOCK.invariant("L3_free_lock_has_no_waiters")
def _(h, s, cur):
    return z3.Implies(owner(h, s) == 0, queue(h, s).len == 0)


@LOCK.invariant("L4_fast_acquirer_owns")
def _(h, s, cur):
    t = z3.Int(h.st.uniq("t"))
    return z3.ForAll([t], z3.Implies(z3.And(t != 0, z3.Select(fast(h, s), t)), owner(h, s) == t))


# ------------------------------------------------------------------ contracts


def lock_fields_unchanged(pre, post, s):
    qa, qb = queue(pre, s), queue(post, s)
    return z3.And(
        owner(pre, s) == owner(post, s),
        pre.f("Lock", "_waiters", s) == post.f("Lock", "_waiters", s),
        qa.lo == qb.lo,
        qa.hi == qb.hi,
        qa.data == qb.data,
        qa.cnt == qb.cnt,
    )


def futures_unchanged(pre, post):
    return pre.arr("Future", "state") == post.arr("Future", "state")


def release_handoff(pre, post, a, ret):
    """FIFO hand-off: the first queued waiter whose future is not cancelled becomes the owner and its
    future is resolved; every waiter before it was cancelled; nobody else is touched."""
    s = a.self
    qa, qb = queue(pre, s), queue(post, s)
    i = z3.Int(pre.st.uniq("i"))
    f = z3.Int(pre.st.uniq("f"))
    skipped_cancelled = z3.ForAll(
        [i], z3.Implies(z3.And(qa.lo <= i, i < qb.lo - 1), fstate(pre, WAITER.proj(1, qa.at(i))) == CANCELLED)
    )
    all_cancelled = z3.ForAll([i], z3.Implies(z3.And(qa.lo <= i, i < qa.hi), fstate(pre, WAITER.proj(1, qa.at(i))) == CANCELLED))
    winner = qa.at(qb.lo - 1)
    wfut = WAITER.proj(1, winner)
    handed = z3.And(
        qb.lo > qa.lo,
        skipped_cancelled,
        fstate(pre, wfut) == PENDING,
        fstate(post, wfut) == RESULT,
        owner(post, s) == WAITER.proj(0, winner),
        z3.ForAll([f], z3.Implies(f != wfut, fstate(post, f) == fstate(pre, f))),
    )
    freed = z3.And(owner(post, s) == 0, qb.lo == qa.hi, all_cancelled, futures_unchanged(pre, post))
    return [
        ("queue_suffix", z3.And(qa.lo <= qb.lo, qb.lo <= qa.hi, qb.hi == qa.hi, qb.data == qa.data, pre.f("Lock", "_waiters", s) == post.f("Lock", "_waiters", s))),
        ("fifo_handoff_or_free", z3.Or(handed, freed)),
    ] + [("inv." + n, t) for n, t in LOCK.inv_terms(post, s, a.cur)]


def bind_self(ip, args, kwargs):
    return types.SimpleNamespace(self=args[0].t, cur=ip.ctx.cur.t)


RELEASE = Contract(
    "Lock.release",
    requires=lambda h, a: [(n, t) for n, t in LOCK.inv_terms(h, a.self, a.cur)],
    cases=[
        Case(
            "not_owner",
            when=lambda pre, a: owner(pre, a.self) != a.cur,
            raises="RuntimeError",
            ensures=lambda pre, post, a, ret: [("state_unchanged", z3.And(lock_fields_unchanged(pre, post, a.self), futures_unchanged(pre, post)))],
        ),
        Case("owner", when=lambda pre, a: owner(pre, a.self) == a.cur, ensures=release_handoff),
    ],
    modifies={("Lock", "_owner_task"), (DQ, "lo"), (DQ, "cnt"), ("Future", "state"), ("Future", "result")},
    bind=bind_self,
)

ACQUIRE_NOWAIT = Contract(
    "Lock.acquire_nowait",
    requires=lambda h, a: [],
    cases=[
        Case(
            "free",
            when=lambda pre, a: z3.And(owner(pre, a.self) == 0),
            ensures=lambda pre, post, a, ret: [
                ("caller_owns", owner(post, a.self) == a.cur),
                ("no_barging_queue_was_empty", queue(pre, a.self).len == 0),
                ("futures_unchanged", futures_unchanged(pre, post)),
            ],
        ),
        Case(
            "reentrant",
            when=lambda pre, a: owner(pre, a.self) == a.cur,
            raises="RuntimeError",
            ensures=lambda pre, post, a, ret: [("state_unchanged", z3.And(lock_fields_unchanged(pre, post, a.self), futures_unchanged(pre, post)))],
        ),
        Case(
            "held_by_other",
            when=lambda pre, a: z3.And(owner(pre, a.self) != 0, owner(pre, a.self) != a.cur),
            raises="WouldBlock",
            ensures=lambda pre, post, a, ret: [("state_unchanged", z3.And(lock_fields_unchanged(pre, post, a.self), futures_unchanged(pre, post)))],
        ),
    ],
    modifies={("Lock", "_owner_task")},
    bind=bind_self,
)

ACQUIRE = Contract(
    "Lock.acquire",
    requires=lambda h, a: [],
    cases=[
        Case("acquired", when=lambda pre, a: owner(pre, a.self) != a.cur, ensures=lambda pre, post, a, ret: [("caller_owns", owner(post, a.self) == a.cur)]),
        Case(
            "reentrant",
            when=lambda pre, a: owner(pre, a.self) == a.cur,
            raises="RuntimeError",
            ensures=lambda pre, post, a, ret: [("state_unchanged", z3.And(lock_fields_unchanged(pre, post, a.self), futures_unchanged(pre, post)))],
            no_suspend=True,  # refused before any suspension point: nothing else has run (checked at the callee's exit)
            modifies=set(),
        ),
        Case(
            "cancelled",
            when=lambda pre, a: owner(pre, a.self) != a.cur,
            raises="CancelledError",
            ensures=lambda pre, post, a, ret: [
                ("caller_does_not_own", owner(post, a.self) != a.cur),
                ("no_record_left", z3.Not(z3.Select(fast(post, a.self), a.cur))),
            ],
        ),
    ],
    bind=bind_self,
)

LOCKED = Contract(
    "Lock.locked",
    requires=lambda h, a: [],
    cases=[
        Case(
            "pure",
            when=lambda pre, a: True,
            ret_ty=BOOL,
            ensures=lambda pre, post, a, ret: [
                ("reports_truth", ret == (owner(pre, a.self) != 0)),
                ("state_unchanged", z3.And(lock_fields_unchanged(pre, post, a.self), futures_unchanged(pre, post))),
            ],
        )
    ],
    modifies=set(),
    bind=bind_self,
)


def release_loop_inv(ip, env):
    """while self._waiters: -- popped entries were cancelled; nothing else moved."""
    u = ip.ctx.unit
    h = H(ip.st)
    pre = u.loop_pre
    s = u.loop_self
    qa, qb = queue(pre, s), queue(h, s)
    i = z3.Int(ip.st.uniq("i"))
    out = [(n, t) for n, t in LOCK.inv_terms(h, s, ip.ctx.cur.t)]
    out += [
        ("owner_is_current", owner(h, s) == ip.ctx.cur.t),
        ("queue_suffix", z3.And(qa.lo <= qb.lo, qb.lo <= qa.hi, qb.hi == qa.hi, qb.data == qa.data, pre.f("Lock", "_waiters", s) == h.f("Lock", "_waiters", s))),
        ("popped_were_cancelled", z3.ForAll([i], z3.Implies(z3.And(qa.lo <= i, i < qb.lo), fstate(pre, WAITER.proj(1, qa.at(i))) == CANCELLED))),
        ("futures_unchanged", futures_unchanged(pre, h)),
        ("ghost_unchanged", z3.And(rec(pre, s) == rec(h, s), fast(pre, s) == fast(h, s))),
    ]
    return out


# callee contract used by Condition.statistics (C11): the result is an opaque statistics object (its fields are
# pinned down by StatisticsUnit below, against the body); what callers rely on is that the call changes nothing
STATISTICS = Contract(
    "Lock.statistics",
    requires=lambda h, a: [],
    cases=[Case("pure", when=lambda pre, a: True, ret_ty=INT, ensures=lambda pre, post, a, ret: [("state_unchanged", z3.And(lock_fields_unchanged(pre, post, a.self), futures_unchanged(pre, post)))])],
    modifies=set(),  # discharged by StatisticsUnit's frame obligation
    bind=bind_self,
)


RELEASE_LOOP = LoopSpec(release_loop_inv, modifies={(DQ, "lo"), (DQ, "cnt")})


class LockUnit(MethodUnit):
    props = ("C09",)
    spec = LOCK
    trusted = ("E1", "E2", "E3")

    def on_entry(self, ip, pre, a):
        self.loop_pre = pre
        self.loop_self = a.self

    # ghost records -----------------------------------------------------
    def ghost_suspend(self, ip, what, payload):
        st, s, cur = ip.st, self.self_val.t, ip.ctx.cur.t
        if what == "future":
            st.put("Lock", "$rec", s, z3.Store(st.get("Lock", "$rec", s), payload.t, cur))
        elif what == "cancel_shielded_checkpoint":
            st.put("Lock", "$fast", s, z3.Store(st.get("Lock", "$fast", s), cur, True))

    def guarantee(self, seg, now, s, cur):
        return lock_guarantee(seg, now, s, cur)

    def ghost_resume(self, ip, what, payload):
        """the task is running again: its record is removed (only its owner does that)"""
        st, s, cur = ip.st, self.self_val.t, ip.ctx.cur.t
        if what == "future":
            st.put("Lock", "$rec", s, z3.Store(st.get("Lock", "$rec", s), payload.t, 0))
        elif what == "cancel_shielded_checkpoint":
            st.put("Lock", "$fast", s, z3.Store(st.get("Lock", "$fast", s), cur, False))

    def resume_assumptions(self, ip, what, payload):
        """Inv holds of the arbitrary state in which this call is resumed, its own ghost record is
        still there (only the owner removes it) and is removed now: the task is running again."""
        st, s, cur = ip.st, self.self_val.t, ip.ctx.cur.t
        h = H(st)
        st.assume(z3.And(h.f("Lock", "_waiters", s) > 0, queue(h, s).wf()))
        for n, t in self.spec.inv_terms(h, s, cur):
            st.assume(t)
        if what == "future":
            st.assume(z3.Select(rec(h, s), payload.t) == cur)
            st.assume(e1_running(h, s, cur, own_fut=payload.t))
        elif what == "cancel_shielded_checkpoint":
            st.assume(z3.Select(fast(h, s), cur))
            st.assume(e1_running(h, s, cur, own_fast=True))
        else:
            st.assume(e1_running(h, s, cur))
        # rely: what the other tasks' segments (each satisfying `lock_guarantee`) can have done
        for n, t in lock_rely(self.before, h, s, cur, payload.t if what == "future" else None):
            st.assume(t)


def handoff(a, b, s, x):
    """between a and b some release() resolved the pending future of a suspended acquire() of task x"""
    f = z3.Int(a.st.uniq("hf"))
    return z3.Exists([f], z3.And(z3.Select(rec(a, s), f) == x, fstate(a, f) == PENDING, fstate(b, f) == RESULT))


def lock_guarantee(a, b, s, t):
    """G: one atomic segment run by task t, from state a to state b"""
    oa, ob = owner(a, s), owner(b, s)
    f = z3.Int(a.st.uniq("f"))
    return [
        ("owner_changes_only_by_acquire_or_by_the_owner", z3.Implies(ob != oa, z3.Or(z3.And(oa == 0, ob == t), z3.And(oa == t, z3.Or(ob == 0, handoff(a, b, s, ob)))))),
        ("done_futures_are_final", z3.ForAll([f], z3.Implies(z3.And(z3.Select(a.arr("$", "alloc"), f), fstate(a, f) != PENDING), fstate(b, f) == fstate(a, f)), patterns=[fstate(b, f)])),
        ("only_the_owner_resolves_futures", z3.ForAll([f], z3.Implies(z3.And(z3.Select(a.arr("$", "alloc"), f), fstate(a, f) == PENDING, fstate(b, f) == RESULT), z3.And(oa == t, ob == z3.Select(rec(a, s), f))), patterns=[fstate(b, f)])),
    ]


def lock_rely(a, b, s, me, myfut):
    """R: any number of segments of other tasks while `me` is suspended (myfut: the future of its
    suspended acquire(), or None)"""
    oa, ob = owner(a, s), owner(b, s)
    out = [("nobody_takes_my_lock", z3.Implies(oa == me, ob == me))]
    if myfut is None:
        out.append(("lock_is_not_given_to_a_non_waiter", z3.Implies(oa != me, ob != me)))
    else:
        out.append(("lock_is_given_only_by_resolving_my_future", z3.Implies(z3.And(oa != me, ob == me), z3.And(fstate(a, myfut) == PENDING, fstate(b, myfut) == RESULT))))
        out.append(("my_done_future_is_final", z3.Implies(fstate(a, myfut) != PENDING, fstate(b, myfut) == fstate(a, myfut))))
    return out


class RelyStable(LemmaUnit):
    """R is reflexive and stable under one more segment of another task: R(a,b) & Inv(b) & G(b,c,t) & t != me
    => R(a,c).  Together with the per-segment `guar:` obligations this justifies assuming R at every
    resumption (rely/guarantee, DESIGN.md section 1)."""

    props = ("C09",)
    name = "Lock/lemma:rely_stable_under_guarantee"

    def lemma(self, ip):
        st = ip.st
        s, me, t = z3.Int("self"), ip.ctx.cur.t, z3.Int("other")
        st.assume(z3.And(s > 0, t > 0, t != me))
        for variant, myfut in (("plain", None), ("waiting", z3.Int("myfut"))):
            st.solver.push()
            a = H(st, st.snapshot())
            for n, c in lock_rely(a, a, s, me, myfut):
                ip.ctx.oblige(f"{self.name}/lemma:reflexive[{variant}].{n}", c, "lemma")
            st.havoc()
            b = H(st, st.snapshot())
            st.havoc()
            c_ = H(st, st.snapshot())
            for n, x in lock_rely(a, b, s, me, myfut):
                st.assume(x)
            for n, x in LOCK.inv_terms(b, s, t):
                st.assume(x)
            # E1 at b: `me` is suspended exactly at myfut (or at no acquire at all)
            f = z3.Int(st.uniq("f"))
            if myfut is None:
                st.assume(z3.ForAll([f], z3.Select(rec(b, s), f) != me))
            else:
                st.assume(z3.ForAll([f], z3.Implies(f != myfut, z3.Select(rec(b, s), f) != me)))
                st.assume(z3.Select(rec(b, s), myfut) == me)
            if myfut is not None:
                st.assume(z3.Select(b.arr("$", "alloc"), myfut))
            st.solver.push()
            for n, x in lock_guarantee(b, c_, s, t):
                st.assume(x)
            for n, x in lock_rely(a, c_, s, me, myfut):
                ip.ctx.oblige(f"{self.name}/lemma:step[{variant}].{n}", x, "lemma")
            st.solver.pop()
            # environment step (E2/E3): asyncio cancels some pending future
            v = z3.Int("victim")
            st.assume(fstate(b, v) == PENDING)
            st.heap = dict(b.heap)
            st.put("Future", "state", v, z3.IntVal(CANCELLED))
            d = H(st, st.snapshot())
            for n, x in lock_rely(a, d, s, me, myfut):
                ip.ctx.oblige(f"{self.name}/lemma:env_cancel[{variant}].{n}", x, "lemma")
            st.solver.pop()


class AcquireUnit(LockUnit):
    method = "acquire"
    contract = ACQUIRE
    contracts = {"Lock.release": RELEASE}

    def on_exit(self, ip, pre, a, exc, ret):
        pass


class ReleaseUnit(LockUnit):
    method = "release"
    contract = RELEASE
    loops = {("Lock.release", 0): RELEASE_LOOP}


class AcquireNowaitUnit(LockUnit):
    method = "acquire_nowait"
    contract = ACQUIRE_NOWAIT


class LockedUnit(LockUnit):
    method = "locked"
    contract = LOCKED


class _TaskInfo:
    """value of `AsyncIOTaskInfo(task)`: the task it was built from"""

    def __init__(self, task):
        self.task = task


class StatisticsUnit(LockUnit):
    """`Lock.statistics()`: (locked, owner, tasks_waiting) report the true state; nothing changes"""

    method = "statistics"
    contract = None
    contracts = {"Lock.locked": LOCKED}
    globals = {
        "LockStatistics": Builtin("LockStatistics", lambda ip, *a: tuple(a)),
        "AsyncIOTaskInfo": Builtin("AsyncIOTaskInfo", lambda ip, t: _TaskInfo(ip.term(t, INT))),
    }

    def on_entry(self, ip, pre, a):
        super().on_entry(ip, pre, a)
        self._wset = set()
        ip.st.writes = (ip.st.writes or []) + [self._wset]

    def on_exit(self, ip, pre, a, exc, ret):
        s = a.self
        extra = {w for w in self._wset if w[0] != "$" and not w[1].startswith("$")}
        if extra:
            ip.ctx.fail("Lock.statistics/frame", "frame", f"writes {sorted(extra)}: the callee contract STATISTICS promises an empty frame")
        else:
            ip.ctx.oblige("Lock.statistics/frame", z3.BoolVal(True), "frame")
        ok = exc is None and isinstance(ret, tuple) and len(ret) == 3
        ip.ctx.oblige("Lock.statistics/post:returns_three_fields", z3.BoolVal(ok), "post")
        if ok:
            q = queue(pre, s)
            own = owner(pre, s)
            info = ret[1]
            if isinstance(info, _TaskInfo):
                info_ok = z3.And(own != 0, info.task == own)
            elif info is None:
                info_ok = own == 0
            else:
                info_ok = z3.BoolVal(False)
            ip.ctx.oblige("Lock.statistics/post:reports_the_true_state", z3.And(ip.term(ret[0], BOOL) == (own != 0), info_ok, ip.term(ret[2], INT) == q.hi - q.lo), "post")
            ip.ctx.oblige("Lock.statistics/post:pure", z3.And(lock_fields_unchanged(pre, H(ip.st), s), futures_unchanged(pre, H(ip.st))), "post")


class InitUnit(LockUnit):
    """the constructor establishes the invariant (which is therefore satisfiable)"""

    method = "__init__"
    is_init = True
    contract = Contract(
        "Lock.__init__",
        requires=lambda h, a: [],
        cases=[Case("init", when=lambda pre, a: True, ensures=lambda pre, post, a, ret: [("unlocked_no_waiters", z3.And(owner(post, a.self) == 0, queue(post, a.self).len == 0))])],
        bind=bind_self,
    )

    def make_kwargs(self, ip):
        return {"fast_acquire": Sym(z3.Bool("fast_acquire"), BOOL)}

    def ghost_init(self, ip):
        st, s = ip.st, self.self_val.t
        st.put("Lock", "$rec", s, z3.K(z3.IntSort(), z3.IntVal(0)))
        st.put("Lock", "$fast", s, z3.K(z3.IntSort(), z3.BoolVal(False)))


class EnvCancelFuture(LemmaUnit):
    """env action (E2/E3): asyncio cancels the pending future a waiter is suspended on."""

    props = ("C09",)
    name = "Lock/env:cancel_pending_waiter_future"
    trusted = ("E2", "E3")

    def lemma(self, ip):
        st = ip.st
        s = z3.Int("self")
        cur = ip.ctx.cur.t
        st.assume(s > 0)
        h = H(st)
        for n, t in LOCK.assumed_terms(h, s, cur) + LOCK.inv_terms(h, s, cur):
            st.assume(t)
        f = z3.Int("victim")
        st.assume(fstate(h, f) == PENDING)
        st.put("Future", "state", f, z3.IntVal(CANCELLED))
        h2 = H(st)
        for n, t in LOCK.inv_terms(h2, s, cur):
            ip.ctx.oblige(f"{self.name}/env:{n}", t, "env")


UNITS = [InitUnit, AcquireUnit, ReleaseUnit, AcquireNowaitUnit, LockedUnit, StatisticsUnit, EnvCancelFuture, RelyStable]
