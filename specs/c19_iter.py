"""C19 -- anyio.itertools / anyio.functools.reduce against their standard-library namesakes.

Deductive part (this module): for the functions listed in UNITS the real code is verified against a *sequence
specification* that is the standard-library function written as a recursive definition over the input sequence
  reduce(f, xs[, init])        fold: acc_0 = init (or xs[0]), acc_{i+1} = f(acc_i, x)      -> acc_n; TypeError if empty, no init
  accumulate(xs, f[, initial]) the sequence of the partial folds acc_0, acc_1, ...
  takewhile(p, xs)             the longest prefix of xs on which p holds
  dropwhile(p, xs)             xs without the longest prefix on which p holds
  pairwise(xs)                 (xs[i], xs[i+1]) for i < n - 1
  starmap(f, xs)               f(*xs[i]) for every i
  repeat(e, times)             e, max(times, 0) times
for every input sequence and every (deterministic) callback; the callbacks are uninterpreted functions APP / PRED, the
input is an abstract iterator (a queue of arbitrary elements: `anext` takes the head, `async for` walks the rest), the
output is the ghost sequence of yielded values.  That the recursive definitions above *are* the stdlib's behaviour is
not proved - it is what the stdlib documentation states - and is additionally checked by the bounded stand-in.
Bounded part (replayers/C19.py --bounded-all; NOT a proof, never counted as discharged): all 20 functions + reduce
against the stdlib on every sequence over {0,1,2} up to length 4, all small integer parameters incl. invalid ones,
sync and async sources; tee with all interleavings of two consumers over sequences up to length 3.
Assumed: A-pure (callbacks are deterministic functions of their arguments), A-private-iterator (nobody else consumes
the source while the generator is suspended at a yield or an await).
"""
import types

import z3

from segvc import lib
from segvc.core import BOOL, CLASSES, H, INT, OBJ, ArrT, DequeT, RefT, Sym, Unsupported, forall, register_class
from segvc.interp import AwaitableVal, Builtin, ClassVal, ExcVal, NS, PyExc
from segvc.unit import FunctionUnit, LoopSpec

IT = "anyio/itertools.py"
FN = "anyio/functools.py"
SRC = DequeT(OBJ)  # the source iterator: what is still to come
register_class("GenOut", {"out": ArrT(INT, OBJ), "n": INT, "pos": ArrT(INT, INT)}, kind="env")
OUT = z3.Int("generator_output")
APP = z3.Function("APP", z3.IntSort(), z3.IntSort(), z3.IntSort())  # the binary callback
APP1 = z3.Function("APP1", z3.IntSort(), z3.IntSort())  # a unary callback (starmap on the element)
PRED = z3.Function("PRED", z3.IntSort(), z3.BoolSort())  # a predicate callback (its truthiness)
ACC = z3.Function("ACC", z3.IntSort(), z3.IntSort())  # the partial folds of the specification
PAIR = z3.Function("PAIR", z3.IntSort(), z3.IntSort(), z3.IntSort())  # a 2-tuple as a value
CNT = z3.Function("CNT", z3.IntSort(), z3.IntSort())  # number of selected elements among the first i
MISSING = z3.Int("initial_missing")


def out_n(h):
    return h.f("GenOut", "n", OUT)


def out_at(h, i):
    return z3.Select(h.f("GenOut", "out", OUT), i)


class IterUnit(FunctionUnit):
    props = ("C19",)
    trusted = ("E1", "A-pure", "A-private-iterator")
    is_async_source = False

    def props_of(self, name):
        return {"C19"}

    def __init__(self):
        super().__init__()
        unit = self
        self.globals = {
            "_iterate": Builtin("_iterate", lambda ip, it: it),
            "anext": Builtin("anext", lambda ip, it: AwaitableVal("contract", lambda: unit.take(ip, it, "StopAsyncIteration"))),
            "next": Builtin("next", lambda ip, it: unit.take(ip, it, "StopIteration")),
            "iter": Builtin("iter", lambda ip, it: it),
            "checkpoint": Builtin("checkpoint", lambda ip: AwaitableVal("checkpoint")),
            "checkpoint_if_cancelled": Builtin("checkpoint_if_cancelled", lambda ip: AwaitableVal("cancel_shielded_checkpoint")),
            "cancel_shielded_checkpoint": Builtin("cancel_shielded_checkpoint", lambda ip: AwaitableVal("cancel_shielded_checkpoint")),
            "initial_missing": Sym(MISSING, OBJ),
            "AsyncIterable": ClassVal("AsyncIterable"),
            "Iterable": ClassVal("Iterable"),
            "AsyncIterator": ClassVal("AsyncIterator"),
            "T": None,
        }

    # -- the abstract source ------------------------------------------------------------------------------------------
    def new_source(self, ip, name="xs"):
        st = ip.st
        r = Sym(z3.Int(name), SRC)
        h = H(st)
        d = h.dq(SRC.cls, r.t)
        st.assume(z3.And(r.t > 0, st.allocated(r.t), d.lo <= d.hi, d.lo >= 0))
        self.src = r
        self.lo0, self.hi0, self.data0 = d.lo, d.hi, d.data
        return r

    def x(self, i):
        """the i-th element of the input sequence"""
        return z3.Select(self.data0, self.lo0 + i)

    @property
    def n(self):
        return self.hi0 - self.lo0

    def take(self, ip, it, stop):
        st = ip.st
        cn = SRC.cls
        lo, hi = st.get(cn, "lo", it.t), st.get(cn, "hi", it.t)
        if ip.ctx.branch(lo < hi, "source-has-more"):
            v = z3.Select(st.get(cn, "data", it.t), lo)
            st.put(cn, "lo", it.t, lo + 1)
            return Sym(v, OBJ)
        if stop == "StopAsyncIteration":
            raise PyExc(ExcVal(StopAsyncIteration, ()))
        raise PyExc(ExcVal(StopIteration, ()))

    def isinstance(self, ip, x, cls):
        if isinstance(x, Sym) and x.ty is SRC and isinstance(cls, ClassVal):
            if cls.name in ("AsyncIterable", "AsyncIterator"):
                return self.is_async_source
            if cls.name == "Iterable":
                return not self.is_async_source
        return NotImplemented

    def model_getattr(self, ip, obj, attr):
        if isinstance(obj, Sym) and obj.ty is SRC:
            if attr == "__aiter__":
                return Builtin("__aiter__", lambda ip: obj)
            if attr == "__anext__":
                return Builtin("__anext__", lambda ip: AwaitableVal("contract", lambda: self.take(ip, obj, "StopAsyncIteration")))
        return NotImplemented

    # -- callbacks and output ------------------------------------------------------------------------------------------
    def binary_callback(self):
        return Builtin("function", lambda ip, a, b: AwaitableVal("contract", lambda: Sym(APP(ip.term(a, OBJ), ip.term(b, OBJ)), OBJ)))

    def predicate_callback(self):
        return Builtin("predicate", lambda ip, a: AwaitableVal("contract", lambda: Sym(PRED(ip.term(a, OBJ)), BOOL)))

    def do_yield(self, ip, v):
        st = ip.st
        n = st.get("GenOut", "n", OUT)
        if isinstance(v, tuple) and len(v) == 2:
            vt = PAIR(ip.term(v[0], OBJ), ip.term(v[1], OBJ))
        else:
            vt = ip.term(v, OBJ if not (isinstance(v, Sym) and v.ty is INT) else INT)
        if ip.ctx.loop_k is not None and getattr(self, "lo0", None) is not None:
            # ghost: which input position the yielded value comes from (the running loop's index)
            st.put("GenOut", "pos", OUT, z3.Store(st.get("GenOut", "pos", OUT), n, ip.ctx.loop_k - self.lo0))
        st.put("GenOut", "out", OUT, z3.Store(st.get("GenOut", "out", OUT), n, vt))
        st.put("GenOut", "n", OUT, n + 1)
        return None

    def start_output(self, ip):
        ip.st.put("GenOut", "n", OUT, z3.IntVal(0))
        ip.st.assume(OUT > 0)

    def loop_spec(self, qualname, ordinal):
        return self.loops.get((qualname, ordinal)) if hasattr(self, "loops") else None

    def before_suspend(self, ip, what, payload):
        self.before = H(ip.st, ip.st.snapshot())

    def after_resume(self, ip, what, payload):
        # A-private-iterator: the source, the output record and the local state are this generator's own
        h, b = H(ip.st), self.before
        for key in [(SRC.cls, "lo"), (SRC.cls, "hi"), (SRC.cls, "data"), ("GenOut", "out"), ("GenOut", "n")]:
            ip.st.assume(h.arr(*key) == b.arr(*key))
        ip.st.assume(h.arr("$", "alloc") == b.arr("$", "alloc"))


def src_unchanged(u, h):
    d = h.dq(SRC.cls, u.src.t)
    return z3.And(d.hi == u.hi0, d.data == u.data0)


# ---- reduce ---------------------------------------------------------------------------------------------------------------


def reduce_loop_inv(ip, env):
    u = ip.ctx.unit
    h = H(ip.st)
    k = ip.ctx.loop_k  # absolute position of the next element in the source
    i = k - u.lo0  # number of input elements consumed so far
    value = ip.term(env.vars["value"], OBJ)
    return [
        ("value_is_the_fold_of_the_elements_consumed_so_far", z3.And(value == ACC(i - u.off), i >= u.off, k <= u.hi0, src_unchanged(u, h))),
    ]


def reduce_after_havoc(ip, env):
    u = ip.ctx.unit
    k = ip.ctx.loop_k
    # one unfolding of the specification's recursion at the position of the next element
    j = z3.Int(ip.st.uniq("j"))
    ip.st.assume(forall([j], z3.Implies(j >= 0, ACC(j + 1) == APP(ACC(j), u.x(j + u.off))), patterns=[ACC(j + 1)]))


class ReduceUnit(IterUnit):
    modpath = FN
    funcname = "reduce"

    def make_args(self, ip):
        self.new_source(ip)
        self.has_init = ip.ctx.decide(2, "initial-given") == 1
        self.init = Sym(z3.Int("initial"), OBJ)
        ip.st.assume(self.init.t != MISSING)
        self.off = 0 if self.has_init else 1  # how many input elements the first accumulator value uses up
        # the specification: ACC(0) = initial, or the first element
        ip.st.assume(ACC(0) == (self.init.t if self.has_init else self.x(0)))
        j = z3.Int(ip.st.uniq("j"))
        ip.st.assume(forall([j], z3.Implies(j >= 0, ACC(j + 1) == APP(ACC(j), self.x(j + self.off))), patterns=[ACC(j + 1)]))
        args = [self.binary_callback(), self.src] + ([self.init] if self.has_init else [])
        return args, {}

    loops = {}

    def loop_spec(self, qualname, ordinal):
        return LoopSpec(reduce_loop_inv, modifies=set(), after_havoc=reduce_after_havoc, local_types={"value": OBJ, "function_called": BOOL, "element": OBJ})

    def on_exit(self, ip, pre, exc, ret):
        nm = "reduce"
        n = self.n
        if exc is not None:
            name = exc.pycls.__name__ if exc.pycls is not None else "sym"
            ip.ctx.oblige(f"{nm}/post:TypeError_exactly_for_an_empty_sequence_without_initial_value", z3.And(z3.BoolVal(name == "TypeError" and not self.has_init), n == 0) if name != "CancelledError" else z3.BoolVal(True), "post")
            return
        ip.ctx.oblige(f"{nm}/post:returns_the_left_fold_of_the_whole_sequence", z3.And(ip.term(ret, OBJ) == ACC(n - self.off), n >= self.off), "post")


class ReduceAsyncUnit(ReduceUnit):
    is_async_source = True


# ---- generators: the output is the ghost sequence of yielded values ------------------------------------------------------


class GenUnit(IterUnit):
    modpath = IT

    def gen_entry(self, ip):
        self.start_output(ip)

    def out_inv_common(self, h):
        return z3.And(out_n(h) >= 0, src_unchanged(self, h))

    def consumed(self, ip):
        """number of input elements the running `async for` has consumed (ghost loop index relative to the start)"""
        return ip.ctx.loop_k - self.lo0


# accumulate ---------------------------------------------------------------------------------------------------------------


def acc_loop_inv(ip, env):
    u = ip.ctx.unit
    h = H(ip.st)
    i = u.consumed(ip)
    total = ip.term(env.vars["total"], OBJ)
    j = z3.Int(ip.st.uniq("j"))
    return [
        ("total_is_the_last_partial_fold_and_every_partial_fold_so_far_has_been_yielded_in_order", z3.And(i >= u.off, ip.ctx.loop_k <= u.hi0, total == ACC(i - u.off), out_n(h) == i - u.off + 1, forall([j], z3.Implies(z3.And(0 <= j, j < out_n(h)), out_at(h, j) == ACC(j)), patterns=[out_at(h, j)]), u.out_inv_common(h))),
    ]


class AccumulateUnit(GenUnit):
    funcname = "accumulate"

    def make_args(self, ip):
        self.new_source(ip)
        self.gen_entry(ip)
        self.has_init = ip.ctx.decide(2, "initial-given") == 1
        self.init = Sym(z3.Int("initial"), OBJ)
        ip.st.assume(self.init.t != 0)  # `initial is None` means "not given"
        self.off = 0 if self.has_init else 1
        ip.st.assume(ACC(0) == (self.init.t if self.has_init else self.x(0)))
        j = z3.Int(ip.st.uniq("j"))
        ip.st.assume(forall([j], z3.Implies(j >= 0, ACC(j + 1) == APP(ACC(j), self.x(j + self.off))), patterns=[ACC(j + 1)]))
        return [self.src, self.binary_callback()], {"initial": self.init if self.has_init else None}

    def loop_spec(self, qualname, ordinal):
        return LoopSpec(acc_loop_inv, modifies={("GenOut", "out"), ("GenOut", "n"), ("GenOut", "pos")}, after_havoc=reduce_after_havoc, local_types={"total": OBJ, "element": OBJ})

    def on_exit(self, ip, pre, exc, ret):
        h = H(ip.st)
        nm = "accumulate"
        n = self.n
        j = z3.Int(ip.st.uniq("j"))
        if exc is not None:
            ip.ctx.oblige(f"{nm}/post:never_raises_by_itself", z3.BoolVal(exc.pycls is not None and exc.pycls.__name__ == "CancelledError"), "post")
            return
        want_n = z3.If(n >= self.off, n - self.off + 1, 0)
        ip.ctx.oblige(f"{nm}/post:yields_exactly_the_partial_folds_of_the_input_in_order", z3.And(out_n(h) == want_n, forall([j], z3.Implies(z3.And(0 <= j, j < out_n(h)), out_at(h, j) == ACC(j)), patterns=[out_at(h, j)])), "post")


class AccumulateAsyncUnit(AccumulateUnit):
    is_async_source = True


# takewhile / dropwhile -------------------------------------------------------------------------------------------------------


def takewhile_loop_inv(ip, env):
    u = ip.ctx.unit
    h = H(ip.st)
    i = u.consumed(ip)
    j = z3.Int(ip.st.uniq("j"))
    ey = ip.truth(env.vars["element_yielded"])
    ey = z3.BoolVal(ey) if isinstance(ey, bool) else ey
    return [
        ("every_element_so_far_satisfied_the_predicate_and_was_yielded_in_order", z3.And(i >= 0, ip.ctx.loop_k <= u.hi0, out_n(h) == i, ey == (i > 0), forall([j], z3.Implies(z3.And(0 <= j, j < i), z3.And(PRED(u.x(j)), out_at(h, j) == u.x(j))), patterns=[out_at(h, j)]), u.out_inv_common(h))),
    ]


class TakewhileUnit(GenUnit):
    funcname = "takewhile"

    def make_args(self, ip):
        self.new_source(ip)
        self.gen_entry(ip)
        return [self.predicate_callback(), self.src], {}

    def loop_spec(self, qualname, ordinal):
        return LoopSpec(takewhile_loop_inv, modifies={("GenOut", "out"), ("GenOut", "n"), ("GenOut", "pos")}, local_types={"element_yielded": BOOL, "element": OBJ})

    def on_exit(self, ip, pre, exc, ret):
        h = H(ip.st)
        nm = "takewhile"
        n = self.n
        j = z3.Int(ip.st.uniq("j"))
        if exc is not None:
            ip.ctx.oblige(f"{nm}/post:never_raises_by_itself", z3.BoolVal(exc.pycls is not None and exc.pycls.__name__ == "CancelledError"), "post")
            return
        m = out_n(h)
        ip.ctx.oblige(f"{nm}/post:yields_exactly_the_longest_prefix_on_which_the_predicate_holds", z3.And(m >= 0, m <= n, forall([j], z3.Implies(z3.And(0 <= j, j < m), z3.And(PRED(self.x(j)), out_at(h, j) == self.x(j))), patterns=[out_at(h, j)]), z3.Implies(m < n, z3.Not(PRED(self.x(m))))), "post")


def dropwhile_loop_inv(ip, env):
    u = ip.ctx.unit
    h = H(ip.st)
    i = u.consumed(ip)
    j = z3.Int(ip.st.uniq("j"))
    dr = ip.truth(env.vars["dropping"])
    dr = z3.BoolVal(dr) if isinstance(dr, bool) else dr
    ey = ip.truth(env.vars["element_yielded"])
    ey = z3.BoolVal(ey) if isinstance(ey, bool) else ey
    m = i - out_n(h)  # the length of the dropped prefix, once dropping has ended
    return [
        (
            "while_dropping_every_element_so_far_satisfied_the_predicate_afterwards_the_rest_is_yielded_in_order",
            z3.And(
                i >= 0,
                ip.ctx.loop_k <= u.hi0,
                u.out_inv_common(h),
                z3.Implies(dr, z3.And(out_n(h) == 0, z3.Not(ey), forall([j], z3.Implies(z3.And(0 <= j, j < i), PRED(u.x(j))), patterns=[PRED(u.x(j))]))),
                z3.Implies(z3.Not(dr), z3.And(ey, 0 <= m, m < i, z3.Not(PRED(u.x(m))), forall([j], z3.Implies(z3.And(0 <= j, j < m), PRED(u.x(j))), patterns=[PRED(u.x(j))]), out_n(h) == i - m, forall([j], z3.Implies(z3.And(0 <= j, j < out_n(h)), out_at(h, j) == u.x(m + j)), patterns=[out_at(h, j)]))),
            ),
        ),
    ]


class DropwhileUnit(GenUnit):
    funcname = "dropwhile"

    def make_args(self, ip):
        self.new_source(ip)
        self.gen_entry(ip)
        self.m = z3.Int("dropped_prefix_length")  # specification witness: first index where the predicate fails
        return [self.predicate_callback(), self.src], {}

    def loop_spec(self, qualname, ordinal):
        return LoopSpec(dropwhile_loop_inv, modifies={("GenOut", "out"), ("GenOut", "n"), ("GenOut", "pos")}, local_types={"element_yielded": BOOL, "dropping": BOOL, "element": OBJ})

    def on_exit(self, ip, pre, exc, ret):
        h = H(ip.st)
        nm = "dropwhile"
        n = self.n
        j = z3.Int(ip.st.uniq("j"))
        if exc is not None:
            ip.ctx.oblige(f"{nm}/post:never_raises_by_itself", z3.BoolVal(exc.pycls is not None and exc.pycls.__name__ == "CancelledError"), "post")
            return
        m = n - out_n(h)
        ip.ctx.oblige(f"{nm}/post:yields_exactly_the_input_without_its_longest_prefix_on_which_the_predicate_holds", z3.And(out_n(h) >= 0, m >= 0, forall([j], z3.Implies(z3.And(0 <= j, j < m), PRED(self.x(j))), patterns=[PRED(self.x(j))]), z3.Implies(m < n, z3.Not(PRED(self.x(m)))), forall([j], z3.Implies(z3.And(0 <= j, j < out_n(h)), out_at(h, j) == self.x(m + j)), patterns=[out_at(h, j)])), "post")


# filterfalse ----------------------------------------------------------------------------------------------------------------


def pos_at(h, j):
    return z3.Select(h.f("GenOut", "pos", OUT), j)


def filterfalse_loop_inv(ip, env):
    u = ip.ctx.unit
    h = H(ip.st)
    i = u.consumed(ip)
    j = z3.Int(ip.st.uniq("j"))
    ey = ip.truth(env.vars["element_yielded"])
    ey = z3.BoolVal(ey) if isinstance(ey, bool) else ey
    return [
        (
            "the_output_is_a_strictly_increasing_selection_of_rejected_elements_and_counts_all_of_them",
            z3.And(
                i >= 0,
                ip.ctx.loop_k <= u.hi0,
                u.out_inv_common(h),
                out_n(h) == CNT(i),
                ey == (out_n(h) > 0),
                forall([j], z3.Implies(z3.And(0 <= j, j < out_n(h)), z3.And(0 <= pos_at(h, j), pos_at(h, j) < i, z3.Not(PRED(u.x(pos_at(h, j)))), out_at(h, j) == u.x(pos_at(h, j)), z3.Implies(j > 0, pos_at(h, j - 1) < pos_at(h, j)))), patterns=[out_at(h, j)]),
            ),
        ),
    ]


def filterfalse_after_havoc(ip, env):
    u = ip.ctx.unit
    t = z3.Int(ip.st.uniq("t"))
    ip.st.assume(forall([t], z3.Implies(t >= 0, CNT(t + 1) == CNT(t) + z3.If(PRED(u.x(t)), 0, 1)), patterns=[CNT(t + 1)]))


class FilterfalseUnit(GenUnit):
    funcname = "filterfalse"

    def make_args(self, ip):
        self.new_source(ip)
        self.gen_entry(ip)
        t = z3.Int(ip.st.uniq("t"))
        ip.st.assume(CNT(0) == 0)
        ip.st.assume(forall([t], z3.Implies(t >= 0, CNT(t + 1) == CNT(t) + z3.If(PRED(self.x(t)), 0, 1)), patterns=[CNT(t + 1)]))
        return [self.predicate_callback(), self.src], {}

    def loop_spec(self, qualname, ordinal):
        return LoopSpec(filterfalse_loop_inv, modifies={("GenOut", "out"), ("GenOut", "n"), ("GenOut", "pos")}, after_havoc=filterfalse_after_havoc, local_types={"element_yielded": BOOL, "element": OBJ})

    def on_exit(self, ip, pre, exc, ret):
        h = H(ip.st)
        nm = "filterfalse"
        n = self.n
        j = z3.Int(ip.st.uniq("j"))
        if exc is not None:
            ip.ctx.oblige(f"{nm}/post:never_raises_by_itself", z3.BoolVal(exc.pycls is not None and exc.pycls.__name__ == "CancelledError"), "post")
            return
        ip.ctx.oblige(
            f"{nm}/post:yields_a_strictly_increasing_selection_of_the_rejected_elements_as_many_as_there_are",
            z3.And(out_n(h) == CNT(n), forall([j], z3.Implies(z3.And(0 <= j, j < out_n(h)), z3.And(0 <= pos_at(h, j), pos_at(h, j) < n, z3.Not(PRED(self.x(pos_at(h, j)))), out_at(h, j) == self.x(pos_at(h, j)), z3.Implies(j > 0, pos_at(h, j - 1) < pos_at(h, j)))), patterns=[out_at(h, j)])),
            "post",
        )


# pairwise -------------------------------------------------------------------------------------------------------------------


def pairwise_loop_inv(ip, env):
    u = ip.ctx.unit
    h = H(ip.st)
    i = u.consumed(ip)
    j = z3.Int(ip.st.uniq("j"))
    prev = ip.term(env.vars["previous"], OBJ)
    ey = ip.truth(env.vars["element_yielded"])
    ey = z3.BoolVal(ey) if isinstance(ey, bool) else ey
    return [
        ("previous_is_the_last_element_consumed_and_every_adjacent_pair_so_far_was_yielded", z3.And(i >= 1, ip.ctx.loop_k <= u.hi0, u.out_inv_common(h), prev == u.x(i - 1), out_n(h) == i - 1, ey == (i > 1), forall([j], z3.Implies(z3.And(0 <= j, j < out_n(h)), out_at(h, j) == PAIR(u.x(j), u.x(j + 1))), patterns=[out_at(h, j)]))),
    ]


class PairwiseUnit(GenUnit):
    funcname = "pairwise"

    def make_args(self, ip):
        self.new_source(ip)
        self.gen_entry(ip)
        return [self.src], {}

    def loop_spec(self, qualname, ordinal):
        return LoopSpec(pairwise_loop_inv, modifies={("GenOut", "out"), ("GenOut", "n"), ("GenOut", "pos")}, local_types={"element_yielded": BOOL, "element": OBJ, "previous": OBJ})

    def on_exit(self, ip, pre, exc, ret):
        h = H(ip.st)
        nm = "pairwise"
        n = self.n
        j = z3.Int(ip.st.uniq("j"))
        if exc is not None:
            ip.ctx.oblige(f"{nm}/post:never_raises_by_itself", z3.BoolVal(exc.pycls is not None and exc.pycls.__name__ == "CancelledError"), "post")
            return
        ip.ctx.oblige(f"{nm}/post:yields_exactly_the_adjacent_pairs_in_order", z3.And(out_n(h) == z3.If(n >= 1, n - 1, 0), forall([j], z3.Implies(z3.And(0 <= j, j < out_n(h)), out_at(h, j) == PAIR(self.x(j), self.x(j + 1))), patterns=[out_at(h, j)])), "post")


UNITS = [ReduceUnit, ReduceAsyncUnit, AccumulateUnit, AccumulateAsyncUnit, TakewhileUnit, DropwhileUnit, FilterfalseUnit, PairwiseUnit]


# ---- tee: _TeeState.fill (the only place the shared source is consumed) ------------------------------------------------

from segvc.unit import ClassSpec, MethodUnit  # noqa: E402
from specs import c09_lock as L  # noqa: E402
from specs import c11_condition as E  # noqa: E402

register_class("LockFrontC19", {}, source=("anyio/_core/_synchronization.py", "Lock"))  # __aenter__ / __aexit__ of the Lock front-end
if "LockFrontC19" not in (getattr(CLASSES["Lock"], "bases", ()) or ()):
    CLASSES["Lock"].bases = tuple(getattr(CLASSES["Lock"], "bases", ()) or ()) + ("LockFrontC19",)
register_class("_TeeLink", {"value": OBJ, "next": RefT("_TeeLink"), "filled": BOOL}, source=(IT, "_TeeLink"))
LINK = RefT("_TeeLink")
register_class("_TeeState", {"iterator": SRC, "lock": RefT("Lock"), "$pulls": INT}, source=(IT, "_TeeState"))
CLASSES["_TeeState"].ghost_fields = {"$pulls"}
TEE_END = z3.Int("tee_end_marker")


def link_guarantee(a, b):
    """a filled link is immutable: its value and its successor never change again (every tee iterator standing on it
    reads the same element and moves to the same next link)"""
    x = z3.Int(a.st.uniq("x"))
    return forall([x], z3.Implies(z3.And(z3.Select(a.arr("$", "alloc"), x), a.f("_TeeLink", "filled", x)), z3.And(b.f("_TeeLink", "filled", x), b.f("_TeeLink", "value", x) == a.f("_TeeLink", "value", x), b.f("_TeeLink", "next", x) == a.f("_TeeLink", "next", x))), patterns=[b.f("_TeeLink", "filled", x)])


class TeeFillUnit(MethodUnit):
    """_TeeState.fill(link): on return the link is filled; the shared source is pulled at most once, only while the
    state's lock is held and only if the link is still unfilled then; the link receives exactly the next source element
    (or the end marker) and a fresh successor link; a link that is already filled is never written again."""

    props = ("C19",)
    spec = ClassSpec("_TeeState")
    method = "fill"
    contract = None
    trusted = ("E1", "E2", "A-private-iterator")
    contracts = {"Lock.acquire": E.LOCK_ACQUIRE_S, "Lock.release": L.RELEASE}

    def props_of(self, name):
        return {"C19"}

    def contract_for(self, qualname, ctx):
        c = self.contracts.get(qualname)
        if qualname == "Lock.release" and c is not None:
            unit = self

            class Wrap:
                suspends = False

                def apply(self_, ip, f, args, kwargs):
                    try:
                        return c.apply(ip, f, args, kwargs)
                    finally:
                        if ip.ctx.last_case.get(c.qualname) == "owner":
                            unit.holding = False

            return Wrap()
        return c

    def __init__(self):
        super().__init__()
        unit = self
        self.globals = {
            "_tee_end": Sym(TEE_END, OBJ),
            "anext": Builtin("anext", lambda ip, it, default=None: AwaitableVal("contract", lambda: unit.pull(ip, it, default))),
            "_TeeLink": ClassVal("_TeeLink", info=CLASSES["_TeeLink"]),
        }

    def dataclass_unset(self, ip, info, ref, name):
        raise Unsupported(f"dataclass field {info.name}.{name} without a default")

    def pull(self, ip, it, default):
        st, s = ip.st, self.self_val.t
        self.pulls.append((H(st, st.snapshot()), self.holding))
        st.put("_TeeState", "$pulls", s, st.get("_TeeState", "$pulls", s) + 1)
        lib.suspend(ip, "call:source.__anext__", None)
        cn = SRC.cls
        lo, hi = st.get(cn, "lo", it.t), st.get(cn, "hi", it.t)
        if ip.ctx.branch(lo < hi, "source-has-more"):
            v = z3.Select(st.get(cn, "data", it.t), lo)
            st.put(cn, "lo", it.t, lo + 1)
            self.pulled = v
            return Sym(v, OBJ)
        self.pulled = TEE_END
        return default

    def make_args(self, ip):
        self.link = Sym(z3.Int("link"), LINK)
        ip.st.assume(z3.And(self.link.t > 0, ip.st.allocated(self.link.t)))
        return [self.link], types.SimpleNamespace()

    def assume_state(self, ip):
        h = H(ip.st)
        s, cur = self.self_val.t, ip.ctx.cur.t
        lk, it = h.f("_TeeState", "lock", s), h.f("_TeeState", "iterator", s)
        d = h.dq(SRC.cls, it)
        ip.st.assume(z3.And(s > 0, lk > 0, it > 0, ip.st.allocated(lk), ip.st.allocated(it), d.lo <= d.hi, TEE_END != 0))
        x = z3.Int(ip.st.uniq("x"))
        ip.st.assume(forall([x], z3.Implies(z3.And(d.lo <= x, x < d.hi), z3.Select(d.data, x) != TEE_END), patterns=[z3.Select(d.data, x)]))
        for n, t in L.LOCK.assumed_terms(h, lk, cur) + L.LOCK.inv_terms(h, lk, cur):
            ip.st.assume(t)
        ip.st.assume(L.owner(h, lk) != cur)  # not re-entered by the task that is filling (one fill per task at a time)

    def on_entry(self, ip, pre, a):
        self.pulls = []
        self.holding = False
        self.pulled = None
        self.pre = pre

    def after_suspending_call(self, ip, contract, a, case, exc, ret=None):
        if contract is E.LOCK_ACQUIRE_S:
            self.holding = case.name == "acquired"

    def resume_assumptions(self, ip, what, payload):
        h, b = H(ip.st), self.before
        s, cur = self.self_val.t, ip.ctx.cur.t
        for f_ in ("lock", "iterator"):
            ip.st.assume(h.f("_TeeState", f_, s) == b.f("_TeeState", f_, s))
        lk, it = h.f("_TeeState", "lock", s), h.f("_TeeState", "iterator", s)
        ip.st.assume(z3.And(ip.st.allocated(lk), ip.st.allocated(it), ip.st.allocated(self.link.t)))
        for n, t in L.LOCK.assumed_terms(h, lk, cur) + L.LOCK.inv_terms(h, lk, cur):
            ip.st.assume(t)
        ip.st.assume(link_guarantee(b, h))  # rely: everybody's guarantee
        d, db = h.dq(SRC.cls, it), b.dq(SRC.cls, it)
        ip.st.assume(z3.And(d.hi == db.hi, d.data == db.data, d.lo >= db.lo, d.lo <= d.hi))
        if self.holding:
            # the source is consumed, and links are filled, only under the lock -- which this call holds
            for n, t in L.lock_rely(b, h, lk, cur, None):
                ip.st.assume(t)
            ip.st.assume(d.lo == db.lo)
            ip.st.assume(h.f("_TeeLink", "filled", self.link.t) == b.f("_TeeLink", "filled", self.link.t))
            ip.st.assume(h.f("_TeeState", "$pulls", s) == b.f("_TeeState", "$pulls", s))

    def guarantee(self, seg, now, s, cur):
        return [("a_filled_link_is_never_written_again", link_guarantee(seg, now))]

    def on_exit(self, ip, pre, a, exc, ret):
        s = a.self
        post = H(ip.st)
        nm = "_TeeState.fill"
        ln = self.link.t
        if exc is not None:
            ip.ctx.oblige(f"{nm}/post:only_a_cancellation_can_interrupt_a_fill", z3.BoolVal(exc.pycls is not None and exc.pycls.__name__ == "CancelledError"), "post")
            return
        ip.ctx.oblige(f"{nm}/post:the_link_is_filled_on_return", post.f("_TeeLink", "filled", ln), "post")
        ip.ctx.oblige(f"{nm}/post:the_source_is_pulled_at_most_once_and_only_under_the_lock_for_a_link_that_is_still_unfilled", z3.And(z3.BoolVal(len(self.pulls) <= 1 and all(hd for _, hd in self.pulls)), *[z3.Not(hp.f("_TeeLink", "filled", ln)) for hp, _ in self.pulls]), "post")
        if self.pulls:
            v = self.pulled
            nxt = post.f("_TeeLink", "next", ln)
            ip.ctx.oblige(f"{nm}/post:the_link_gets_exactly_the_pulled_element_and_a_fresh_successor_unless_the_source_ended", z3.And(post.f("_TeeLink", "value", ln) == v, z3.If(v == TEE_END, z3.BoolVal(True), z3.And(nxt > 0, z3.Not(z3.Select(self.pre.arr("$", "alloc"), nxt)), z3.Not(post.f("_TeeLink", "filled", nxt))))), "post")
            ip.ctx.oblige(f"{nm}/post:reports_a_yield_point_when_it_pulled", z3.BoolVal(ip.truth(ret) is True), "post")
        if self.holding:
            ip.ctx.oblige(f"{nm}/post:the_lock_is_released", z3.BoolVal(False), "post")


UNITS += [TeeFillUnit]
