"""C19 -- anyio.itertools / anyio.functools.reduce against their standard-library namesakes.

Deductive part (this module): for the functions listed in UNITS the real code is verified against a *sequence
specification* that is the standard-library function written as a recursive definition over the input sequence
  reduce(f, xs[, init])        fold: acc_0 = init (or xs[0]), acc_{i+1} = f(acc_i, x)      -> acc_n; TypeError if empty, no init
  accumulate(xs, f[, initial]) the sequence of the partial folds acc_0, acc_1, ...
  takewhile(p, xs)             the longest prefix of xs on which p holds
  dropwhile(p, xs)             xs without the longest prefix on which p holds
  pairwise(xs)                 (xs[i], xs[i+1]) for i < n - 1
  starmap(f, xs)               f(*xs[i]) for every i
  repeat(e, times)             e, max(times, 0) times
for every input sequence and every (deterministic) callback; the callbacks are uninterpreted functions APP / PRED, the
input is an abstract iterator (a queue of arbitrary elements: `anext` takes the head, `async for` walks the rest), the
output is the ghost sequence of yielded values.  That the recursive definitions above *are* the stdlib's behaviour is
not proved - it is what the stdlib documentation states - and is additionally checked by the bounded stand-in.
Bounded part (replayers/C19.py --bounded-all; NOT a proof, never counted as discharged): all 20 functions + reduce
against the stdlib on every sequence over {0,1,2} up to length 4, all small integer parameters incl. invalid ones,
sync and async sources; tee with all interleavings of two consumers over sequences up to length 3.
Assumed: A-pure (callbacks are deterministic functions of their arguments), A-private-iterator (nobody else consumes
the source while the generator is suspended at a yield or an await).
"""
import types

import z3

from segvc import lib
from segvc.core import BOOL, CLASSES, H, INT, OBJ, ArrT, DequeT, RefT, Sym, Unsupported, forall, register_class
from segvc.interp import AwaitableVal, Builtin, ClassVal, ExcVal, NS, PyExc
from segvc.unit import FunctionUnit, LoopSpec

IT = "anyio/itertools.py"
FN = "anyio/functools.py"
SRC = DequeT(OBJ)  # the source iterator: what is still to come
register_class("GenOut", {"out": ArrT(INT, OBJ), "n": INT, "pos": ArrT(INT, INT), "rank": ArrT(INT, INT), "last": INT, "short": BOOL, "rq": INT}, kind="env")
OUT = z3.Int("generator_output")
APP = z3.Function("APP", z3.IntSort(), z3.IntSort(), z3.IntSort())  # the binary callback
APP1 = z3.Function("APP1", z3.IntSort(), z3.IntSort())  # a unary callback (starmap on the element)
PRED = z3.Function("PRED", z3.IntSort(), z3.BoolSort())  # a predicate callback (its truthiness)
ACC = z3.Function("ACC", z3.IntSort(), z3.IntSort())  # the partial folds of the specification
PAIR = z3.Function("PAIR", z3.IntSort(), z3.IntSort(), z3.IntSort())  # a 2-tuple as a value
CNT = z3.Function("CNT", z3.IntSort(), z3.IntSort())  # number of selected elements among the first i
MISSING = z3.Int("initial_missing")


def _loc(env, name):
    """a loop-carried local the invariant is phrased over; if an edit renamed it the unit is undecided (exit 2), not crashed"""
    try:
        return env.vars[name]
    except KeyError:
        raise Unsupported(f"the loop invariant is keyed to the local variable `{name}`, which the loop no longer has") from None


def _flag(ip, env, name):
    """a bookkeeping flag of the real code (`element_yielded`, ...) as a z3 Bool, or None when the loop has no such local
    (an edit removed or renamed it): clauses about it are then dropped, the specification clauses do not depend on it"""
    if name not in env.vars:
        return None
    v = ip.truth(env.vars[name])
    return z3.BoolVal(v) if isinstance(v, bool) else v


def _same(flag, cond):
    return z3.BoolVal(True) if flag is None else flag == cond


def out_n(h):
    return h.f("GenOut", "n", OUT)


def rq(h):
    """ghost: how many times the run has passed a real checkpoint or asked its source for an element (C08 clauses)"""
    return h.f("GenOut", "rq", OUT)


def _bump_rq(ip):
    ip.st.put("GenOut", "rq", OUT, ip.st.get("GenOut", "rq", OUT) + 1)


def out_at(h, i):
    return z3.Select(h.f("GenOut", "out", OUT), i)


CKPT_KINDS = ("checkpoint", "cancel_shielded_checkpoint")


class IterUnit(FunctionUnit):
    props = ("C19", "C08")
    trusted = ("E1", "A-pure", "A-private-iterator")
    is_async_source = False
    c08_clauses = True  # generators / reduce: C08's last sentence (a traversal passes a checkpoint)
    is_generator = False

    def props_of(self, name):
        return {"C08"} if ("/c08:" in name or ":c08." in name) else {"C19"}

    # -- C08: counting the real checkpoints of the run (checkpoint(), cancel_shielded_checkpoint(); checkpoint_if_cancelled() alone
    #    yields only when cancelled and is not counted) and the requests to the source (over a synchronous iterable each one goes
    #    through _IterableAsyncIterator.__anext__, which passes a suspension point on every path: AdaptorNextUnit) ---------------------
    def _count_reset(self):
        self.ckpts, self.requests, self._skip_count, self.ckpts_at_last_yield = 0, 0, False, None

    def run(self, ip):
        self._count_reset()  # the unit object is reused for every path
        return super().run(ip)

    def on_for_loop(self, ip, it):
        if isinstance(it, Sym) and isinstance(it.ty, RefT) and it.ty.cls.startswith("Deque["):  # an abstract source (of elements or of sources)
            self.requests = getattr(self, "requests", 0) + 1

    def after_exit(self, ip, pre, exc, ret):
        if not self.c08_clauses or exc is not None:
            return
        nm = self.qualname
        ck, rq_ = getattr(self, "ckpts", 0), getattr(self, "requests", 0)
        ip.ctx.oblige(f"{nm}/c08:a_full_traversal_over_a_synchronous_iterable_passes_a_checkpoint", z3.Or(z3.BoolVal(ck + rq_ >= 1), rq(H(ip.st)) >= 1) if self.is_generator else z3.BoolVal(ck + rq_ >= 1), "post")
        nothing = self.yielded_nothing(ip, ret)
        if nothing is not None:
            ip.ctx.oblige(f"{nm}/c08:a_traversal_that_yields_nothing_passes_a_checkpoint_of_its_own_whatever_the_source", z3.Implies(nothing, z3.BoolVal(ck >= 1)), "post")

    def yielded_nothing(self, ip, ret):
        return out_n(H(ip.st)) == 0

    def __init__(self):
        super().__init__()
        unit = self
        self.globals = {
            "_iterate": Builtin("_iterate", lambda ip, it: it),
            "anext": Builtin("anext", lambda ip, it, *default: AwaitableVal("contract", lambda: unit.take_or_default(ip, it, default))),
            "next": Builtin("next", lambda ip, it: unit.take(ip, it, "StopIteration")),
            "iter": Builtin("iter", lambda ip, it: it),
            "checkpoint": Builtin("checkpoint", lambda ip: AwaitableVal("checkpoint")),
            "checkpoint_if_cancelled": Builtin("checkpoint_if_cancelled", lambda ip: (setattr(unit, "_skip_count", True), AwaitableVal("cancel_shielded_checkpoint"))[1]),
            "cancel_shielded_checkpoint": Builtin("cancel_shielded_checkpoint", lambda ip: AwaitableVal("cancel_shielded_checkpoint")),
            "initial_missing": Sym(MISSING, OBJ),
            "AsyncIterable": ClassVal("AsyncIterable"),
            "Iterable": ClassVal("Iterable"),
            "AsyncIterator": ClassVal("AsyncIterator"),
            "T": None,
            "Any": ClassVal("Any"),
            "cast": Builtin("cast", lambda ip, ty, v: v),
        }

    def obj_truth(self, t):
        """an opaque element / initial value is falsy when it is None and otherwise has an arbitrary, fixed truth value
        (0, "", () are falsy objects that are not None)"""
        return z3.And(t != 0, TRUTHY(t))

    # -- the abstract source ------------------------------------------------------------------------------------------
    def new_source(self, ip, name="xs"):
        st = ip.st
        r = Sym(z3.Int(name), SRC)
        h = H(st)
        d = h.dq(SRC.cls, r.t)
        st.assume(z3.And(r.t > 0, st.allocated(r.t), d.lo <= d.hi, d.lo >= 0))
        self.src = r
        self.lo0, self.hi0, self.data0 = d.lo, d.hi, d.data
        return r

    def x(self, i):
        """the i-th element of the input sequence"""
        return z3.Select(self.data0, self.lo0 + i)

    @property
    def n(self):
        return self.hi0 - self.lo0

    def take(self, ip, it, stop):
        st = ip.st
        cn = SRC.cls
        self.requests = getattr(self, "requests", 0) + 1
        _bump_rq(ip)
        lo, hi = st.get(cn, "lo", it.t), st.get(cn, "hi", it.t)
        if ip.ctx.branch(lo < hi, "source-has-more"):
            v = z3.Select(st.get(cn, "data", it.t), lo)
            st.put(cn, "lo", it.t, lo + 1)
            return Sym(v, OBJ)
        if stop == "StopAsyncIteration":
            raise PyExc(ExcVal(StopAsyncIteration, ()))
        raise PyExc(ExcVal(StopIteration, ()))

    def take_or_default(self, ip, it, default):
        """anext(it) / anext(it, default)"""
        if not default:
            return self.take(ip, it, "StopAsyncIteration")
        try:
            return self.take(ip, it, "StopAsyncIteration")
        except PyExc as e:
            if e.exc.pycls is StopAsyncIteration:
                return default[0]
            raise

    def isinstance(self, ip, x, cls):
        if isinstance(x, Sym) and x.ty is SRC and isinstance(cls, ClassVal):
            if cls.name in ("AsyncIterable", "AsyncIterator"):
                return self.is_async_source
            if cls.name == "Iterable":
                return not self.is_async_source
        return NotImplemented

    def model_getattr(self, ip, obj, attr):
        if isinstance(obj, Sym) and obj.ty is SRC:
            if attr == "__aiter__":
                return Builtin("__aiter__", lambda ip: obj)
            if attr == "__anext__":
                return Builtin("__anext__", lambda ip: AwaitableVal("contract", lambda: self.take(ip, obj, "StopAsyncIteration")))
        return NotImplemented

    # -- callbacks and output ------------------------------------------------------------------------------------------
    def binary_callback(self):
        return Builtin("function", lambda ip, a, b: AwaitableVal("contract", lambda: Sym(APP(ip.term(a, OBJ), ip.term(b, OBJ)), OBJ)))

    def predicate_callback(self):
        return Builtin("predicate", lambda ip, a: AwaitableVal("contract", lambda: Sym(PRED(ip.term(a, OBJ)), BOOL)))

    def do_yield(self, ip, v):
        st = ip.st
        n = st.get("GenOut", "n", OUT)
        if isinstance(v, tuple) and len(v) == 2:
            vt = PAIR(ip.term(v[0], OBJ), ip.term(v[1], OBJ))
        else:
            vt = ip.term(v, OBJ if not (isinstance(v, Sym) and v.ty is INT) else INT)
        if ip.ctx.loop_k is not None and getattr(self, "lo0", None) is not None:
            # ghost: which input position the yielded value comes from (the running loop's index)
            st.put("GenOut", "pos", OUT, z3.Store(st.get("GenOut", "pos", OUT), n, ip.ctx.loop_k - self.lo0))
        st.put("GenOut", "out", OUT, z3.Store(st.get("GenOut", "out", OUT), n, vt))
        st.put("GenOut", "n", OUT, n + 1)
        return None

    def start_output(self, ip):
        ip.st.put("GenOut", "n", OUT, z3.IntVal(0))
        ip.st.put("GenOut", "rq", OUT, z3.IntVal(0))
        ip.st.assume(OUT > 0)

    def loop_spec(self, qualname, ordinal):
        return self.loops.get((qualname, ordinal)) if hasattr(self, "loops") else None

    def before_suspend(self, ip, what, payload):
        self.before = H(ip.st, ip.st.snapshot())
        if getattr(self, "_skip_count", False):
            self._skip_count = False
        elif what in CKPT_KINDS:
            self.ckpts = getattr(self, "ckpts", 0) + 1
            _bump_rq(ip)
            self.before = H(ip.st, ip.st.snapshot())

    def after_resume(self, ip, what, payload):
        # A-private-iterator: the source, the output record and the local state are this generator's own
        h, b = H(ip.st), self.before
        for key in [(SRC.cls, "lo"), (SRC.cls, "hi"), (SRC.cls, "data"), ("GenOut", "out"), ("GenOut", "n"), ("GenOut", "pos"), ("GenOut", "rank"), ("GenOut", "last"), ("GenOut", "short"), ("GenOut", "rq")]:
            ip.st.assume(h.arr(*key) == b.arr(*key))
        ip.st.assume(h.arr("$", "alloc") == b.arr("$", "alloc"))


def src_unchanged(u, h):
    d = h.dq(SRC.cls, u.src.t)
    return z3.And(d.hi == u.hi0, d.data == u.data0)


# ---- reduce ---------------------------------------------------------------------------------------------------------------


def reduce_loop_inv(ip, env):
    u = ip.ctx.unit
    h = H(ip.st)
    k = ip.ctx.loop_k  # absolute position of the next element in the source
    i = k - u.lo0  # number of input elements consumed so far
    value = ip.term(_loc(env, "value"), OBJ)
    return [
        ("value_is_the_fold_of_the_elements_consumed_so_far", z3.And(value == ACC(i - u.off), i >= u.off, k <= u.hi0, src_unchanged(u, h))),
    ] + ([("c08.function_called_only_after_the_callback_was_awaited", z3.Implies(_fc(ip, env), i > u.off))] if "function_called" in env.vars else [])


def _fc(ip, env):
    fc = ip.truth(_loc(env, "function_called"))
    return z3.BoolVal(fc) if isinstance(fc, bool) else fc


def reduce_after_havoc(ip, env):
    u = ip.ctx.unit
    k = ip.ctx.loop_k
    # one unfolding of the specification's recursion at the position of the next element
    j = z3.Int(ip.st.uniq("j"))
    ip.st.assume(forall([j], z3.Implies(j >= 0, ACC(j + 1) == APP(ACC(j), u.x(j + u.off))), patterns=[ACC(j + 1)]))


class ReduceUnit(IterUnit):
    modpath = FN
    funcname = "reduce"

    def make_args(self, ip):
        self.new_source(ip)
        self.has_init = ip.ctx.decide(2, "initial-given") == 1
        self.init = Sym(z3.Int("initial"), OBJ)
        ip.st.assume(self.init.t != MISSING)
        self.off = 0 if self.has_init else 1  # how many input elements the first accumulator value uses up
        # the specification: ACC(0) = initial, or the first element
        ip.st.assume(ACC(0) == (self.init.t if self.has_init else self.x(0)))
        j = z3.Int(ip.st.uniq("j"))
        ip.st.assume(forall([j], z3.Implies(j >= 0, ACC(j + 1) == APP(ACC(j), self.x(j + self.off))), patterns=[ACC(j + 1)]))
        args = [self.binary_callback(), self.src] + ([self.init] if self.has_init else [])
        return args, {}

    def yielded_nothing(self, ip, ret):
        return None  # not a generator: its own clause below

    def after_exit(self, ip, pre, exc, ret):
        super().after_exit(ip, pre, exc, ret)
        if exc is None:
            # reduce() iterates a synchronous iterable directly (no adaptor): it is a checkpoint through its callback, or - when
            # the callback is never awaited (no element to fold) - through a checkpoint of its own
            ip.ctx.oblige("reduce/c08:returns_without_a_checkpoint_of_its_own_only_if_the_callback_was_awaited", z3.Or(z3.BoolVal(getattr(self, "ckpts", 0) >= 1), self.n - self.off >= 1), "post")

    loops = {}

    def loop_spec(self, qualname, ordinal):
        return LoopSpec(reduce_loop_inv, modifies=set(), after_havoc=reduce_after_havoc, local_types={"value": OBJ, "function_called": BOOL, "element": OBJ})

    def on_exit(self, ip, pre, exc, ret):
        nm = "reduce"
        n = self.n
        if exc is not None:
            name = exc.pycls.__name__ if exc.pycls is not None else "sym"
            ip.ctx.oblige(f"{nm}/post:TypeError_exactly_for_an_empty_sequence_without_initial_value", z3.And(z3.BoolVal(name == "TypeError" and not self.has_init), n == 0) if name != "CancelledError" else z3.BoolVal(True), "post")
            return
        ip.ctx.oblige(f"{nm}/post:returns_the_left_fold_of_the_whole_sequence", z3.And(ip.term(ret, OBJ) == ACC(n - self.off), n >= self.off), "post")


class ReduceAsyncUnit(ReduceUnit):
    is_async_source = True


# ---- generators: the output is the ghost sequence of yielded values ------------------------------------------------------


class GenUnit(IterUnit):
    modpath = IT
    is_generator = True

    def gen_entry(self, ip):
        self.start_output(ip)

    def out_inv_common(self, h):
        return z3.And(out_n(h) >= 0, src_unchanged(self, h))

    def consumed(self, ip):
        """number of input elements the running `async for` has consumed (ghost loop index relative to the start)"""
        return ip.ctx.loop_k - self.lo0


# accumulate ---------------------------------------------------------------------------------------------------------------


def acc_loop_inv(ip, env):
    u = ip.ctx.unit
    h = H(ip.st)
    i = u.consumed(ip)
    total = ip.term(_loc(env, "total"), OBJ)
    j = z3.Int(ip.st.uniq("j"))
    return [
        ("total_is_the_last_partial_fold_and_every_partial_fold_so_far_has_been_yielded_in_order", z3.And(i >= u.off, ip.ctx.loop_k <= u.hi0, total == ACC(i - u.off), out_n(h) == i - u.off + 1, forall([j], z3.Implies(z3.And(0 <= j, j < out_n(h)), out_at(h, j) == ACC(j)), patterns=[out_at(h, j)]), u.out_inv_common(h))),
    ]


class AccumulateUnit(GenUnit):
    funcname = "accumulate"

    def make_args(self, ip):
        self.new_source(ip)
        self.gen_entry(ip)
        self.has_init = ip.ctx.decide(2, "initial-given") == 1
        self.init = Sym(z3.Int("initial"), OBJ)
        ip.st.assume(self.init.t != 0)  # `initial is None` means "not given"
        self.off = 0 if self.has_init else 1
        ip.st.assume(ACC(0) == (self.init.t if self.has_init else self.x(0)))
        j = z3.Int(ip.st.uniq("j"))
        ip.st.assume(forall([j], z3.Implies(j >= 0, ACC(j + 1) == APP(ACC(j), self.x(j + self.off))), patterns=[ACC(j + 1)]))
        return [self.src, self.binary_callback()], {"initial": self.init if self.has_init else None}

    def loop_spec(self, qualname, ordinal):
        return LoopSpec(acc_loop_inv, modifies={("GenOut", "out"), ("GenOut", "n"), ("GenOut", "pos")}, after_havoc=reduce_after_havoc, local_types={"total": OBJ, "element": OBJ})

    def on_exit(self, ip, pre, exc, ret):
        h = H(ip.st)
        nm = "accumulate"
        n = self.n
        j = z3.Int(ip.st.uniq("j"))
        if exc is not None:
            ip.ctx.oblige(f"{nm}/post:never_raises_by_itself", z3.BoolVal(exc.pycls is not None and exc.pycls.__name__ == "CancelledError"), "post")
            return
        want_n = z3.If(n >= self.off, n - self.off + 1, 0)
        ip.ctx.oblige(f"{nm}/post:yields_exactly_the_partial_folds_of_the_input_in_order", z3.And(out_n(h) == want_n, forall([j], z3.Implies(z3.And(0 <= j, j < out_n(h)), out_at(h, j) == ACC(j)), patterns=[out_at(h, j)])), "post")


class AccumulateAsyncUnit(AccumulateUnit):
    is_async_source = True


# takewhile / dropwhile -------------------------------------------------------------------------------------------------------


def takewhile_loop_inv(ip, env):
    u = ip.ctx.unit
    h = H(ip.st)
    i = u.consumed(ip)
    j = z3.Int(ip.st.uniq("j"))
    ey = _flag(ip, env, "element_yielded")
    return [
        ("every_element_so_far_satisfied_the_predicate_and_was_yielded_in_order", z3.And(i >= 0, ip.ctx.loop_k <= u.hi0, out_n(h) == i, _same(ey, i > 0), forall([j], z3.Implies(z3.And(0 <= j, j < i), z3.And(PRED(u.x(j)), out_at(h, j) == u.x(j))), patterns=[out_at(h, j)]), u.out_inv_common(h))),
    ]


class TakewhileUnit(GenUnit):
    funcname = "takewhile"

    def make_args(self, ip):
        self.new_source(ip)
        self.gen_entry(ip)
        return [self.predicate_callback(), self.src], {}

    def loop_spec(self, qualname, ordinal):
        return LoopSpec(takewhile_loop_inv, modifies={("GenOut", "out"), ("GenOut", "n"), ("GenOut", "pos")}, local_types={"element_yielded": BOOL, "element": OBJ})

    def on_exit(self, ip, pre, exc, ret):
        h = H(ip.st)
        nm = "takewhile"
        n = self.n
        j = z3.Int(ip.st.uniq("j"))
        if exc is not None:
            ip.ctx.oblige(f"{nm}/post:never_raises_by_itself", z3.BoolVal(exc.pycls is not None and exc.pycls.__name__ == "CancelledError"), "post")
            return
        m = out_n(h)
        ip.ctx.oblige(f"{nm}/post:yields_exactly_the_longest_prefix_on_which_the_predicate_holds", z3.And(m >= 0, m <= n, forall([j], z3.Implies(z3.And(0 <= j, j < m), z3.And(PRED(self.x(j)), out_at(h, j) == self.x(j))), patterns=[out_at(h, j)]), z3.Implies(m < n, z3.Not(PRED(self.x(m))))), "post")


def dropwhile_loop_inv(ip, env):
    u = ip.ctx.unit
    h = H(ip.st)
    i = u.consumed(ip)
    j = z3.Int(ip.st.uniq("j"))
    dr = ip.truth(_loc(env, "dropping"))
    dr = z3.BoolVal(dr) if isinstance(dr, bool) else dr
    ey = ip.truth(_loc(env, "element_yielded"))
    ey = z3.BoolVal(ey) if isinstance(ey, bool) else ey
    m = i - out_n(h)  # the length of the dropped prefix, once dropping has ended
    return [
        (
            "while_dropping_every_element_so_far_satisfied_the_predicate_afterwards_the_rest_is_yielded_in_order",
            z3.And(
                i >= 0,
                ip.ctx.loop_k <= u.hi0,
                u.out_inv_common(h),
                z3.Implies(dr, z3.And(out_n(h) == 0, z3.Not(ey), forall([j], z3.Implies(z3.And(0 <= j, j < i), PRED(u.x(j))), patterns=[PRED(u.x(j))]))),
                z3.Implies(z3.Not(dr), z3.And(ey, 0 <= m, m < i, z3.Not(PRED(u.x(m))), forall([j], z3.Implies(z3.And(0 <= j, j < m), PRED(u.x(j))), patterns=[PRED(u.x(j))]), out_n(h) == i - m, forall([j], z3.Implies(z3.And(0 <= j, j < out_n(h)), out_at(h, j) == u.x(m + j)), patterns=[out_at(h, j)]))),
            ),
        ),
    ]


class DropwhileUnit(GenUnit):
    funcname = "dropwhile"

    def make_args(self, ip):
        self.new_source(ip)
        self.gen_entry(ip)
        self.m = z3.Int("dropped_prefix_length")  # specification witness: first index where the predicate fails
        return [self.predicate_callback(), self.src], {}

    def loop_spec(self, qualname, ordinal):
        return LoopSpec(dropwhile_loop_inv, modifies={("GenOut", "out"), ("GenOut", "n"), ("GenOut", "pos")}, local_types={"element_yielded": BOOL, "dropping": BOOL, "element": OBJ})

    def on_exit(self, ip, pre, exc, ret):
        h = H(ip.st)
        nm = "dropwhile"
        n = self.n
        j = z3.Int(ip.st.uniq("j"))
        if exc is not None:
            ip.ctx.oblige(f"{nm}/post:never_raises_by_itself", z3.BoolVal(exc.pycls is not None and exc.pycls.__name__ == "CancelledError"), "post")
            return
        m = n - out_n(h)
        ip.ctx.oblige(f"{nm}/post:yields_exactly_the_input_without_its_longest_prefix_on_which_the_predicate_holds", z3.And(out_n(h) >= 0, m >= 0, forall([j], z3.Implies(z3.And(0 <= j, j < m), PRED(self.x(j))), patterns=[PRED(self.x(j))]), z3.Implies(m < n, z3.Not(PRED(self.x(m)))), forall([j], z3.Implies(z3.And(0 <= j, j < out_n(h)), out_at(h, j) == self.x(m + j)), patterns=[out_at(h, j)])), "post")


# filterfalse ----------------------------------------------------------------------------------------------------------------


def pos_at(h, j):
    return z3.Select(h.f("GenOut", "pos", OUT), j)


def filterfalse_loop_inv(ip, env):
    u = ip.ctx.unit
    h = H(ip.st)
    i = u.consumed(ip)
    j = z3.Int(ip.st.uniq("j"))
    ey = _flag(ip, env, "element_yielded")
    return [
        (
            "the_output_is_a_strictly_increasing_selection_of_rejected_elements_and_counts_all_of_them",
            z3.And(
                i >= 0,
                ip.ctx.loop_k <= u.hi0,
                u.out_inv_common(h),
                out_n(h) == CNT(i),
                _same(ey, out_n(h) > 0),
                forall([j], z3.Implies(z3.And(0 <= j, j < out_n(h)), z3.And(0 <= pos_at(h, j), pos_at(h, j) < i, z3.Not(PRED(u.x(pos_at(h, j)))), out_at(h, j) == u.x(pos_at(h, j)), z3.Implies(j > 0, pos_at(h, j - 1) < pos_at(h, j)))), patterns=[out_at(h, j), pos_at(h, j)]),
            ),
        ),
    ]


def filterfalse_after_havoc(ip, env):
    u = ip.ctx.unit
    t = z3.Int(ip.st.uniq("t"))
    ip.st.assume(forall([t], z3.Implies(t >= 0, CNT(t + 1) == CNT(t) + z3.If(PRED(u.x(t)), 0, 1)), patterns=[CNT(t + 1)]))


class FilterfalseUnit(GenUnit):
    funcname = "filterfalse"

    def make_args(self, ip):
        self.new_source(ip)
        self.gen_entry(ip)
        t = z3.Int(ip.st.uniq("t"))
        ip.st.assume(CNT(0) == 0)
        ip.st.assume(forall([t], z3.Implies(t >= 0, CNT(t + 1) == CNT(t) + z3.If(PRED(self.x(t)), 0, 1)), patterns=[CNT(t + 1)]))
        return [self.predicate_callback(), self.src], {}

    def loop_spec(self, qualname, ordinal):
        return LoopSpec(filterfalse_loop_inv, modifies={("GenOut", "out"), ("GenOut", "n"), ("GenOut", "pos")}, after_havoc=filterfalse_after_havoc, local_types={"element_yielded": BOOL, "element": OBJ})

    def on_exit(self, ip, pre, exc, ret):
        h = H(ip.st)
        nm = "filterfalse"
        n = self.n
        j = z3.Int(ip.st.uniq("j"))
        if exc is not None:
            ip.ctx.oblige(f"{nm}/post:never_raises_by_itself", z3.BoolVal(exc.pycls is not None and exc.pycls.__name__ == "CancelledError"), "post")
            return
        ip.ctx.oblige(
            f"{nm}/post:yields_a_strictly_increasing_selection_of_the_rejected_elements_as_many_as_there_are",
            z3.And(out_n(h) == CNT(n), forall([j], z3.Implies(z3.And(0 <= j, j < out_n(h)), z3.And(0 <= pos_at(h, j), pos_at(h, j) < n, z3.Not(PRED(self.x(pos_at(h, j)))), out_at(h, j) == self.x(pos_at(h, j)), z3.Implies(j > 0, pos_at(h, j - 1) < pos_at(h, j)))), patterns=[out_at(h, j), pos_at(h, j)])),
            "post",
        )


# pairwise -------------------------------------------------------------------------------------------------------------------


def pairwise_loop_inv(ip, env):
    u = ip.ctx.unit
    h = H(ip.st)
    i = u.consumed(ip)
    j = z3.Int(ip.st.uniq("j"))
    prev = ip.term(_loc(env, "previous"), OBJ)
    ey = _flag(ip, env, "element_yielded")
    return [
        ("previous_is_the_last_element_consumed_and_every_adjacent_pair_so_far_was_yielded", z3.And(i >= 1, ip.ctx.loop_k <= u.hi0, u.out_inv_common(h), prev == u.x(i - 1), out_n(h) == i - 1, _same(ey, i > 1), forall([j], z3.Implies(z3.And(0 <= j, j < out_n(h)), out_at(h, j) == PAIR(u.x(j), u.x(j + 1))), patterns=[out_at(h, j)]))),
    ]


class PairwiseUnit(GenUnit):
    funcname = "pairwise"

    def make_args(self, ip):
        self.new_source(ip)
        self.gen_entry(ip)
        return [self.src], {}

    def loop_spec(self, qualname, ordinal):
        return LoopSpec(pairwise_loop_inv, modifies={("GenOut", "out"), ("GenOut", "n"), ("GenOut", "pos")}, local_types={"element_yielded": BOOL, "element": OBJ, "previous": OBJ})

    def on_exit(self, ip, pre, exc, ret):
        h = H(ip.st)
        nm = "pairwise"
        n = self.n
        j = z3.Int(ip.st.uniq("j"))
        if exc is not None:
            ip.ctx.oblige(f"{nm}/post:never_raises_by_itself", z3.BoolVal(exc.pycls is not None and exc.pycls.__name__ == "CancelledError"), "post")
            return
        ip.ctx.oblige(f"{nm}/post:yields_exactly_the_adjacent_pairs_in_order", z3.And(out_n(h) == z3.If(n >= 1, n - 1, 0), forall([j], z3.Implies(z3.And(0 <= j, j < out_n(h)), out_at(h, j) == PAIR(self.x(j), self.x(j + 1))), patterns=[out_at(h, j)])), "post")


# repeat / count -----------------------------------------------------------------------------------------------------------


def all_out_are(h, v):
    j = z3.Int(h.st.uniq("j"))
    return forall([j], z3.Implies(z3.And(0 <= j, j < out_n(h)), out_at(h, j) == v), patterns=[out_at(h, j)])


def repeat_forever_inv(ip, env):
    u = ip.ctx.unit
    h = H(ip.st)
    return [("every_value_yielded_so_far_is_the_element", z3.And(out_n(h) >= 0, all_out_are(h, u.element.t))), ("c08.what_was_consumed_or_yielded_so_far_is_covered_by_requests_and_checkpoints", rq(h) >= out_n(h))]


def repeat_counted_inv(ip, env):
    u = ip.ctx.unit
    h = H(ip.st)
    rem = ip.term(_loc(env, "remaining"), INT)
    return [("the_element_was_yielded_times_minus_remaining_times", z3.And(rem >= 0, rem <= u.times.t, out_n(h) == u.times.t - rem, all_out_are(h, u.element.t))), ("c08.what_was_consumed_or_yielded_so_far_is_covered_by_requests_and_checkpoints", rq(h) >= out_n(h))]


class RepeatUnit(GenUnit):
    funcname = "repeat"
    lo0 = None

    def __init__(self):
        super().__init__()
        self.globals["operator"] = NS("operator", {"index": Builtin("operator.index", lambda ip, v: v)})

    def make_args(self, ip):
        self.gen_entry(ip)
        self.element = Sym(z3.Int("element"), OBJ)
        self.counted = ip.ctx.decide(2, "times-given") == 1
        self.times = Sym(z3.Int("times"), INT)
        return [self.element], ({"times": self.times} if self.counted else {})

    def loop_spec(self, qualname, ordinal):
        # a `while` loop with suspension points inside: everything may change across them (frame = None); what the
        # generator owns is re-assumed at each resumption (A-private-iterator)
        if ordinal == 0:
            return LoopSpec(repeat_forever_inv, modifies=None)
        return LoopSpec(repeat_counted_inv, modifies=None, local_types={"remaining": INT})

    def on_exit(self, ip, pre, exc, ret):
        h = H(ip.st)
        nm = "repeat"
        if exc is not None:
            ip.ctx.oblige(f"{nm}/post:never_raises_by_itself", z3.BoolVal(exc.pycls is not None and exc.pycls.__name__ == "CancelledError"), "post")
            return
        ip.ctx.oblige(f"{nm}/post:ends_only_when_times_was_given", z3.BoolVal(self.counted), "post")
        t = self.times.t
        ip.ctx.oblige(f"{nm}/post:yields_the_element_exactly_max_times_0_times", z3.And(out_n(h) == z3.If(t > 0, t, 0), all_out_are(h, self.element.t)), "post")


def count_inv(ip, env):
    u = ip.ctx.unit
    h = H(ip.st)
    n = ip.term(_loc(env, "n"), INT)
    j = z3.Int(ip.st.uniq("j"))
    return [("the_jth_value_yielded_is_start_plus_j_times_step_and_n_is_the_next_one", z3.And(out_n(h) >= 0, n == u.start.t + out_n(h) * u.step.t, forall([j], z3.Implies(z3.And(0 <= j, j < out_n(h)), out_at(h, j) == u.start.t + j * u.step.t), patterns=[out_at(h, j)]))), ("c08.what_was_consumed_or_yielded_so_far_is_covered_by_requests_and_checkpoints", rq(h) >= out_n(h))]


class CountUnit(GenUnit):
    funcname = "count"
    lo0 = None

    def make_args(self, ip):
        self.gen_entry(ip)
        self.start, self.step = Sym(z3.Int("start"), INT), Sym(z3.Int("step"), INT)
        return [self.start, self.step], {}

    def loop_spec(self, qualname, ordinal):
        return LoopSpec(count_inv, modifies=None, local_types={"n": INT, "value": INT})

    def on_exit(self, ip, pre, exc, ret):
        if exc is not None:
            ip.ctx.oblige("count/post:never_raises_by_itself", z3.BoolVal(exc.pycls is not None and exc.pycls.__name__ == "CancelledError"), "post")
            return
        ip.ctx.oblige("count/post:never_ends", z3.BoolVal(False), "post")


# islice / compress: the output is exactly the selected sub-sequence -----------------------------------------------------------
#   ghost pos[j]  = input index of the j-th yielded value,  ghost rank[t] = output index of input element t (if selected)
#   (S1) every yielded value is a selected input element, in strictly increasing input order
#   (S2) every selected input element below the bound was yielded (rank is its witness)
# S1 + S2 say: out = [x[t] for t in range(bound) if selected(t)] -- without a counting function, hence without induction.

PYMOD = z3.Function("PYMOD", z3.IntSort(), z3.IntSort(), z3.IntSort())
TRUTHY = z3.Function("TRUTHY", z3.IntSort(), z3.BoolSort())  # truthiness of an opaque object


def rank_at(h, t):
    return z3.Select(h.f("GenOut", "rank", OUT), t)


def selection(u, h, bound):
    j, t = z3.Int(h.st.uniq("j")), z3.Int(h.st.uniq("t"))
    s1 = forall([j], z3.Implies(z3.And(0 <= j, j < out_n(h)), z3.And(0 <= pos_at(h, j), pos_at(h, j) < bound, u.selected(pos_at(h, j)), out_at(h, j) == u.x(pos_at(h, j)), z3.Implies(j > 0, pos_at(h, j - 1) < pos_at(h, j)))), patterns=[out_at(h, j), pos_at(h, j)])
    s2 = forall([t], z3.Implies(z3.And(0 <= t, t < bound, u.selected(t)), z3.And(0 <= rank_at(h, t), rank_at(h, t) < out_n(h), pos_at(h, rank_at(h, t)) == t)), patterns=[rank_at(h, t)])
    return z3.And(out_n(h) >= 0, s1, s2)


class SelectionUnit(GenUnit):
    def consumed_of(self, h):
        return h.dq(SRC.cls, self.src.t).lo - self.lo0

    def do_yield(self, ip, v):
        st = ip.st
        n = st.get("GenOut", "n", OUT)
        t = self.consumed_of(H(st)) - 1  # the element consumed last
        st.put("GenOut", "pos", OUT, z3.Store(st.get("GenOut", "pos", OUT), n, t))
        st.put("GenOut", "rank", OUT, z3.Store(st.get("GenOut", "rank", OUT), t, n))
        return super().do_yield(ip, v)

    def exit_common(self, ip, exc, nm):
        if exc is not None and exc.pycls is not None and exc.pycls.__name__ == "CancelledError":
            return True
        return False


def islice_inv(ip, env):
    u = ip.ctx.unit
    h = H(ip.st)
    i = u.consumed_of(h)
    index = ip.term(_loc(env, "index"), INT)
    ey = _flag(ip, env, "element_yielded")
    return [("index_counts_the_elements_consumed_and_exactly_the_selected_ones_among_them_were_yielded", z3.And(index == i, i >= 0, i <= u.n, u.b is None or i <= u.b, src_unchanged(u, h), _same(ey, out_n(h) > 0), selection(u, h, i))), ("c08.what_was_consumed_or_yielded_so_far_is_covered_by_requests_and_checkpoints", rq(h) >= i)]


MAXSIZE = 2**63 - 1


class IsliceUnit(SelectionUnit):
    funcname = "islice"

    def __init__(self):
        super().__init__()
        self.globals["operator"] = NS("operator", {"index": Builtin("operator.index", lambda ip, v: v)})
        self.globals["sys"] = NS("sys", {"maxsize": MAXSIZE})
        self.globals["slice"] = Builtin("slice", lambda ip, *a: NS("slice", dict(zip(("start", "stop", "step"), (None, a[0], None) if len(a) == 1 else (tuple(a) + (None,))[:3]))))

    def make_args(self, ip):
        self.new_source(ip)
        self.gen_entry(ip)
        self.nargs = ip.ctx.decide(5, "number-of-slice-arguments")
        vals = []
        for k in range(self.nargs):
            if ip.ctx.decide(2, f"argument-{k}-is-None") == 1:
                vals.append(None)
            else:
                vals.append(Sym(z3.Int(f"slice_argument_{k}"), INT))
        self.vals = vals
        start, stop, step = (None, None, None)
        if self.nargs == 1:
            stop = vals[0]
        elif self.nargs in (2, 3):
            start, stop, step = (vals + [None])[:3]
        self.given = (start, stop, step)
        self.a = start.t if start is not None else z3.IntVal(0)
        self.b = stop.t if stop is not None else None
        self.c = step.t if step is not None else z3.IntVal(1)
        return [self.src] + vals, {}

    def selected(self, t):
        if self.given[2] is None:  # step 1: every index from start on (x % 1 == 0 is a tautology)
            return t >= self.a
        return z3.And(t >= self.a, PYMOD(t - self.a, self.c) == 0)

    def mod_term(self, a, b):
        # Python's `%` for a positive divisor, left uninterpreted: the specification is stated with the same operator
        return a % b if z3.is_int_value(b) else PYMOD(a, b)

    def loop_spec(self, qualname, ordinal):
        return LoopSpec(islice_inv, modifies=None, local_types={"index": INT, "element_yielded": BOOL, "element": OBJ})

    def on_exit(self, ip, pre, exc, ret):
        h = H(ip.st)
        nm = "islice"
        if self.exit_common(ip, exc, nm):
            return
        start, stop, step = self.given
        bad = lambda v: z3.Or(v.t < 0, v.t > MAXSIZE)
        invalid = z3.Or(*([bad(v) for v in (start, stop) if v is not None] + ([z3.Or(step.t < 1, step.t > MAXSIZE)] if step is not None else []) + [z3.BoolVal(False)]))
        if exc is not None:
            name = exc.pycls.__name__ if exc.pycls is not None else "sym"
            if name == "TypeError":
                ip.ctx.oblige(f"{nm}/post:TypeError_exactly_for_a_wrong_number_of_arguments", z3.BoolVal(self.nargs in (0, 4)), "post")
            else:
                ip.ctx.oblige(f"{nm}/post:ValueError_exactly_for_a_negative_index_or_a_step_below_one", z3.And(z3.BoolVal(name == "ValueError" and self.nargs in (1, 2, 3)), invalid), "post")
            return
        ip.ctx.oblige(f"{nm}/post:ends_normally_only_with_valid_arguments", z3.And(z3.BoolVal(self.nargs in (1, 2, 3)), z3.Not(invalid)), "post")
        n = self.n
        m = n if self.b is None else z3.If(self.b < n, self.b, n)
        ip.ctx.oblige(f"{nm}/post:yields_exactly_the_elements_at_start_start_plus_step_and_so_on_below_stop_in_order", selection(self, h, m), "post")
        ip.ctx.oblige(f"{nm}/post:consumes_no_element_beyond_stop", z3.And(self.consumed_of(h) <= m, src_unchanged(self, h)), "post")


def compress_inv(ip, env):
    u = ip.ctx.unit
    h = H(ip.st)
    i = u.consumed_of(h)
    si = h.dq(SRC.cls, u.sel.t).lo - u.slo0
    ey = _flag(ip, env, "element_yielded")
    sd = h.dq(SRC.cls, u.sel.t)
    return [("data_and_selectors_advance_together_and_exactly_the_selected_data_were_yielded", z3.And(i == si, i >= 0, i <= u.n, i <= u.shi0 - u.slo0, src_unchanged(u, h), sd.hi == u.shi0, sd.data == u.sdata0, _same(ey, out_n(h) > 0), selection(u, h, i))), ("c08.what_was_consumed_or_yielded_so_far_is_covered_by_requests_and_checkpoints", rq(h) >= i)]


class CompressUnit(SelectionUnit):
    funcname = "compress"

    def make_args(self, ip):
        self.new_source(ip, "selectors")
        self.sel, self.slo0, self.shi0, self.sdata0 = self.src, self.lo0, self.hi0, self.data0
        self.new_source(ip, "data")
        ip.st.assume(self.sel.t != self.src.t)
        self.gen_entry(ip)
        return [self.src, self.sel], {}

    def selected(self, t):
        return TRUTHY(z3.Select(self.sdata0, self.slo0 + t))

    def take(self, ip, it, stop):
        v = super().take(ip, it, stop)
        if it.t.eq(self.sel.t):
            return Sym(TRUTHY(v.t), BOOL)  # a selector is only ever tested for truth
        return v

    def loop_spec(self, qualname, ordinal):
        return LoopSpec(compress_inv, modifies=None, local_types={"element_yielded": BOOL, "datum": OBJ, "selector": BOOL})

    def on_exit(self, ip, pre, exc, ret):
        h = H(ip.st)
        nm = "compress"
        if self.exit_common(ip, exc, nm):
            return
        if exc is not None:
            ip.ctx.oblige(f"{nm}/post:never_raises_by_itself", z3.BoolVal(False), "post")
            return
        n, ns = self.n, self.shi0 - self.slo0
        m = z3.If(ns < n, ns, n)
        ip.ctx.oblige(f"{nm}/post:yields_exactly_the_data_whose_selector_is_true_up_to_the_shorter_input_in_order", selection(self, h, m), "post")


UNITS = [ReduceUnit, ReduceAsyncUnit, AccumulateUnit, AccumulateAsyncUnit, TakewhileUnit, DropwhileUnit, FilterfalseUnit, PairwiseUnit, RepeatUnit, CountUnit, IsliceUnit, CompressUnit]


# ---- tee: _TeeState.fill (the only place the shared source is consumed) ------------------------------------------------

from segvc.unit import ClassSpec, MethodUnit  # noqa: E402
from specs import c09_lock as L  # noqa: E402
from specs import c11_condition as E  # noqa: E402

register_class("LockFrontC19", {}, source=("anyio/_core/_synchronization.py", "Lock"))  # __aenter__ / __aexit__ of the Lock front-end
if "LockFrontC19" not in (getattr(CLASSES["Lock"], "bases", ()) or ()):
    CLASSES["Lock"].bases = tuple(getattr(CLASSES["Lock"], "bases", ()) or ()) + ("LockFrontC19",)
register_class("_TeeLink", {"value": OBJ, "next": RefT("_TeeLink"), "filled": BOOL, "$st": INT, "$idx": INT}, source=(IT, "_TeeLink"))
CLASSES["_TeeLink"].ghost_fields = {"$st", "$idx"}  # ghost: the state whose chain the link belongs to, its position in the chain
LINK = RefT("_TeeLink")
register_class("_TeeState", {"iterator": SRC, "lock": RefT("Lock"), "$pulls": INT, "$tail": RefT("_TeeLink"), "$lo0": INT}, source=(IT, "_TeeState"))
CLASSES["_TeeState"].ghost_fields = {"$pulls", "$tail", "$lo0"}  # ghost: last link of the chain; position of the source when tee() took it over
TEE_END = z3.Int("tee_end_marker")


def link_guarantee(a, b):
    """a filled link is immutable: its value and its successor never change again (every tee iterator standing on it
    reads the same element and moves to the same next link)"""
    x = z3.Int(a.st.uniq("x"))
    return forall([x], z3.Implies(z3.And(z3.Select(a.arr("$", "alloc"), x), a.f("_TeeLink", "filled", x)), z3.And(b.f("_TeeLink", "filled", x), b.f("_TeeLink", "value", x) == a.f("_TeeLink", "value", x), b.f("_TeeLink", "next", x) == a.f("_TeeLink", "next", x))), patterns=[b.f("_TeeLink", "filled", x)])


def links_wf(h):
    """every filled link that holds an element (not the end marker) has a successor link"""
    x = z3.Int(h.st.uniq("x"))
    nxt = h.f("_TeeLink", "next", x)
    return forall([x], z3.Implies(z3.And(z3.Select(h.arr("$", "alloc"), x), h.f("_TeeLink", "filled", x), h.f("_TeeLink", "value", x) != TEE_END), z3.And(nxt > 0, z3.Select(h.arr("$", "alloc"), nxt))), patterns=[h.f("_TeeLink", "next", x)])


def ST(h, x):
    return h.f("_TeeLink", "$st", x)


def IDX(h, x):
    return h.f("_TeeLink", "$idx", x)


def ghost_wf(h):
    """convention on the ghost field $st (written by ghost code only): non-zero only for allocated links of allocated states"""
    x = z3.Int(h.st.uniq("x"))
    al = h.arr("$", "alloc")
    return forall([x], z3.Implies(ST(h, x) != 0, z3.And(x > 0, z3.Select(al, x), ST(h, x) > 0, z3.Select(al, ST(h, x)))), patterns=[ST(h, x)])


def chain(h, s):
    """the chain of links of tee state `s`:  L_0 -> L_1 -> ... -> tail.
    Every link but the tail is filled; link number k holds source element number k (counted from where tee() took the
    source over) and points to link k+1; the tail's number is the number of elements pulled from the source so far; the
    end marker sits only in the tail and only when the source is exhausted."""
    it = h.f("_TeeState", "iterator", s)
    d = h.dq(SRC.cls, it)
    tail, lo0 = h.f("_TeeState", "$tail", s), h.f("_TeeState", "$lo0", s)
    F = lambda x: h.f("_TeeLink", "filled", x)
    V = lambda x: h.f("_TeeLink", "value", x)
    N = lambda x: h.f("_TeeLink", "next", x)
    x = z3.Int(h.st.uniq("x"))
    return [
        ("the_tail_belongs_to_the_chain_and_its_number_is_the_number_of_elements_pulled", z3.And(tail > 0, ST(h, tail) == s, lo0 <= d.lo, d.lo <= d.hi, IDX(h, tail) == d.lo - lo0, z3.Implies(F(tail), z3.And(V(tail) == TEE_END, d.lo == d.hi)))),
        ("every_link_but_the_tail_is_filled", forall([x], z3.Implies(ST(h, x) == s, z3.And(z3.Or(F(x), x == tail), 0 <= IDX(h, x), IDX(h, x) <= d.lo - lo0)), patterns=[ST(h, x)])),
        ("link_k_holds_source_element_k_and_points_to_link_k_plus_1", forall([x], z3.Implies(z3.And(ST(h, x) == s, F(x), V(x) != TEE_END), z3.And(N(x) > 0, ST(h, N(x)) == s, IDX(h, N(x)) == IDX(h, x) + 1, IDX(h, x) < d.lo - lo0, V(x) == z3.Select(d.data, lo0 + IDX(h, x)))), patterns=[ST(h, x)])),
        ("the_end_marker_sits_only_in_the_tail", forall([x], z3.Implies(z3.And(ST(h, x) == s, F(x), V(x) == TEE_END), x == tail), patterns=[ST(h, x)])),
    ]


def chain_frame(a, b, s):
    """two-state: what never changes -- a link's chain and number, the state's source and origin, the source's contents"""
    x = z3.Int(a.st.uniq("x"))
    it = a.f("_TeeState", "iterator", s)
    da, db = a.dq(SRC.cls, it), b.dq(SRC.cls, it)
    return z3.And(
        forall([x], z3.Implies(ST(a, x) != 0, z3.And(ST(b, x) == ST(a, x), IDX(b, x) == IDX(a, x))), patterns=[ST(b, x)]),
        b.f("_TeeState", "iterator", s) == it,
        b.f("_TeeState", "$lo0", s) == a.f("_TeeState", "$lo0", s),
        db.hi == da.hi,
        db.data == da.data,
        db.lo >= da.lo,
    )


def other_chains_untouched(a, b, s):
    x = z3.Int(a.st.uniq("x"))
    return forall([x], z3.Implies(z3.And(ST(a, x) != 0, ST(a, x) != s), z3.And(*[b.f("_TeeLink", f_, x) == a.f("_TeeLink", f_, x) for f_ in ("value", "next", "filled")])), patterns=[b.f("_TeeLink", "filled", x)])


def links_unchanged(a, b):
    return z3.And(*[b.arr("_TeeLink", f_) == a.arr("_TeeLink", f_) for f_ in ("value", "next", "filled")])


def _bind_fill(ip, args, kwargs):
    return types.SimpleNamespace(self=args[0].t, link=args[1].t, cur=ip.ctx.cur.t)


from segvc.unit import Case, Contract  # noqa: E402

# the contract of _TeeState.fill: checked against fill's own body by TeeFillUnit, assumed by _TeeAsyncIterator.__anext__
FILL = Contract(
    "_TeeState.fill",
    requires=lambda h, a: [("the_link_exists_and_belongs_to_this_state", z3.And(a.link > 0, z3.Select(h.arr("$", "alloc"), a.link), ST(h, a.link) == a.self))],
    cases=[
        Case("already_filled", when=lambda pre, a: pre.f("_TeeLink", "filled", a.link), ret_ty=BOOL, no_suspend=True, modifies=set(),
             ensures=lambda pre, post, a, ret: [("reports_no_yield_point_and_touches_nothing", z3.And(z3.Not(ret), links_unchanged(pre, post), post.f("_TeeState", "$pulls", a.self) == pre.f("_TeeState", "$pulls", a.self)))]),
        Case("filled_now", when=lambda pre, a: z3.Not(pre.f("_TeeLink", "filled", a.link)), ret_ty=BOOL,
             ensures=lambda pre, post, a, ret: [("reports_a_yield_point_and_the_link_is_filled", z3.And(ret, post.f("_TeeLink", "filled", a.link))), ("filled_links_are_untouched", link_guarantee(pre, post)), ("links_stay_well_formed", links_wf(post)), ("chain_membership_and_the_source_contents_never_change", chain_frame(pre, post, a.self)), ("ghost_convention", ghost_wf(post))] + [("chain." + n, t) for n, t in chain(post, a.self)]),
        Case("cancelled", when=lambda pre, a: z3.Not(pre.f("_TeeLink", "filled", a.link)), raises="CancelledError",
             ensures=lambda pre, post, a, ret: [("filled_links_are_untouched", link_guarantee(pre, post)), ("links_stay_well_formed", links_wf(post)), ("chain_membership_and_the_source_contents_never_change", chain_frame(pre, post, a.self)), ("ghost_convention", ghost_wf(post))] + [("chain." + n, t) for n, t in chain(post, a.self)]),
    ],
    bind=_bind_fill,
    suspends=True,
)


class TeeFillUnit(MethodUnit):
    """_TeeState.fill(link): on return the link is filled; the shared source is pulled at most once, only while the
    state's lock is held and only if the link is still unfilled then; the link receives exactly the next source element
    (or the end marker) and a fresh successor link; a link that is already filled is never written again."""

    props = ("C19",)
    spec = ClassSpec("_TeeState")
    method = "fill"
    contract = FILL
    trusted = ("E1", "E2", "A-private-iterator")
    contracts = {"Lock.acquire": E.LOCK_ACQUIRE_S, "Lock.release": L.RELEASE}

    def props_of(self, name):
        return {"C19"}

    def contract_for(self, qualname, ctx):
        c = self.contracts.get(qualname)
        if qualname == "Lock.release" and c is not None:
            unit = self

            class Wrap:
                suspends = False

                def apply(self_, ip, f, args, kwargs):
                    try:
                        return c.apply(ip, f, args, kwargs)
                    finally:
                        if ip.ctx.last_case.get(c.qualname) == "owner":
                            unit.holding = False

            return Wrap()
        return c

    def __init__(self):
        super().__init__()
        unit = self
        self.globals = {
            "_tee_end": Sym(TEE_END, OBJ),
            "anext": Builtin("anext", lambda ip, it, default=None: AwaitableVal("contract", lambda: unit.pull(ip, it, default))),
            "_TeeLink": ClassVal("_TeeLink", info=CLASSES["_TeeLink"]),
        }

    def dataclass_unset(self, ip, info, ref, name):
        raise Unsupported(f"dataclass field {info.name}.{name} without a default")

    def pull(self, ip, it, default):
        st, s = ip.st, self.self_val.t
        self.pulls.append((H(st, st.snapshot()), self.holding))
        st.put("_TeeState", "$pulls", s, st.get("_TeeState", "$pulls", s) + 1)
        lib.suspend(ip, "call:source.__anext__", None)
        cn = SRC.cls
        lo, hi = st.get(cn, "lo", it.t), st.get(cn, "hi", it.t)
        if ip.ctx.branch(lo < hi, "source-has-more"):
            v = z3.Select(st.get(cn, "data", it.t), lo)
            st.put(cn, "lo", it.t, lo + 1)
            self.pulled = v
            return Sym(v, OBJ)
        self.pulled = TEE_END
        return default

    def make_args(self, ip):
        self.link = Sym(z3.Int("link"), LINK)
        ip.st.assume(z3.And(self.link.t > 0, ip.st.allocated(self.link.t)))
        return [self.link], types.SimpleNamespace(link=self.link.t)

    def assume_state(self, ip):
        h = H(ip.st)
        s, cur = self.self_val.t, ip.ctx.cur.t
        lk, it = h.f("_TeeState", "lock", s), h.f("_TeeState", "iterator", s)
        d = h.dq(SRC.cls, it)
        ip.st.assume(z3.And(s > 0, lk > 0, it > 0, ip.st.allocated(lk), ip.st.allocated(it), d.lo <= d.hi, TEE_END != 0))
        x = z3.Int(ip.st.uniq("x"))
        ip.st.assume(forall([x], z3.Implies(z3.And(d.lo <= x, x < d.hi), z3.Select(d.data, x) != TEE_END), patterns=[z3.Select(d.data, x)]))
        for n, t in L.LOCK.assumed_terms(h, lk, cur) + L.LOCK.inv_terms(h, lk, cur):
            ip.st.assume(t)
        ip.st.assume(L.owner(h, lk) != cur)  # not re-entered by the task that is filling (one fill per task at a time)
        ip.st.assume(links_wf(h))
        ip.st.assume(ghost_wf(h))
        for n, t in chain(h, s):
            ip.st.assume(t)

    def on_entry(self, ip, pre, a):
        self.pulls = []
        self.extensions = []
        self.holding = False
        self.pulled = None
        self.pre = pre

    def after_suspending_call(self, ip, contract, a, case, exc, ret=None):
        if contract is E.LOCK_ACQUIRE_S:
            self.holding = case.name == "acquired"

    def resume_assumptions(self, ip, what, payload):
        h, b = H(ip.st), self.before
        s, cur = self.self_val.t, ip.ctx.cur.t
        for f_ in ("lock", "iterator"):
            ip.st.assume(h.f("_TeeState", f_, s) == b.f("_TeeState", f_, s))
        lk, it = h.f("_TeeState", "lock", s), h.f("_TeeState", "iterator", s)
        ip.st.assume(z3.And(ip.st.allocated(lk), ip.st.allocated(it), ip.st.allocated(self.link.t)))
        for n, t in L.LOCK.assumed_terms(h, lk, cur) + L.LOCK.inv_terms(h, lk, cur):
            ip.st.assume(t)
        ip.st.assume(link_guarantee(b, h))  # rely: everybody's guarantee
        ip.st.assume(links_wf(h))
        ip.st.assume(ghost_wf(h))
        ip.st.assume(chain_frame(b, h, s))
        for n, t in chain(h, s):
            ip.st.assume(t)
        d, db = h.dq(SRC.cls, it), b.dq(SRC.cls, it)
        ip.st.assume(z3.And(d.hi == db.hi, d.data == db.data, d.lo >= db.lo, d.lo <= d.hi))
        if self.holding:
            # the source is consumed, and links are filled, only under the lock -- which this call holds
            for n, t in L.lock_rely(b, h, lk, cur, None):
                ip.st.assume(t)
            ip.st.assume(d.lo == db.lo)
            ip.st.assume(h.f("_TeeLink", "filled", self.link.t) == b.f("_TeeLink", "filled", self.link.t))
            ip.st.assume(h.f("_TeeState", "$pulls", s) == b.f("_TeeState", "$pulls", s))
            ip.st.assume(h.f("_TeeState", "$tail", s) == b.f("_TeeState", "$tail", s))  # the chain is extended only under the lock (proved below)

    def guarantee(self, seg, now, s, cur):
        return [
            ("a_filled_link_is_never_written_again", link_guarantee(seg, now)),
            ("every_filled_link_with_an_element_has_a_successor", links_wf(now)),
            ("chain_membership_and_the_source_contents_never_change", chain_frame(seg, now, s)),
            ("links_of_other_chains_are_not_touched", other_chains_untouched(seg, now, s)),
            ("ghost_convention", ghost_wf(now)),
        ] + [("chain." + n, t) for n, t in chain(now, s)]

    def after_field_store(self, ip, cn, attr, obj):
        # ghost code at the linearisation point `link.filled = True`: a link that received an element extends the chain
        if cn != "_TeeLink" or attr != "filled":
            return
        st = ip.st
        if not z3.is_true(z3.simplify(st.get("_TeeLink", "filled", obj.t))):
            return
        s = self.self_val.t
        v, n = st.get("_TeeLink", "value", obj.t), st.get("_TeeLink", "next", obj.t)
        ext = v != TEE_END
        self.extensions.append(self.holding)
        st.put("_TeeLink", "$st", n, z3.If(ext, s, st.get("_TeeLink", "$st", n)))
        st.put("_TeeLink", "$idx", n, z3.If(ext, st.get("_TeeLink", "$idx", obj.t) + 1, st.get("_TeeLink", "$idx", n)))
        st.put("_TeeState", "$tail", s, z3.If(ext, n, st.get("_TeeState", "$tail", s)))

    def on_exit(self, ip, pre, a, exc, ret):
        s = a.self
        post = H(ip.st)
        nm = "_TeeState.fill"
        ln = self.link.t
        if exc is not None:
            ip.ctx.oblige(f"{nm}/post:only_a_cancellation_can_interrupt_a_fill", z3.BoolVal(exc.pycls is not None and exc.pycls.__name__ == "CancelledError"), "post")
            return
        ip.ctx.oblige(f"{nm}/post:the_link_is_filled_on_return", post.f("_TeeLink", "filled", ln), "post")
        ip.ctx.oblige(f"{nm}/post:the_source_is_pulled_at_most_once_and_only_under_the_lock_for_a_link_that_is_still_unfilled", z3.And(z3.BoolVal(len(self.pulls) <= 1 and all(hd for _, hd in self.pulls)), *[z3.Not(hp.f("_TeeLink", "filled", ln)) for hp, _ in self.pulls]), "post")
        if self.pulls:
            v = self.pulled
            nxt = post.f("_TeeLink", "next", ln)
            ip.ctx.oblige(f"{nm}/post:the_link_gets_exactly_the_pulled_element_and_a_fresh_successor_unless_the_source_ended", z3.And(post.f("_TeeLink", "value", ln) == v, z3.If(v == TEE_END, z3.BoolVal(True), z3.And(nxt > 0, z3.Not(z3.Select(self.pre.arr("$", "alloc"), nxt)), z3.Not(post.f("_TeeLink", "filled", nxt))))), "post")
            ip.ctx.oblige(f"{nm}/post:reports_a_yield_point_when_it_pulled", z3.BoolVal(ip.truth(ret) is True), "post")
        ip.ctx.oblige(f"{nm}/post:the_chain_is_extended_only_under_the_lock", z3.BoolVal(all(self.extensions)), "post")
        if self.holding:
            ip.ctx.oblige(f"{nm}/post:the_lock_is_released", z3.BoolVal(False), "post")


UNITS += [TeeFillUnit]


# ---- tee: _TeeAsyncIterator.__anext__ (modular: against the contract of fill) ------------------------------------------------------

register_class("_TeeAsyncIterator", {"_state": RefT("_TeeState"), "_link": LINK, "_element_yielded": BOOL}, source=(IT, "_TeeAsyncIterator"))


class TeeNextUnit(MethodUnit):
    """_TeeAsyncIterator.__anext__: returns exactly the element of the link the iterator stands on and moves to that
    link's successor; StopAsyncIteration exactly when the link holds the end marker (and the iterator stays there);
    a cancellation by a cancel scope does not move the iterator; no link is ever written here.  With fill's contract
    (a link is filled once, with the next source element, and never changes afterwards) every iterator that starts on
    the same link therefore reads the same sequence."""

    props = ("C19",)
    spec = ClassSpec("_TeeAsyncIterator")
    method = "__anext__"
    contract = None
    trusted = ("E1", "E2", "A-private-iterator")
    contracts = {"_TeeState.fill": FILL}

    def props_of(self, name):
        return {"C19"}

    def __init__(self):
        super().__init__()
        self.globals = {
            "_tee_end": Sym(TEE_END, OBJ),
            "checkpoint": Builtin("checkpoint", lambda ip: AwaitableVal("checkpoint")),
            "checkpoint_if_cancelled": Builtin("checkpoint_if_cancelled", lambda ip: AwaitableVal("checkpoint")),
            "cancel_shielded_checkpoint": Builtin("cancel_shielded_checkpoint", lambda ip: AwaitableVal("cancel_shielded_checkpoint")),
            "T": None,
            "cast": Builtin("cast", lambda ip, ty, v: v),
        }

    def assume_state(self, ip):
        h = H(ip.st)
        s = self.self_val.t
        stt, ln = h.f("_TeeAsyncIterator", "_state", s), h.f("_TeeAsyncIterator", "_link", s)
        ip.st.assume(z3.And(stt > 0, ip.st.allocated(stt), ln > 0, ip.st.allocated(ln), TEE_END != 0))
        ip.st.assume(links_wf(h))
        ip.st.assume(ghost_wf(h))
        ip.st.assume(ST(h, ln) == stt)  # the iterator stands on a link of its own state's chain (asserted again at every exit)
        it = h.f("_TeeState", "iterator", stt)
        ip.st.assume(z3.And(it > 0, ip.st.allocated(it)))
        for n, t in chain(h, stt):
            ip.st.assume(t)

    def on_entry(self, ip, pre, a):
        self.pre = pre

    def resume_assumptions(self, ip, what, payload):
        h, b = H(ip.st), self.before
        s = self.self_val.t
        # A-private-iterator: one consumer per tee iterator at a time -- its own three fields are its own
        for f_ in ("_state", "_link", "_element_yielded"):
            ip.st.assume(h.f("_TeeAsyncIterator", f_, s) == b.f("_TeeAsyncIterator", f_, s))
        ip.st.assume(z3.And(ip.st.allocated(h.f("_TeeAsyncIterator", "_state", s)), ip.st.allocated(h.f("_TeeAsyncIterator", "_link", s))))
        ip.st.assume(link_guarantee(b, h))  # rely: fill's guarantee (proved by TeeFillUnit)
        ip.st.assume(links_wf(h))
        ip.st.assume(ghost_wf(h))
        stt = h.f("_TeeAsyncIterator", "_state", s)
        ip.st.assume(chain_frame(b, h, stt))
        for n, t in chain(h, stt):
            ip.st.assume(t)

    def guarantee(self, seg, now, s, cur):
        stt = seg.f("_TeeAsyncIterator", "_state", s)
        it = seg.f("_TeeState", "iterator", stt)
        return [
            ("no_link_is_written_by_an_iterator", z3.And(links_unchanged(seg, now), now.arr("_TeeLink", "$st") == seg.arr("_TeeLink", "$st"), now.arr("_TeeLink", "$idx") == seg.arr("_TeeLink", "$idx"))),
            ("the_source_is_not_consumed_by_an_iterator", z3.And(now.dq(SRC.cls, it).lo == seg.dq(SRC.cls, it).lo, now.f("_TeeState", "$tail", stt) == seg.f("_TeeState", "$tail", stt))),
        ]

    def on_exit(self, ip, pre, a, exc, ret):
        post = H(ip.st)
        nm = "_TeeAsyncIterator.__anext__"
        s = a.self
        l0 = pre.f("_TeeAsyncIterator", "_link", s)
        l1 = post.f("_TeeAsyncIterator", "_link", s)
        same_state = post.f("_TeeAsyncIterator", "_state", s) == pre.f("_TeeAsyncIterator", "_state", s)
        val = post.f("_TeeLink", "value", l0)
        stt = pre.f("_TeeAsyncIterator", "_state", s)
        it = pre.f("_TeeState", "iterator", stt)
        d0, d1 = pre.dq(SRC.cls, it), post.dq(SRC.cls, it)
        lo0 = pre.f("_TeeState", "$lo0", stt)
        k = IDX(pre, l0)  # the iterator's position: how many elements it has returned since the chain's start
        ip.ctx.oblige(f"{nm}/inv:the_iterator_stands_on_a_link_of_its_own_chain", z3.And(same_state, ST(post, l1) == stt), "inv")
        if exc is not None:
            name = exc.pycls.__name__ if exc.pycls is not None else "sym"
            if name == "CancelledError":
                by_scope = exc.tag if getattr(exc, "tag", None) is not None else z3.BoolVal(True)
                ip.ctx.oblige(f"{nm}/post:a_cancellation_by_a_cancel_scope_does_not_move_the_iterator", z3.Implies(by_scope, z3.And(l1 == l0, same_state)), "post")
                return
            ip.ctx.oblige(f"{nm}/post:StopAsyncIteration_exactly_at_the_end_marker_and_the_iterator_stays_there", z3.And(z3.BoolVal(name == "StopAsyncIteration"), post.f("_TeeLink", "filled", l0), val == TEE_END, l1 == l0, same_state), "post")
            ip.ctx.oblige(f"{nm}/post:stops_only_after_the_whole_source_sequence_and_only_when_the_source_is_exhausted", z3.And(k == d0.hi - lo0, d1.lo == d1.hi), "post")
            return
        ip.ctx.oblige(f"{nm}/post:returns_the_element_of_its_link_and_moves_to_the_successor", z3.And(post.f("_TeeLink", "filled", l0), val != TEE_END, ip.term(ret, OBJ) == val, l1 == post.f("_TeeLink", "next", l0), l1 > 0, z3.Select(post.arr("$", "alloc"), l1), same_state), "post")
        ip.ctx.oblige(f"{nm}/post:the_kth_call_returns_source_element_k_and_advances_the_position_by_one", z3.And(0 <= k, k < d0.hi - lo0, ip.term(ret, OBJ) == z3.Select(d0.data, lo0 + k), IDX(post, l1) == k + 1), "post")


UNITS += [TeeNextUnit]



class TeeInitUnit(MethodUnit):
    """_TeeAsyncIterator.__init__: built from another tee iterator it shares that iterator's state and stands on the same
    link (same position in the same chain, nothing else touched); built from an iterable it owns a fresh state whose chain
    is one fresh unfilled link at position 0 and whose source is the iterable, taken over where it stands."""

    props = ("C19",)
    spec = ClassSpec("_TeeAsyncIterator")
    method = "__init__"
    is_init = True
    contract = None
    trusted = ("E1", "A-dataclass")

    def props_of(self, name):
        return {"C19"}

    def __init__(self):
        super().__init__()
        self.globals = {
            "_iterate": Builtin("_iterate", lambda ip, it: it),
            "_TeeLink": ClassVal("_TeeLink", info=CLASSES["_TeeLink"]),
            "_TeeState": ClassVal("_TeeState", info=CLASSES["_TeeState"]),
            "_TeeAsyncIterator": ClassVal("_TeeAsyncIterator", info=CLASSES["_TeeAsyncIterator"]),
            "Lock": Builtin("Lock", E._new_lock),
            "field": Builtin("field", lambda ip, **kw: None),
        }

    def isinstance(self, ip, x, cls):
        if isinstance(cls, ClassVal) and cls.name == "_TeeAsyncIterator" and isinstance(x, Sym):
            return isinstance(x.ty, RefT) and x.ty.cls == "_TeeAsyncIterator"
        return NotImplemented

    def make_args(self, ip):
        st = ip.st
        h = H(st)
        self.from_iterator = ip.ctx.decide(2, "built-from-a-tee-iterator") == 1
        st.assume(ghost_wf(h))
        st.assume(TEE_END != 0)
        if self.from_iterator:
            o = Sym(z3.Int("other"), RefT("_TeeAsyncIterator"))
            ostt, oln = h.f("_TeeAsyncIterator", "_state", o.t), h.f("_TeeAsyncIterator", "_link", o.t)
            st.assume(z3.And(o.t > 0, st.allocated(o.t), ostt > 0, st.allocated(ostt), oln > 0, st.allocated(oln), ST(h, oln) == ostt))
            self.arg = o
        else:
            r = Sym(z3.Int("iterable"), SRC)
            d = h.dq(SRC.cls, r.t)
            st.assume(z3.And(r.t > 0, st.allocated(r.t), 0 <= d.lo, d.lo <= d.hi))
            self.arg = r
        return [self.arg], types.SimpleNamespace()

    def on_entry(self, ip, pre, a):
        self.pre = pre

    def ghost_exit(self, ip, pre, a, exc, ret):
        if exc is not None or self.from_iterator:
            return
        # ghost initialisation of a fresh chain: the new link is link number 0 and the tail; the source's position is the origin
        st, s = ip.st, a.self
        h = H(st)
        stt, ln = h.f("_TeeAsyncIterator", "_state", s), h.f("_TeeAsyncIterator", "_link", s)
        st.put("_TeeLink", "$st", ln, stt)
        st.put("_TeeLink", "$idx", ln, z3.IntVal(0))
        st.put("_TeeState", "$tail", stt, ln)
        st.put("_TeeState", "$lo0", stt, h.dq(SRC.cls, h.f("_TeeState", "iterator", stt)).lo)
        st.put("_TeeState", "$pulls", stt, z3.IntVal(0))

    def on_exit(self, ip, pre, a, exc, ret):
        post = H(ip.st)
        nm = "_TeeAsyncIterator.__init__"
        s = a.self
        if exc is not None:
            ip.ctx.oblige(f"{nm}/post:never_raises", z3.BoolVal(False), "post")
            return
        stt, ln = post.f("_TeeAsyncIterator", "_state", s), post.f("_TeeAsyncIterator", "_link", s)
        ip.ctx.oblige(f"{nm}/inv:the_iterator_stands_on_a_link_of_its_own_chain", z3.And(stt > 0, ln > 0, ST(post, ln) == stt, z3.Not(post.f("_TeeAsyncIterator", "_element_yielded", s))), "inv")
        ip.ctx.oblige(f"{nm}/post:ghost_convention", ghost_wf(post), "post")
        if self.from_iterator:
            o = self.arg.t
            ip.ctx.oblige(f"{nm}/post:a_copy_shares_the_state_and_stands_on_the_same_link", z3.And(stt == pre.f("_TeeAsyncIterator", "_state", o), ln == pre.f("_TeeAsyncIterator", "_link", o), links_unchanged(pre, post), post.arr("_TeeLink", "$st") == pre.arr("_TeeLink", "$st"), post.arr("_TeeLink", "$idx") == pre.arr("_TeeLink", "$idx"), post.arr("_TeeState", "$tail") == pre.arr("_TeeState", "$tail"), post.arr(SRC.cls, "lo") == pre.arr(SRC.cls, "lo")), "post")
            return
        al0 = pre.arr("$", "alloc")
        it = post.f("_TeeState", "iterator", stt)
        ip.ctx.oblige(f"{nm}/post:a_fresh_state_over_the_iterable_with_one_fresh_unfilled_link", z3.And(z3.Not(z3.Select(al0, stt)), z3.Not(z3.Select(al0, ln)), it == self.arg.t, z3.Not(post.f("_TeeLink", "filled", ln)), post.dq(SRC.cls, it).lo == pre.dq(SRC.cls, it).lo, post.f("_TeeState", "lock", stt) > 0, z3.Not(z3.Select(al0, post.f("_TeeState", "lock", stt)))), "post")
        for n, t in chain(post, stt):
            ip.ctx.oblige(f"{nm}/post:chain.{n}", t, "post")
        ip.ctx.oblige(f"{nm}/post:links_of_other_chains_are_not_touched", other_chains_untouched(pre, post, stt), "post")


UNITS += [TeeInitUnit]


# ---- the sync -> async adaptor: every generator above consumes its input through it -------------------------------------------

register_class("_IterableAsyncIterator", {"iterator": SRC}, source=(IT, "_IterableAsyncIterator"))


class AdaptorNextUnit(MethodUnit):
    """_IterableAsyncIterator.__anext__: hands out the wrapped iterator's next element (exactly one `next` per call),
    StopAsyncIteration exactly when it is exhausted, and a cancellation (possible only at the first checkpoint) does
    not consume an element."""

    props = ("C19", "C08")
    spec = ClassSpec("_IterableAsyncIterator")
    method = "__anext__"
    contract = None
    trusted = ("E1", "A-private-iterator")

    def props_of(self, name):
        return {"C08"} if "/c08:" in name else {"C19"}

    def __init__(self):
        super().__init__()
        unit = self
        self.globals = {
            "next": Builtin("next", lambda ip, it: unit.take(ip, it)),
            # precise: suspends (and raises) only when the caller's scope is effectively cancelled
            "checkpoint_if_cancelled": Builtin("checkpoint_if_cancelled", lambda ip: AwaitableVal("checkpoint_if_cancelled")),
            "cancel_shielded_checkpoint": Builtin("cancel_shielded_checkpoint", lambda ip: AwaitableVal("cancel_shielded_checkpoint")),
        }

    def eff_cancelled(self, ip):
        return z3.Bool("eff_cancelled_at_entry")

    def take(self, ip, it):
        st, cn = ip.st, SRC.cls
        self.takes += 1
        lo, hi = st.get(cn, "lo", it.t), st.get(cn, "hi", it.t)
        if ip.ctx.branch(lo < hi, "source-has-more"):
            v = z3.Select(st.get(cn, "data", it.t), lo)
            st.put(cn, "lo", it.t, lo + 1)
            return Sym(v, OBJ)
        raise PyExc(ExcVal(StopIteration, ()))

    def assume_state(self, ip):
        h = H(ip.st)
        it = h.f("_IterableAsyncIterator", "iterator", self.self_val.t)
        d = h.dq(SRC.cls, it)
        ip.st.assume(z3.And(it > 0, ip.st.allocated(it), 0 <= d.lo, d.lo <= d.hi))

    def on_entry(self, ip, pre, a):
        self.takes = 0
        self.pre = pre

    def resume_assumptions(self, ip, what, payload):
        h, b = H(ip.st), self.before
        s = self.self_val.t
        ip.st.assume(h.f("_IterableAsyncIterator", "iterator", s) == b.f("_IterableAsyncIterator", "iterator", s))
        it = h.f("_IterableAsyncIterator", "iterator", s)
        d, db = h.dq(SRC.cls, it), b.dq(SRC.cls, it)
        ip.st.assume(z3.And(ip.st.allocated(it), d.lo == db.lo, d.hi == db.hi, d.data == db.data))

    def on_exit(self, ip, pre, a, exc, ret):
        post = H(ip.st)
        nm = "_IterableAsyncIterator.__anext__"
        s = a.self
        # C08: every request for an element of a synchronous iterable passes a suspension point - on every exit
        ip.ctx.oblige(f"{nm}/c08:every_call_passes_a_suspension_point_whether_it_returns_ends_or_is_cancelled", z3.BoolVal(ip.ctx.flags["suspended"] >= 1), "post")
        it = pre.f("_IterableAsyncIterator", "iterator", s)
        d0, d1 = pre.dq(SRC.cls, it), post.dq(SRC.cls, it)
        same = z3.And(post.f("_IterableAsyncIterator", "iterator", s) == it, d1.hi == d0.hi, d1.data == d0.data)
        if exc is not None:
            name = exc.pycls.__name__ if exc.pycls is not None else "sym"
            if name == "CancelledError":
                # exc.tag: the cancellation comes from a cancel scope (anyio's); a foreign Task.cancel() that lands on the
                # shielded checkpoint after the element was taken (E8) is outside anyio's control
                by_scope = exc.tag if getattr(exc, "tag", None) is not None else z3.BoolVal(True)
                ip.ctx.oblige(f"{nm}/post:a_cancellation_by_a_cancel_scope_consumes_no_element", z3.Implies(by_scope, z3.And(same, d1.lo == d0.lo, z3.BoolVal(self.takes == 0))), "post")
                ip.ctx.oblige(f"{nm}/post:a_cancellation_leaves_the_iterator_otherwise_intact", z3.And(same, d1.lo >= d0.lo, d1.lo <= d0.lo + 1), "post")
            else:
                ip.ctx.oblige(f"{nm}/post:StopAsyncIteration_exactly_when_the_iterator_is_exhausted", z3.And(z3.BoolVal(name == "StopAsyncIteration"), same, d0.lo == d0.hi, d1.lo == d0.lo), "post")
            return
        ip.ctx.oblige(f"{nm}/post:returns_the_next_element_and_consumes_exactly_it", z3.And(same, d0.lo < d0.hi, ip.term(ret, OBJ) == z3.Select(d0.data, d0.lo), d1.lo == d0.lo + 1, z3.BoolVal(self.takes == 1)), "post")


UNITS += [AdaptorNextUnit]


class IterateUnit(IterUnit):
    c08_clauses = False  # not a traversal
    """_iterate: an async iterator is handed through unchanged, an async iterable is asked for its iterator, anything else
    is wrapped into a fresh adaptor over iter(iterable) -- nothing is consumed."""

    modpath = IT
    funcname = "_iterate"
    trusted = ("E1", "A-dataclass")

    def __init__(self):
        super().__init__()
        self.globals = dict(self.globals)
        del self.globals["_iterate"]
        self.globals["_IterableAsyncIterator"] = ClassVal("_IterableAsyncIterator", info=CLASSES["_IterableAsyncIterator"])

    def make_args(self, ip):
        self.new_source(ip, "iterable")
        self.kind = ip.ctx.decide(3, "kind-of-iterable")  # 0: sync iterable, 1: async iterator, 2: async iterable that is not an iterator
        return [self.src], {}

    def isinstance(self, ip, x, cls):
        if isinstance(x, Sym) and x.ty is SRC and isinstance(cls, ClassVal):
            if cls.name == "AsyncIterator":
                return self.kind == 1
            if cls.name == "AsyncIterable":
                return self.kind in (1, 2)
        return NotImplemented

    def on_exit(self, ip, pre, exc, ret):
        h = H(ip.st)
        nm = "_iterate"
        if exc is not None:
            ip.ctx.oblige(f"{nm}/post:never_raises", z3.BoolVal(False), "post")
            return
        d0, d1 = pre.dq(SRC.cls, self.src.t), h.dq(SRC.cls, self.src.t)
        untouched = z3.And(d1.lo == d0.lo, d1.hi == d0.hi, d1.data == d0.data)
        if self.kind in (1, 2):
            ip.ctx.oblige(f"{nm}/post:an_async_source_is_handed_through_as_its_own_iterator", z3.And(z3.BoolVal(isinstance(ret, Sym) and ret.ty is SRC), ip.term(ret, SRC) == self.src.t if isinstance(ret, Sym) and ret.ty is SRC else z3.BoolVal(False), untouched), "post")
        else:
            ok = isinstance(ret, Sym) and isinstance(ret.ty, RefT) and ret.ty.cls == "_IterableAsyncIterator"
            ip.ctx.oblige(f"{nm}/post:a_sync_iterable_is_wrapped_into_a_fresh_adaptor_over_its_iterator", z3.And(z3.BoolVal(ok), z3.Not(z3.Select(pre.arr("$", "alloc"), ret.t)), h.f("_IterableAsyncIterator", "iterator", ret.t) == self.src.t, untouched) if ok else z3.BoolVal(False), "post")


UNITS += [IterateUnit]


# ---- cycle --------------------------------------------------------------------------------------------------------------------
# The specification is the recursion  p_0 = 0,  p_{t+1} = p_t + 1 (or 0 after the last element),  out_t = x(p_t),  and "ends only
# for an empty input".  It is checked as a *step obligation at every yield* (the value yielded now is the input element that
# follows the one yielded before, cyclically); the loop invariants only carry the position of the last yield (ghost scalar).

from segvc.core import ListT  # noqa: E402

SAVED = ListT(OBJ)


def saved_is_input(u, h, ref, n):
    d = h.dq(SAVED.cls, ref)
    q = z3.Int(h.st.uniq("q"))
    return z3.And(ref > 0, ref != u.src.t, d.hi - d.lo == n, forall([q], z3.Implies(z3.And(d.lo <= q, q < d.hi), z3.Select(d.data, q) == u.x(q - d.lo)), patterns=[z3.Select(d.data, q)]))


def last_pos(h):
    return h.f("GenOut", "last", OUT)


def cycle_phase1_inv(ip, env):
    u = ip.ctx.unit
    h = H(ip.st)
    i = u.consumed(ip)
    saved = ip.term(_loc(env, "saved"), SAVED)
    return [("every_element_so_far_was_saved_and_yielded", z3.And(i >= 0, ip.ctx.loop_k <= u.hi0, out_n(h) == i, z3.Implies(i > 0, last_pos(h) == i - 1), saved_is_input(u, h, saved, i), u.out_inv_common(h)))]


def cycle_outer_inv(ip, env):
    u = ip.ctx.unit
    h = H(ip.st)
    saved = ip.term(_loc(env, "saved"), SAVED)
    return [("whole_rounds_have_been_yielded", z3.And(u.n >= 1, out_n(h) > 0, last_pos(h) == u.n - 1, saved_is_input(u, h, saved, u.n), src_unchanged(u, h)))]


def cycle_inner_inv(ip, env):
    u = ip.ctx.unit
    h = H(ip.st)
    saved = ip.term(_loc(env, "saved"), SAVED)
    j = ip.ctx.loop_k - h.dq(SAVED.cls, saved).lo
    return [("a_round_has_been_yielded_up_to_the_current_element", z3.And(u.n >= 1, 0 <= j, j <= u.n, out_n(h) > 0, last_pos(h) == z3.If(j == 0, u.n - 1, j - 1), saved_is_input(u, h, saved, u.n), src_unchanged(u, h)))]


class CycleUnit(GenUnit):
    funcname = "cycle"

    def make_args(self, ip):
        self.new_source(ip)
        self.gen_entry(ip)
        self.phase2 = False
        self.saved = None
        return [self.src], {}

    def make_list(self, ip, elems):
        if elems:
            raise Unsupported("non-empty list literal")
        self.saved = lib.new_empty(ip, SAVED)
        return self.saved

    def do_yield(self, ip, v):
        st = ip.st
        n_out = st.get("GenOut", "n", OUT)
        base = st.get(SAVED.cls, "lo", self.saved.t) if self.phase2 else self.lo0
        p = ip.ctx.loop_k - base  # the input position the running loop stands on
        last = st.get("GenOut", "last", OUT)
        want = z3.If(n_out == 0, 0, z3.If(last + 1 < self.n, last + 1, 0))
        ip.ctx.oblige("cycle/yield:every_yielded_value_is_the_input_element_following_the_previous_one_cyclically", z3.And(0 <= p, p < self.n, p == want, ip.term(v, OBJ) == self.x(p)), "post")
        st.put("GenOut", "last", OUT, p)
        return super().do_yield(ip, v)

    def after_resume(self, ip, what, payload):
        super().after_resume(ip, what, payload)
        h, b = H(ip.st), self.before
        for f_ in ("lo", "hi", "data"):  # the local list is the generator's own
            ip.st.assume(h.arr(SAVED.cls, f_) == b.arr(SAVED.cls, f_))

    def loop_spec(self, qualname, ordinal):
        frame = {("GenOut", "out"), ("GenOut", "n"), ("GenOut", "pos"), ("GenOut", "last"), (SAVED.cls, "data"), (SAVED.cls, "hi"), (SAVED.cls, "cnt")}
        if ordinal == 0:
            return LoopSpec(cycle_phase1_inv, modifies=frame, local_types={"element": OBJ})
        self.phase2 = True
        if ordinal == 1:
            return LoopSpec(cycle_outer_inv, modifies=None, local_types={"element": OBJ})
        sp = LoopSpec(cycle_inner_inv, modifies=None, local_types={"element": OBJ})
        sp.pins_container = True
        return sp

    def on_exit(self, ip, pre, exc, ret):
        h = H(ip.st)
        if exc is not None:
            ip.ctx.oblige("cycle/post:never_raises_by_itself", z3.BoolVal(exc.pycls is not None and exc.pycls.__name__ == "CancelledError"), "post")
            return
        ip.ctx.oblige("cycle/post:ends_only_for_an_empty_input_and_yields_nothing_then", z3.And(self.n == 0, out_n(h) == 0), "post")


UNITS += [CycleUnit]


# ---- batched ----------------------------------------------------------------------------------------------------------------------
# specification: the batches are consecutive slices of the input: batch 0 starts at input 0, every batch starts where the previous
# one ended, has exactly n elements, except that the last one may be shorter (1 .. n-1 elements) when the input ends - then nothing
# follows; strict=True turns a short last batch into ValueError; n < 1 is ValueError.  Checked as a step obligation at every yield.


class BatchTuple:
    """tuple(batch): the contents of the list at that moment (object, bounds, data snapshot)"""

    def __init__(self, ref, lo, hi, data):
        self.ref, self.lo, self.hi, self.data = ref, lo, hi, data


def batch_is_slice(u, h, ref, start, k):
    d = h.dq(SAVED.cls, ref)
    q = z3.Int(h.st.uniq("q"))
    return z3.And(ref > 0, ref != u.src.t, z3.Select(h.arr("$", "alloc"), ref), d.hi - d.lo == k, forall([q], z3.Implies(z3.And(d.lo <= q, q < d.hi), z3.Select(d.data, q) == u.x(start + q - d.lo)), patterns=[z3.Select(d.data, q)]))


def batched_outer_inv(ip, env):
    u = ip.ctx.unit
    h = H(ip.st)
    c = h.dq(SRC.cls, u.src.t).lo - u.lo0
    return [("everything_consumed_so_far_has_been_yielded_in_full_batches", z3.And(u.nb.t >= 1, c >= 0, c <= u.n, last_pos(h) == c, z3.Not(h.f("GenOut", "short", OUT)), out_n(h) >= 0, src_unchanged(u, h))), ("c08.what_was_consumed_or_yielded_so_far_is_covered_by_requests_and_checkpoints", rq(h) >= c)]


def batched_inner_inv(ip, env):
    u = ip.ctx.unit
    h = H(ip.st)
    c = h.dq(SRC.cls, u.src.t).lo - u.lo0
    k = ip.ctx.loop_k
    batch = ip.term(_loc(env, "batch"), SAVED)
    return [("the_batch_holds_the_inputs_consumed_since_the_previous_batch_ended", z3.And(u.nb.t >= 1, 0 <= k, k <= u.nb.t, c == last_pos(h) + k, c <= u.n, last_pos(h) >= 0, z3.Not(h.f("GenOut", "short", OUT)), out_n(h) >= 0, batch_is_slice(u, h, batch, last_pos(h), k), src_unchanged(u, h))), ("c08.what_was_consumed_or_yielded_so_far_is_covered_by_requests_and_checkpoints", rq(h) >= c)]


class BatchedUnit(GenUnit):
    funcname = "batched"

    def __init__(self):
        super().__init__()
        self.globals = dict(self.globals)
        self.globals["tuple"] = Builtin("tuple", lambda ip, x: self.snapshot_tuple(ip, x))

    def snapshot_tuple(self, ip, x):
        st = ip.st
        if not (isinstance(x, Sym) and x.ty is SAVED):
            raise Unsupported("tuple() of something that is not the batch list")
        cn = SAVED.cls
        return BatchTuple(x.t, st.get(cn, "lo", x.t), st.get(cn, "hi", x.t), st.get(cn, "data", x.t))

    def make_args(self, ip):
        self.new_source(ip)
        self.gen_entry(ip)
        ip.st.put("GenOut", "last", OUT, z3.IntVal(0))
        ip.st.put("GenOut", "short", OUT, z3.BoolVal(False))
        self.nb = Sym(z3.Int("n"), INT)
        self.strict = ip.ctx.decide(2, "strict") == 1
        return [self.src, self.nb], {"strict": self.strict}

    def make_list(self, ip, elems):
        if elems:
            raise Unsupported("non-empty list literal")
        return lib.new_empty(ip, SAVED)

    def do_yield(self, ip, v):
        st = ip.st
        h = H(st)
        if not isinstance(v, BatchTuple):
            ip.ctx.fail("batched/yield:every_yielded_value_is_a_tuple_of_the_current_batch", "post", "a value that is not tuple(batch) was yielded")
            return None
        last = st.get("GenOut", "last", OUT)
        ln = v.hi - v.lo
        c = h.dq(SRC.cls, self.src.t).lo - self.lo0
        q = z3.Int(st.uniq("q"))
        contents = forall([q], z3.Implies(z3.And(v.lo <= q, q < v.hi), z3.Select(v.data, q) == self.x(last + q - v.lo)), patterns=[z3.Select(v.data, q)])
        exhausted = h.dq(SRC.cls, self.src.t).lo == self.hi0
        ip.ctx.oblige(
            "batched/yield:every_batch_is_the_next_n_inputs_in_order_only_the_last_one_may_be_shorter_and_nothing_follows_it",
            z3.And(z3.Not(st.get("GenOut", "short", OUT)), contents, last + ln == c, z3.Or(ln == self.nb.t, z3.And(1 <= ln, ln < self.nb.t, exhausted, z3.BoolVal(not self.strict)))),
            "post",
        )
        st.put("GenOut", "short", OUT, ln != self.nb.t)
        st.put("GenOut", "last", OUT, last + ln)
        n_out = st.get("GenOut", "n", OUT)
        st.put("GenOut", "n", OUT, n_out + 1)
        return None

    def after_resume(self, ip, what, payload):
        super().after_resume(ip, what, payload)
        h, b = H(ip.st), self.before
        for key in [(SAVED.cls, "lo"), (SAVED.cls, "hi"), (SAVED.cls, "data"), ("GenOut", "short")]:
            ip.st.assume(h.arr(*key) == b.arr(*key))

    def loop_spec(self, qualname, ordinal):
        if ordinal == 0:
            return LoopSpec(batched_outer_inv, modifies=None, local_types={"batch": SAVED})
        return LoopSpec(batched_inner_inv, modifies=None, local_types={"batch": SAVED})

    def on_exit(self, ip, pre, exc, ret):
        h = H(ip.st)
        nm = "batched"
        c = h.dq(SRC.cls, self.src.t).lo - self.lo0
        if exc is not None:
            name = exc.pycls.__name__ if exc.pycls is not None else "sym"
            if name == "CancelledError":
                return
            short_tail = z3.And(self.nb.t >= 1, c == self.n, last_pos(h) < c, z3.BoolVal(self.strict))
            ip.ctx.oblige(f"{nm}/post:ValueError_exactly_for_n_below_one_or_a_short_last_batch_in_strict_mode", z3.And(z3.BoolVal(name == "ValueError"), z3.Or(self.nb.t < 1, short_tail)), "post")
            return
        ip.ctx.oblige(f"{nm}/post:ends_when_the_whole_input_has_been_batched", z3.And(self.nb.t >= 1, c == self.n, last_pos(h) == self.n), "post")


UNITS += [BatchedUnit]


# ---- starmap ------------------------------------------------------------------------------------------------------------------
# out[j] = function(*x(j)): the j-th result is the callback applied to the unpacked j-th input element.  The inner async
# comprehension `[e async for e in _iterate(args_iterable)]` is abstracted to "the elements of args_iterable, in order" (the meaning
# of a comprehension, A-comprehension): an opaque argument pack PACK(x(j)); the callback is an uninterpreted function of the pack.

import ast as _ast  # noqa: E402


class ArgPack:
    def __init__(self, t):
        self.t = t


class Unpacked(ArgPack):
    """*args of an argument pack at a call site"""


def starmap_inv(ip, env):
    u = ip.ctx.unit
    h = H(ip.st)
    i = u.consumed(ip)
    j = z3.Int(ip.st.uniq("j"))
    ry = _flag(ip, env, "result_yielded")
    return [("one_result_per_input_element_so_far_in_order", z3.And(i >= 0, ip.ctx.loop_k <= u.hi0, out_n(h) == i, _same(ry, i > 0), forall([j], z3.Implies(z3.And(0 <= j, j < i), out_at(h, j) == APP1(u.x(j))), patterns=[out_at(h, j)]), u.out_inv_common(h)))]


class StarmapUnit(GenUnit):
    funcname = "starmap"
    trusted = ("E1", "A-pure", "A-private-iterator", "A-comprehension")

    def make_args(self, ip):
        self.new_source(ip)
        self.gen_entry(ip)
        fn = Builtin("function", lambda ip, *a: AwaitableVal("contract", lambda: self.apply(ip, a)))
        return [fn, self.src], {}

    def apply(self, ip, a):
        if len(a) != 1 or not isinstance(a[0], Unpacked):
            ip.ctx.fail("starmap/call:the_callback_receives_exactly_the_unpacked_element", "post", "the callback was not called with *args of the current element")
            return Sym(ip.st.fresh("res", z3.IntSort()), OBJ)
        return Sym(APP1(a[0].t), OBJ)

    def list_comp(self, ip, e, env, mp):
        ok = isinstance(e, _ast.ListComp) and len(e.generators) == 1 and e.generators[0].is_async and not e.generators[0].ifs and isinstance(e.elt, _ast.Name) and isinstance(e.generators[0].target, _ast.Name) and e.elt.id == e.generators[0].target.id
        if not ok:
            raise Unsupported("a comprehension other than [e async for e in <iterable>]")
        it = ip.eval(e.generators[0].iter, env, mp)  # _iterate(args_iterable) -> the element itself
        return ArgPack(ip.term(it, OBJ))

    def unpack_star(self, ip, v):
        if isinstance(v, ArgPack):
            return [Unpacked(v.t)]
        return NotImplemented

    def loop_spec(self, qualname, ordinal):
        return LoopSpec(starmap_inv, modifies={("GenOut", "out"), ("GenOut", "n"), ("GenOut", "pos")}, local_types={"result_yielded": BOOL, "args_iterable": OBJ})

    def on_exit(self, ip, pre, exc, ret):
        h = H(ip.st)
        j = z3.Int(ip.st.uniq("j"))
        if exc is not None:
            ip.ctx.oblige("starmap/post:never_raises_by_itself", z3.BoolVal(exc.pycls is not None and exc.pycls.__name__ == "CancelledError"), "post")
            return
        ip.ctx.oblige("starmap/post:yields_the_callback_applied_to_every_unpacked_element_in_order", z3.And(out_n(h) == self.n, forall([j], z3.Implies(z3.And(0 <= j, j < out_n(h)), out_at(h, j) == APP1(self.x(j))), patterns=[out_at(h, j)])), "post")


UNITS += [StarmapUnit]


# ---- pure delegations: combinations, combinations_with_replacement, permutations ----------------------------------------------------
# The function must (1) materialise the WHOLE input, in order, into the pool (the comprehension over _iterate(iterable), abstracted
# as in starmap: A-comprehension), (2) call the standard library's function of the same name with that pool and the caller's r
# (permutations: r = None means len(pool); TypeError / ValueError for a non-int / negative r as in the stdlib), (3) relay every
# element of the stdlib iterator, once, in order, unchanged - and an exception of the stdlib call as it is.  Equality with the
# stdlib then holds by construction.


class PoolVal:
    """the list of all elements the source still had, in order"""

    def __init__(self, complete):
        self.complete = complete


def relay_inv(ip, env):
    u = ip.ctx.unit
    h = H(ip.st)
    d = h.dq(SRC.cls, u.std.t)
    i = ip.ctx.loop_k - u.std_lo0
    j = z3.Int(ip.st.uniq("j"))
    return [("every_element_of_the_stdlib_iterator_so_far_was_relayed_in_order", z3.And(i >= 0, ip.ctx.loop_k <= u.std_hi0, out_n(h) == i, d.hi == u.std_hi0, d.data == u.std_data0, forall([j], z3.Implies(z3.And(0 <= j, j < i), out_at(h, j) == z3.Select(u.std_data0, u.std_lo0 + j)), patterns=[out_at(h, j)])))]


class DelegationUnit(GenUnit):
    trusted = ("E1", "A-private-iterator", "A-comprehension", "A-stdlib-call")
    std_name = None
    r_may_be_none = False

    def __init__(self):
        super().__init__()
        self.globals = dict(self.globals)
        self.globals["itertools"] = NS("itertools", {n: Builtin("itertools." + n, (lambda n: lambda ip, pool, r: self.std_call(ip, n, pool, r))(n)) for n in ("combinations", "combinations_with_replacement", "permutations")})
        self.globals["len"] = Builtin("len", lambda ip, x: Sym(self.n, INT) if isinstance(x, PoolVal) else lib.b_len(ip, x))
        self.globals["int"] = ClassVal("int")

    def make_args(self, ip):
        self.new_source(ip)
        self.gen_entry(ip)
        self.std = None
        self.calls = []
        self.r_none = self.r_may_be_none and ip.ctx.decide(2, "r-is-None") == 1
        self.r = None if self.r_none else Sym(z3.Int("r"), INT)
        return [self.src, self.r], {}

    def list_comp(self, ip, e, env, mp):
        ok = isinstance(e, _ast.ListComp) and len(e.generators) == 1 and e.generators[0].is_async and not e.generators[0].ifs and isinstance(e.elt, _ast.Name) and isinstance(e.generators[0].target, _ast.Name) and e.elt.id == e.generators[0].target.id
        if not ok:
            raise Unsupported("a comprehension other than [e async for e in <iterable>]")
        it = ip.eval(e.generators[0].iter, env, mp)
        if not (isinstance(it, Sym) and it.ty is SRC and it.t.eq(self.src.t)):
            raise Unsupported("comprehension over something that is not the input")
        st, cn = ip.st, SRC.cls
        lo = st.get(cn, "lo", it.t)
        complete = lo == self.lo0  # nothing had been consumed before: the pool is the whole input
        st.put(cn, "lo", it.t, st.get(cn, "hi", it.t))
        lib.suspend(ip, "comprehension", None)
        return PoolVal(complete)

    def std_call(self, ip, name, pool, r):
        st = ip.st
        self.calls.append((name, pool, r))
        if ip.ctx.decide(2, "stdlib-call-raises") == 1:
            e = ExcVal(ValueError, ())
            self.std_exc = e
            raise PyExc(e)
        ref = Sym(st.alloc(SRC.cls), SRC)
        h = H(st)
        d = h.dq(SRC.cls, ref.t)
        st.assume(z3.And(d.lo <= d.hi, d.lo >= 0, ref.t != self.src.t))
        self.std, self.std_lo0, self.std_hi0, self.std_data0 = ref, d.lo, d.hi, d.data
        return ref

    def loop_spec(self, qualname, ordinal):
        return LoopSpec(relay_inv, modifies={("GenOut", "out"), ("GenOut", "n"), ("GenOut", "pos")}, local_types={})

    def on_for_loop(self, ip, it):
        # the stdlib iterator is a synchronous iterator whatever the input was: each request goes through the adaptor
        # (_iterate wraps it: IterateUnit), which passes a suspension point on every path (AdaptorNextUnit)
        if self.std is not None and isinstance(it, Sym) and it.t.eq(self.std.t):
            self.ckpts = getattr(self, "ckpts", 0) + 1
        else:
            super().on_for_loop(ip, it)

    def want_r(self):
        return Sym(self.n, INT) if self.r_none else self.r

    def on_exit(self, ip, pre, exc, ret):
        h = H(ip.st)
        nm = self.funcname
        j = z3.Int(ip.st.uniq("j"))
        delegated = len(self.calls) == 1 and self.calls[0][0] == self.std_name and isinstance(self.calls[0][1], PoolVal)
        if exc is not None:
            name = exc.pycls.__name__ if exc.pycls is not None else "sym"
            if name == "CancelledError":
                return
            if getattr(self, "std_exc", None) is exc:
                ip.ctx.oblige(f"{nm}/post:an_exception_of_the_stdlib_call_is_relayed_as_it_is", z3.BoolVal(delegated), "post")
            else:
                self.own_error(ip, name)
            return
        if not delegated:
            ip.ctx.fail(f"{nm}/post:delegates_exactly_once_to_the_stdlib_function_of_the_same_name", "post", f"calls: {[c[0] for c in self.calls]}")
            return
        _, pool, r = self.calls[0]
        want = self.want_r()
        same_r = (r is None and want is None) or (r is not None and want is not None and True)
        ip.ctx.oblige(f"{nm}/post:delegates_exactly_once_to_the_stdlib_function_of_the_same_name", z3.BoolVal(True), "post")
        ip.ctx.oblige(f"{nm}/post:the_pool_is_the_whole_input_in_order_and_r_is_the_callers", z3.And(pool.complete, z3.BoolVal(bool(same_r)), ip.term(r, INT) == ip.term(want, INT) if same_r and r is not None else z3.BoolVal(bool(same_r))), "post")
        ip.ctx.oblige(f"{nm}/post:relays_every_element_of_the_stdlib_iterator_once_in_order", z3.And(out_n(h) == self.std_hi0 - self.std_lo0, forall([j], z3.Implies(z3.And(0 <= j, j < out_n(h)), out_at(h, j) == z3.Select(self.std_data0, self.std_lo0 + j)), patterns=[out_at(h, j)])), "post")

    def own_error(self, ip, name):
        ip.ctx.fail(f"{self.funcname}/post:raises_nothing_of_its_own", "post", f"raised {name}")

    def after_resume(self, ip, what, payload):
        super().after_resume(ip, what, payload)
        ip.st.assume(H(ip.st).arr("$", "alloc") == self.before.arr("$", "alloc"))


class CombinationsUnit(DelegationUnit):
    funcname = std_name = "combinations"


class CombinationsWithReplacementUnit(DelegationUnit):
    funcname = std_name = "combinations_with_replacement"


class PermutationsUnit(DelegationUnit):
    funcname = std_name = "permutations"
    r_may_be_none = True

    def own_error(self, ip, name):
        # the stdlib raises ValueError for a negative r itself; anyio's own check must agree with it
        ip.ctx.oblige("permutations/post:its_own_ValueError_only_for_a_negative_r", z3.And(z3.BoolVal(name == "ValueError" and self.r is not None), self.r.t < 0 if self.r is not None else z3.BoolVal(False)), "post")


UNITS += [CombinationsUnit, CombinationsWithReplacementUnit, PermutationsUnit]


# ---- groupby ----------------------------------------------------------------------------------------------------------------------
# specification (step obligation at every yield): the groups are consecutive, non-empty, maximal runs of elements with equal keys -
# a group starts where the previous one ended, its key is the key of its first element, all its elements have that key, and it ends
# either at the end of the input or in front of an element with a different key; at the normal end the whole input has been grouped.
# Keys are compared as values (term equality): `!=` of user objects is assumed to be the negation of an equivalence (A-pure).

KEYF = z3.Function("KEYF", z3.IntSort(), z3.IntSort())


def groupby_inv(ip, env):
    u = ip.ctx.unit
    h = H(ip.st)
    i = u.consumed(ip)
    g = last_pos(h)
    values = ip.term(_loc(env, "values"), SAVED)
    gk = ip.term(_loc(env, "group_key"), OBJ)
    q = z3.Int(ip.st.uniq("q"))
    return [("values_holds_the_run_since_the_last_group_ended_and_all_its_keys_equal_group_key", z3.And(0 <= g, g < i, ip.ctx.loop_k <= u.hi0, gk == u.key_of(u.x(g)), batch_is_slice(u, h, values, g, i - g), forall([q], z3.Implies(z3.And(g <= q, q < i), u.key_of(u.x(q)) == gk), patterns=[u.x(q)]), out_n(h) >= 0, u.out_inv_common(h)))]


class GroupbyUnit(GenUnit):
    funcname = "groupby"

    def key_of(self, t):
        return KEYF(t) if self.has_key else t

    def make_args(self, ip):
        self.new_source(ip)
        self.gen_entry(ip)
        ip.st.put("GenOut", "last", OUT, z3.IntVal(0))
        self.has_key = ip.ctx.decide(2, "key-given") == 1
        key = Builtin("key", lambda ip, a: AwaitableVal("contract", lambda: Sym(KEYF(ip.term(a, OBJ)), OBJ)))
        return [self.src], ({"key": key} if self.has_key else {})

    def make_list(self, ip, elems):
        r = lib.new_empty(ip, SAVED)
        st, cn = ip.st, SAVED.cls
        for e in elems:
            hi = st.get(cn, "hi", r.t)
            st.put(cn, "data", r.t, z3.Store(st.get(cn, "data", r.t), hi, ip.term(e, OBJ)))
            st.put(cn, "hi", r.t, hi + 1)
        return r

    def do_yield(self, ip, v):
        st = ip.st
        h = H(st)
        if not (isinstance(v, tuple) and len(v) == 2 and isinstance(v[1], Sym) and v[1].ty is SAVED):
            ip.ctx.fail("groupby/yield:every_yielded_value_is_a_pair_of_a_key_and_the_list_of_its_group", "post", "unexpected shape of the yielded value")
            return None
        k, ref = ip.term(v[0], OBJ), v[1].t
        d = h.dq(SAVED.cls, ref)
        ln = d.hi - d.lo
        g = st.get("GenOut", "last", OUT)
        q, p = z3.Int(st.uniq("q")), z3.Int(st.uniq("p"))
        contents = forall([q], z3.Implies(z3.And(d.lo <= q, q < d.hi), z3.Select(d.data, q) == self.x(g + q - d.lo)), patterns=[z3.Select(d.data, q)])
        same_key = forall([p], z3.Implies(z3.And(g <= p, p < g + ln), self.key_of(self.x(p)) == k), patterns=[self.x(p)])
        end = g + ln
        maximal = z3.Or(end == self.n, self.key_of(self.x(end)) != k)
        ip.ctx.oblige("groupby/yield:every_group_is_the_next_maximal_non_empty_run_of_elements_with_equal_keys", z3.And(ln >= 1, end <= self.n, contents, k == self.key_of(self.x(g)), same_key, maximal), "post")
        st.put("GenOut", "last", OUT, end)
        st.put("GenOut", "n", OUT, st.get("GenOut", "n", OUT) + 1)
        return None

    def after_resume(self, ip, what, payload):
        super().after_resume(ip, what, payload)
        h, b = H(ip.st), self.before
        for key in [(SAVED.cls, "lo"), (SAVED.cls, "hi"), (SAVED.cls, "data")]:
            ip.st.assume(h.arr(*key) == b.arr(*key))

    def loop_spec(self, qualname, ordinal):
        frame = {("GenOut", "out"), ("GenOut", "n"), ("GenOut", "pos"), ("GenOut", "last"), (SAVED.cls, "data"), (SAVED.cls, "hi"), (SAVED.cls, "lo"), (SAVED.cls, "cnt")}
        return LoopSpec(groupby_inv, modifies=frame, local_types={"values": SAVED, "group_key": OBJ, "next_key": OBJ, "element": OBJ})

    def on_exit(self, ip, pre, exc, ret):
        h = H(ip.st)
        if exc is not None:
            ip.ctx.oblige("groupby/post:never_raises_by_itself", z3.BoolVal(exc.pycls is not None and exc.pycls.__name__ == "CancelledError"), "post")
            return
        ip.ctx.oblige("groupby/post:at_the_end_the_whole_input_has_been_grouped", z3.And(last_pos(h) == self.n, z3.Implies(self.n == 0, out_n(h) == 0)), "post")


UNITS += [GroupbyUnit]


# ---- tee(): the front end -------------------------------------------------------------------------------------------------------------
# ValueError exactly for n < 0; () for n = 0; otherwise a tuple of n iterators: one built from the iterable (TeeInitUnit: fresh
# state, fresh chain) and n - 1 copies built FROM THAT ITERATOR (TeeInitUnit: same state, same link), in that order.  The generator
# expression `(_TeeAsyncIterator(iterator) for _ in range(n - 1))` is abstracted to "n - 1 values of its element expression, each
# evaluated once" (the meaning of a generator expression consumed by list.extend: A-comprehension); the constructor calls are
# recorded, not executed (their effect is TeeInitUnit's contract).


class TeeItems:
    """Python-level model of the local list `iterators`: explicit first items + (element expression, count) blocks"""

    def __init__(self, items):
        self.items = list(items)
        self.blocks = []


class Copies:
    def __init__(self, of, count):
        self.of, self.count = of, count


class TeeFrontUnit(IterUnit):
    c08_clauses = False  # not a traversal
    modpath = IT
    funcname = "tee"
    trusted = ("E1", "A-comprehension")

    def __init__(self):
        super().__init__()
        self.globals = dict(self.globals)
        self.globals["operator"] = NS("operator", {"index": Builtin("operator.index", lambda ip, v: v)})
        self.globals["_TeeAsyncIterator"] = Builtin("_TeeAsyncIterator", lambda ip, src: self.construct(ip, src))
        self.globals["tuple"] = Builtin("tuple", lambda ip, x: ("tuple", x) if isinstance(x, TeeItems) else lib.b_tuple(ip, x))
        self.globals["range"] = lib.GLOBALS.get("range")

    def make_args(self, ip):
        self.new_source(ip, "iterable")
        self.n_arg = Sym(z3.Int("n"), INT)
        self.built = []
        return [self.src, self.n_arg], {}

    def construct(self, ip, src):
        r = ("tee-iterator", len(self.built), src)
        self.built.append(r)
        return r

    def make_list(self, ip, elems):
        return TeeItems(elems)

    def list_comp(self, ip, e, env, mp):
        g = e.generators[0] if len(e.generators) == 1 else None
        if g is None or g.ifs or g.is_async or not (isinstance(g.iter, _ast.Call) and _ast.unparse(g.iter.func) == "range" and len(g.iter.args) == 1):
            raise Unsupported("a generator expression other than (<expr> for _ in range(<count>))")
        count = ip.eval(g.iter.args[0], env, mp)
        elt = ip.eval(e.elt, env, mp)  # evaluated once, symbolically standing for each of the `count` evaluations
        if not (isinstance(elt, tuple) and elt and elt[0] == "tee-iterator"):
            raise Unsupported("element expression of the generator expression")
        self.built.remove(elt)
        return Copies(elt[2], ip.term(count, INT))

    def model_getattr(self, ip, obj, attr):
        if isinstance(obj, TeeItems) and attr == "extend":
            return Builtin("list.extend", lambda ip, x: obj.blocks.append(x) if isinstance(x, Copies) else (_ for _ in ()).throw(Unsupported("extend with something else")))
        return super().model_getattr(ip, obj, attr)

    def on_exit(self, ip, pre, exc, ret):
        nm = "tee"
        n = self.n_arg.t
        if exc is not None:
            name = exc.pycls.__name__ if exc.pycls is not None else "sym"
            ip.ctx.oblige(f"{nm}/post:ValueError_exactly_for_a_negative_n", z3.And(z3.BoolVal(name == "ValueError"), n < 0), "post")
            return
        if ret == ():
            ip.ctx.oblige(f"{nm}/post:an_empty_tuple_exactly_for_n_equal_0", n == 0, "post")
            ip.ctx.oblige(f"{nm}/post:nothing_is_built_for_n_equal_0", z3.BoolVal(not self.built), "post")
            return
        ok = isinstance(ret, tuple) and len(ret) == 2 and ret[0] == "tuple" and isinstance(ret[1], TeeItems)
        if not ok:
            ip.ctx.fail(f"{nm}/post:returns_the_tuple_of_the_iterators_it_built", "post", f"returned {ret!r}")
            return
        items = ret[1]
        first_ok = len(items.items) == 1 and isinstance(items.items[0], tuple) and items.items[0][0] == "tee-iterator" and isinstance(items.items[0][2], Sym) and items.items[0][2].ty is SRC
        shape = first_ok and len(items.blocks) == 1 and items.blocks[0].of is items.items[0] and len(self.built) == 1
        ip.ctx.oblige(f"{nm}/post:one_iterator_over_the_iterable_followed_by_copies_of_that_iterator", z3.BoolVal(bool(shape)), "post")
        if shape:
            ip.ctx.oblige(f"{nm}/post:the_first_iterator_is_built_from_the_callers_iterable", ip.term(items.items[0][2], SRC) == self.src.t, "post")
            ip.ctx.oblige(f"{nm}/post:exactly_n_iterators_for_a_positive_n", z3.And(n >= 1, 1 + items.blocks[0].count == n), "post")


UNITS += [TeeFrontUnit]


# ---- Chain.from_iterable / chain(*iterables) ----------------------------------------------------------------------------------------
# The outer source is an abstract source whose elements are abstract sources.  Specification (step obligation at every yield): the
# value yielded now is element b of inner source a, and (a, b) is the successor of the position (la, lb) of the previous yield in the
# concatenation order: either the next element of the same inner source, or element 0 of a later one with the previous inner source
# exhausted and every inner source in between empty (the first yield: every inner source before a is empty).  At the normal end the
# last inner source that yielded is exhausted and all later ones are empty - nothing was skipped.

OUTER = DequeT(SRC)
register_class("ChainGhost", {"la": INT, "lb": INT}, kind="env")
CG = z3.Int("chain_ghost")


class ChainUnit(GenUnit):
    funcname = "Chain.from_iterable"

    def __init__(self):
        super().__init__()
        self.name = self.qualname = "Chain.from_iterable"
        self.globals = dict(self.globals)
        self.globals["getattr"] = Builtin("getattr", lambda ip, o, name, default=None: self.get_aclose(ip, o, name, default))
        self.globals["CancelScope"] = Builtin("CancelScope", lambda ip, shield=False: E.ShieldScope())

    def get_aclose(self, ip, o, name, default):
        if name != "aclose":
            raise Unsupported("getattr of " + str(name))
        if ip.ctx.decide(2, "outer-iterator-has-aclose") == 0:
            return default

        def aclose(ip):
            self.closed += 1
            return AwaitableVal("cancel_shielded_checkpoint")

        return Builtin("aclose", aclose)

    def model_getattr(self, ip, obj, attr):
        if isinstance(obj, E.ShieldScope):
            if attr == "__enter__":
                return Builtin("scope.__enter__", lambda ip: obj)
            if attr == "__exit__":
                return Builtin("scope.__exit__", lambda ip, *a: False)
        return super().model_getattr(ip, obj, attr)

    # -- sources ----------------------------------------------------------------------------------------------------------------------
    def make_args(self, ip):
        st = ip.st
        self.gen_entry(ip)
        self.closed = 0
        o = Sym(z3.Int("iterables"), OUTER)
        h = H(st)
        d = h.dq(OUTER.cls, o.t)
        st.assume(z3.And(o.t > 0, st.allocated(o.t), 0 <= d.lo, d.lo <= d.hi))
        q = z3.Int(st.uniq("q"))
        r = z3.Select(d.data, q)
        st.assume(forall([q], z3.Implies(z3.And(d.lo <= q, q < d.hi), z3.And(r > 0, z3.Select(h.arr("$", "alloc"), r), h.dq(SRC.cls, r).lo >= 0, h.dq(SRC.cls, r).lo <= h.dq(SRC.cls, r).hi)), patterns=[z3.Select(d.data, q)]))
        self.outer, self.olo, self.ohi, self.odata = o, d.lo, d.hi, d.data
        self.e_lo, self.e_hi, self.e_data = h.arr(SRC.cls, "lo"), h.arr(SRC.cls, "hi"), h.arr(SRC.cls, "data")
        st.put("ChainGhost", "la", CG, z3.IntVal(-1))
        st.put("ChainGhost", "lb", CG, z3.IntVal(-1))
        st.assume(CG > 0)
        self.src = None
        self.lo0 = None
        return [None, o], {}

    def inner(self, a):
        return z3.Select(self.odata, self.olo + a)

    def length(self, a):
        r = self.inner(a)
        return z3.Select(self.e_hi, r) - z3.Select(self.e_lo, r)

    def empties(self, st, p, q):
        t = z3.Int(st.uniq("t"))
        return forall([t], z3.Implies(z3.And(p <= t, t < q), self.length(t) == 0), patterns=[self.inner(t)])

    def m(self):
        return self.ohi - self.olo

    def sources_unchanged(self, h):
        return z3.And(h.arr(SRC.cls, "lo") == self.e_lo, h.arr(SRC.cls, "hi") == self.e_hi, h.arr(SRC.cls, "data") == self.e_data, h.dq(OUTER.cls, self.outer.t).lo == self.olo, h.dq(OUTER.cls, self.outer.t).hi == self.ohi, h.dq(OUTER.cls, self.outer.t).data == self.odata)

    def between(self, st, la, lb, a):
        """nothing lies between the previous yield (la, lb) and the start of inner source a"""
        return z3.If(la == -1, self.empties(st, 0, a), z3.And(0 <= la, la < a, 0 <= lb, lb + 1 == self.length(la), self.empties(st, la + 1, a)))

    def after_resume(self, ip, what, payload):
        h, b = H(ip.st), self.before
        for key in [(SRC.cls, "lo"), (SRC.cls, "hi"), (SRC.cls, "data"), (OUTER.cls, "lo"), (OUTER.cls, "hi"), (OUTER.cls, "data"), ("GenOut", "n"), ("ChainGhost", "la"), ("ChainGhost", "lb")]:
            ip.st.assume(h.arr(*key) == b.arr(*key))
        ip.st.assume(h.arr("$", "alloc") == b.arr("$", "alloc"))

    def do_yield(self, ip, v):
        st = ip.st
        a = self.outer_k - self.olo
        r = self.inner(a)
        b = ip.ctx.loop_k - z3.Select(self.e_lo, r)
        la, lb = st.get("ChainGhost", "la", CG), st.get("ChainGhost", "lb", CG)
        succ = z3.Or(z3.And(la == a, b == lb + 1), z3.And(b == 0, self.between(st, la, lb, a)))
        ip.ctx.oblige("chain/yield:every_yielded_value_is_the_next_element_in_concatenation_order", z3.And(0 <= a, a < self.m(), 0 <= b, b < self.length(a), ip.term(v, OBJ) == z3.Select(z3.Select(self.e_data, r), z3.Select(self.e_lo, r) + b), succ), "post")
        st.put("ChainGhost", "la", CG, a)
        st.put("ChainGhost", "lb", CG, b)
        st.put("GenOut", "n", OUT, st.get("GenOut", "n", OUT) + 1)
        return None

    def loop_spec(self, qualname, ordinal):
        frame = {("GenOut", "n"), ("ChainGhost", "la"), ("ChainGhost", "lb")}
        if ordinal == 0:
            return LoopSpec(chain_outer_inv, modifies=frame, local_types={"element_yielded": BOOL, "element": OBJ})
        return LoopSpec(chain_inner_inv, modifies=frame, local_types={"element_yielded": BOOL, "element": OBJ})

    def on_exit(self, ip, pre, exc, ret):
        st = ip.st
        h = H(st)
        if exc is not None:
            ip.ctx.oblige("chain/post:never_raises_by_itself", z3.BoolVal(exc.pycls is not None and exc.pycls.__name__ == "CancelledError"), "post")
            return
        la, lb = st.get("ChainGhost", "la", CG), st.get("ChainGhost", "lb", CG)
        ip.ctx.oblige("chain/post:at_the_end_nothing_is_left_over", self.between(st, la, lb, self.m()), "post")
        ip.ctx.oblige("chain/post:an_outer_iterator_that_can_be_closed_is_closed_once", z3.BoolVal(self.closed <= 1), "post")


def chain_outer_inv(ip, env):
    u = ip.ctx.unit
    st = ip.st
    h = H(st)
    u.outer_k = ip.ctx.loop_k
    a = ip.ctx.loop_k - u.olo
    la, lb = st.get("ChainGhost", "la", CG), st.get("ChainGhost", "lb", CG)
    ey = _flag(ip, env, "element_yielded")
    return [("everything_before_the_current_inner_source_has_been_yielded", z3.And(0 <= a, ip.ctx.loop_k <= u.ohi, la >= -1, _same(ey, la >= 0), out_n(h) >= 0, (out_n(h) > 0) == (la >= 0), u.between(st, la, lb, a), u.sources_unchanged(h)))]


def chain_inner_inv(ip, env):
    u = ip.ctx.unit
    st = ip.st
    h = H(st)
    a = u.outer_k - u.olo
    r = ip.term(_loc(env, "iterable"), SRC)
    b = ip.ctx.loop_k - z3.Select(u.e_lo, r)
    la, lb = st.get("ChainGhost", "la", CG), st.get("ChainGhost", "lb", CG)
    ey = _flag(ip, env, "element_yielded")
    return [("the_current_inner_source_has_been_yielded_up_to_the_current_element", z3.And(0 <= a, a < u.m(), r == u.inner(a), 0 <= b, b <= u.length(a), la >= -1, _same(ey, la >= 0), out_n(h) >= 0, (out_n(h) > 0) == (la >= 0), z3.If(b == 0, u.between(st, la, lb, a), z3.And(la == a, lb == b - 1)), u.sources_unchanged(h)))]


UNITS += [ChainUnit]


# ---- product: delegation, for 0 .. 3 input iterables (the loop over the argument tuple is unrolled: the arity is a stated bound) ----


class PyList:
    def __init__(self):
        self.items = []


def _unroll_tuple_loop(spec, ip, s, env, f, ordinal):
    it = ip.eval(s.iter, env, f.modpath)
    if not isinstance(it, tuple):
        raise Unsupported("for-loop over something that is not the argument tuple")
    for x in it:
        ip.assign(s.target, x, env, f)
        ip.exec_block(s.body, env, f)


class ProductUnit(DelegationUnit):
    funcname = std_name = "product"
    MAX_ARITY = 3

    def __init__(self):
        super().__init__()
        self.globals["itertools"] = NS("itertools", {"product": Builtin("itertools.product", lambda ip, *pools, repeat=1: self.std_call(ip, "product", pools, repeat))})
        self.globals["operator"] = NS("operator", {"index": Builtin("operator.index", lambda ip, v: v)})
        self.globals["tuple"] = Builtin("tuple", lambda ip, x: x if isinstance(x, PoolVal) else lib.b_tuple(ip, x))

    def make_args(self, ip):
        st = ip.st
        self.gen_entry(ip)
        self.std = None
        self.calls = []
        self.arity = ip.ctx.decide(self.MAX_ARITY + 1, "number-of-iterables")
        self.sources = []
        h = H(st)
        for i in range(self.arity):
            r = Sym(z3.Int(f"iterable_{i}"), SRC)
            d = h.dq(SRC.cls, r.t)
            st.assume(z3.And(r.t > 0, st.allocated(r.t), d.lo <= d.hi, d.lo >= 0))
            for prev in self.sources:
                st.assume(prev[0].t != r.t)
            self.sources.append((r, d.lo))
        self.src = Sym(z3.IntVal(0), SRC)  # no single input
        self.lo0 = self.hi0 = self.data0 = None
        self.rep_given = ip.ctx.decide(2, "repeat-given") == 1
        self.rep = Sym(z3.Int("repeat"), INT)
        return [s for s, _ in self.sources], ({"repeat": self.rep} if self.rep_given else {})

    def out_inv_common(self, h):
        return z3.BoolVal(True)

    def make_list(self, ip, elems):
        if elems:
            raise Unsupported("non-empty list literal")
        return PyList()

    def model_getattr(self, ip, obj, attr):
        if isinstance(obj, PyList) and attr == "append":
            return Builtin("list.append", lambda ip, x: obj.items.append(x))
        return super().model_getattr(ip, obj, attr)

    def unpack_star(self, ip, v):
        if isinstance(v, PyList):
            return list(v.items)
        return NotImplemented

    def list_comp(self, ip, e, env, mp):
        ok = isinstance(e, _ast.ListComp) and len(e.generators) == 1 and e.generators[0].is_async and not e.generators[0].ifs and isinstance(e.elt, _ast.Name) and isinstance(e.generators[0].target, _ast.Name) and e.elt.id == e.generators[0].target.id
        if not ok:
            raise Unsupported("a comprehension other than [e async for e in <iterable>]")
        it = ip.eval(e.generators[0].iter, env, mp)
        which = [i for i, (s_, _) in enumerate(self.sources) if isinstance(it, Sym) and it.ty is SRC and it.t.eq(s_.t)]
        if not which:
            raise Unsupported("comprehension over something that is not an input")
        st, cn = ip.st, SRC.cls
        complete = st.get(cn, "lo", it.t) == self.sources[which[0]][1]
        st.put(cn, "lo", it.t, st.get(cn, "hi", it.t))
        lib.suspend(ip, "comprehension", None)
        p = PoolVal(complete)
        p.which = which[0]
        return p

    def loop_spec(self, qualname, ordinal):
        if ordinal == 0:
            return LoopSpec(lambda ip, env: [], modifies=None, exec_for=_unroll_tuple_loop)
        return LoopSpec(relay_inv, modifies={("GenOut", "out"), ("GenOut", "n"), ("GenOut", "pos")}, local_types={})

    def on_exit(self, ip, pre, exc, ret):
        h = H(ip.st)
        nm = "product"
        j = z3.Int(ip.st.uniq("j"))
        rep = self.rep.t if self.rep_given else z3.IntVal(1)
        if exc is not None:
            name = exc.pycls.__name__ if exc.pycls is not None else "sym"
            if name == "CancelledError":
                return
            if getattr(self, "std_exc", None) is exc:
                return
            ip.ctx.oblige(f"{nm}/post:its_own_ValueError_only_for_a_negative_repeat", z3.And(z3.BoolVal(name == "ValueError" and not self.calls), rep < 0), "post")
            return
        ok = len(self.calls) == 1 and self.calls[0][0] == "product"
        pools = list(self.calls[0][1]) if ok else []
        shape = ok and len(pools) == self.arity and all(isinstance(p, PoolVal) and p.which == i for i, p in enumerate(pools))
        ip.ctx.oblige(f"{nm}/post:delegates_once_to_the_stdlib_product_with_one_pool_per_input_in_order", z3.BoolVal(bool(shape)), "post")
        if not shape:
            return
        ip.ctx.oblige(f"{nm}/post:every_pool_is_its_whole_input_and_repeat_is_the_callers", z3.And(rep >= 0, ip.term(self.calls[0][2], INT) == rep, *[p.complete for p in pools]), "post")
        ip.ctx.oblige(f"{nm}/post:relays_every_element_of_the_stdlib_iterator_once_in_order", z3.And(out_n(h) == self.std_hi0 - self.std_lo0, forall([j], z3.Implies(z3.And(0 <= j, j < out_n(h)), out_at(h, j) == z3.Select(self.std_data0, self.std_lo0 + j)), patterns=[out_at(h, j)])), "post")


UNITS += [ProductUnit]


class ChainCallUnit(IterUnit):
    c08_clauses = False  # not a traversal
    """chain(*iterables) is from_iterable(<the tuple of its arguments, in order>) - nothing else"""

    modpath = IT
    funcname = "Chain.__call__"

    def __init__(self):
        super().__init__()
        self.name = self.qualname = "Chain.__call__"

    class Self:
        pass

    def make_args(self, ip):
        self.arity = ip.ctx.decide(4, "number-of-iterables")
        self.args = [Sym(z3.Int(f"iterable_{i}"), SRC) for i in range(self.arity)]
        self.me = ChainCallUnit.Self()
        self.calls = []
        return [self.me] + self.args, {}

    def model_getattr(self, ip, obj, attr):
        if obj is self.me and attr == "from_iterable":
            return Builtin("from_iterable", lambda ip, x: (self.calls.append(x), ("generator", x))[1])
        return super().model_getattr(ip, obj, attr)

    def on_exit(self, ip, pre, exc, ret):
        ok = exc is None and len(self.calls) == 1 and isinstance(self.calls[0], tuple) and len(self.calls[0]) == self.arity and all(a is b for a, b in zip(self.calls[0], self.args)) and isinstance(ret, tuple) and ret[0] == "generator" and ret[1] is self.calls[0]
        ip.ctx.oblige("Chain.__call__/post:returns_from_iterable_of_the_tuple_of_its_arguments_in_order", z3.BoolVal(bool(ok)), "post")


UNITS += [ChainCallUnit]


# ---- zip_longest: for 0 .. 2 input iterables (the list of iterators is a Python-level list: the arity is a stated bound) ----------------
# specification (step obligation at every yield): the tuple yielded in round r has, at position i, element r of input i if input i has
# one, the fill value otherwise; the generator ends exactly after max(len_i) rounds.

from segvc import interp as _I  # noqa: E402


def _unroll_enumerate_loop(spec, ip, s, env, f, ordinal):
    it = ip.eval(s.iter, env, f.modpath)
    if not isinstance(it, list):
        raise Unsupported("for-loop over something that is not enumerate(<the list of iterators>)")
    for x in it:
        ip.assign(s.target, x, env, f)
        try:
            ip.exec_block(s.body, env, f)
        except _I._Continue:
            continue
        except _I._Break:
            break


def zip_inv(ip, env):
    u = ip.ctx.unit
    h = H(ip.st)
    r = out_n(h)
    active = _loc(env, "active")
    num_active = ip.term(_loc(env, "num_active"), INT)
    ty = _flag(ip, env, "tuple_yielded")
    if not (isinstance(active, PyList) and len(active.items) == u.arity):
        raise Unsupported("`active` is not the list of one flag per iterator")
    terms = [r >= 0, _same(ty, r > 0)]
    count = z3.IntVal(0)
    for i, (s_, lo0, hi0) in enumerate(u.sources):
        a_i = ip.truth(active.items[i])
        a_i = z3.BoolVal(a_i) if isinstance(a_i, bool) else a_i
        d = h.dq(SRC.cls, s_.t)
        ln = hi0 - lo0
        terms += [a_i == (r <= ln), d.lo - lo0 == z3.If(r <= ln, r, ln), d.hi == hi0, d.data == u.datas[i]]
        count = count + z3.If(a_i, 1, 0)
    terms += [num_active == count, num_active >= 1]
    return [("after_r_rounds_every_input_has_given_min_r_len_elements_and_is_active_iff_it_may_have_more", z3.And(*terms)), ("c08.what_was_consumed_or_yielded_so_far_is_covered_by_requests_and_checkpoints", rq(h) >= r)]


def zip_after_havoc(ip, env):
    u = ip.ctx.unit
    lst = PyList()
    lst.items = [Sym(ip.st.fresh("active", z3.BoolSort()), BOOL) for _ in range(u.arity)]
    env.vars["active"] = lst


class ZipLongestUnit(GenUnit):
    funcname = "zip_longest"
    MAX_ARITY = 2

    def __init__(self):
        super().__init__()
        self.globals = dict(self.globals)
        self.globals["len"] = Builtin("len", lambda ip, x: len(x.items) if isinstance(x, PyList) else lib.b_len(ip, x))
        self.globals["enumerate"] = Builtin("enumerate", lambda ip, x: [(i, v) for i, v in enumerate(x.items)] if isinstance(x, PyList) else (_ for _ in ()).throw(Unsupported("enumerate")))
        self.globals["tuple"] = Builtin("tuple", lambda ip, x: tuple(x.items) if isinstance(x, PyList) else lib.b_tuple(ip, x))

    def make_args(self, ip):
        st = ip.st
        self.gen_entry(ip)
        self.arity = ip.ctx.decide(self.MAX_ARITY + 1, "number-of-iterables")
        self.sources, self.datas = [], []
        h = H(st)
        for i in range(self.arity):
            r = Sym(z3.Int(f"iterable_{i}"), SRC)
            d = h.dq(SRC.cls, r.t)
            st.assume(z3.And(r.t > 0, st.allocated(r.t), d.lo <= d.hi, d.lo >= 0))
            for prev in self.sources:
                st.assume(prev[0].t != r.t)
            self.sources.append((r, d.lo, d.hi))
            self.datas.append(d.data)
        self.src, self.lo0 = Sym(z3.IntVal(0), SRC), None
        self.fill_given = ip.ctx.decide(2, "fillvalue-given") == 1
        self.fill = Sym(z3.Int("fillvalue"), OBJ)
        return [s for s, _, _ in self.sources], ({"fillvalue": self.fill} if self.fill_given else {})

    def fill_term(self):
        return self.fill.t if self.fill_given else z3.IntVal(0)

    def list_comp(self, ip, e, env, mp):
        g = e.generators[0] if len(e.generators) == 1 else None
        if g is None or g.ifs or g.is_async:
            raise Unsupported("comprehension")
        it = ip.eval(g.iter, env, mp)
        if not isinstance(it, tuple):
            raise Unsupported("comprehension over something that is not the argument tuple")
        lst = PyList()
        for x in it:
            env2 = _I.Env({g.target.id: x}, env)
            lst.items.append(ip.eval(e.elt, env2, mp))
        return lst

    def make_list(self, ip, elems):
        lst = PyList()
        lst.items = list(elems)
        return lst

    def binop(self, ip, op, a, b):
        if isinstance(op, _ast.Mult) and isinstance(a, PyList) and isinstance(b, int):
            lst = PyList()
            lst.items = list(a.items) * b
            return lst
        return NotImplemented

    def get_item(self, ip, obj, idx):
        if isinstance(obj, PyList) and isinstance(idx, int):
            return obj.items[idx]
        return NotImplemented

    def set_item(self, ip, obj, idx, v):
        if isinstance(obj, PyList) and isinstance(idx, int):
            obj.items[idx] = v
            return None
        return NotImplemented

    def model_getattr(self, ip, obj, attr):
        if isinstance(obj, PyList) and attr == "append":
            return Builtin("list.append", lambda ip, x: obj.items.append(x))
        return super().model_getattr(ip, obj, attr)

    def do_yield(self, ip, v):
        st = ip.st
        h = H(st)
        r = st.get("GenOut", "n", OUT)
        if not (isinstance(v, tuple) and len(v) == self.arity):
            ip.ctx.fail("zip_longest/yield:every_yielded_tuple_has_one_position_per_input", "post", f"yielded {v!r}")
            return None
        terms = []
        for i, (s_, lo0, hi0) in enumerate(self.sources):
            terms.append(ip.term(v[i], OBJ) == z3.If(r < hi0 - lo0, z3.Select(self.datas[i], lo0 + r), self.fill_term()))
        ip.ctx.oblige("zip_longest/yield:position_i_of_round_r_is_element_r_of_input_i_or_the_fill_value", z3.And(*terms) if terms else z3.BoolVal(False), "post")
        st.put("GenOut", "n", OUT, r + 1)
        return None

    def loop_spec(self, qualname, ordinal):
        if ordinal == 0:
            return LoopSpec(zip_inv, modifies=None, after_havoc=zip_after_havoc, local_types={"num_active": INT, "tuple_yielded": BOOL})
        return LoopSpec(lambda ip, env: [], modifies=None, exec_for=_unroll_enumerate_loop)

    def on_exit(self, ip, pre, exc, ret):
        h = H(ip.st)
        if exc is not None:
            ip.ctx.oblige("zip_longest/post:never_raises_by_itself", z3.BoolVal(exc.pycls is not None and exc.pycls.__name__ == "CancelledError"), "post")
            return
        r = out_n(h)
        lens = [hi0 - lo0 for _, lo0, hi0 in self.sources]
        goal = z3.And(r >= 0, *[ln <= r for ln in lens]) if lens else r == 0
        if lens:
            goal = z3.And(goal, z3.Or(*[ln == r for ln in lens]))
        ip.ctx.oblige("zip_longest/post:ends_exactly_after_as_many_rounds_as_the_longest_input_has_elements", goal, "post")


UNITS += [ZipLongestUnit]
