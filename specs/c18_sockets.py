"""C18 -- asyncio TCP socket streams: SocketStream over StreamProtocol, and ResourceGuard.

Functions under contract:
  anyio/_backends/_asyncio.py   StreamProtocol.connection_made / connection_lost / data_received / eof_received /
                                pause_writing / resume_writing       (callbacks the transport runs on the loop)
                                SocketStream.receive / send / send_eof / aclose
  anyio/_core/_synchronization.py  ResourceGuard.__enter__ / __exit__

Ghost state of a protocol object P (the anyio side of one connection):
  $in     every byte the transport has delivered through data_received, in order
  $off    offsets: the chunk at position i of P.read_queue is  $in[$off[i] : $off[i+1]]
  $nret   number of bytes receive() has returned so far
Invariant (assumed at entry and after every suspension, asserted at every suspension and exit):
  R1  $off[lo] == $nret  and  $off[hi] == len($in)            (lo, hi: the ends of read_queue)
  R2  for lo <= i < hi:  $off[i] < $off[i+1]  and  read_queue[i] == $in[$off[i] : $off[i+1]]     (no empty chunk)
  R3  a non-empty queue has its read_event set
so the queue always holds exactly the delivered-but-not-yet-returned bytes, in order, once each.
Decided for receive(): it returns a non-empty chunk of at most max_bytes that is exactly the next bytes of the stream
($in[$nret : $nret + len]); EndOfStream / ClosedResourceError / BrokenResourceError only when no queued data is left
(and which of them: locally closed > transport error > clean EOF); a locally closed stream with nothing queued raises
without waiting for the read event; reading is resumed only for the duration of the wait; a second task is refused with
BusyResourceError and the guard is released on every path.  For send(): the item is handed to the transport exactly
once, unchanged, only on an open and unbroken stream, and send returns only with the write gate open (back-pressure);
a transport that refuses the write while closing gives BrokenResourceError.
Trusted (E10): the transport calls the protocol callbacks on the loop thread, data_received with non-empty data in
stream order, eof_received / connection_lost at most once; write() queues all of the bytes; pause_writing /
resume_writing bracket a full kernel buffer (write buffer limit 0).  The kernel and the peer are outside.
Byte strings are SMT sequences (A-seq); obligations over them go to cvc5 when z3 gives up.
"""
import types

import z3

from segvc import lib
from segvc.core import BOOL, BYTES, CLASSES, INT, OBJ, STR, ArrT, DequeT, H, RefT, Sym, Unsupported, forall, register_class
from segvc.interp import AwaitableVal, Builtin, ClassVal, ExcVal, NS, PyExc
from segvc.unit import Case, ClassSpec, Contract, LemmaUnit, LoopSpec, MethodUnit

ASYNCIO = "anyio/_backends/_asyncio.py"
SYNC = "anyio/_core/_synchronization.py"
DQB = DequeT(BYTES)
AEV = RefT("AEvent")
register_class("Transport", {"$written": BYTES, "$closing": BOOL, "$reading": BOOL, "$eof_written": BOOL, "$closed": BOOL, "$aborted": BOOL, "$limit0": BOOL}, kind="env")
TR = RefT("Transport")
register_class("StreamProtocol", {"read_queue": DQB, "read_event": AEV, "write_event": AEV, "exception": OBJ, "is_at_eof": BOOL, "$in": BYTES, "$off": ArrT(INT, INT), "$nret": INT, "$lost": BOOL}, source=(ASYNCIO, "StreamProtocol"))
PR = RefT("StreamProtocol")
CLASSES["StreamProtocol"].ghost_fields = {"$in", "$off", "$nret", "$lost"}
register_class("ResourceGuard", {"action": STR, "_guarded": BOOL}, source=(SYNC, "ResourceGuard"))
RG = RefT("ResourceGuard")
register_class("SocketStream", {"_transport": TR, "_protocol": PR, "_receive_guard": RG, "_send_guard": RG, "_closed": BOOL}, source=(ASYNCIO, "SocketStream"))
PC, SC = "StreamProtocol", "SocketStream"
PROTO = ClassSpec(PC)
SOCK = ClassSpec(SC)


def q(h, p):
    return h.dq(DQB.cls, h.f(PC, "read_queue", p))


def off(h, p, i):
    return z3.Select(h.f(PC, "$off", p), i)


def inb(h, p):
    return h.f(PC, "$in", p)


def nret(h, p):
    return h.f(PC, "$nret", p)


def flag(h, ev):
    return h.f("AEvent", "flag", ev)


def proto_wf(h, p):
    al = h.arr("$", "alloc")
    rq, re_, we = h.f(PC, "read_queue", p), h.f(PC, "read_event", p), h.f(PC, "write_event", p)
    return z3.And(p > 0, rq > 0, re_ > 0, we > 0, re_ != we, z3.Select(al, rq), z3.Select(al, re_), z3.Select(al, we), q(h, p).lo <= q(h, p).hi, nret(h, p) >= 0)


def proto_inv(h, p):
    d = q(h, p)
    i = z3.Int(h.st.uniq("i"))
    return [
        ("R1_the_queue_spans_exactly_the_delivered_bytes_not_yet_returned", z3.And(off(h, p, d.lo) == nret(h, p), off(h, p, d.hi) == z3.Length(inb(h, p)))),
        ("R2_each_queued_chunk_is_a_non_empty_slice_of_the_stream_in_order", forall([i], z3.Implies(z3.And(d.lo <= i, i < d.hi), z3.And(off(h, p, i) < off(h, p, i + 1), off(h, p, i) >= 0, off(h, p, i + 1) <= z3.Length(inb(h, p)), z3.Select(d.data, i) == z3.SubString(inb(h, p), off(h, p, i), off(h, p, i + 1) - off(h, p, i)))), patterns=[z3.Select(d.data, i)])),
        ("R3_a_non_empty_queue_has_its_read_event_set", z3.Implies(d.lo < d.hi, flag(h, h.f(PC, "read_event", p)))),
        ("R4_the_read_event_is_set_only_for_data_end_of_stream_or_a_lost_connection", z3.Implies(flag(h, h.f(PC, "read_event", p)), z3.Or(d.lo < d.hi, h.f(PC, "is_at_eof", p), h.f(PC, "$lost", p)))),
    ]


def proto_rely(a, b, p):
    """what the transport's callbacks (and nobody else) may do to the protocol while a receive() waits: append
    delivered data, set eof / the exception / the events.  The head of the queue is the receiver's."""
    da, db = q(a, p), q(b, p)
    i = z3.Int(a.st.uniq("i"))
    return [
        ("same_objects", z3.And(a.f(PC, "read_queue", p) == b.f(PC, "read_queue", p), a.f(PC, "read_event", p) == b.f(PC, "read_event", p))),
        ("only_appended", z3.And(db.lo == da.lo, db.hi >= da.hi, nret(b, p) == nret(a, p), z3.PrefixOf(inb(a, p), inb(b, p)))),
        ("queued_chunks_and_offsets_stay", forall([i], z3.Implies(z3.And(da.lo <= i, i < da.hi), z3.And(z3.Select(db.data, i) == z3.Select(da.data, i), off(b, p, i) == off(a, p, i), off(b, p, i + 1) == off(a, p, i + 1))), patterns=[z3.Select(db.data, i)])),
        ("eof_and_errors_are_final", z3.And(z3.Implies(a.f(PC, "$lost", p), b.f(PC, "$lost", p)), z3.Implies(a.f(PC, "is_at_eof", p), b.f(PC, "is_at_eof", p)), z3.Implies(a.f(PC, "exception", p) != 0, b.f(PC, "exception", p) == a.f(PC, "exception", p)))),
    ]


def slice_lemma(st):
    """a slice that lies inside A is the same slice of A ++ d (proved by SeqLemma below for arbitrary sequences)"""
    A, d = z3.String(st.uniq("A")), z3.String(st.uniq("d"))
    o, n = z3.Int(st.uniq("o")), z3.Int(st.uniq("n"))
    return z3.ForAll([A, d, o, n], z3.Implies(z3.And(o >= 0, n >= 0, o + n <= z3.Length(A)), z3.SubString(z3.Concat(A, d), o, n) == z3.SubString(A, o, n)), patterns=[z3.SubString(z3.Concat(A, d), o, n)])


class SeqLemma(LemmaUnit):
    props = ("C18",)
    name = "bytes/lemma"

    def props_of(self, name):
        return {"C18"}

    def lemma(self, ip):
        st = ip.st
        st.use_cvc5 = True
        A, d = z3.String("A"), z3.String("d")
        o, n = z3.Int("o"), z3.Int("n")
        st.assume(z3.And(o >= 0, n >= 0, o + n <= z3.Length(A)))
        ip.ctx.oblige(f"{self.name}:a_slice_inside_the_first_part_of_a_concatenation", z3.SubString(z3.Concat(A, d), o, n) == z3.SubString(A, o, n), "lemma")


class TransportOps:
    """the asyncio transport: opaque, its calls are recorded in ghost fields (E10)"""

    def transport_getattr(self, ip, obj, attr):
        if isinstance(obj, Sym) and obj.ty is TR:
            st = ip.st
            t = obj.t

            def setb(name, val=True):
                return Builtin(f"Transport.{attr}", lambda ip, *a: (self.tlog.append(attr), st.put("Transport", name, t, z3.BoolVal(val)))[1])

            if attr == "is_closing":
                return Builtin("Transport.is_closing", lambda ip: Sym(st.get("Transport", "$closing", t), BOOL))
            if attr == "resume_reading":
                return setb("$reading", True)
            if attr == "pause_reading":
                return setb("$reading", False)
            if attr == "abort":
                return setb("$aborted", True)
            if attr == "close":
                def close(ip):
                    self.tlog.append("close")
                    st.put("Transport", "$closing", t, z3.BoolVal(True))
                    st.put("Transport", "$closed", t, z3.BoolVal(True))

                return Builtin("Transport.close", close)
            if attr == "set_write_buffer_limits":
                return Builtin("Transport.set_write_buffer_limits", lambda ip, high=None, low=None: st.put("Transport", "$limit0", t, ip.term(high, INT) == 0 if high is not None else z3.BoolVal(False)))
            if attr == "write_eof":
                def write_eof(ip):
                    self.tlog.append("write_eof")
                    if ip.ctx.decide(2, "write_eof-oserror") == 1:
                        lib.raise_("OSError", "transport")
                    st.put("Transport", "$eof_written", t, z3.BoolVal(True))

                return Builtin("Transport.write_eof", write_eof)
            if attr == "write":
                def write(ip, data):
                    self.tlog.append("write")
                    self.written.append(data)
                    self.write_state = H(st, st.snapshot())
                    if ip.ctx.decide(2, "write-runtimeerror") == 1:
                        e = ExcVal(RuntimeError, ())
                        self.write_exc = e
                        raise PyExc(e)
                    st.put("Transport", "$written", t, z3.Concat(st.get("Transport", "$written", t), lib.bytes_term(ip, data)))

                return Builtin("Transport.write", write)
        return NotImplemented


def aev_clear(ip, e):
    ip.st.put("AEvent", "flag", e.t, z3.BoolVal(False))


lib.MODEL_METHODS["AEvent"]["clear"] = aev_clear


# ---- StreamProtocol callbacks ------------------------------------------------------------------------------------------


class ProtoUnit(TransportOps, MethodUnit):
    props = ("C18",)
    spec = PROTO
    trusted = ("E1", "E10", "A-seq")
    contract = None

    def props_of(self, name):
        return {"C18"}

    def __init__(self):
        super().__init__()
        attrs = dict(lib.GLOBALS["asyncio"].attrs) if "asyncio" in lib.GLOBALS else {}
        attrs["Event"] = Builtin("asyncio.Event", lambda ip: lib.new_aevent(ip))
        attrs["Transport"] = None
        attrs["BaseTransport"] = None
        self.globals = {"asyncio": NS("asyncio", attrs), "bytes": Builtin("bytes", lambda ip, x=b"": x), "deque": Builtin("deque", lambda ip: lib.new_empty(ip, DQB))}
        self.tlog, self.written = [], []

    def model_getattr(self, ip, obj, attr):
        return self.transport_getattr(ip, obj, attr)

    def assume_state(self, ip):
        ip.st.use_cvc5 = True
        h = H(ip.st)
        p = self.self_val.t
        ip.st.assume(proto_wf(h, p))
        for n, t in proto_inv(h, p):
            ip.st.assume(t)
        ip.st.assume(slice_lemma(ip.st))

    def assert_proto_inv(self, ip, nm):
        h = H(ip.st)
        for n, t in proto_inv(h, self.self_val.t):
            ip.ctx.oblige(f"{nm}@exit/inv:{n}", t, "inv")

    def on_entry(self, ip, pre, a):
        self.tlog, self.written = [], []


class DataReceived(ProtoUnit):
    method = "data_received"

    def make_args(self, ip):
        self.data = Sym(z3.String("data"), BYTES)
        ip.st.assume(z3.Length(self.data.t) > 0)  # E10: the transport never delivers an empty chunk
        return [self.data], types.SimpleNamespace()

    def before_container_store(self, ip, obj, idx, v):
        pass

    def override_method(self, ip, obj, attr):
        if isinstance(obj, Sym) and obj.ty is DQB and attr == "append":
            def append(ip, x):
                st, p = ip.st, self.self_val.t
                hi = st.get(DQB.cls, "hi", obj.t)
                xs = lib.bytes_term(ip, x)
                newin = z3.Concat(st.get(PC, "$in", p), xs)
                lib.dq_append(ip, obj, x)
                st.put(PC, "$in", p, newin)
                st.put(PC, "$off", p, z3.Store(st.get(PC, "$off", p), hi + 1, z3.Length(newin)))

            return Builtin("deque.append", append)
        return NotImplemented

    def on_exit(self, ip, pre, a, exc, ret):
        p = a.self
        post = H(ip.st)
        nm = "StreamProtocol.data_received"
        self.assert_proto_inv(ip, nm)
        d0, d1 = q(pre, p), q(post, p)
        we = pre.f(PC, "write_event", p)
        ip.ctx.oblige(f"{nm}/post:incoming_data_touches_neither_the_write_gate_nor_the_end_of_stream_state", z3.And(post.f(PC, "write_event", p) == we, flag(post, we) == flag(pre, we), post.f(PC, "exception", p) == pre.f(PC, "exception", p), post.f(PC, "is_at_eof", p) == pre.f(PC, "is_at_eof", p)), "post")
        ip.ctx.oblige(f"{nm}/post:the_chunk_is_queued_at_the_tail_unchanged_and_the_reader_is_woken", z3.And(z3.BoolVal(exc is None), d1.hi == d0.hi + 1, d1.lo == d0.lo, z3.Select(d1.data, d0.hi) == self.data.t, inb(post, p) == z3.Concat(inb(pre, p), self.data.t), flag(post, pre.f(PC, "read_event", p)), nret(post, p) == nret(pre, p)), "post")


class EofReceived(ProtoUnit):
    method = "eof_received"

    def on_exit(self, ip, pre, a, exc, ret):
        p = a.self
        post = H(ip.st)
        nm = "StreamProtocol.eof_received"
        self.assert_proto_inv(ip, nm)
        we = pre.f(PC, "write_event", p)
        ip.ctx.oblige(f"{nm}/post:the_write_gate_is_not_touched_by_the_peers_half_close", z3.And(post.f(PC, "write_event", p) == we, flag(post, we) == flag(pre, we), post.f(PC, "exception", p) == pre.f(PC, "exception", p)), "post")
        ip.ctx.oblige(f"{nm}/post:eof_is_recorded_the_reader_is_woken_and_the_transport_is_kept_open_for_writing", z3.And(z3.BoolVal(exc is None and ret is True), post.f(PC, "is_at_eof", p), flag(post, pre.f(PC, "read_event", p)), inb(post, p) == inb(pre, p), q(post, p).hi == q(pre, p).hi), "post")


class ConnectionLost(ProtoUnit):
    method = "connection_lost"

    def make_args(self, ip):
        self.has_exc = ip.ctx.decide(2, "lost-with-exception") == 1
        self.exc = Sym(z3.Int("transport_exception"), OBJ) if self.has_exc else None
        if self.has_exc:
            ip.st.assume(self.exc.t > 0)
        return [self.exc], types.SimpleNamespace()

    def on_exit(self, ip, pre, a, exc, ret):
        p = a.self
        ip.st.put(PC, "$lost", p, z3.BoolVal(True))
        post = H(ip.st)
        nm = "StreamProtocol.connection_lost"
        self.assert_proto_inv(ip, nm)
        ip.ctx.oblige(f"{nm}/post:the_error_is_recorded_and_both_waiters_are_released", z3.And(z3.BoolVal(exc is None), post.f(PC, "exception", p) == (self.exc.t if self.has_exc else pre.f(PC, "exception", p)), flag(post, pre.f(PC, "read_event", p)), flag(post, pre.f(PC, "write_event", p)), inb(post, p) == inb(pre, p), q(post, p).hi == q(pre, p).hi), "post")


class PauseWriting(ProtoUnit):
    method = "pause_writing"

    def on_exit(self, ip, pre, a, exc, ret):
        p = a.self
        post = H(ip.st)
        ip.ctx.oblige("StreamProtocol.pause_writing/post:the_write_gate_is_closed_for_later_senders_without_unsetting_the_old_event", z3.And(z3.BoolVal(exc is None), z3.Not(flag(post, post.f(PC, "write_event", p))), post.f(PC, "write_event", p) != pre.f(PC, "write_event", p), flag(post, pre.f(PC, "write_event", p)) == flag(pre, pre.f(PC, "write_event", p))), "post")


class ResumeWriting(ProtoUnit):
    method = "resume_writing"

    def on_exit(self, ip, pre, a, exc, ret):
        p = a.self
        post = H(ip.st)
        ip.ctx.oblige("StreamProtocol.resume_writing/post:the_write_gate_is_opened", z3.And(z3.BoolVal(exc is None), flag(post, pre.f(PC, "write_event", p)), post.f(PC, "write_event", p) == pre.f(PC, "write_event", p)), "post")


class ConnectionMade(ProtoUnit):
    method = "connection_made"

    def assume_state(self, ip):
        ip.st.use_cvc5 = True
        ip.st.assume(self.self_val.t > 0)

    def make_args(self, ip):
        self.tr = Sym(z3.Int("transport"), TR)
        ip.st.assume(z3.And(self.tr.t > 0, ip.st.allocated(self.tr.t)))
        return [self.tr], types.SimpleNamespace()

    def on_exit(self, ip, pre, a, exc, ret):
        p = a.self
        st = ip.st
        # ghost initialisation of the new connection
        st.put(PC, "$in", p, z3.StringVal(""))
        st.put(PC, "$nret", p, z3.IntVal(0))
        st.put(PC, "$lost", p, z3.BoolVal(False))
        d = q(H(st), p)
        st.put(PC, "$off", p, z3.Store(st.get(PC, "$off", p), d.lo, z3.IntVal(0)))
        post = H(st)
        nm = "StreamProtocol.connection_made"
        ip.ctx.oblige(f"{nm}/post:empty_queue_reader_gate_closed_writer_gate_open_no_write_buffering", z3.And(z3.BoolVal(exc is None), q(post, p).lo == q(post, p).hi, z3.Not(flag(post, post.f(PC, "read_event", p))), flag(post, post.f(PC, "write_event", p)), post.f(PC, "read_event", p) != post.f(PC, "write_event", p), post.f("Transport", "$limit0", self.tr.t)), "post")
        self.assert_proto_inv(ip, nm)


# ---- ResourceGuard ------------------------------------------------------------------------------------------------------

GUARD = ClassSpec("ResourceGuard")


class GuardEnter(MethodUnit):
    props = ("C18",)
    spec = GUARD
    method = "__enter__"
    contract = None
    trusted = ("E1",)

    def props_of(self, name):
        return {"C18"}

    def on_exit(self, ip, pre, a, exc, ret):
        s = a.self
        post = H(ip.st)
        g0 = pre.f("ResourceGuard", "_guarded", s)
        if exc is not None:
            ip.ctx.oblige("ResourceGuard.__enter__/post:a_second_user_is_refused_with_BusyResourceError_and_the_guard_stays_held", z3.And(z3.BoolVal(exc.pycls is not None and exc.pycls.__name__ == "BusyResourceError"), g0, post.f("ResourceGuard", "_guarded", s)), "post")
        else:
            ip.ctx.oblige("ResourceGuard.__enter__/post:granted_only_when_free_and_then_held", z3.And(z3.Not(g0), post.f("ResourceGuard", "_guarded", s)), "post")


class GuardExit(MethodUnit):
    props = ("C18",)
    spec = GUARD
    method = "__exit__"
    contract = None
    trusted = ("E1",)

    def props_of(self, name):
        return {"C18"}

    def make_args(self, ip):
        return [None, None, None], types.SimpleNamespace()

    def on_exit(self, ip, pre, a, exc, ret):
        post = H(ip.st)
        ip.ctx.oblige("ResourceGuard.__exit__/post:released_and_no_exception_is_swallowed", z3.And(z3.BoolVal(exc is None and not ret), z3.Not(post.f("ResourceGuard", "_guarded", a.self))), "post")


# ---- SocketStream ----------------------------------------------------------------------------------------------------------


class SockUnit(TransportOps, MethodUnit):
    props = ("C18",)
    spec = SOCK
    trusted = ("E1", "E2", "E7", "E10", "A-seq")
    contract = None

    def props_of(self, name):
        return {"C18"}

    def __init__(self):
        super().__init__()
        self.globals = {"AsyncIOBackend": ClassVal("AsyncIOBackend"), "sleep": Builtin("asyncio.sleep", lambda ip, d=0: AwaitableVal("checkpoint"))}
        self.tlog, self.written = [], []
        self.write_exc = None

    def class_getattr(self, ip, cv, attr):
        if cv.name == "AsyncIOBackend" and attr == "checkpoint":
            return Builtin("checkpoint", lambda ip: AwaitableVal("checkpoint"))
        return NotImplemented

    def model_getattr(self, ip, obj, attr):
        return self.transport_getattr(ip, obj, attr)

    def override_method(self, ip, obj, attr):
        if isinstance(obj, Sym) and obj.ty is AEV and attr == "wait":
            def wait(ip):
                self.gate_waits.append((obj.t, len(self.written), H(ip.st, ip.st.snapshot())))
                return lib.aev_wait(ip, obj)

            return Builtin("asyncio.Event.wait", wait)
        return self.more_overrides(ip, obj, attr)

    def more_overrides(self, ip, obj, attr):
        return NotImplemented

    def parts(self, h):
        s = self.self_val.t
        return h.f(SC, "_protocol", s), h.f(SC, "_transport", s), h.f(SC, "_receive_guard", s), h.f(SC, "_send_guard", s)

    def assume_state(self, ip):
        ip.st.use_cvc5 = True
        h = H(ip.st)
        s = self.self_val.t
        p, t, rg, sg = self.parts(h)
        al = h.arr("$", "alloc")
        ip.st.assume(z3.And(s > 0, p > 0, t > 0, rg > 0, sg > 0, rg != sg, z3.Select(al, p), z3.Select(al, t), z3.Select(al, rg), z3.Select(al, sg)))
        ip.st.assume(proto_wf(h, p))
        for n, tm in proto_inv(h, p):
            ip.st.assume(tm)
        # a locally closed stream has a closing transport (set by aclose, never reset)
        ip.st.assume(z3.Implies(h.f(SC, "_closed", s), h.f("Transport", "$closing", t)))

    def on_entry(self, ip, pre, a):
        self.tlog, self.written = [], []
        self.write_exc = None
        self.waited = []
        self.gate_waits = []

    def before_suspend(self, ip, what, payload):
        # the protocol invariant holds whenever the loop gets control
        h = H(ip.st)
        p = self.parts(self.seg)[0]
        for n, t in proto_inv(h, p):
            ip.ctx.oblige(f"{self.qualname}@suspend[{what}]/inv:{n}", t, "inv")
        self.waited.append((what, payload.t if isinstance(payload, Sym) else None, H(ip.st, ip.st.snapshot())))
        super().before_suspend(ip, what, payload)

    def resume_assumptions(self, ip, what, payload):
        h, b = H(ip.st), self.before
        s = self.self_val.t
        for n in ("_protocol", "_transport", "_receive_guard", "_send_guard"):
            ip.st.assume(h.f(SC, n, s) == b.f(SC, n, s))
        p, t, rg, sg = self.parts(h)
        al = h.arr("$", "alloc")
        ip.st.assume(z3.And(z3.Select(al, p), z3.Select(al, t), z3.Select(al, rg), z3.Select(al, sg)))
        ip.st.assume(proto_wf(h, p))
        for n, tm in proto_inv(h, p):
            ip.st.assume(tm)
        for n, tm in proto_rely(b, h, p):
            ip.st.assume(tm)
        ip.st.assume(z3.Implies(h.f(SC, "_closed", s), h.f("Transport", "$closing", t)))
        ip.st.assume(z3.Implies(b.f(SC, "_closed", s), h.f(SC, "_closed", s)))
        ip.st.assume(z3.Implies(b.f("Transport", "$closing", t), h.f("Transport", "$closing", t)))
        # a guard held by this call stays held (only its holder releases it); the reading flag is this receiver's
        for g in self.held(b):
            ip.st.assume(h.f("ResourceGuard", "_guarded", g))
        ip.st.assume(h.f("Transport", "$reading", t) == b.f("Transport", "$reading", t))
        ip.st.assume(h.f("Transport", "$written", t) == b.f("Transport", "$written", t))

    def held(self, h):
        return []


class Receive(SockUnit):
    method = "receive"
    split = (2, 2, 2, 2)

    def make_args(self, ip):
        self.max_bytes = Sym(z3.Int("max_bytes"), INT)
        return [self.max_bytes], types.SimpleNamespace()

    def held(self, h):
        return [self.parts(h)[2]] if getattr(self, "entered", False) else []

    def on_entry(self, ip, pre, a):
        super().on_entry(ip, pre, a)
        self.entered = False

    def more_overrides(self, ip, obj, attr):
        # ghost bookkeeping of the queue offsets around the two head operations of receive()
        if isinstance(obj, Sym) and obj.ty is DQB and attr == "appendleft":
            def appendleft(ip, x):
                st = ip.st
                p = self.parts(H(st))[0]
                lo = st.get(DQB.cls, "lo", obj.t)
                xs = lib.bytes_term(ip, x)
                offs = st.get(PC, "$off", p)
                lib.dq_appendleft(ip, obj, x)
                # the leftover ends where the chunk it was cut from ended
                st.put(PC, "$off", p, z3.Store(offs, lo - 1, z3.Select(offs, lo) - z3.Length(xs)))

            return Builtin("deque.appendleft", appendleft)
        return NotImplemented

    def ghost_exit(self, ip, pre, a, exc, ret):
        # $nret: the bytes handed to the caller
        if exc is None and isinstance(ret, Sym) and ret.ty is BYTES:
            p = self.parts(H(ip.st))[0]
            ip.st.put(PC, "$nret", p, ip.st.get(PC, "$nret", p) + z3.Length(ret.t))
        h = H(ip.st)
        p = self.parts(h)[0]
        for n, t in proto_inv(h, p):
            ip.ctx.oblige(f"SocketStream.receive@exit/inv:{n}", t, "inv")

    def after_resume(self, ip, what, payload):
        super().after_resume(ip, what, payload)

    def on_exit(self, ip, pre, a, exc, ret):
        s = a.self
        post = H(ip.st)
        nm = "SocketStream.receive"
        p, t, rg, sg = self.parts(pre)
        mb = self.max_bytes.t
        g_pre = pre.f("ResourceGuard", "_guarded", rg)
        name = exc.pycls.__name__ if exc is not None and exc.pycls is not None else None
        if name == "ValueError":
            ip.ctx.oblige(f"{nm}/post:ValueError_only_for_max_bytes_below_one_before_anything_is_touched", z3.And(mb < 1, z3.BoolVal(not self.waited and not self.tlog), post.f("ResourceGuard", "_guarded", rg) == g_pre), "post")
            return
        if name == "BusyResourceError":
            ip.ctx.oblige(f"{nm}/post:a_second_reader_is_refused_and_nothing_is_consumed", z3.And(g_pre, post.f("ResourceGuard", "_guarded", rg), z3.BoolVal(not self.waited and not self.tlog), q(post, p).lo == q(pre, p).lo, nret(post, p) == nret(pre, p)), "post")
            return
        ip.ctx.oblige(f"{nm}/post:accepted_only_with_a_valid_max_bytes_and_a_free_direction", z3.And(mb >= 1, z3.Not(g_pre)), "post")
        ip.ctx.oblige(f"{nm}/post:the_receive_guard_is_released_on_every_path", z3.Not(post.f("ResourceGuard", "_guarded", rg)), "post")
        ip.ctx.oblige(f"{nm}/post:reading_is_paused_again_when_receive_ends_normally_or_by_end_of_stream", z3.Implies(z3.BoolVal(name != "CancelledError"), z3.Or(z3.Not(post.f("Transport", "$reading", t)), post.f("Transport", "$reading", t) == pre.f("Transport", "$reading", t))), "post")
        if exc is None:
            r = ip.term(ret, BYTES)
            n0 = nret(pre, p)
            ip.ctx.oblige(f"{nm}/post:returns_a_non_empty_chunk_of_at_most_max_bytes", z3.And(z3.Length(r) >= 1, z3.Length(r) <= mb), "post")
            ip.ctx.oblige(f"{nm}/post:the_chunk_is_exactly_the_next_bytes_of_the_stream_no_loss_no_duplication_no_reordering", z3.And(r == z3.SubString(inb(post, p), n0, z3.Length(r)), nret(post, p) == n0 + z3.Length(r)), "post")
            return
        if name == "CancelledError":
            ip.ctx.oblige(f"{nm}/post:an_interrupted_receive_consumes_nothing", z3.And(nret(post, p) == nret(pre, p), q(post, p).lo == q(pre, p).lo), "post")
            return
        # end conditions: only when no queued data is left; local close > transport error > clean end of stream
        empty = q(post, p).lo == q(post, p).hi
        closed, broken = post.f(SC, "_closed", s), post.f(PC, "exception", p) != 0
        want = {"ClosedResourceError": closed, "BrokenResourceError": z3.And(z3.Not(closed), broken), "EndOfStream": z3.And(z3.Not(closed), z3.Not(broken), z3.Or(post.f(PC, "is_at_eof", p), post.f(PC, "$lost", p), post.f("Transport", "$closing", t)))}.get(name)
        ip.ctx.oblige(f"{nm}/post:ends_only_when_no_received_data_is_left_and_with_the_right_error", z3.And(empty, nret(post, p) == nret(pre, p), want if want is not None else z3.BoolVal(False)), "post")
        if name == "ClosedResourceError":
            pass
        # a locally closed stream never blocks: no wait on the read event
        waited_event = any(w[0] == "aevent" for w in self.waited)
        ip.ctx.oblige(f"{nm}/post:a_stream_that_was_already_closed_locally_does_not_wait_for_data", z3.Implies(pre.f(SC, "_closed", s), z3.BoolVal(not waited_event)), "post")


class Send(SockUnit):
    method = "send"

    def make_args(self, ip):
        self.item = Sym(z3.String("item"), BYTES)
        return [self.item], types.SimpleNamespace()

    def held(self, h):
        return [self.parts(h)[3]] if getattr(self, "entered", False) else []

    def on_exit(self, ip, pre, a, exc, ret):
        s = a.self
        post = H(ip.st)
        nm = "SocketStream.send"
        p, t, rg, sg = self.parts(pre)
        g_pre = pre.f("ResourceGuard", "_guarded", sg)
        name = exc.pycls.__name__ if exc is not None and exc.pycls is not None else None
        nwrites = len(self.written)
        if name == "BusyResourceError":
            ip.ctx.oblige(f"{nm}/post:a_second_writer_is_refused_and_nothing_is_written", z3.And(g_pre, post.f("ResourceGuard", "_guarded", sg), z3.BoolVal(nwrites == 0 and not self.waited)), "post")
            return
        ip.ctx.oblige(f"{nm}/post:accepted_only_with_a_free_direction", z3.Not(g_pre), "post")
        ip.ctx.oblige(f"{nm}/post:the_send_guard_is_released_on_every_path", z3.Not(post.f("ResourceGuard", "_guarded", sg)), "post")
        ip.ctx.oblige(f"{nm}/post:the_item_is_handed_to_the_transport_at_most_once_and_unchanged", z3.BoolVal(nwrites <= 1 and all(w is self.item for w in self.written)), "post")
        if nwrites:
            ws = self.write_state
            ip.ctx.oblige(f"{nm}/post:nothing_is_written_on_a_locally_closed_or_broken_stream", z3.And(z3.Not(ws.f(SC, "_closed", s)), ws.f(PC, "exception", p) == 0), "post")
        if exc is None:
            wev = [w for w in self.waited if w[0] == "aevent"]
            ip.ctx.oblige(f"{nm}/post:returns_only_after_writing_the_item_once_with_the_write_gate_open", z3.And(z3.BoolVal(nwrites == 1 and self.write_exc is None), post.f("Transport", "$written", t) == z3.Concat(pre.f("Transport", "$written", t), self.item.t)), "post")
            gw = self.gate_waits
            ok = len(gw) == 1 and gw[0][1] == 1
            ip.ctx.oblige(f"{nm}/post:back_pressure_after_the_write_it_waits_for_the_write_gate_that_is_current_then", z3.And(z3.BoolVal(ok), gw[0][0] == gw[0][2].f(PC, "write_event", p) if ok else z3.BoolVal(False)), "post")
            return
        if name == "ClosedResourceError":
            ip.ctx.oblige(f"{nm}/post:ClosedResourceError_only_on_a_locally_closed_stream_and_nothing_is_written", z3.And(z3.BoolVal(nwrites == 0), post.f(SC, "_closed", s)), "post")
        elif name == "BrokenResourceError":
            ip.ctx.oblige(f"{nm}/post:BrokenResourceError_only_for_a_transport_error_or_a_write_refused_while_closing", z3.Or(z3.And(z3.BoolVal(nwrites == 0), post.f(PC, "exception", p) != 0), z3.And(z3.BoolVal(self.write_exc is not None), post.f("Transport", "$closing", t))), "post")
        elif name == "CancelledError":
            pass
        else:
            ip.ctx.oblige(f"{nm}/post:any_other_error_is_the_transports_own[{name}]", z3.BoolVal(self.write_exc is not None and exc is self.write_exc), "post")


class SendEof(SockUnit):
    method = "send_eof"

    def on_exit(self, ip, pre, a, exc, ret):
        ip.ctx.oblige("SocketStream.send_eof/post:half_closes_the_transport_once_and_swallows_only_OSError", z3.BoolVal(exc is None and self.tlog == ["write_eof"]), "post")


class Aclose(SockUnit):
    method = "aclose"

    def on_exit(self, ip, pre, a, exc, ret):
        s = a.self
        post = H(ip.st)
        p, t, rg, sg = self.parts(pre)
        nm = "SocketStream.aclose"
        was_closing = pre.f("Transport", "$closing", t)
        ip.ctx.oblige(f"{nm}/post:marked_closed_and_the_transport_is_closing", z3.And(post.f(SC, "_closed", s), post.f("Transport", "$closing", t)), "post")
        if exc is None:
            full = self.tlog == ["write_eof", "close", "abort"]
            ip.ctx.oblige(f"{nm}/post:an_open_transport_gets_eof_close_one_loop_cycle_then_abort_a_closing_one_is_left_alone", z3.If(was_closing, z3.BoolVal(self.tlog == []), z3.BoolVal(full and len(self.waited) == 1)), "post")


UNITS = [SeqLemma, ConnectionMade, DataReceived, EofReceived, ConnectionLost, PauseWriting, ResumeWriting, GuardEnter, GuardExit, Receive, Send, SendEof, Aclose]


# ---- UNIXSocketStream: the raw-socket loops --------------------------------------------------------------------------------

register_class("RawSock", {"$ksent": BYTES, "$closed": BOOL, "$shut_wr": BOOL}, kind="env")
RS = RefT("RawSock")
register_class("RawMixin", {"__raw_socket": RS, "_receive_guard": RG, "_send_guard": RG, "_closing": BOOL}, source=(ASYNCIO, "_RawSocketMixin"))
register_class("UNIXSocketStream", {"__raw_socket": RS, "_receive_guard": RG, "_send_guard": RG, "_closing": BOOL}, source=(ASYNCIO, "UNIXSocketStream"), bases=("RawMixin",))
UX = "UNIXSocketStream"

WAIT_IO = Contract(
    "_RawSocketMixin._wait_until_readable/_writable",
    requires=lambda h, a: [],
    cases=[
        Case("ready_or_closed", when=lambda pre, a: True, ensures=lambda pre, post, a, ret: []),
        Case("cancelled", when=lambda pre, a: True, raises="CancelledError", ensures=lambda pre, post, a, ret: []),
    ],
    bind=lambda ip, args, kwargs: types.SimpleNamespace(self=args[0].t, cur=ip.ctx.cur.t),
    suspends=True,
)


def ux_send_loop_inv(ip, env):
    u = ip.ctx.unit
    h = H(ip.st)
    s = u.self_val.t
    sock = h.f(UX, "__raw_socket", s)
    view = ip.term(env.vars["view"], BYTES)
    item = u.item.t
    done = z3.Length(item) - z3.Length(view)
    return [
        ("the_kernel_has_been_given_exactly_the_part_of_the_item_before_the_view", z3.And(done >= 0, view == z3.SubString(item, done, z3.Length(view)), h.f("RawSock", "$ksent", sock) == z3.Concat(u.seg0.f("RawSock", "$ksent", sock), z3.SubString(item, 0, done)))),
        ("the_send_guard_is_held_by_this_call", h.f("ResourceGuard", "_guarded", h.f(UX, "_send_guard", s))),
    ]


def ux_recv_loop_inv(ip, env):
    u = ip.ctx.unit
    h = H(ip.st)
    s = u.self_val.t
    return [("the_receive_guard_is_held_by_this_call", h.f("ResourceGuard", "_guarded", h.f(UX, "_receive_guard", s)))]


def ux_after_havoc(ip, env):
    u = ip.ctx.unit
    u.reassume(ip, ip.ctx.loop_entry)


class UnixUnit(MethodUnit):
    props = ("C18",)
    spec = ClassSpec(UX)
    trusted = ("E1", "E10", "A-seq", "A-wait")
    contract = None
    contracts = {"_RawSocketMixin._wait_until_readable": WAIT_IO, "_RawSocketMixin._wait_until_writable": WAIT_IO}

    def props_of(self, name):
        return {"C18"}

    def __init__(self):
        super().__init__()
        self.globals = {
            "AsyncIOBackend": ClassVal("AsyncIOBackend"),
            "get_running_loop": Builtin("get_running_loop", lambda ip: Sym(z3.Int("the_loop"), OBJ)),
            "memoryview": Builtin("memoryview", lambda ip, x: x),
            "socket": NS("socket", {"SHUT_WR": 1}),
        }

    def contract_for(self, qualname, ctx):
        c = self.contracts.get(qualname)
        if c is None:
            return None

        class Aw:  # a plain function that returns an awaitable: the contract applies where it is awaited
            suspends = False

            def apply(self_, ip, f, args, kwargs):
                return AwaitableVal("contract", lambda: c.apply(ip, f, args, kwargs))

        return Aw()

    def class_getattr(self, ip, cv, attr):
        if cv.name == "AsyncIOBackend" and attr == "checkpoint":
            return Builtin("checkpoint", lambda ip: AwaitableVal("checkpoint"))
        return NotImplemented

    def model_getattr(self, ip, obj, attr):
        st = ip.st
        if isinstance(obj, Sym) and obj.ty is RS:
            if attr == "recv":
                def recv(ip, n):
                    self.recv_calls.append(n)
                    k = ip.ctx.decide(4, "recv")
                    if k == 1:
                        lib.raise_("BlockingIOError", "would block")
                    if k == 2:
                        e = ExcVal(ConnectionResetError, ())
                        self.os_error = e
                        raise PyExc(e)
                    d = Sym(st.fresh("received", z3.StringSort()), BYTES)
                    st.assume(z3.Length(d.t) <= ip.term(n, INT))  # E10: recv(n) returns at most n bytes
                    st.assume((z3.Length(d.t) == 0) if k == 3 else (z3.Length(d.t) >= 1))
                    self.recv_result = d
                    return d

                return Builtin("socket.recv", recv)
            if attr == "send":
                def send(ip, view):
                    k = ip.ctx.decide(3, "send")
                    if k == 1:
                        lib.raise_("BlockingIOError", "would block")
                    if k == 2:
                        e = ExcVal(BrokenPipeError, ())
                        self.os_error = e
                        raise PyExc(e)
                    v = lib.bytes_term(ip, view)
                    n = st.fresh("bytes_sent", z3.IntSort())
                    st.assume(z3.And(n >= 1, n <= z3.Length(v)))  # E10: the kernel takes a non-empty prefix of the buffer
                    st.put("RawSock", "$ksent", obj.t, z3.Concat(st.get("RawSock", "$ksent", obj.t), z3.SubString(v, 0, n)))
                    return Sym(n, INT)

                return Builtin("socket.send", send)
            if attr == "shutdown":
                return Builtin("socket.shutdown", lambda ip, how: st.put("RawSock", "$shut_wr", obj.t, z3.BoolVal(True)))
        return NotImplemented

    def override_method(self, ip, obj, attr):
        if isinstance(obj, Sym) and obj.ty is RG and attr == "__enter__":
            f = ip.find_method("ResourceGuard", "__enter__")[0]

            def enter(ip):
                r = ip.call_function(f, [obj], {})  # the real ResourceGuard.__enter__ (may raise BusyResourceError)
                self.entered_guard = obj.t
                return r

            return Builtin("ResourceGuard.__enter__", enter)
        return NotImplemented

    def assume_state(self, ip):
        ip.st.use_cvc5 = True
        self.reassume(ip, None)
        ip.st.assume(slice_lemma(ip.st))

    def reassume(self, ip, entry):
        h = H(ip.st)
        s = self.self_val.t
        al = h.arr("$", "alloc")
        sock, rg, sg = h.f(UX, "__raw_socket", s), h.f(UX, "_receive_guard", s), h.f(UX, "_send_guard", s)
        ip.st.assume(z3.And(s > 0, sock > 0, rg > 0, sg > 0, rg != sg, z3.Select(al, sock), z3.Select(al, rg), z3.Select(al, sg)))
        if entry is not None:
            for f_ in ("__raw_socket", "_receive_guard", "_send_guard"):
                ip.st.assume(h.f(UX, f_, s) == entry.f(UX, f_, s))

    def on_entry(self, ip, pre, a):
        self.seg0 = pre
        self.recv_calls, self.recv_result, self.os_error = [], None, None
        self.entered_guard = None

    def resume_assumptions(self, ip, what, payload):
        h, b = H(ip.st), self.before
        s = self.self_val.t
        self.reassume(ip, b)
        sock = b.f(UX, "__raw_socket", s)
        # nobody else writes to this socket's send direction / holds our guards while we wait (the guards enforce it)
        ip.st.assume(h.f("RawSock", "$ksent", sock) == b.f("RawSock", "$ksent", sock))
        for g in (b.f(UX, "_receive_guard", s), b.f(UX, "_send_guard", s)):
            ip.st.assume(z3.Implies(b.f("ResourceGuard", "_guarded", g), h.f("ResourceGuard", "_guarded", g)))
        ip.st.assume(z3.Implies(b.f(UX, "_closing", s), h.f(UX, "_closing", s)))


class UnixSend(UnixUnit):
    method = "send"
    loops = {("UNIXSocketStream.send", 0): LoopSpec(ux_send_loop_inv, modifies=None, after_havoc=ux_after_havoc, local_types={"view": BYTES, "bytes_sent": INT})}

    def make_args(self, ip):
        self.item = Sym(z3.String("item"), BYTES)
        return [self.item], types.SimpleNamespace()

    def on_exit(self, ip, pre, a, exc, ret):
        s = a.self
        post = H(ip.st)
        nm = "UNIXSocketStream.send"
        sock, sg = pre.f(UX, "__raw_socket", s), pre.f(UX, "_send_guard", s)
        name = exc.pycls.__name__ if exc is not None and exc.pycls is not None else None
        g_pre = pre.f("ResourceGuard", "_guarded", sg)
        if name == "BusyResourceError":
            ip.ctx.oblige(f"{nm}/post:a_second_writer_is_refused_and_nothing_is_sent", z3.And(post.f("ResourceGuard", "_guarded", sg), post.f("RawSock", "$ksent", sock) == self.before.f("RawSock", "$ksent", sock) if getattr(self, "before", None) is not None else z3.BoolVal(True)), "post")
            return
        if self.entered_guard is not None:
            ip.ctx.oblige(f"{nm}/post:the_send_guard_is_released_on_every_path", z3.Not(post.f("ResourceGuard", "_guarded", sg)), "post")
        if exc is None:
            ip.ctx.oblige(f"{nm}/post:the_kernel_has_been_given_the_whole_item_once_in_order", post.f("RawSock", "$ksent", sock) == z3.Concat(self.seg0.f("RawSock", "$ksent", sock), self.item.t), "post")
        elif name in ("ClosedResourceError", "BrokenResourceError"):
            ip.ctx.oblige(f"{nm}/post:a_socket_error_is_ClosedResourceError_on_a_closing_stream_and_BrokenResourceError_otherwise", z3.And(z3.BoolVal(self.os_error is not None), post.f(UX, "_closing", s) == z3.BoolVal(name == "ClosedResourceError")), "post")


class UnixReceive(UnixUnit):
    method = "receive"
    loops = {("UNIXSocketStream.receive", 0): LoopSpec(ux_recv_loop_inv, modifies=None, after_havoc=ux_after_havoc)}

    def make_args(self, ip):
        self.max_bytes = Sym(z3.Int("max_bytes"), INT)
        return [self.max_bytes], types.SimpleNamespace()

    def on_exit(self, ip, pre, a, exc, ret):
        s = a.self
        post = H(ip.st)
        nm = "UNIXSocketStream.receive"
        rg = pre.f(UX, "_receive_guard", s)
        mb = self.max_bytes.t
        name = exc.pycls.__name__ if exc is not None and exc.pycls is not None else None
        if name == "ValueError":
            ip.ctx.oblige(f"{nm}/post:ValueError_only_for_max_bytes_below_one_and_nothing_is_read", z3.And(mb < 1, z3.BoolVal(not self.recv_calls)), "post")
            return
        if name == "BusyResourceError":
            ip.ctx.oblige(f"{nm}/post:a_second_reader_is_refused_and_nothing_is_read", z3.BoolVal(not self.recv_calls), "post")
            return
        if self.entered_guard is not None:
            ip.ctx.oblige(f"{nm}/post:the_receive_guard_is_released_on_every_path", z3.Not(post.f("ResourceGuard", "_guarded", rg)), "post")
        ip.ctx.oblige(f"{nm}/post:every_read_of_the_socket_asks_for_exactly_max_bytes", z3.BoolVal(all(n is self.max_bytes for n in self.recv_calls)), "post")
        if exc is None:
            r = ip.term(ret, BYTES)
            ip.ctx.oblige(f"{nm}/post:returns_the_non_empty_data_the_socket_gave_unchanged_at_most_max_bytes", z3.And(z3.BoolVal(self.recv_result is not None and isinstance(ret, Sym) and ret.t.eq(self.recv_result.t)), z3.Length(r) >= 1, z3.Length(r) <= mb), "post")
        elif name == "EndOfStream":
            ip.ctx.oblige(f"{nm}/post:end_of_stream_only_for_an_empty_read", z3.BoolVal(self.recv_result is not None) if self.recv_result is None else z3.Length(self.recv_result.t) == 0, "post")
        elif name in ("ClosedResourceError", "BrokenResourceError"):
            ip.ctx.oblige(f"{nm}/post:a_socket_error_is_ClosedResourceError_on_a_closing_stream_and_BrokenResourceError_otherwise", z3.And(z3.BoolVal(self.os_error is not None), post.f(UX, "_closing", s) == z3.BoolVal(name == "ClosedResourceError")), "post")


UNITS += [UnixSend, UnixReceive]


# ---- _RawSocketMixin.aclose: closing wakes BOTH directions ---------------------------------------------------------------------------
# (seed C18-s5: only one of the two pending waiters was woken - a writer blocked on back-pressure stayed blocked on a closed stream)

FUT = RefT("Future")
register_class("RawMixin", dict(CLASSES["RawMixin"].fields, _receive_future=FUT, _send_future=FUT), source=(ASYNCIO, "_RawSocketMixin"))
register_class("UNIXSocketStream", dict(CLASSES["UNIXSocketStream"].fields, _receive_future=FUT, _send_future=FUT), source=(ASYNCIO, "UNIXSocketStream"), bases=("RawMixin",))


class RawAclose(UnixUnit):
    """_RawSocketMixin.aclose(): the first call marks the stream closing, closes the socket (unless it is already
    detached) and resolves BOTH the pending read waiter and the pending write waiter, so that no task stays blocked on a
    locally closed stream; a second call does nothing."""

    method = "aclose"
    trusted = ("E1", "E10")

    def model_getattr(self, ip, obj, attr):
        st = ip.st
        if isinstance(obj, Sym) and obj.ty is RS:
            if attr == "fileno":
                return Builtin("socket.fileno", lambda ip: Sym(st.fresh("fileno", z3.IntSort()), INT))
            if attr == "close":
                def close(ip):
                    self.closes += 1
                    st.put("RawSock", "$closed", obj.t, z3.BoolVal(True))

                return Builtin("socket.close", close)
        return super().model_getattr(ip, obj, attr)

    def assume_state(self, ip):
        self.reassume(ip, None)
        h = H(ip.st)
        s = self.self_val.t
        al = h.arr("$", "alloc")
        for f_ in ("_receive_future", "_send_future"):
            r = h.f(UX, f_, s)
            ip.st.assume(z3.Or(r == 0, z3.And(r > 0, z3.Select(al, r))))
        ip.st.assume(z3.Or(h.f(UX, "_receive_future", s) == 0, h.f(UX, "_receive_future", s) != h.f(UX, "_send_future", s)))

    def on_entry(self, ip, pre, a):
        super().on_entry(ip, pre, a)
        self.closes = 0

    def on_exit(self, ip, pre, a, exc, ret):
        s = a.self
        post = H(ip.st)
        nm = "_RawSocketMixin.aclose"
        if exc is not None:
            ip.ctx.oblige(f"{nm}/post:never_raises", z3.BoolVal(exc.pycls is not None and exc.pycls.__name__ == "CancelledError"), "post")
            return
        was_closing = pre.f(UX, "_closing", s)
        rf, sf = pre.f(UX, "_receive_future", s), pre.f(UX, "_send_future", s)
        st_of = lambda h, f: h.f("Future", "state", f)
        ip.ctx.oblige(f"{nm}/post:the_stream_is_marked_closing", post.f(UX, "_closing", s), "post")
        ip.ctx.oblige(f"{nm}/post:the_first_call_leaves_no_pending_waiter_in_either_direction", z3.Implies(z3.Not(was_closing), z3.And(z3.Or(rf == 0, st_of(post, rf) != lib.PENDING), z3.Or(sf == 0, st_of(post, sf) != lib.PENDING))), "post")
        ip.ctx.oblige(f"{nm}/post:a_second_call_does_nothing", z3.Implies(was_closing, z3.And(z3.BoolVal(self.closes == 0), post.arr("Future", "state") == pre.arr("Future", "state"))), "post")
        ip.ctx.oblige(f"{nm}/post:the_socket_is_closed_at_most_once", z3.BoolVal(self.closes <= 1), "post")


UNITS += [RawAclose]


class UnixSendEof(UnixUnit):
    """UNIXSocketStream.send_eof(): the write side is shut down only while this call holds the send guard, so a send_eof()
    while another task is inside send() is refused with BusyResourceError and shuts nothing down (seed C18-s6 dropped the
    guard: the stream was half-closed in the middle of another task's item)."""

    method = "send_eof"
    trusted = ("E1", "E10")

    def model_getattr(self, ip, obj, attr):
        st = ip.st
        if isinstance(obj, Sym) and obj.ty is RS and attr == "shutdown":
            def shutdown(ip, how):
                self.shutdowns.append(self.entered_guard)
                st.put("RawSock", "$shut_wr", obj.t, z3.BoolVal(True))

            return Builtin("socket.shutdown", shutdown)
        return super().model_getattr(ip, obj, attr)

    def on_entry(self, ip, pre, a):
        super().on_entry(ip, pre, a)
        self.shutdowns = []

    def on_exit(self, ip, pre, a, exc, ret):
        s = a.self
        post = H(ip.st)
        nm = "UNIXSocketStream.send_eof"
        sock, sg = pre.f(UX, "__raw_socket", s), pre.f(UX, "_send_guard", s)
        name = exc.pycls.__name__ if exc is not None and exc.pycls is not None else None
        held = [g is not None and g.eq(sg) for g in self.shutdowns]
        if not all(held):
            ip.ctx.fail(f"{nm}/post:the_write_side_is_shut_down_only_while_this_call_holds_the_send_guard", "post", "socket.shutdown() was called without the send guard being held by this call")
        else:
            ip.ctx.oblige(f"{nm}/post:the_write_side_is_shut_down_only_while_this_call_holds_the_send_guard", z3.BoolVal(True), "post")
        if name == "BusyResourceError":
            ip.ctx.oblige(f"{nm}/post:a_busy_send_direction_is_refused_and_nothing_is_shut_down", z3.And(pre.f("ResourceGuard", "_guarded", sg), z3.BoolVal(not self.shutdowns), post.f("RawSock", "$shut_wr", sock) == pre.f("RawSock", "$shut_wr", sock)), "post")
            return
        if exc is None:
            ip.ctx.oblige(f"{nm}/post:on_return_the_write_side_is_shut_down_once_and_the_guard_is_released", z3.And(z3.BoolVal(len(self.shutdowns) == 1), post.f("RawSock", "$shut_wr", sock), z3.Not(post.f("ResourceGuard", "_guarded", sg)), z3.Not(pre.f("ResourceGuard", "_guarded", sg))), "post")


UNITS += [UnixSendEof]
