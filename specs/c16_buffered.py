"""C16 -- buffered and text stream wrappers are transparent to chunking.

Functions under contract:
  anyio/streams/buffered.py  BufferedByteReceiveStream.receive, receive_exactly, receive_until, feed_data, buffer
                             (+ the dataclass-generated constructor)
  anyio/streams/text.py      TextReceiveStream.receive, TextSendStream.send (pass-through contracts relative to the
                             assumed codec contract E10)

Byte strings are z3 sequences (String sort: only the structure matters); a bytearray is a heap object holding one.
Ghost history variables of a BufferedByteReceiveStream:
  $in   every byte ever appended -- by feed_data() or taken from the wrapped stream -- in order
  $out  every byte handed out by receive / receive_exactly / receive_until, plus the delimiters consumed, in order
Invariant:  $in == $out ++ _buffer   ("the bytes handed out are, in order, exactly a prefix of the fed and received
bytes: nothing dropped, duplicated or reordered").  Obligations are discharged by z3 and, where its sequence solver
gives up, by cvc5 --strings-exp on the same SMT-LIB text.
"""
import types

import z3

from segvc import lib
from segvc.core import BOOL, BYTES, CLASSES, INT, H, RefT, Sym, Unsupported, register_class
from segvc.interp import AwaitableVal, Builtin, ClassVal
from segvc.unit import Case, ClassSpec, Contract, LemmaUnit, LoopSpec, MethodUnit

BUF = "anyio/streams/buffered.py"
TXT = "anyio/streams/text.py"

register_class("WStream", {"is_byte": BOOL}, kind="env")  # the wrapped stream (opaque): byte stream or object stream of bytes
WS = RefT("WStream")
BA = lib.BA
register_class("BufRecv", {"receive_stream": WS, "_buffer": BA, "_closed": BOOL, "$in": BYTES, "$out": BYTES}, source=(BUF, "BufferedByteReceiveStream"))
CLASSES["BufRecv"].ghost_fields = {"$in", "$out"}
C = "BufRecv"
SPEC = ClassSpec(C)


def bufval(h, s):
    return h.f("ByteArray", "val", h.f(C, "_buffer", s))


def gin(h, s):
    return h.f(C, "$in", s)


def gout(h, s):
    return h.f(C, "$out", s)


@SPEC.assume("buffer_is_an_object")
def _(h, s, cur):
    al = h.arr("$", "alloc")
    return z3.And(h.f(C, "_buffer", s) > 0, h.f(C, "receive_stream", s) > 0, z3.Select(al, h.f(C, "_buffer", s)), z3.Select(al, h.f(C, "receive_stream", s)))


@SPEC.invariant("I1_handed_out_bytes_then_buffer_is_everything_fed_and_received")
def _(h, s, cur):
    return gin(h, s) == z3.Concat(gout(h, s), bufval(h, s))


def own_state_unchanged(a, b, s):
    return z3.And(
        a.f(C, "_buffer", s) == b.f(C, "_buffer", s),
        bufval(a, s) == bufval(b, s),
        a.f(C, "_closed", s) == b.f(C, "_closed", s),
        a.f(C, "receive_stream", s) == b.f(C, "receive_stream", s),
        a.f("WStream", "is_byte", a.f(C, "receive_stream", s)) == b.f("WStream", "is_byte", a.f(C, "receive_stream", s)),
        gin(a, s) == gin(b, s),
        gout(a, s) == gout(b, s),
    )


def bind_ws(ip, args, kwargs):
    n = args[1] if len(args) > 1 else kwargs.get("max_bytes")
    return types.SimpleNamespace(self=args[0].t, cur=ip.ctx.cur.t, n=None if n is None else ip.term(n, INT), is_byte=ip.st.get("WStream", "is_byte", args[0].t))


def ws_chunk_post(pre, post, a, ret):
    out = [("chunk_is_not_empty", z3.Length(ret) >= 1)]  # E10: a byte stream returns 1..n bytes; an object stream of bytes does not yield b""
    if a.n is not None:
        out.append(("at_most_max_bytes", z3.Implies(a.is_byte, z3.Length(ret) <= a.n)))
    return out


WS_RECEIVE = Contract(
    "WStream.receive",
    requires=lambda h, a: [("max_bytes_positive", a.n >= 1)] if a.n is not None else [],
    cases=[
        Case("chunk", when=lambda pre, a: True, ret_ty=BYTES, ensures=ws_chunk_post),
        Case("end_of_stream", when=lambda pre, a: True, raises="EndOfStream", ensures=lambda pre, post, a, ret: []),
        Case("broken", when=lambda pre, a: True, raises="BrokenResourceError", ensures=lambda pre, post, a, ret: []),
        Case("cancelled", when=lambda pre, a: True, raises="CancelledError", ensures=lambda pre, post, a, ret: []),
    ],
    bind=bind_ws,
    suspends=True,
)


class BufUnit(MethodUnit):
    props = ("C16",)
    spec = SPEC
    trusted = ("E1", "E10-stream", "A-single-user", "A-dataclass", "A-seq")
    globals = {"ByteReceiveStream": ClassVal("ByteReceiveStream")}

    def run(self, ip):
        ip.st.use_cvc5 = True
        ip.st.assume(lib.occ_definition(ip.st))
        ip.st.assume(lib.occ_prefix_lemma(ip.st))
        return super().run(ip)

    def model_getattr(self, ip, obj, attr):
        if isinstance(obj, Sym) and obj.ty is WS and attr == "receive":
            return Builtin("WStream.receive", lambda ip, *a, **k: AwaitableVal("contract", lambda: WS_RECEIVE.apply(ip, None, [obj] + list(a), k)))
        return NotImplemented

    def isinstance(self, ip, x, cls):
        if isinstance(x, Sym) and x.ty is WS and isinstance(cls, ClassVal) and cls.name == "ByteReceiveStream":
            return Sym(ip.st.get("WStream", "is_byte", x.t), BOOL)
        return NotImplemented

    def resume_assumptions(self, ip, what, payload):
        st, s, cur = ip.st, self.self_val.t, ip.ctx.cur.t
        h = H(st)
        for n, t in self.spec.assumed_terms(h, s, cur):
            st.assume(t)
        # A-single-user: one task at a time uses a stream object (concurrent use of one receive direction is rejected
        # by the resource guards of the transport streams, C18); nobody else touches this wrapper while it waits
        st.assume(own_state_unchanged(self.before, h, s))

    def after_suspending_call(self, ip, contract, a, case, exc, ret=None):
        if contract is WS_RECEIVE and ret is not None:
            s = self.self_val.t
            ip.st.put(C, "$in", s, z3.Concat(ip.st.get(C, "$in", s), ret.t))

    def handed_out(self, ip, ret_t):
        s = self.self_val.t
        ip.st.put(C, "$out", s, z3.Concat(ip.st.get(C, "$out", s), ret_t))

    def guarantee(self, seg, now, s, cur):
        return []


def pre_state(fn):
    return lambda pre, a: fn(pre, a)


# ---- receive(max_bytes)


class Receive(BufUnit):
    method = "receive"
    contract = Contract(
        "BufferedByteReceiveStream.receive",
        requires=lambda h, a: [],
        cases=[
            Case("bad_max_bytes", when=lambda pre, a: a.n < 1, raises="ValueError", ensures=lambda pre, post, a, ret: [("consumes_nothing", own_state_unchanged(pre, post, a.self))]),
            Case("closed", when=lambda pre, a: z3.And(a.n >= 1, pre.f(C, "_closed", a.self)), raises="ClosedResourceError", ensures=lambda pre, post, a, ret: [("consumes_nothing", own_state_unchanged(pre, post, a.self))]),
            Case(
                "chunk",
                when=lambda pre, a: z3.And(a.n >= 1, z3.Not(pre.f(C, "_closed", a.self))),
                ret_ty=BYTES,
                ensures=lambda pre, post, a, ret: [
                    ("returns_1_to_max_bytes_bytes", z3.And(z3.Length(ret) >= 1, z3.Length(ret) <= a.n)),
                    ("handed_out_exactly_the_returned_bytes", gout(post, a.self) == z3.Concat(gout(pre, a.self), ret)),
                    ("buffered_bytes_are_served_first", z3.Implies(z3.Length(bufval(pre, a.self)) > 0, z3.And(ret == z3.SubString(bufval(pre, a.self), 0, a.n), gin(post, a.self) == gin(pre, a.self)))),
                ],
            ),
            Case("end_of_stream", when=lambda pre, a: z3.And(a.n >= 1, z3.Not(pre.f(C, "_closed", a.self))), raises="EndOfStream", ensures=lambda pre, post, a, ret: [("consumes_nothing", own_state_unchanged(pre, post, a.self))]),
            Case("broken", when=lambda pre, a: True, raises="BrokenResourceError", ensures=lambda pre, post, a, ret: [("consumes_nothing", own_state_unchanged(pre, post, a.self))]),
            Case("cancelled", when=lambda pre, a: True, raises="CancelledError", ensures=lambda pre, post, a, ret: [("consumes_nothing", own_state_unchanged(pre, post, a.self))]),
        ],
        bind=None,
    )

    def make_args(self, ip):
        n = Sym(z3.Int("max_bytes"), INT)
        return [n], types.SimpleNamespace(n=n.t)

    def ghost_exit(self, ip, pre, a, exc, ret):
        if exc is None:
            self.handed_out(ip, lib.bytes_term(ip, ret))


def reassume_model_facts(ip, env):
    u = ip.ctx.unit
    for n, t in SPEC.assumed_terms(H(ip.st), u.self_val.t, ip.ctx.cur.t):
        ip.st.assume(t)


# ---- receive_exactly(nbytes)


def exactly_loop_inv(ip, env):
    u = ip.ctx.unit
    h = H(ip.st)
    s = u.self_val.t
    pre = u.entry
    return [(n, t) for n, t in SPEC.inv_terms(h, s, ip.ctx.cur.t)] + [
        ("nothing_handed_out_yet", gout(h, s) == gout(pre, s)),
        ("buffer_only_grows", z3.And(h.f(C, "_buffer", s) == pre.f(C, "_buffer", s), z3.PrefixOf(bufval(pre, s), bufval(h, s)))),
        ("rest_unchanged", z3.And(h.f(C, "_closed", s) == pre.f(C, "_closed", s), h.f(C, "receive_stream", s) == pre.f(C, "receive_stream", s))),
    ]


class ReceiveExactly(BufUnit):
    method = "receive_exactly"
    loops = {("BufferedByteReceiveStream.receive_exactly", 0): LoopSpec(exactly_loop_inv, modifies=None, after_havoc=reassume_model_facts, local_types={"remaining": INT, "chunk": BYTES})}
    contract = Contract(
        "BufferedByteReceiveStream.receive_exactly",
        requires=lambda h, a: [("nbytes_is_not_negative", a.n >= 0)],
        cases=[
            Case(
                "exactly",
                when=lambda pre, a: True,
                ret_ty=BYTES,
                ensures=lambda pre, post, a, ret: [("returns_exactly_nbytes", z3.Length(ret) == a.n), ("handed_out_exactly_the_returned_bytes", gout(post, a.self) == z3.Concat(gout(pre, a.self), ret))],
            ),
            Case("incomplete", when=lambda pre, a: True, raises="IncompleteRead", ensures=lambda pre, post, a, ret: [("a_failing_call_consumes_nothing", z3.And(gout(post, a.self) == gout(pre, a.self), z3.PrefixOf(bufval(pre, a.self), bufval(post, a.self))))]),
            Case("broken", when=lambda pre, a: True, raises="BrokenResourceError", ensures=lambda pre, post, a, ret: [("a_failing_call_consumes_nothing", z3.And(gout(post, a.self) == gout(pre, a.self), z3.PrefixOf(bufval(pre, a.self), bufval(post, a.self))))]),
            Case("cancelled", when=lambda pre, a: True, raises="CancelledError", ensures=lambda pre, post, a, ret: [("a_failing_call_consumes_nothing", z3.And(gout(post, a.self) == gout(pre, a.self), z3.PrefixOf(bufval(pre, a.self), bufval(post, a.self))))]),
        ],
        bind=None,
    )

    def make_args(self, ip):
        n = Sym(z3.Int("nbytes"), INT)
        return [n], types.SimpleNamespace(n=n.t)

    def on_entry(self, ip, pre, a):
        self.entry = pre

    def ghost_exit(self, ip, pre, a, exc, ret):
        if exc is None:
            self.handed_out(ip, lib.bytes_term(ip, ret))


# ---- receive_until(delimiter, max_bytes)


def no_occurrence_below(st, buf, d, off):
    """the delimiter does not occur at any position < off of buf"""
    j = z3.Int(st.uniq("j"))
    return z3.ForAll([j], z3.Implies(z3.And(j >= 0, j < off), z3.Not(lib.occ(buf, d, j))), patterns=[lib.occ(buf, d, j)])


def until_loop_inv(ip, env):
    u = ip.ctx.unit
    h = H(ip.st)
    s = u.self_val.t
    pre = u.entry
    off = ip.term(env.vars["offset"], INT)
    return [(n, t) for n, t in SPEC.inv_terms(h, s, ip.ctx.cur.t)] + [
        ("nothing_handed_out_yet", gout(h, s) == gout(pre, s)),
        ("buffer_only_grows", z3.And(h.f(C, "_buffer", s) == pre.f(C, "_buffer", s), z3.PrefixOf(bufval(pre, s), bufval(h, s)))),
        ("no_occurrence_of_the_delimiter_starts_below_offset", z3.And(off >= 0, no_occurrence_below(ip.st, bufval(h, s), u.delim, off))),
        ("rest_unchanged", z3.And(h.f(C, "_closed", s) == pre.f(C, "_closed", s), h.f(C, "receive_stream", s) == pre.f(C, "receive_stream", s))),
    ]


def unconsumed(pre, post, a):
    """the bytes that were fed/received but not handed out before this call returned: $in_now minus $out_pre"""
    return z3.SubString(gin(post, a.self), z3.Length(gout(pre, a.self)), z3.Length(gin(post, a.self)))


def nothing_consumed(pre, post, a):
    return z3.And(gout(post, a.self) == gout(pre, a.self), z3.PrefixOf(bufval(pre, a.self), bufval(post, a.self)))


class ReceiveUntil(BufUnit):
    method = "receive_until"
    loops = {("BufferedByteReceiveStream.receive_until", 0): LoopSpec(until_loop_inv, modifies=None, after_havoc=reassume_model_facts, local_types={"index": INT, "offset": INT, "data": BYTES})}
    contract = Contract(
        "BufferedByteReceiveStream.receive_until",
        requires=lambda h, a: [("delimiter_is_not_empty", z3.Length(a.d) >= 1)],
        cases=[
            Case(
                "found",
                when=lambda pre, a: True,
                ret_ty=BYTES,
                ensures=lambda pre, post, a, ret: [
                    ("consumed_the_returned_bytes_and_the_delimiter", gout(post, a.self) == z3.Concat(gout(pre, a.self), ret, a.d)),
                    (
                        "returned_bytes_end_where_the_delimiter_first_occurs",
                        z3.And(ret == z3.SubString(unconsumed(pre, post, a), 0, z3.Length(ret)), lib.occ(unconsumed(pre, post, a), a.d, z3.Length(ret)), no_occurrence_below(pre.st, unconsumed(pre, post, a), a.d, z3.Length(ret))),
                    ),
                ],
            ),
            Case(
                "delimiter_not_found",
                when=lambda pre, a: True,
                raises="DelimiterNotFound",
                ensures=lambda pre, post, a, ret: [
                    ("only_if_absent_from_the_first_max_bytes_bytes", z3.And(z3.Length(bufval(post, a.self)) >= a.m, no_occurrence_below(pre.st, bufval(post, a.self), a.d, z3.Length(bufval(post, a.self)) + 1))),
                    ("a_failing_call_consumes_nothing", nothing_consumed(pre, post, a)),
                ],
            ),
            Case("incomplete", when=lambda pre, a: True, raises="IncompleteRead", ensures=lambda pre, post, a, ret: [("a_failing_call_consumes_nothing", nothing_consumed(pre, post, a))]),
            Case("broken", when=lambda pre, a: True, raises="BrokenResourceError", ensures=lambda pre, post, a, ret: [("a_failing_call_consumes_nothing", nothing_consumed(pre, post, a))]),
            Case("cancelled", when=lambda pre, a: True, raises="CancelledError", ensures=lambda pre, post, a, ret: [("a_failing_call_consumes_nothing", nothing_consumed(pre, post, a))]),
        ],
        bind=None,
    )

    def make_args(self, ip):
        d = Sym(z3.String("delimiter"), BYTES)
        m = Sym(z3.Int("max_bytes"), INT)
        self.delim = d.t
        return [d, m], types.SimpleNamespace(d=d.t, m=m.t)

    def on_entry(self, ip, pre, a):
        self.entry = pre

    def ghost_exit(self, ip, pre, a, exc, ret):
        if exc is None:
            self.handed_out(ip, z3.Concat(lib.bytes_term(ip, ret), self.delim))


# ---- feed_data / buffer


class FeedData(BufUnit):
    method = "feed_data"
    contract = Contract(
        "BufferedByteReceiveStream.feed_data",
        requires=lambda h, a: [],
        cases=[Case("fed", when=lambda pre, a: True, ensures=lambda pre, post, a, ret: [("appended_to_the_buffer_in_order", z3.And(bufval(post, a.self) == z3.Concat(bufval(pre, a.self), a.data), gout(post, a.self) == gout(pre, a.self)))])],
        bind=None,
    )

    def make_args(self, ip):
        d = Sym(z3.String("data"), BYTES)
        self.data = d.t
        return [d], types.SimpleNamespace(data=d.t)

    def ghost_exit(self, ip, pre, a, exc, ret):
        s = self.self_val.t
        ip.st.put(C, "$in", s, z3.Concat(ip.st.get(C, "$in", s), self.data))


class BufferProp(BufUnit):
    method = "buffer"
    contract = Contract(
        "BufferedByteReceiveStream.buffer",
        requires=lambda h, a: [],
        cases=[Case("pure", when=lambda pre, a: True, ret_ty=BYTES, ensures=lambda pre, post, a, ret: [("reports_the_buffered_bytes", ret == bufval(pre, a.self)), ("consumes_nothing", own_state_unchanged(pre, post, a.self))])],
        bind=None,
    )


class SeqLemmas(LemmaUnit):
    """the sequence lemma the units assume as an axiom (lib.occ_prefix_lemma), proved here from the definition of `occ`
    for arbitrary (skolem) sequences"""

    props = ("C16",)
    name = "bytes/lemma"

    def lemma(self, ip):
        st = ip.st
        st.use_cvc5 = True
        b, x, d = z3.String("b"), z3.String("x"), z3.String("d")
        j = z3.Int("j")
        sub = lambda s_: z3.And(j >= 0, z3.SubString(s_, j, z3.Length(d)) == d)
        st.assume(z3.And(j >= 0, j + z3.Length(d) <= z3.Length(b)))
        ip.ctx.oblige(f"{self.name}:occurrence_inside_the_first_part_of_a_concatenation", sub(z3.Concat(b, x)) == sub(b), "lemma")


UNITS = [SeqLemmas, Receive, ReceiveExactly, ReceiveUntil, FeedData, BufferProp]
