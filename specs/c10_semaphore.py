"""C10 (part 1) -- Semaphore: permits are conserved and never over-granted.

Functions under contract (anyio/_backends/_asyncio.py): Semaphore.__init__, acquire, acquire_nowait,
release, value, max_value (+ the validating base constructor in anyio/_core/_synchronization.py).

Ghost: `$rec[f]` -- f is the future of a suspended acquire(); `$inflight` -- number of permits handed to a
waiter (future resolved) whose acquire() has not resumed yet.  Per call the unit accumulates the change of
`value + inflight` made by the call's own segments: +1 for release(), -1 for a successful acquire, 0 for an
acquire that raises -- which is conservation of permits for every schedule and every cancellation point.
"""
import types

import z3

from segvc.core import BOOL, CLASSES, INT, OPTINT, ArrT, DequeT, H, RefT, Sym, register_class
from segvc.interp import Builtin
from segvc.lib import CANCELLED, EXC, PENDING, RESULT
from segvc.unit import Case, ClassSpec, Contract, LemmaUnit, LoopSpec, MethodUnit

ASYNCIO = "anyio/_backends/_asyncio.py"
SYNC = "anyio/_core/_synchronization.py"
FUT = RefT("Future")
FQ = DequeT(FUT)
DQ = FQ.cls

register_class("BaseSemaphore", {"_fast_acquire": BOOL}, source=(SYNC, "Semaphore"))
register_class(
    "Semaphore",
    {
        "_fast_acquire": BOOL,
        "_value": INT,
        "_max_value": OPTINT,
        "_waiters": FQ,
        "$rec": ArrT(FUT, BOOL),
        "$inflight": INT,
    },
    source=(ASYNCIO, "Semaphore"),
    bases=("BaseSemaphore",),
)
CLASSES["Semaphore"].ghost_fields = {"$rec", "$inflight"}

SEM = ClassSpec("Semaphore")


def value(h, s):
    return h.f("Semaphore", "_value", s)


def maxv(h, s):
    return h.f("Semaphore", "_max_value", s)


def queue(h, s):
    return h.dq(DQ, h.f("Semaphore", "_waiters", s))


def rec(h, s):
    return h.f("Semaphore", "$rec", s)


def inflight(h, s):
    return h.f("Semaphore", "$inflight", s)


def fstate(h, f):
    return h.f("Future", "state", f)


def permits(h, s):
    """free permits + permits already handed to a waiter that has not resumed yet"""
    return value(h, s) + inflight(h, s)


@SEM.assume("wf_queue")
def _(h, s, cur):
    return z3.And(h.f("Semaphore", "_waiters", s) > 0, queue(h, s).wf(), z3.Not(z3.Select(rec(h, s), 0)))


@SEM.assume("memory_safety_queued_futures_are_allocated")
def _(h, s, cur):
    e = z3.Int(h.st.uniq("e"))
    q = queue(h, s)
    al = h.arr("$", "alloc")
    return z3.ForAll([e], z3.Implies(q.count(e) >= 1, z3.Select(al, e)), patterns=[q.count(e)])


@SEM.invariant("S0_value_nonnegative")
def _(h, s, cur):
    return z3.And(value(h, s) >= 0, maxv(h, s) >= -1)


@SEM.invariant("S1_free_permits_imply_no_waiters")
def _(h, s, cur):
    return z3.Implies(value(h, s) > 0, queue(h, s).len == 0)


@SEM.invariant("S2_entries_are_records_pending_or_cancelled")
def _(h, s, cur):
    return queue(h, s).forall(lambda i, f: z3.And(f != 0, z3.Select(rec(h, s), f), z3.Or(fstate(h, f) == PENDING, fstate(h, f) == CANCELLED)))


@SEM.invariant("S3_entries_distinct")
def _(h, s, cur):
    e = z3.Int(h.st.uniq("e"))
    return z3.ForAll([e], queue(h, s).count(e) <= 1)


@SEM.invariant("S4_record_states")
def _(h, s, cur):
    f = z3.Int(h.st.uniq("f"))
    q = queue(h, s)
    return z3.ForAll(
        [f],
        z3.Implies(
            z3.Select(rec(h, s), f),
            z3.And(
                z3.Implies(fstate(h, f) == PENDING, q.count(f) == 1),
                z3.Implies(fstate(h, f) == RESULT, q.count(f) == 0),
                fstate(h, f) != EXC,
            ),
        ),
        patterns=[z3.Select(rec(h, s), f), fstate(h, f)],
    )


@SEM.invariant("S5_max_value_bound")
def _(h, s, cur):
    return z3.Implies(maxv(h, s) != -1, value(h, s) <= maxv(h, s))


# ------------------------------------------------------------------ contracts


def fields_unchanged(pre, post, s):
    qa, qb = queue(pre, s), queue(post, s)
    return z3.And(
        value(pre, s) == value(post, s),
        maxv(pre, s) == maxv(post, s),
        inflight(pre, s) == inflight(post, s),
        pre.f("Semaphore", "_waiters", s) == post.f("Semaphore", "_waiters", s),
        qa.lo == qb.lo,
        qa.hi == qb.hi,
        qa.data == qb.data,
        qa.cnt == qb.cnt,
        pre.arr("Future", "state") == post.arr("Future", "state"),
    )


def bind_self(ip, args, kwargs):
    return types.SimpleNamespace(self=args[0].t, cur=ip.ctx.cur.t)


def release_post(pre, post, a, ret):
    """the permit goes to the first queued waiter whose future is not cancelled (without touching
    `value`), else `value` is incremented; exactly one permit is added either way"""
    s = a.self
    qa, qb = queue(pre, s), queue(post, s)
    i = z3.Int(pre.st.uniq("i"))
    f = z3.Int(pre.st.uniq("f"))
    winner = qa.at(qb.lo - 1)
    handed = z3.And(
        qb.lo > qa.lo,
        z3.ForAll([i], z3.Implies(z3.And(qa.lo <= i, i < qb.lo - 1), fstate(pre, qa.at(i)) == CANCELLED)),
        fstate(pre, winner) == PENDING,
        fstate(post, winner) == RESULT,
        value(post, s) == value(pre, s),
        inflight(post, s) == inflight(pre, s) + 1,
        z3.ForAll([f], z3.Implies(f != winner, fstate(post, f) == fstate(pre, f))),
    )
    incremented = z3.And(
        qb.lo == qa.hi,
        z3.ForAll([i], z3.Implies(z3.And(qa.lo <= i, i < qa.hi), fstate(pre, qa.at(i)) == CANCELLED)),
        value(post, s) == value(pre, s) + 1,
        inflight(post, s) == inflight(pre, s),
        pre.arr("Future", "state") == post.arr("Future", "state"),
    )
    return [
        ("queue_suffix", z3.And(qa.lo <= qb.lo, qb.lo <= qa.hi, qb.hi == qa.hi, qb.data == qa.data, pre.f("Semaphore", "_waiters", s) == post.f("Semaphore", "_waiters", s))),
        ("handed_to_first_live_waiter_or_incremented", z3.Or(handed, incremented)),
        ("exactly_one_permit_added", permits(post, s) == permits(pre, s) + 1),
        ("max_value_unchanged", maxv(post, s) == maxv(pre, s)),
    ] + [("inv." + n, t) for n, t in SEM.inv_terms(post, s, a.cur)]


def at_max(h, s):
    return z3.And(maxv(h, s) != -1, value(h, s) == maxv(h, s))


RELEASE = Contract(
    "Semaphore.release",
    requires=lambda h, a: list(SEM.inv_terms(h, a.self, a.cur)),
    cases=[
        Case("too_many", when=lambda pre, a: at_max(pre, a.self), raises="ValueError", ensures=lambda pre, post, a, ret: [("state_unchanged", fields_unchanged(pre, post, a.self))]),
        Case("released", when=lambda pre, a: z3.Not(at_max(pre, a.self)), ensures=release_post),
    ],
    modifies={("Semaphore", "_value"), ("Semaphore", "$inflight"), (DQ, "lo"), (DQ, "cnt"), ("Future", "state"), ("Future", "result")},
    bind=bind_self,
)

ACQUIRE_NOWAIT = Contract(
    "Semaphore.acquire_nowait",
    requires=lambda h, a: [],
    cases=[
        Case("would_block", when=lambda pre, a: value(pre, a.self) == 0, raises="WouldBlock", ensures=lambda pre, post, a, ret: [("state_unchanged", fields_unchanged(pre, post, a.self))]),
        Case(
            "taken",
            when=lambda pre, a: value(pre, a.self) > 0,
            ensures=lambda pre, post, a, ret: [
                ("one_permit_taken", z3.And(value(post, a.self) == value(pre, a.self) - 1, inflight(post, a.self) == inflight(pre, a.self))),
                ("only_when_free_and_nobody_queued", z3.And(value(pre, a.self) > 0, queue(pre, a.self).len == 0)),
                ("futures_unchanged", pre.arr("Future", "state") == post.arr("Future", "state")),
            ],
        ),
    ],
    bind=bind_self,
)

ACQUIRE = Contract(
    "Semaphore.acquire",
    requires=lambda h, a: [],
    cases=[
        Case("acquired", when=lambda pre, a: True, ensures=lambda pre, post, a, ret: []),
        Case("cancelled", when=lambda pre, a: True, raises="CancelledError", ensures=lambda pre, post, a, ret: []),
        # the permit of a cancelled acquire cannot be given back because somebody over-released meanwhile:
        # the release() in the cancellation path reports it (max_value is the over-release detector)
        Case("over_released_meanwhile", when=lambda pre, a: maxv(pre, a.self) != -1, raises="ValueError", ensures=lambda pre, post, a, ret: [("value_is_at_max", at_max(post, a.self))]),
    ],
    bind=bind_self,
)


def int_prop(name, fn):
    return Contract(
        f"Semaphore.{name}",
        requires=lambda h, a: [],
        cases=[
            Case(
                "pure",
                when=lambda pre, a: True,
                ret_ty=INT,
                ensures=lambda pre, post, a, ret: [("reports_true_count", ret == fn(pre, a.self)), ("state_unchanged", fields_unchanged(pre, post, a.self))],
            )
        ],
        bind=bind_self,
    )


def release_loop_inv(ip, env):
    u = ip.ctx.unit
    h = H(ip.st)
    pre, s = u.loop_pre, u.loop_self
    qa, qb = queue(pre, s), queue(h, s)
    i = z3.Int(ip.st.uniq("i"))
    out = list(SEM.inv_terms(h, s, ip.ctx.cur.t))
    out += [
        ("queue_suffix", z3.And(qa.lo <= qb.lo, qb.lo <= qa.hi, qb.hi == qa.hi, qb.data == qa.data, pre.f("Semaphore", "_waiters", s) == h.f("Semaphore", "_waiters", s))),
        ("popped_were_cancelled", z3.ForAll([i], z3.Implies(z3.And(qa.lo <= i, i < qb.lo), fstate(pre, qa.at(i)) == CANCELLED))),
        ("nothing_else_changed", z3.And(value(pre, s) == value(h, s), maxv(pre, s) == maxv(h, s), inflight(pre, s) == inflight(h, s), pre.arr("Future", "state") == h.arr("Future", "state"), rec(pre, s) == rec(h, s))),
        ("not_at_max", z3.Not(at_max(h, s))),
    ]
    return out


RELEASE_LOOP = LoopSpec(release_loop_inv, modifies={(DQ, "lo"), (DQ, "cnt")})


def sem_guarantee(a, b, s, t):
    f = z3.Int(a.st.uniq("f"))
    al = a.arr("$", "alloc")
    return [
        ("done_futures_are_final", z3.ForAll([f], z3.Implies(z3.And(z3.Select(al, f), fstate(a, f) != PENDING), fstate(b, f) == fstate(a, f)), patterns=[fstate(b, f)])),
        ("permits_change_by_at_most_one", z3.And(permits(b, s) - permits(a, s) <= 1, permits(a, s) - permits(b, s) <= 1)),
        ("max_value_is_constant", maxv(a, s) == maxv(b, s)),
    ]


def sem_rely(a, b, s, me, myfut):
    out = [("max_value_is_constant", maxv(a, s) == maxv(b, s))]
    if myfut is not None:
        out.append(("my_done_future_is_final", z3.Implies(fstate(a, myfut) != PENDING, fstate(b, myfut) == fstate(a, myfut))))
    return out


class SemUnit(MethodUnit):
    props = ("C10",)
    spec = SEM
    trusted = ("E1", "E2", "E3")

    def on_entry(self, ip, pre, a):
        self.loop_pre, self.loop_self = pre, a.self

    def guarantee(self, seg, now, s, cur):
        return sem_guarantee(seg, now, s, cur)

    def segment_deltas(self, seg, now, s, cur):
        return {"permits": permits(now, s) - permits(seg, s)}

    def ghost_suspend(self, ip, what, payload):
        st, s = ip.st, self.self_val.t
        if what == "future":
            st.put("Semaphore", "$rec", s, z3.Store(st.get("Semaphore", "$rec", s), payload.t, True))

    def on_future_resolved(self, ip, fut):
        """a release() resolved the future of a suspended acquire(): the permit is in flight"""
        st, s = ip.st, self.self_val.t
        st.put("Semaphore", "$inflight", s, st.get("Semaphore", "$inflight", s) + 1)

    def resume_assumptions(self, ip, what, payload):
        st, s, cur = ip.st, self.self_val.t, ip.ctx.cur.t
        h = H(st)
        for n, t in self.spec.assumed_terms(h, s, cur) + self.spec.inv_terms(h, s, cur):
            st.assume(t)
        if what == "future":
            st.assume(z3.Select(rec(h, s), payload.t))
        for n, t in sem_rely(self.before, h, s, cur, payload.t if what == "future" else None):
            st.assume(t)

    def ghost_resume(self, ip, what, payload):
        """the call resumes: its record is removed; if its future was resolved, it now *has* the permit
        that was in flight (so inflight - 1: this is the call's own action and counts in its delta)"""
        st, s = ip.st, self.self_val.t
        if what == "future":
            st.put("Semaphore", "$rec", s, z3.Store(st.get("Semaphore", "$rec", s), payload.t, False))
            granted = st.get("Future", "state", payload.t) == RESULT
            st.put("Semaphore", "$inflight", s, st.get("Semaphore", "$inflight", s) - z3.If(granted, 1, 0))


class InitUnit(SemUnit):
    method = "__init__"
    is_init = True
    contract = Contract(
        "Semaphore.__init__",
        requires=lambda h, a: [],
        cases=[
            Case(
                "ok",
                when=lambda pre, a: z3.And(a.initial >= 0, z3.Or(a.maxv == -1, a.maxv >= a.initial)),
                ensures=lambda pre, post, a, ret: [("initial_state", z3.And(value(post, a.self) == a.initial, maxv(post, a.self) == a.maxv, queue(post, a.self).len == 0, inflight(post, a.self) == 0))],
            ),
            Case("negative", when=lambda pre, a: a.initial < 0, raises="ValueError", ensures=lambda pre, post, a, ret: []),
            Case("max_below_initial", when=lambda pre, a: z3.And(a.maxv != -1, a.maxv < a.initial), raises="ValueError", ensures=lambda pre, post, a, ret: []),
        ],
        bind=bind_self,
    )

    def make_args(self, ip):
        self.initial = Sym(z3.Int("initial_value"), INT)
        self.maxarg = Sym(z3.Int("max_value"), OPTINT)
        ip.st.assume(self.maxarg.t >= -1)
        return [self.initial], types.SimpleNamespace(initial=self.initial.t, maxv=self.maxarg.t)

    def make_kwargs(self, ip):
        return {"max_value": self.maxarg, "fast_acquire": Sym(z3.Bool("fast_acquire"), BOOL)}

    def ghost_init(self, ip):
        st, s = ip.st, self.self_val.t
        st.put("Semaphore", "$rec", s, z3.K(z3.IntSort(), z3.BoolVal(False)))
        st.put("Semaphore", "$inflight", s, z3.IntVal(0))



class AcquireUnit(SemUnit):
    method = "acquire"
    contract = ACQUIRE
    contracts = {"Semaphore.release": RELEASE}

    def on_exit(self, ip, pre, a, exc, ret):
        d = self.acc.get("permits", 0)
        if exc is None:
            ip.ctx.oblige("Semaphore.acquire/post:acquired.exactly_one_permit_consumed_by_this_call", d == -1, "post")
        elif exc.pycls.__name__ == "ValueError":
            ip.ctx.oblige("Semaphore.acquire/post:over_released_meanwhile.permit_not_duplicated", d == -1, "post")
        else:
            ip.ctx.oblige("Semaphore.acquire/post:raised.no_permit_leaked_or_duplicated", d == 0, "post")


class ReleaseUnit(SemUnit):
    method = "release"
    contract = RELEASE
    loops = {("Semaphore.release", 0): RELEASE_LOOP}


class AcquireNowaitUnit(SemUnit):
    method = "acquire_nowait"
    contract = ACQUIRE_NOWAIT


class ValueUnit(SemUnit):
    method = "value"
    contract = int_prop("value", value)


class MaxValueUnit(SemUnit):
    method = "max_value"
    contract = Contract(
        "Semaphore.max_value",
        requires=lambda h, a: [],
        cases=[Case("pure", when=lambda pre, a: True, ret_ty=OPTINT, ensures=lambda pre, post, a, ret: [("reports_max", ret == maxv(pre, a.self)), ("state_unchanged", fields_unchanged(pre, post, a.self))])],
        bind=bind_self,
    )


class StatisticsUnit(SemUnit):
    """`Semaphore.statistics()`: the one reported number is the length of the waiter queue, nothing is changed"""

    method = "statistics"
    contract = None
    globals = {"SemaphoreStatistics": Builtin("SemaphoreStatistics", lambda ip, *a: tuple(a))}

    def on_exit(self, ip, pre, a, exc, ret):
        ok = exc is None and isinstance(ret, tuple) and len(ret) == 1
        ip.ctx.oblige("Semaphore.statistics/post:returns_one_number", z3.BoolVal(ok), "post")
        if ok:
            q = queue(pre, a.self)
            ip.ctx.oblige("Semaphore.statistics/post:reports_the_true_waiter_count", ip.term(ret[0], INT) == q.hi - q.lo, "post")
            ip.ctx.oblige("Semaphore.statistics/post:pure", fields_unchanged(pre, H(ip.st), a.self), "post")


class EnvCancelFuture(LemmaUnit):
    props = ("C10",)
    name = "Semaphore/env:cancel_pending_waiter_future"
    trusted = ("E2", "E3")

    def lemma(self, ip):
        st = ip.st
        s, cur = z3.Int("self"), ip.ctx.cur.t
        st.assume(s > 0)
        h = H(st)
        for n, t in SEM.assumed_terms(h, s, cur) + SEM.inv_terms(h, s, cur):
            st.assume(t)
        f = z3.Int("victim")
        st.assume(fstate(h, f) == PENDING)
        st.put("Future", "state", f, z3.IntVal(CANCELLED))
        h2 = H(st)
        for n, t in SEM.inv_terms(h2, s, cur):
            ip.ctx.oblige(f"{self.name}/env:{n}", t, "env")
        ip.ctx.oblige(f"{self.name}/env:permits_unchanged", permits(h2, s) == permits(h, s), "env")


UNITS = [InitUnit, AcquireUnit, ReleaseUnit, AcquireNowaitUnit, ValueUnit, MaxValueUnit, StatisticsUnit, EnvCancelFuture]
