"""Native failing-input search for C03 (level-triggered cancellation), run under /venv/bin/python against the REAL
anyio code of the tree the obligations came from (PYTHONPATH=$SEGVC_REPO/src).

A directed, bounded family of small programs (scope nesting x where cancel() is called x how the victim task got into
the scope) is executed on a real asyncio loop.  In each, a *victim* blocks (anyio.sleep(30)) inside an effectively
cancelled scope, not behind a shield; the property demands that it is interrupted within a small number of loop
cycles.  A loop-cycle ticker counts iterations; the program fails when the victim is still blocked MAX_CYCLES
iterations after the last exposure event (cancel / spawn / scope exit / un-shield).

This search never decides a verdict on the unchanged tree (the contracts do); it only attaches a failing input to a
reported obligation, or confirms one the solvers left open.  Last stdout line `reproduced=True|False ...`; found
programs are printed as `failing_histories=<json list of scenario names>`; `--history <json>` re-executes them.
"""
from __future__ import annotations

import asyncio
import json
import os
import sys

MAX_CYCLES = 8


class Fail(Exception):
    pass


class Harness(Exception):
    """the scenario did not get to the point it wants to observe: never a failing input"""


class Probe:
    """the victim's observation: was it interrupted, and how many loop cycles after the exposure"""

    def __init__(self):
        self.cycle = 0
        self.exposed_at = None
        self.interrupted_at = None
        self.finished = False
        self._stop = False

    def start_ticker(self):
        loop = asyncio.get_running_loop()

        def tick():
            self.cycle += 1
            if not self._stop:
                loop.call_soon(tick)

        loop.call_soon(tick)

    def stop(self):
        self._stop = True

    def expose(self):
        self.exposed_at = self.cycle

    async def victim(self, *, task_status=None):
        import anyio

        if task_status is not None:
            task_status.started()
        try:
            await anyio.sleep(30)
            self.finished = True
        except BaseException:
            self.interrupted_at = self.cycle
            raise

    async def expect_interrupted(self, what):
        """called from an *unrelated* native task: wait MAX_CYCLES iterations, then judge"""
        for _ in range(MAX_CYCLES):
            await asyncio.sleep(0)
        if self.interrupted_at is None:
            raise Fail(f"{what}: the victim is still blocked {MAX_CYCLES} loop cycles after the last exposure event (cancellation lost)")


async def run_with_judge(p: Probe, body, what):
    """run body() as the program; a native judge task (outside every anyio scope) checks the victim after the exposure"""
    p.start_ticker()
    prog = asyncio.ensure_future(body())
    try:
        # wait for the exposure, bounded
        for _ in range(400):
            if p.exposed_at is not None:
                break
            await asyncio.sleep(0.001)
        else:
            raise Harness(f"{what}: scenario never reached its exposure point")
        await p.expect_interrupted(what)
    finally:
        p.stop()
        prog.cancel()
        try:
            await prog
        except BaseException:  # noqa: BLE001
            pass


# ---- scenarios ------------------------------------------------------------------------------------------------------


async def sc_quiet_spawn(via_parent: bool, use_start: bool):
    """F5 family: the group's scope (or its parent) is cancelled, its delivery has gone quiet (no task left to cancel
    because the host sits behind a shield), then the shielded host starts a child"""
    import anyio

    p = Probe()

    async def body():
        with anyio.CancelScope() as outer:
            async with anyio.create_task_group() as tg:
                (outer if via_parent else tg.cancel_scope).cancel()
                with anyio.CancelScope(shield=True):
                    await anyio.sleep(0.01)  # the delivery finds nothing to cancel and stops rescheduling
                    if use_start:
                        tg.start_soon(lambda: tg.start(p.victim))
                    else:
                        tg.start_soon(p.victim)
                    await anyio.sleep(0)
                    await anyio.sleep(0)
                    p.expose()
                    await anyio.sleep(0.2)

    await run_with_judge(p, body, f"quiet_spawn(via_parent={via_parent}, start={use_start})")


async def sc_cancel_before_enter():
    import anyio

    p = Probe()

    async def body():
        scope = anyio.CancelScope()
        scope.cancel()
        with scope:
            p.expose()
            await p.victim()

    await run_with_judge(p, body, "cancel_before_enter")


async def sc_cancel_while_blocked(by_deadline: bool):
    import anyio

    p = Probe()

    async def body():
        async with anyio.create_task_group() as tg:
            tg.start_soon(p.victim)
            await anyio.sleep(0.005)
            if by_deadline:
                tg.cancel_scope.deadline = anyio.current_time()  # the timer callback cancels in the next cycle
            else:
                tg.cancel_scope.cancel()
            p.expose()
            with anyio.CancelScope(shield=True):
                await anyio.sleep(0.2)

    await run_with_judge(p, body, f"cancel_while_blocked(by_deadline={by_deadline})")


async def sc_restart_after_inner(unshield: bool):
    """outer cancelled while the host is behind a shield; the delivery goes quiet; leaving (or un-shielding) the inner
    scope must restart it"""
    import anyio

    p = Probe()

    async def body():
        with anyio.CancelScope() as outer:
            with anyio.CancelScope(shield=True) as inner:
                outer.cancel()
                await anyio.sleep(0.01)
                if unshield:
                    inner.shield = False
                    p.expose()
                    await p.victim()
            p.expose()
            await p.victim()

    await run_with_judge(p, body, f"restart_after_inner(unshield={unshield})")


async def sc_self_cancel_then_block():
    import anyio

    p = Probe()

    async def body():
        with anyio.CancelScope() as scope:
            scope.cancel()
            p.expose()
            await p.victim()

    await run_with_judge(p, body, "self_cancel_then_block")


async def sc_child_catches_and_blocks_again():
    """level-triggered: a task that swallows the first cancellation is interrupted again at its next wait"""
    import anyio

    p = Probe()

    async def stubborn():
        try:
            await anyio.sleep(30)
        except BaseException:  # noqa: BLE001
            pass
        p.expose()
        await p.victim()

    async def body():
        async with anyio.create_task_group() as tg:
            tg.start_soon(stubborn)
            await anyio.sleep(0.005)
            tg.cancel_scope.cancel()
            with anyio.CancelScope(shield=True):
                await anyio.sleep(0.2)

    await run_with_judge(p, body, "child_catches_and_blocks_again")


SCENARIOS = {
    "quiet_spawn(direct,start_soon)": lambda: sc_quiet_spawn(False, False),
    "quiet_spawn(parent,start_soon)": lambda: sc_quiet_spawn(True, False),
    "quiet_spawn(direct,start)": lambda: sc_quiet_spawn(False, True),
    "cancel_before_enter": sc_cancel_before_enter,
    "cancel_while_blocked(cancel)": lambda: sc_cancel_while_blocked(False),
    "cancel_while_blocked(deadline)": lambda: sc_cancel_while_blocked(True),
    "restart_after_inner(exit)": lambda: sc_restart_after_inner(False),
    "restart_after_inner(unshield)": lambda: sc_restart_after_inner(True),
    "self_cancel_then_block": sc_self_cancel_then_block,
    "child_catches_and_blocks_again": sc_child_catches_and_blocks_again,
}


def run_one(name):
    try:
        asyncio.run(asyncio.wait_for(SCENARIOS[name](), 10))
        return None
    except Fail as e:
        return str(e)
    except Harness as e:
        print(f"harness: {e}")
        return None
    except asyncio.TimeoutError:
        return f"{name}: program did not finish within 10 s (hang)"


def main(argv):
    try:
        json.load(sys.stdin)
    except Exception:  # noqa: BLE001
        pass
    import anyio

    root = os.environ.get("SEGVC_REPO", "/repo")
    print(f"anyio imported from {anyio.__file__}")
    if not os.path.abspath(anyio.__file__).startswith(os.path.abspath(root)):
        print(f"reproduced=False reason=anyio was not imported from {root}")
        return 0
    names = list(SCENARIOS)
    if "--history" in argv:
        names = json.loads(argv[argv.index("--history") + 1])
    failing = []
    for n in names:
        if n not in SCENARIOS:
            continue
        why = run_one(n)
        if why:
            print(f"failing input on the real code: {why}")
            failing.append(n)
        else:
            print(f"scenario {n}: victim interrupted in time")
    if failing:
        print("failing_histories=" + json.dumps(failing))
    print(f"reproduced={bool(failing)} scenarios_run={len(names)} failing={len(failing)}")
    return 0


if __name__ == "__main__":
    sys.exit(main(sys.argv[1:]))
