"""Native probes for C08 (checkpoint discipline), run under /venv/bin/python against the REAL anyio code of the tree the
obligations came from (PYTHONPATH=$SEGVC_REPO/src).

(1) failing-input search (default): every operation of the property's table is driven in each state in which it can
    complete without waiting, and two things are observed on the real code:
      yield     a callback queued with loop.call_soon() just before the call has run when the call returns
      cancelled inside `with CancelScope() as s: s.cancel()` the call raises the cancellation exception and the object's
                state is unchanged (nothing acquired / sent / consumed; Condition.wait keeps the lock)
(2) `--bounded-iter`: BOUNDED STAND-IN (not a proof, never counted as discharged) for anyio.functools.reduce and
    the anyio.itertools generators (async generators are outside the verifier's subset): a full traversal over a
    synchronous iterable of length 0, 1, 2 and 3 -- or one that yields nothing -- passes a checkpoint (same call_soon
    observation).  Bound: the listed argument shapes, lengths <= 3.

Last stdout line `reproduced=True|False ...`; a found case is printed as `failing_histories=<json>`.
"""
from __future__ import annotations

import asyncio
import json
import sys


class Fail(Exception):
    pass


async def yielded_during(coro_fn):
    loop = asyncio.get_running_loop()
    flag = []
    loop.call_soon(flag.append, 1)
    res = await coro_fn()
    return bool(flag), res


async def cancelled_probe(coro_fn):
    """returns the exception class raised (or None) when coro_fn() runs in an already cancelled scope"""
    import anyio

    raised = None
    with anyio.CancelScope() as scope:
        scope.cancel()
        try:
            await coro_fn()
        except BaseException as e:  # noqa: BLE001
            raised = type(e).__name__
            if isinstance(e, asyncio.CancelledError):
                raise
    return raised, scope.cancelled_caught


async def table_cases():
    """yields (name, make) where make() -> (coro_fn, state_fn): a fresh object in a completes-without-waiting state"""
    import anyio
    from anyio import CapacityLimiter, Condition, Event, Lock, Semaphore, create_memory_object_stream
    from anyio.lowlevel import checkpoint

    def lock():
        o = Lock()
        return o.acquire, lambda: (o.locked(), o.statistics().tasks_waiting)

    def sem():
        o = Semaphore(1)
        return o.acquire, lambda: o.value

    def sem_max():
        o = Semaphore(1, max_value=2)
        return o.acquire, lambda: o.value

    def lim():
        o = CapacityLimiter(1)
        return o.acquire, lambda: (o.borrowed_tokens, o.statistics().tasks_waiting)

    def lim_obo():
        o = CapacityLimiter(2)
        return (lambda: o.acquire_on_behalf_of("x")), lambda: (o.borrowed_tokens, o.statistics().tasks_waiting)

    def event():
        o = Event()
        o.set()
        return o.wait, lambda: o.is_set()

    def send_room():
        s, r = create_memory_object_stream(1)
        return (lambda: s.send("i")), lambda: s.statistics()[:1] + s.statistics()[4:]

    def recv_item():
        s, r = create_memory_object_stream(1)
        s.send_nowait("i")
        return r.receive, lambda: s.statistics()[:1] + s.statistics()[4:]

    def sleep0():
        return (lambda: anyio.sleep(0)), lambda: None

    def ckpt():
        return checkpoint, lambda: None

    for name, mk in [("Lock.acquire", lock), ("Semaphore.acquire", sem), ("Semaphore(max_value).acquire", sem_max), ("CapacityLimiter.acquire", lim), ("CapacityLimiter.acquire_on_behalf_of", lim_obo), ("Event.wait[set]", event), ("MemoryObjectSendStream.send[room]", send_room), ("MemoryObjectReceiveStream.receive[item buffered]", recv_item), ("sleep(0)", sleep0), ("checkpoint", ckpt)]:
        yield name, mk


async def probe_table():
    import anyio
    from anyio import Condition, create_memory_object_stream, create_task_group
    from anyio._core._futures import Future

    async for name, mk in table_cases():
        fn, state = mk()
        y, _ = await yielded_during(fn)
        if not y:
            raise Fail(f"{name}: completed without waiting and did NOT yield to the event loop")
        fn, state = mk()
        before = state()
        raised, caught = await cancelled_probe(fn)
        if not caught:
            raise Fail(f"{name}: called in an already cancelled scope it did not raise the cancellation exception (raised {raised})")
        if state() != before:
            raise Fail(f"{name}: called in an already cancelled scope it still performed its effect: state {before} -> {state()}")
    # waiting receiver / waiting sender hand-over states
    s, r = create_memory_object_stream(0)
    async with create_task_group() as tg:
        got = []

        async def rx():
            got.append(await r.receive())

        tg.start_soon(rx)
        await anyio.sleep(0)
        await anyio.sleep(0)
        y, _ = await yielded_during(lambda: s.send("x"))
        if not y:
            raise Fail("MemoryObjectSendStream.send[receiver waiting]: completed without waiting and did NOT yield")
    s, r = create_memory_object_stream(0)
    async with create_task_group() as tg:
        tg.start_soon(s.send, "x")
        await anyio.sleep(0)
        await anyio.sleep(0)
        y, _ = await yielded_during(r.receive)
        if not y:
            raise Fail("MemoryObjectReceiveStream.receive[sender waiting]: completed without waiting and did NOT yield")
    # Condition.wait in a cancelled scope keeps the lock (and lets nobody else in)
    c = Condition()
    order = []
    async with create_task_group() as tg:

        async def other():
            async with c:
                order.append("other-in")

        async with c:
            tg.start_soon(other)
            await anyio.sleep(0)
            await anyio.sleep(0)
            raised, caught = await cancelled_probe(c.wait)
            if not caught:
                raise Fail(f"Condition.wait in a cancelled scope did not raise the cancellation exception ({raised})")
            if order:
                raise Fail("Condition.wait entered in a cancelled scope released the lock: another task ran its critical section")
    # anyio Future: finished future, both forms
    for form in ("wait", "await"):
        f = Future()
        f.return_value = 1

        async def go():
            return (await f.wait()) if form == "wait" else (await f)

        y, _ = await yielded_during(go)
        if not y:
            raise Fail(f"Future[{form}] on a finished future did not yield")
        raised, caught = await cancelled_probe(go)
        if not caught:
            raise Fail(f"Future[{form}] on a finished future in a cancelled scope did not raise the cancellation exception")
    # TaskHandle of a finished task
    async with create_task_group() as tg:

        async def quick():
            return 5

        h = tg.create_task(quick()) if hasattr(tg, "create_task") else None
        if h is not None:
            await anyio.sleep(0)
            await anyio.sleep(0)
            y, _ = await yielded_during(h.wait)
            if not y:
                raise Fail("TaskHandle.wait on a finished task did not yield")


async def probe_iter():
    import anyio.itertools as ait
    from anyio.functools import reduce

    async def add(a, b):
        return a + b

    async def truthy(x):
        return bool(x)

    async def ident(x):
        return x

    async def drain(agen):
        out = []
        async for x in agen:
            out.append(x)
            if len(out) > 50:
                break
        return out

    n = 0
    for length in (0, 1, 2, 3):
        data = list(range(1, length + 1))
        cases = {
            "accumulate": lambda: ait.accumulate(data),
            "batched": lambda: ait.batched(data, 2),
            "chain": lambda: ait.chain(data, data),
            "combinations": lambda: ait.combinations(data, 2),
            "combinations_with_replacement": lambda: ait.combinations_with_replacement(data, 2),
            "compress": lambda: ait.compress(data, [1, 0, 1]),
            "dropwhile": lambda: ait.dropwhile(truthy, data),
            "filterfalse": lambda: ait.filterfalse(truthy, data),
            "groupby": lambda: ait.groupby(data),
            "islice": lambda: ait.islice(data, 2),
            "pairwise": lambda: ait.pairwise(data),
            "permutations": lambda: ait.permutations(data, 2),
            "product": lambda: ait.product(data, data),
            "repeat": lambda: ait.repeat(1, length),
            "starmap": lambda: ait.starmap(add, [(x, x) for x in data]),
            "takewhile": lambda: ait.takewhile(truthy, data),
            "zip_longest": lambda: ait.zip_longest(data, data),
        }
        for name, mk in cases.items():
            n += 1
            try:
                y, _ = await yielded_during(lambda mk=mk: drain(mk()))
            except TypeError:
                continue
            if not y:
                raise Fail(f"itertools.{name} over a synchronous iterable of length {length}: a full traversal passed no checkpoint")
        # "or one that yields nothing": an ASYNCHRONOUS source that never suspends by itself, arguments chosen so that the
        # traversal yields nothing although the source has `length` elements
        async def agen():
            for x in data:
                yield x

        async def never(x):
            return False

        async def always(x):
            return True

        nothing = {
            "accumulate": (lambda: ait.accumulate(agen())) if length == 0 else None,
            "batched": (lambda: ait.batched(agen(), 2)) if length == 0 else None,
            "chain": (lambda: ait.chain(agen(), agen())) if length == 0 else None,
            "combinations": lambda: ait.combinations(agen(), length + 1),
            "combinations_with_replacement": (lambda: ait.combinations_with_replacement(agen(), 1)) if length == 0 else None,
            "compress": lambda: ait.compress(agen(), [0] * length),
            "cycle": (lambda: ait.cycle(agen())) if length == 0 else None,
            "dropwhile": lambda: ait.dropwhile(always, agen()),
            "filterfalse": lambda: ait.filterfalse(always, agen()),
            "groupby": (lambda: ait.groupby(agen())) if length == 0 else None,
            "islice-start-beyond": lambda: ait.islice(agen(), length + 2, None),
            "islice-start-at-end": lambda: ait.islice(agen(), length, None),
            "islice-stop-0": lambda: ait.islice(agen(), 0),
            "islice-empty-window": lambda: ait.islice(agen(), 2, 1),
            "islice-step": lambda: ait.islice(agen(), length + 1, length + 7, 2),
            "pairwise": (lambda: ait.pairwise(agen())) if length <= 1 else None,
            "permutations": lambda: ait.permutations(agen(), length + 1),
            "product": lambda: ait.product(agen(), []),
            "repeat": lambda: ait.repeat(1, 0),
            "starmap": (lambda: ait.starmap(add, agen())) if length == 0 else None,
            "takewhile": lambda: ait.takewhile(never, agen()),
            "zip_longest": (lambda: ait.zip_longest(agen(), agen())) if length == 0 else None,
        }
        for name, mk in nothing.items():
            if mk is None:
                continue
            n += 1
            y, out = await yielded_during(lambda mk=mk: drain(mk()))
            if out:
                continue  # (the arguments did not make it empty: not this clause)
            if not y:
                raise Fail(f"itertools.{name} over a non-suspending asynchronous iterable of length {length}, yielding nothing: the traversal passed no checkpoint")
        for init in (None, 10):
            n += 1
            try:
                if init is None:
                    y, _ = await yielded_during(lambda: reduce(add, data))
                else:
                    y, _ = await yielded_during(lambda: reduce(add, data, init))
            except TypeError:
                continue
            # with >= 1 application of the (user) coroutine function the convention A-user counts that as the checkpoint
            applied = max(length - (1 if init is None else 0), 0)
            if not y and applied == 0:
                raise Fail(f"functools.reduce over {data} (initial={init}): completed without a checkpoint")
    return n


def main(argv):
    try:
        if "--bounded-iter" in argv:
            n = asyncio.run(probe_iter())
            print(f"bounded-iter: {n} (function, length) cases over synchronous iterables of length 0..3 and over non-suspending asynchronous iterables that make the traversal yield nothing, all passed a checkpoint")
            print(f"reproduced=False cases_tried={n}")
            return 0
        asyncio.run(probe_table())
        print("reproduced=False table probes passed")
    except BaseException as e:  # noqa: BLE001  (a Fail raised inside a task group arrives wrapped in an exception group)
        def find(x):
            if isinstance(x, Fail):
                return x
            for sub in getattr(x, "exceptions", ()):
                r = find(sub)
                if r is not None:
                    return r
            return None

        f = find(e)
        if f is None:
            raise
        print(f"failing input on the real code: {f}")
        print("failing_histories=" + json.dumps([str(f)]))
        print("reproduced=True")
    return 0


if __name__ == "__main__":
    sys.exit(main(sys.argv[1:]))
