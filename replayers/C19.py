"""Bounded stand-in and native failing-input search for C19 (anyio.itertools / anyio.functools.reduce vs the standard
library), run under /venv/bin/python against the REAL anyio code of the tree (PYTHONPATH=$SEGVC_REPO/src).

`--bounded-all` (also the default mode): BOUNDED, not a proof, never counted as discharged.  Every function of
anyio.itertools and anyio.functools.reduce is compared with its standard-library namesake (same arguments, equivalent
synchronous callbacks) on every sequence over {0, 1, 2} of length 0..4, every small integer parameter in
{None, -2, -1, 0, 1, 2, 3, 5} (so the invalid ones too), synchronous and asynchronous sources: the sequence of results
(cut after 30 items for the infinite ones) or the class of the error must agree.  accumulate additionally with falsy
initial values (0, "", ()).  tee: for every sequence of length 0..3 and every interleaving of two consumers, each
consumer sees the complete source sequence and the source is consumed once.

Last stdout line `reproduced=True|False ...`; disagreements are printed as `failing_histories=<json>`.
"""
from __future__ import annotations

import json
import os
import sys

import anyio, itertools, functools, asyncio, operator
import anyio.itertools as ai, anyio.functools as af
from itertools import product as P

class Hang(Exception):
    """a generator that spins without producing anything (not even a checkpoint) within the time limit"""


def _alarm(signum, frame):
    raise Hang()


async def drain(agen, limit=30):
    import signal

    out=[]
    signal.signal(signal.SIGALRM, _alarm)
    signal.setitimer(signal.ITIMER_REAL, 15.0)
    try:
        async for x in agen:
            out.append(x)
            if len(out)>=limit: break
    except Hang:
        return ('HANG', out)
    except Exception as e:
        return ('EXC', type(e).__name__, out)
    finally:
        signal.setitimer(signal.ITIMER_REAL, 0)
    return ('OK', out)
def sdrain(fn, limit=30):
    out=[]
    try:
        for x in fn():
            out.append(x)
            if len(out)>=limit: break
    except Exception as e:
        return ('EXC', type(e).__name__, out)
    return ('OK', out)
async def aiter_of(xs):
    for x in xs: yield x
def A(f):
    async def g(*a): return f(*a)
    return g
MAXLEN = 6 if os.environ.get("SEGVC_TIER") == "thorough" else 5  # thorough tier: one element longer (about 3 times the cases)
seqs=[list(s) for n in range(0,MAXLEN+1) for s in P([0,1,2], repeat=n)]
ints=[None,-2,-1,0,1,2,3,5]
dis=[]
def cmp(name, mk_any, mk_std, args):
    pass
async def main():
    n=0
    for xs in seqs:
        for mode in ('sync','async'):
            src=(lambda: xs) if mode=='sync' else (lambda: aiter_of(xs))
            cases=[]
            for a in ints:
                cases.append(('islice1',(a,), lambda a=a: ai.islice(src(), a), lambda a=a: itertools.islice(xs, a)))
                for b in ints:
                    cases.append(('islice2',(a,b), lambda a=a,b=b: ai.islice(src(), a,b), lambda a=a,b=b: itertools.islice(xs,a,b)))
                    for c in (None,-1,0,1,2,3):
                        cases.append(('islice3',(a,b,c), lambda a=a,b=b,c=c: ai.islice(src(), a,b,c), lambda a=a,b=b,c=c: itertools.islice(xs,a,b,c)))
                if a is not None:
                    for strict in (False,True):
                        cases.append(('batched',(a,strict), lambda a=a,s=strict: ai.batched(src(), a, strict=s), lambda a=a,s=strict: itertools.batched(xs,a) if not s else _b(xs,a)))
                    cases.append(('combinations',(a,), lambda a=a: ai.combinations(src(),a), lambda a=a: itertools.combinations(xs,a)))
                    cases.append(('cwr',(a,), lambda a=a: ai.combinations_with_replacement(src(),a), lambda a=a: itertools.combinations_with_replacement(xs,a)))
                    cases.append(('repeat',(a,), lambda a=a: ai.repeat(7,a), lambda a=a: itertools.repeat(7,a)))
                    cases.append(('product_rep',(a,), lambda a=a: ai.product(src(),repeat=a), lambda a=a: itertools.product(xs,repeat=a)))
                cases.append(('permutations',(a,), lambda a=a: ai.permutations(src(),a), lambda a=a: itertools.permutations(xs,a)))
            cases += [
              ('accumulate',(), lambda: ai.accumulate(src()), lambda: itertools.accumulate(xs)),
              ('accumulate_i',(), lambda: ai.accumulate(src(), initial=5), lambda: itertools.accumulate(xs, initial=5)),
              ('accumulate_f',(), lambda: ai.accumulate(src(), A(operator.mul)), lambda: itertools.accumulate(xs, operator.mul)),
              ('chain',(), lambda: ai.chain(src(), src()), lambda: itertools.chain(xs, xs)),
              ('compress',(), lambda: ai.compress(src(), [1,0,1]), lambda: itertools.compress(xs,[1,0,1])),
              ('cycle',(), lambda: ai.cycle(src()), lambda: itertools.cycle(xs)),
              ('dropwhile',(), lambda: ai.dropwhile(A(lambda x:x<1), src()), lambda: itertools.dropwhile(lambda x:x<1, xs)),
              ('takewhile',(), lambda: ai.takewhile(A(lambda x:x<2), src()), lambda: itertools.takewhile(lambda x:x<2, xs)),
              ('filterfalse',(), lambda: ai.filterfalse(A(lambda x:x%2), src()), lambda: itertools.filterfalse(lambda x:x%2, xs)),
              ('groupby',(), lambda: ai.groupby(src()), lambda: ((k,list(g)) for k,g in itertools.groupby(xs))),
              ('groupby_k',(), lambda: ai.groupby(src(), A(lambda x:x%2)), lambda: ((k,list(g)) for k,g in itertools.groupby(xs, lambda x:x%2))),
              ('pairwise',(), lambda: ai.pairwise(src()), lambda: itertools.pairwise(xs)),
              ('starmap',(), lambda: ai.starmap(A(lambda a,b:a+b), [(x,x) for x in xs]), lambda: itertools.starmap(lambda a,b:a+b, [(x,x) for x in xs])),
              ('zip_longest',(), lambda: ai.zip_longest(src(), [9], fillvalue='f'), lambda: itertools.zip_longest(xs,[9],fillvalue='f')),
              ('zip_longest0',(), lambda: ai.zip_longest(), lambda: itertools.zip_longest()),
              ('zip_longest_fill_in_data',(), lambda: ai.zip_longest(src(), [0,1,2], fillvalue=0), lambda: itertools.zip_longest(xs,[0,1,2],fillvalue=0)),
              ('zip_longest_none_in_data',(), lambda: ai.zip_longest(src(), [None, 1]), lambda: itertools.zip_longest(xs,[None, 1])),
              ('zip_longest3',(), lambda: ai.zip_longest(src(), [7], src()), lambda: itertools.zip_longest(xs,[7],xs)),
              ('count',(), lambda: ai.count(2,3), lambda: itertools.count(2,3)),
              ('product2',(), lambda: ai.product(src(), [7,8]), lambda: itertools.product(xs,[7,8])),
            ]
            for name,args,mk_a,mk_s in cases:
                n+=1
                try: ra = await drain(mk_a())
                except Exception as e: ra=('EXC@call', type(e).__name__)
                rs = sdrain(mk_s)
                # normalise: error class only
                na = ra if ra[0]=='OK' else ('EXC', ra[1])
                ns = rs if rs[0]=='OK' else ('EXC', rs[1])
                if na!=ns and len(dis)<40: dis.append((name,args,xs,mode,ra,rs))
            # reduce
            for init in (None, 10):
                try:
                    ra=('OK', await (af.reduce(A(operator.add), src(), init) if init is not None else af.reduce(A(operator.add), src())))
                except Exception as e: ra=('EXC',type(e).__name__)
                try: rs=('OK', functools.reduce(operator.add, xs, init) if init is not None else functools.reduce(operator.add, xs))
                except Exception as e: rs=('EXC',type(e).__name__)
                n+=1
                if ra!=rs: dis.append(('reduce',init,xs,mode,ra,rs))
    await extra(dis)
    return n, dis
def _b(xs,a):
    return itertools.batched(xs,a,strict=True) if hasattr(itertools.batched,'__call__') and False else _bs(xs,a)
def _bs(xs,a):
    if a<1: raise ValueError
    it=iter(xs)
    while True:
        b=tuple(itertools.islice(it,a))
        if not b: return
        if len(b)!=a: raise ValueError
        yield b



async def extra(dis):
    # accumulate with falsy initial values
    for init in (0, "", ()):
        for xs in ([], [1], [1, 2]):
            xs2 = xs if not isinstance(init, (str, tuple)) else [type(init)()] * len(xs)
            for mode in ("sync", "async"):
                src = (lambda: xs2) if mode == "sync" else (lambda: aiter_of(xs2))
                ra = await drain(ai.accumulate(src(), initial=init))
                rs = sdrain(lambda: itertools.accumulate(xs2, initial=init))
                if ra != rs:
                    dis.append(("accumulate_falsy_initial", init, xs2, mode, ra, rs))
    # None as an element, as a key and as a callback result (an edit that uses None as its "nothing yet" sentinel)
    async def knone(x):
        return None if x == 1 else x

    async def fnone(a, b):
        return None

    for k in range(0, 4):
        for xs3 in P([None, 1, 2], repeat=k):
            xs3 = list(xs3)
            for mode in ("sync", "async"):
                src = (lambda: xs3) if mode == "sync" else (lambda: aiter_of(xs3))
                pairs = [
                    ("groupby_none", lambda: ai.groupby(src()), lambda: ((kk, list(g)) for kk, g in itertools.groupby(xs3))),
                    ("groupby_none_key", lambda: ai.groupby(src(), knone), lambda: ((kk, list(g)) for kk, g in itertools.groupby(xs3, lambda x: None if x == 1 else x))),
                    ("accumulate_none_result", lambda: ai.accumulate(src(), fnone), lambda: itertools.accumulate(xs3, lambda a, b: None)),
                    ("pairwise_none", lambda: ai.pairwise(src()), lambda: itertools.pairwise(xs3)),
                    ("dropwhile_none", lambda: ai.dropwhile(knone, src()), lambda: itertools.dropwhile(lambda x: None if x == 1 else x, xs3)),
                    ("zip_longest_none", lambda: ai.zip_longest(src(), [None, 1]), lambda: itertools.zip_longest(xs3, [None, 1])),
                ]
                for name, mk_a, mk_s in pairs:
                    ra = await drain(mk_a())
                    rs = sdrain(mk_s)
                    if ra != rs:
                        dis.append((name, (), xs3, mode, ra, rs))
    # tee(): number of iterators / error class for small n
    for k in (-2, -1, 0, 1, 2, 3):
        try:
            ra = ("OK", len(ai.tee([1, 2], k)))
        except Exception as e:  # noqa: BLE001
            ra = ("EXC", type(e).__name__)
        try:
            rs = ("OK", len(itertools.tee([1, 2], k)))
        except Exception as e:  # noqa: BLE001
            rs = ("EXC", type(e).__name__)
        if ra != rs:
            dis.append(("tee_count", (k,), [1, 2], "sync", ra, rs))
    # tee: all interleavings of two consumers
    for n in range(0, 4):
        xs = list(range(n))
        for pattern in P([0, 1], repeat=2 * n + 2):
            pulls = []

            async def source():
                for x in xs:
                    pulls.append(x)
                    yield x

            got = ([], [])
            try:
                a, b = ai.tee(source(), 2)
                done = [False, False]
                its = (a.__aiter__(), b.__aiter__())
                for who in pattern:
                    if done[who] or len(got[who]) > n + 1:
                        continue
                    try:
                        got[who].append(await its[who].__anext__())
                    except StopAsyncIteration:
                        done[who] = True
                for who in (0, 1):
                    while not done[who] and len(got[who]) <= n + 1:  # an iterator that does not end is a disagreement, not a hang
                        try:
                            got[who].append(await its[who].__anext__())
                        except StopAsyncIteration:
                            done[who] = True
            except Exception as e:  # noqa: BLE001 -- an exception out of tee on a valid input is a disagreement
                got = (["raised " + type(e).__name__], got[1])
            if got[0] != xs or got[1] != xs or pulls != xs:
                dis.append(("tee", pattern, xs, "async", (got, pulls), (xs, xs)))
                break
        else:
            continue
        break
    await tee_concurrent(dis)


async def tee_concurrent(dis):
    """tee iterators consumed by concurrent tasks (the lock is contended): every consumer sees the whole source, the
    source is pulled once per element"""
    for n in range(0, 7):
        for consumers in (2, 3):
            for mode in ("sync", "async", "async-slow"):
                xs = list(range(10, 10 + n))
                pulls = []

                def sgen():
                    for x in xs:
                        pulls.append(x)
                        yield x

                async def agen():
                    for x in xs:
                        if mode == "async-slow":
                            await anyio.sleep(0)
                        pulls.append(x)
                        yield x

                got = [[] for _ in range(consumers)]
                try:
                    its = ai.tee(sgen() if mode == "sync" else agen(), consumers)

                    async def consume(i):
                        async for x in its[i]:
                            got[i].append(x)
                            if len(got[i]) > n + 1:
                                return

                    with anyio.fail_after(20):
                        async with anyio.create_task_group() as tg:
                            for i in range(consumers):
                                tg.start_soon(consume, i)
                except BaseException as e:  # noqa: BLE001
                    got[0] = ["raised " + type(e).__name__]
                if any(g != xs for g in got) or pulls != xs:
                    dis.append(("tee_concurrent", (consumers,), xs, mode, (got, pulls), ([xs] * consumers, xs)))
                    return


def main_cli(argv):
    import anyio as _anyio

    root = os.environ.get("SEGVC_REPO", "/repo")
    print(f"anyio imported from {_anyio.__file__}")
    if not os.path.abspath(_anyio.__file__).startswith(os.path.abspath(root)):
        print(f"reproduced=False reason=anyio was not imported from {root}")
        return 0
    try:
        n, dis = _anyio.run(main)
    except BaseException as e:  # noqa: BLE001 -- the comparison itself could not be carried out: no verdict from this run
        import traceback

        print("".join(traceback.format_exception(e))[-1500:])
        print("reproduced=False reason=the comparison harness was aborted by an exception from the code under test (no verdict)")
        return 0
    seen = set()
    shown = []
    for d in dis:
        k = (d[0], str(d[4])[:30], str(d[5])[:30])
        if k in seen:
            continue
        seen.add(k)
        shown.append(f"{d[0]}{d[1]!r} on {d[2]!r} ({d[3]} source): anyio gives {d[4]!r}, the standard library {d[5]!r}")
    for s_ in shown[:10]:
        print("failing input on the real code: " + s_)
    print(f"bounded-all: {n} comparisons with the standard library (+ accumulate with falsy initial values, tee interleavings), {len(dis)} disagreements")
    if shown:
        print("failing_histories=" + json.dumps(shown[:10]))
    print(f"reproduced={bool(shown)} cases_tried={n}")
    return 0


if __name__ == "__main__":
    sys.exit(main_cli(sys.argv[1:]))
