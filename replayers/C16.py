"""Native small-scope search for C16, run under /venv/bin/python against the REAL anyio code of the tree the
obligations came from (PYTHONPATH=$SEGVC_REPO/src).

(1) failing-input search for BufferedByteReceiveStream (used to concretise a refuted / undecided obligation): all byte
    strings over the alphabet {a, b} (delimiters over the same alphabet) up to length MAXLEN, all chunkings into
    chunks of 1..3 bytes, both kinds of wrapped stream (byte stream honouring max_bytes, object stream of bytes),
    optional feed_data prefix, all call sequences of length <= 2 over receive(n), receive_exactly(n),
    receive_until(d, m) with small n / m.  Oracle = the property read on the observable history: the bytes handed out
    plus the consumed delimiters are, in order, a prefix of everything fed and received; receive returns 1..n bytes;
    receive_exactly exactly n; receive_until returns the bytes before the FIRST occurrence of the delimiter and raises
    DelimiterNotFound only if the delimiter is absent from the first max_bytes bytes; a failing call consumes nothing.
(2) `--bounded-text`: BOUNDED STAND-IN (not a proof, never counted as discharged) for the text wrappers, whose truth
    lives in codecs' incremental decoders: for a fixed list of strings with 1-4 byte characters, encodings utf-8 /
    utf-16 / utf-32 / latin-1 (where encodable) and ALL ways of cutting the encoded bytes into 1, 2 or 3 chunks,
    TextReceiveStream must yield strings whose concatenation is the original, and TextSendStream -> TextReceiveStream
    must be the identity.  Bound: strings of <= 4 code points, <= 3 chunks.

Last stdout line: `reproduced=True|False ...`; a found input is printed as `failing_histories=<json>`.
"""
from __future__ import annotations

import itertools
import json
import os
import sys
import time

MAXLEN = int(os.environ.get("SEGVC_C16_MAXLEN", "5"))
BUDGET_S = float(os.environ.get("SEGVC_REPLAY_BUDGET_S", "25"))


class Fail(Exception):
    pass


def chunkings(data: bytes, sizes=(1, 2, 3)):
    if not data:
        yield []
        return
    for k in sizes:
        if k <= len(data):
            for rest in chunkings(data[k:], sizes):
                yield [data[:k]] + rest


async def run_case(kind, fed, chunks, calls):
    import anyio
    from anyio import DelimiterNotFound, EndOfStream, IncompleteRead
    from anyio.abc import ByteReceiveStream, ObjectReceiveStream
    from anyio.streams.buffered import BufferedByteReceiveStream

    pending = [bytes(c) for c in chunks]
    received_from_wrapped = bytearray()

    class ByteSrc(ByteReceiveStream):
        async def receive(self, max_bytes: int = 65536) -> bytes:
            if not pending:
                raise EndOfStream
            c = pending[0][:max_bytes]
            rest = pending[0][max_bytes:]
            if rest:
                pending[0] = rest
            else:
                pending.pop(0)
            received_from_wrapped.extend(c)
            return c

        async def aclose(self) -> None:
            pass

    class ObjSrc(ObjectReceiveStream):
        async def receive(self) -> bytes:
            if not pending:
                raise EndOfStream
            c = pending.pop(0)
            received_from_wrapped.extend(c)
            return c

        async def aclose(self) -> None:
            pass

    s = BufferedByteReceiveStream(ByteSrc() if kind == "byte" else ObjSrc())
    if fed:
        s.feed_data(fed)
    out = bytearray()  # bytes handed out + delimiters consumed

    def everything():
        return bytes(fed) + bytes(received_from_wrapped)

    for call in calls:
        before_out, before_buf = bytes(out), s.buffer
        op = call[0]
        try:
            if op == "receive":
                r = await s.receive(call[1])
                if not (1 <= len(r) <= call[1]):
                    raise Fail(f"receive({call[1]}) returned {len(r)} bytes: {r!r}")
                out += r
            elif op == "exactly":
                r = await s.receive_exactly(call[1])
                if len(r) != call[1]:
                    raise Fail(f"receive_exactly({call[1]}) returned {len(r)} bytes: {r!r}")
                out += r
            elif op == "until":
                d, m = call[1].encode(), call[2]
                r = await s.receive_until(d, m)
                stream_rest = everything()[len(before_out):] + b"".join(pending)
                first = stream_rest.find(d)
                if first < 0 or r != stream_rest[:first]:
                    raise Fail(f"receive_until({d!r}, {m}) returned {r!r}; the unconsumed stream was {stream_rest!r} (first occurrence at {first})")
                out += r + d
        except (EndOfStream, IncompleteRead):
            if bytes(out) != before_out or not s.buffer.startswith(before_buf):
                raise Fail(f"{call} failed but consumed something: buffer {before_buf!r} -> {s.buffer!r}")
        except DelimiterNotFound:
            d, m = call[1].encode(), call[2]
            if d in s.buffer[: max(m, 0)] or len(s.buffer) < m:
                raise Fail(f"receive_until({d!r}, {m}) raised DelimiterNotFound with buffer {s.buffer!r}")
            if bytes(out) != before_out or not s.buffer.startswith(before_buf):
                raise Fail(f"{call} failed but consumed something")
        if everything() != bytes(out) + s.buffer:
            raise Fail(f"after {call}: fed+received {everything()!r} != handed out {bytes(out)!r} ++ buffer {s.buffer!r}")


def cases():
    alphabet = "ab"
    ns = [1, 2, 3, 4]
    delims = ["a", "ab", "ba", "aa"]
    single = [("receive", n) for n in ns] + [("exactly", n) for n in (0, 1, 2, 3, 4)] + [("until", d, m) for d in delims for m in (1, 2, 3, 4, 6)]
    for ln in range(0, MAXLEN + 1):
        for tup in itertools.product(alphabet, repeat=ln):
            data = "".join(tup).encode()
            for nfed in (0, 1, 2):
                if nfed > len(data):
                    continue
                fed, rest = data[:nfed], data[nfed:]
                for ch in chunkings(rest):
                    for kind in ("byte", "obj"):
                        for c1 in single:
                            yield kind, fed, ch, [c1]
                            for c2 in single[:: 3]:
                                yield kind, fed, ch, [c1, c2]


def run_one(case):
    import asyncio

    kind, fed, ch, calls = case
    try:
        asyncio.run(run_case(kind, fed, ch, calls))
        return None
    except Fail as f:
        return str(f)
    except Exception as e:  # noqa: BLE001  an internal error escaping is a failure too
        return f"unexpected {type(e).__name__}: {e}"


def bounded_text():
    import asyncio

    from anyio import EndOfStream, create_memory_object_stream
    from anyio.streams.text import TextReceiveStream, TextSendStream

    strings = ["", "a", "å", "€", "\U0001f600", "aå", "€a", "\U0001f600å", "a€\U0001f600", "åååå"]
    encodings = ["utf-8", "utf-16", "utf-32", "latin-1", "utf-16-le"]
    n = 0

    async def check(text, enc, cuts):
        raw = text.encode(enc)
        parts = [raw[a:b] for a, b in zip((0,) + cuts, cuts + (len(raw),))]
        parts = [p for p in parts if p]
        send, recv = create_memory_object_stream(100)
        for p in parts:
            send.send_nowait(p)
        send.close()
        t = TextReceiveStream(recv, encoding=enc)
        got = []
        try:
            while True:
                got.append(await t.receive())
        except EndOfStream:
            pass
        if "".join(got) != text:
            raise Fail(f"TextReceiveStream({enc}) over chunks {parts!r} yielded {got!r}, expected {text!r}")
        if any(g == "" for g in got):
            raise Fail(f"TextReceiveStream({enc}) yielded an empty string for chunks {parts!r}")
        s2, r2 = create_memory_object_stream(100)
        ts, tr = TextSendStream(s2, encoding=enc), TextReceiveStream(r2, encoding=enc)
        if text:
            await ts.send(text)
            back = await tr.receive()
            if back != text:
                raise Fail(f"TextSendStream -> TextReceiveStream ({enc}) turned {text!r} into {back!r}")

    for text in strings:
        for enc in encodings:
            try:
                raw = text.encode(enc)
            except UnicodeEncodeError:
                continue
            L = len(raw)
            cutsets = [()] + [(i,) for i in range(1, L)] + [(i, j) for i in range(1, L) for j in range(i + 1, L)]
            for cuts in cutsets:
                n += 1
                try:
                    asyncio.run(check(text, enc, cuts))
                except Exception as f:  # noqa: BLE001  (a decoder error on valid input is a failure as well)
                    f = f if isinstance(f, Fail) else f"TextReceiveStream({enc}) over the split {cuts} of {text!r} raised {type(f).__name__}: {f}"
                    print(f"bounded-text failing input: {f}")
                    print("failing_histories=" + json.dumps(["text", text, enc, list(cuts)]))
                    print(f"reproduced=True cases_tried={n}")
                    return 1
    print(f"bounded-text: {n} (string, encoding, split) cases, all as expected (bound: <= 4 code points, <= 3 chunks, encodings {encodings})")
    print(f"reproduced=False cases_tried={n}")
    return 0


def main(argv):
    if "--bounded-text" in argv:
        return bounded_text()
    if "--history" in argv:
        h = json.loads(argv[argv.index("--history") + 1])
        if h and h[0] == "text":
            return bounded_text()
        kind, fed, ch, calls = h
        why = run_one((kind, bytes(fed, "latin-1"), [c.encode("latin-1") for c in ch], [tuple(c) for c in calls]))
        print(f"case {h}: {why or 'no property violated'}")
        print(f"reproduced={why is not None}")
        return 0
    t0 = time.time()
    tried = 0
    for case in cases():
        tried += 1
        why = run_one(case)
        if why:
            kind, fed, ch, calls = case
            print(f"failing input on the real code: wrapped={kind} fed={fed!r} chunks={ch!r} calls={calls}: {why}")
            print("failing_histories=" + json.dumps([kind, fed.decode("latin-1"), [c.decode("latin-1") for c in ch], calls]))
            print(f"reproduced=True cases_tried={tried}")
            return 0
        if time.time() - t0 > BUDGET_S:
            break
    print(f"reproduced=False cases_tried={tried} seconds={time.time() - t0:.1f}")
    return 0


if __name__ == "__main__":
    sys.exit(main(sys.argv[1:]))
